#!/usr/bin/env python3
"""Writes /verif/MANIFEST.json from tools/propcfg.py and the texts below."""
import json, os, sys
sys.path.insert(0, os.path.dirname(__file__))
from propcfg import PROPS

RUNG1 = ("Machine-checked Lean 4 theorems (kernel-checked by `lake build`, axioms audited on every run) over a hand-written "
         "executable model of the code, tied to /repo's current source on every run by a correspondence check (the real crate, "
         "rebuilt with the cfg(daachorse_verif) hooks, and the model are run on the same generated inputs and every difference is reported) "
         "and by a translator that regenerates the model's constants from the source. ")
TIE = ("Search side additionally tied by TRANSLATION: tools/rs2lean.py re-translates the current Rust source of the transition functions, the UTF-8 decoder, "
       "all iterator next() functions and all entry points into Lean on every run (Daac/Gen/SearchB.lean, SearchC.lean) and Daac/Props/Tie.lean proves the "
       "generated definitions equal to the model and, composed with Rung 2, that the translated search code on a model-built table returns the specification "
       "on every haystack; a change to those functions breaks a proof obligation at lake build whether or not a generated input exercises it. "
       "The construction side is translated as far as the free-slot bookkeeping (all of BuildHelper) and the layout primitives of both builders (Daac/Gen/Helper.lean, LayoutB.lean, LayoutC.lean; Props/TieBuild.lean), "
       "and the State/Output accessors with the U24nU8 bit packing, which those units read as the model's fields, are translated by tools/acc2lean.py and proved to be those fields (Daac/Gen/Access.lean; Props/TieAcc.lean). "
       "The pattern-insertion phase NfaBuilder::{new, add, is_registered, child_id} (where all validation of C10 and the leftmost-first shadowing of C04/C15 happen) is translated by tools/nfa2lean.py (Daac/Gen/Nfa.lean) and proved to REFINE the model's path-keyed trie insertion: same outcome on every pattern, the id-indexed state array keeps representing the model's tree (Proofs/TieN.lean, Props/TieNfa.lean). ")
TIE_SER = ("Serialisation code additionally tied by TRANSLATION: tools/ser2lean.py re-translates every Serializable / SerializableVec impl (incl. the body of define_serializable_primitive! and the table of its invocations), "
           "serialize and deserialize_unchecked of both automata into Lean on every run (Daac/Gen/Serial.lean); Daac/Proofs/TieS.lean proves the translated entry points equal to the model's serialize / deserialize on every automaton value and every byte string, "
           "and Daac/Props/TieSer.lean that the translated code round-trips every well-formed automaton (in particular every model-built one) with arbitrary trailing bytes and that the reserved capacity is exact; a change to that code breaks a proof obligation at lake build whether or not a generated input exercises it. ")
R2 = 'Rung 2 (proved end to end in the model of the builder, Proofs/Rung2.lean): for EVERY valid collection and every num_free_blocks, buildDA = ok da implies the result below, through kernel-checked theorems for insertion, fail links/outputs ((F),(G1),(G3) for the leftmost kinds), the ring-buffer helper, BASE uniqueness and CHECK sanitising of the byte-wise layout (incl. the pigeonhole for full blocks) and the char-wise layout; the model builder is tied to the code by K-build (byte-identical tables, evicted blocks included). Totality (the model builder never panics, returns Ok or a documented error kind) is proved too. What is not proved is anything about the Rust code itself: the model is tied to it by the correspondence suites only. '
TEXT = {
 'C01': RUNG1 + R2 + "Theorem: any tables satisfying the decidable invariants tableInv+sizeInv for a valid pattern list return, for EVERY haystack, exactly specOverlapping (= exactly the occurrences, no repeats, end-ascending then longest-first: proved of the spec). Byte-wise at byte level; char-wise at byte level on valid UTF-8 via the self-synchronisation proof (Props/C08). The invariants are evaluated by compiled Lean on the tables the implementation actually built, for every generated automaton (all nodes x all 256 labels / all mapped codes + unmapped), every num_free_blocks, both entry points. Additionally (Rung 1) the invariants are evaluated on the implementation's own tables, so for every automaton a run builds the all-haystacks conclusion holds without any model of the builder.",
 'C02': RUNG1 + R2 + "Theorem: tables satisfying tableInv+sizeInv answer find_iter on every haystack exactly like specFind, which is proved to be the unique sequence of the property (FindSpec: earliest end, then longest, resume at that end; non-overlapping, increasing, true occurrences). Invariants additionally evaluated on every built automaton (Rung 1, no builder model involved).",
 'C03': RUNG1 + R2 + "Theorem: tables satisfying leftmostInv ((G1) reported pattern and (G3) leftmost transition, every node x every label) answer leftmost_find_iter on every haystack exactly like specLL, proved to be the unique greedy tiling (LLSpec, no occurrence in a gap). Includes the string-combinatorics proof that the non-textbook leftmost automaton returns the leftmost-longest occurrence, and the simulation of the iterator incl. the char-wise byte bookkeeping. Invariant additionally evaluated on every built leftmost automaton (Rung 1). Char-wise leftmost-longest end to end proved; ",
 'C04': RUNG1 + R2 + "As C03 for the retained pattern list, plus the specification theorems specLF = specLL o retained, shadowed patterns are never reported and never change results; the insertion phase is proved to register exactly the retained patterns (Props/C10, C15). All permutations of small sets are generated.",
 'C05': RUNG1 + R2 + "Theorem: tables satisfying tableInv+sizeInv answer find_overlapping_no_suffix_iter on every haystack exactly like specNoSuffix = exactly one match per end position with an occurrence, the longest, in increasing order (proved), = head-per-end of the overlapping result.",
 'C06': RUNG1 + "Corollary of C01-C05: every element of every specification result is IsOcc (bounds, matched bytes = a registered key, value = the one registered with it), for all value types (the model is parametric in V). Values after a round trip: C09 equality. Tie: K-search with all value types and adversarial values, K-serial, K-build incl. index conversion failures.",
 'C07': RUNG1 + "Theorems: on tables satisfying boundsInv (evaluated over ALL elements of every dumped table) no search method can fault with an out-of-range states/outputs access on any haystack; XOR child indices stay in range; the hand-written UTF-8 decoder on valid UTF-8 never reads past the end nor builds an invalid char and inverts the reference encoder; the leftmost iterator's get_unchecked(pos..) is always at a boundary. Residue: real memory behaviour of compiled code - covered by running every case with std's unsafe-precondition checks armed (abort = failing input) and by the scan of unchecked sites.",
 'C08': RUNG1 + "Theorems: char-wise and byte-wise tables satisfying the invariants for the same UTF-8 patterns both equal the same byte-level specification on every valid UTF-8 haystack (overlapping, find, no-suffix, leftmost-longest), via a proof that the model decoder inverts UTF-8 encoding and the self-synchronisation lemma (occurrences start/end on character boundaries; nothing starts or ends inside a character); unmapped characters go to the root without table access. Pairs of B/C automata from identical inputs are compared directly on every run.",
 'C09': RUNG1 + "Theorem (full strength in the model): for EVERY well-formed automaton value, both variants, all kinds, every lawful fixed-width value type and arbitrary trailing bytes, deserialize(serialize a ++ rest) = (a, rest); re-serialisation reproduces the bytes; the kind byte tables and the width table are generated from the source and the kind round trip is re-proved against them. Tie K-serial: byte-identical images and restored tables for all value types incl. Empty, 128-bit and a user-defined type.",
 'C10': RUNG1 + "Theorems for ALL collections: the insertion phase (where all validation happens, incl. the leftmost-first early-return path and the D2 repair) succeeds iff the collection is valid; whole-pipeline model: success => valid, invalid => invalidArgument/duplicatePattern naming a present defect, never a panic. build_total (never a panic, for every collection, kind, variant, num_free_blocks) and build_ok_iff within the size limits are proved on the vacant-list invariant of the ring-buffer helper. Tie: K-build compares the outcome (Ok / error kind / panic) and the tables with the implementation on every generated collection, invalid ones at every position.",
 'C11': RUNG1 + "Corollary of the Rung-1 theorems: any two tables satisfying the invariants for the same patterns give identical results for every method on every haystack; in the model num_states does not depend on num_free_blocks. Every multi-block pattern set is built with num_free_blocks in {1,2,3,4,16,64,256} (blocks evicted and closed), invariants evaluated on each, results and num_states compared across the group.",
 'C12': RUNG1 + "Theorems for arbitrary tables (no invariant): for the three standard-kind iterators of both variants every returned match ends exactly at the number of bytes pulled so far, pulled counts are monotone, each item consumes a non-empty prefix of the remaining source once, and exhaustion pulls exactly |h| bytes. Tie: a counting source iterator records the pulled count after EVERY next() and is compared with the model; from_iter results compared with slice results.",
 'C13': RUNG1 + "Theorems: on tables satisfying tableInv+sizeInv a standard scan of n bytes takes at most 2n transitions (potential argument; char-wise 2 per character), never runs out of fuel; fail links lead to strictly shorter nodes and reach the root; output parents point strictly backwards (boundsInv). Termination of the leftmost kinds follows from Props/C03 (the iterator returns ok). Tie K-steps: the implementation's own loop counter (hook) equals the model's count on every scan; watchdog for hangs.",
 'C14': RUNG1 + "Theorems for ALL collections: the model build is a function (determinism) and, for standard and leftmost-longest kinds, building from any permutation yields the same automaton (trie insertion commutes, the code mapper is permutation-invariant, everything downstream is a function of the trie); a counter-example shows leftmost-first is rightly excluded. Ties: K-build (byte-identical tables), the harness's double builds and permuted builds. Residue: thread schedules are not modelled - purity is covered by the source scan (no interior mutability, &self only) and 4-thread runs compared with single-threaded results.",
 'C15': RUNG1 + "Theorem for ALL collections: num_states of the model build = 1 + number of distinct non-empty prefixes of the reportable (retained) patterns; one trie node per prefix, each reachable along its path. Evaluated on real tables: countInv (that many distinct indices reachable from the root), direct checks of num_elements/heap_bytes against the dumped tables. Tie K-build: num_states equal on every case.",
 'C16': RUNG1 + "Model of find_and_output / pattern-list assembly with theorems: a line is printed iff it contains an occurrence, uncoloured output is prefix+line, stripping the two escape strings gives back the line, highlighted bytes are exactly the bytes covered by an occurrence (longest-per-end matches cover every occurrence). Tie K-cli: stdout and exit status of the dev AND release binaries on generated invocations (all flag combinations, -p/-f, stdin/files, multi-byte text) equal the model rendering, and the property is checked directly on the actual output. Residue: clap parsing, I/O and termcolor are exercised, not modelled.",
}
NOTE = ("Trusted: Lean kernel (+ propext, Classical.choice, Quot.sound); Lean compiler/runtime for evaluating the model, oracles and invariants; "
        "the tie (constants translator, source scans, Rust harness + cfg hooks, line protocol, driver parser, shrinker); generator quality bounds what the "
        "correspondence sees (distribution in the evidence). Modelled, not verified: rustc/LLVM, std collections and sort, real memory, threads, clap/termcolor/I-O. "
        "See DESIGN.md sections 3-7.")
checks = []
for pid in sorted(PROPS):
    if pid not in TEXT: continue
    checks.append({
        'property_id': pid,
        'quick_cmd': f'./check {pid} --tier quick',
        'thorough_cmd': f'./check {pid} --tier thorough',
        'evidence_file': f'/verif/evidence/{pid}.json',
        'replay_cmd_template': f'./check {pid} --replay {{path}}',
        'engine': 'lean-proof',
        'level_claimed': {'category': 'proof', 'text': TEXT[pid] + (' ' + (TIE_SER if pid == 'C09' else TIE) if PROPS[pid].get('tie_defs') else ''), 'design_ref': 'DESIGN.md §6 ' + pid},
        'level_note': NOTE,
        'technique': 'Lean 4 theorems over a hand-written executable model + differential correspondence check against the real crate + invariants evaluated on the real tables'
                     + ((' + Rust-to-Lean translation of the serialisation code with kernel-checked equalities generated = model' if pid == 'C09' else ' + Rust-to-Lean translation of the search-side functions with kernel-checked equalities generated = model') if PROPS[pid].get('tie_defs') else ''),
    })
m = {
 'version': 1,
 'setup_cmd': './tools/setup.sh',
 'hooks': {'guard': 'daachorse_verif',
           'enable': 'RUSTFLAGS="--cfg daachorse_verif -C debug-assertions=on" (harness build of /repo as a path dependency)',
           'baseline_off_cmd': 'cd /repo && cargo test --workspace --no-fail-fast --offline',
           'source_commits': ['c734510'], 'add_only': True},
 'engines': [
   {'name': 'lean-proof', 'path': 'lean/', 'serves_properties': sorted(TEXT), 'kind_free_text': 'Lean 4 model, specification, invariants, proofs, property theorems; compiled driver (Main.lean)'},
   {'name': 'harness', 'path': 'harness/', 'serves_properties': sorted(TEXT), 'kind_free_text': 'Rust differential harness calling the real crate in-process with hooks; line protocol (PROTOCOL.md)'},
   {'name': 'tools', 'path': 'tools/', 'serves_properties': sorted(TEXT), 'kind_free_text': 'constants translator, Rust-to-Lean translators (rs2lean.py: search side, build helper, layout primitives; ser2lean.py: serialisation), source scans, per-property configuration, CLI suite, setup'},
 ],
 'checks': checks,
 'not_applicable': [],
 'notes': 'All 16 properties are claimed at level proof with stated residues; see DESIGN.md.',
}
json.dump(m, open(os.path.join(os.path.dirname(__file__), '..', 'MANIFEST.json'), 'w'), indent=1)
print('wrote MANIFEST.json with', len(checks), 'checks')

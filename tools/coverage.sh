#!/bin/bash
# coverage.sh — how much of /repo/src do the harness generators execute? (diagnostic, not a check)
# Builds the harness with `-C instrument-coverage` on the nightly toolchain into a scratch
# directory under /tmp, runs every quick-tier profile once, prints llvm-cov's per-file report and
# the uncovered lines, removes the scratch directory. Used to find generator blind spots.
set -e
B=$(ls -d /root/.rustup/toolchains/nightly-x86_64-unknown-linux-gnu/lib/rustlib/*/bin | head -1)
T=/tmp/verif_cov_$$
cd /verif/harness
RUSTFLAGS="--cfg daachorse_verif -C debug-assertions=on -C instrument-coverage" CARGO_NET_OFFLINE=true \
  cargo +nightly build --release --offline --target-dir $T/target >/dev/null 2>&1
mkdir -p $T/prof
for p in std lm values utf8 serial invalid nfb perm mixed vacant wide synth; do
  n=300; [ $p = nfb ] && n=8; [ $p = wide ] && n=20
  LLVM_PROFILE_FILE=$T/prof/$p.profraw $T/target/release/harness gen --profile $p --seed 1 --cases $n --tcap 3000 >/dev/null 2>&1 || true
done
$B/llvm-profdata merge -sparse $T/prof/*.profraw -o $T/cov.profdata
$B/llvm-cov report $T/target/release/harness -instr-profile=$T/cov.profdata --ignore-filename-regex='(registry|rustc|harness/src)'
echo; echo "uncovered lines (Display/Debug impls and size-limit errors excluded):"
$B/llvm-cov show $T/target/release/harness -instr-profile=$T/cov.profdata --ignore-filename-regex='(registry|rustc|harness/src|errors.rs|verif.rs)' --show-line-counts 2>/dev/null \
  | awk '/^\/repo/{f=$0} /^ +[0-9]+\| +0\|/{print f " " $0}' | grep -v "automaton_scale\|fmt\|debug_struct\|\.field\|\.finish\|fn default\|Self::new()" | cut -c1-160
rm -rf $T

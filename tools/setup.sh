#!/bin/sh
# Builds the framework from files on disk only (offline): constants translator, Lean library
# (model, proofs, property theorems), the compiled driver, the Rust harness against /repo.
set -e
cd "$(dirname "$0")/.."
python3 tools/gen_consts.py /repo
python3 tools/rs2lean.py /repo
python3 tools/ser2lean.py /repo
python3 tools/acc2lean.py /repo
python3 tools/nfa2lean.py /repo
python3 tools/dbl2lean.py /repo
python3 tools/map2lean.py /repo
python3 tools/top2lean.py /repo
(cd lean && lake build Daac driver)
(cd harness && CARGO_NET_OFFLINE=true RUSTFLAGS="--cfg daachorse_verif -C debug-assertions=on" \
  cargo build --release --offline --target-dir ../.cache/target)
echo setup-ok

"""Property C16 (daacfind): suite K-cli. Builds the dev and the release binary of daacfind from
/repo's current working tree, runs generated invocations (pattern lists via -p / -f, stdin or
files, -n, -h, --color=never|always), and pipes (invocation, stdout, exit status) records through
the Lean driver, which compares with the model `Daac.Cli.run` and checks the property directly
against the specification."""
import os, sys, json, subprocess, random, time, hashlib, shutil, tempfile

def build_bins(G, problems, log):
    env = dict(os.environ, CARGO_NET_OFFLINE='true')
    bins = {}
    tdir = os.path.join(G['CACHE'], 'cli-target')
    with G['Lock']('cargo-cli'):
        for prof, flag in (('dev', []), ('release', ['--release'])):
            r = G['sh'](['cargo', 'build', '--offline', '-p', 'daacfind', '--target-dir', tdir] + flag, cwd=G['REPO'], env=env)
            log.append((f'cargo build daacfind ({prof})', r.returncode))
            if r.returncode != 0:
                problems.append(('harness', f'daacfind ({prof}) does not build: ' + ' | '.join([l for l in r.stdout.split('\n') if l.startswith('error')][:3])))
            else:
                bins[prof] = os.path.join(tdir, 'debug' if prof == 'dev' else 'release', 'daacfind')
    return bins

POOL = ['a', 'b', 'c', 'ab', ' ', 'x', 'é', 'あ', '😀', '߿', 'Z', '0', '-']

def gen_case(rng, k):
    alpha = rng.sample(POOL, rng.randint(2, 5))
    def word(lo, hi):
        return ''.join(rng.choice(alpha) for _ in range(rng.randint(lo, hi)))
    npat = rng.randint(1, 5)
    pats = []
    while len(pats) < npat:
        w = word(1, 4)
        if w not in pats and '\n' not in w: pats.append(w)
    # nested dictionaries: a long pattern that contains separated occurrences of other patterns
    # (they are reported after the short ones end, so an incremental renderer has already moved on)
    if rng.random() < 0.35:
        for _ in range(rng.randint(1, 2)):
            parts = [word(0, 2)]
            for _ in range(rng.randint(2, 3)):
                parts += [rng.choice(pats), word(0, 2)]
            w = ''.join(parts)
            if w and w not in pats: pats.append(w)
    ninputs = rng.randint(1, 2)
    inputs = []
    for j in range(ninputs):
        lines = []
        for _ in range(rng.randint(0, 6)):
            r = rng.random()
            if r < 0.15: lines.append('')
            elif r < 0.55: lines.append(word(0, 12))
            else:
                parts = [rng.choice(pats) if rng.random() < 0.6 else word(0, 3) for _ in range(rng.randint(1, 4))]
                lines.append(''.join(parts))
        content = '\n'.join(lines)
        if lines and rng.random() < 0.8: content += '\n'
        inputs.append((f'in{j}.txt', content))
    # how colouring is requested: explicit never/always, option omitted (default never), or auto
    # with TERM=dumb (termcolor: no colours) / TERM=xterm (termcolor: colours; it does not test for a tty)
    cmode = rng.choice(['never', 'always', 'always', 'always', 'omitted', 'auto-dumb', 'auto-xterm'])
    return dict(id=f'c{k}', pats=pats, inputs=inputs, color=cmode in ('always', 'auto-xterm'), cmode=cmode,
                n=rng.random() < 0.5, h=rng.random() < 0.4, files=rng.random() < 0.6,
                pfile=rng.random() < 0.4, both=rng.random() < 0.25, long_flags=rng.random() < 0.3,
                blank_pats=rng.random() < 0.3)

def hx(b):
    return b.hex() if b else '-'

def run_case(binpath, prof, case, workdir):
    d = tempfile.mkdtemp(dir=workdir)
    args = [binpath]
    pats = list(case['pats'])
    # optionally sprinkle empty lines into the pattern source: they must be ignored
    src = []
    for p in pats:
        if case['blank_pats'] and len(src) % 2 == 0: src.append('')
        src.append(p)
    text = '\n'.join(src)
    if case.get('both') and len(src) >= 2:
        # both sources at once: the file's patterns and the -p patterns are all used
        half = len(src) // 2
        pf = os.path.join(d, 'pats.txt')
        open(pf, 'w', encoding='utf-8').write('\n'.join(src[:half]) + '\n')
        args += ['-f', pf, '-p=' + '\n'.join(src[half:])]
    elif case['pfile']:
        pf = os.path.join(d, 'pats.txt')
        open(pf, 'w', encoding='utf-8').write(text + '\n')
        args += ['-f', pf]
    else:
        # attached form: a pattern text starting with '-' must not be taken for a flag by clap
        args += ['-p=' + text]
    lf = case.get('long_flags')
    if case['n']: args.append('--line-number' if lf else '-n')
    if case['h']: args.append('--no-filename' if lf else '-h')
    cmode = case.get('cmode') or ('always' if case['color'] else 'never')
    env = dict(os.environ)
    env.pop('NO_COLOR', None)
    if cmode == 'omitted': pass
    elif cmode.startswith('auto'):
        args.append('--color=auto'); env['TERM'] = 'dumb' if cmode == 'auto-dumb' else 'xterm'
    else: args.append('--color=' + cmode)
    stdin_data = None
    names = []
    if case['files']:
        for name, content in case['inputs']:
            p = os.path.join(d, name)
            open(p, 'wb').write(content.encode('utf-8'))
            args.append(p); names.append(p)
    else:
        stdin_data = case['inputs'][0][1].encode('utf-8')
    try:
        r = subprocess.run(args, input=stdin_data if stdin_data is not None else b'', stdout=subprocess.PIPE, stderr=subprocess.PIPE, timeout=20, env=env)
        code, out = r.returncode, r.stdout
    except subprocess.TimeoutExpired:
        code, out = 124, b''
    rec = [f"XCLI {case['id']}{prof[0]} {prof} {1 if case['color'] else 0} {1 if case['n'] else 0} {1 if case['h'] else 0} {'files' if case['files'] else 'stdin'}"]
    for p in pats: rec.append('XP ' + hx(p.encode('utf-8')))
    if case['files']:
        for (name, content), path in zip(case['inputs'], names):
            rec.append(f"XF {hx(path.encode())} {hx(content.encode('utf-8'))}")
    else:
        rec.append(f"XF {hx(b'-')} {hx(case['inputs'][0][1].encode('utf-8'))}")
    rec.append(f'XOUT {code} {hx(out)}')
    rec.append('XEND')
    shutil.rmtree(d, ignore_errors=True)
    return rec

def run(pid, cfg, tier, seed, replay, problems, obligations, rundir, t0, G):
    log = []
    bins = build_bins(G, problems, log)
    ncases = 150 if tier == 'quick' else 2500
    ch = subprocess.run([sys.executable, os.path.join(G['VERIF'], 'tools', 'srcscan.py'), 'changed', G['REPO']], stdout=subprocess.PIPE, text=True).stdout
    changed_files = ch.split()[1:] if ch.startswith('CHANGED') else []
    if changed_files and tier == 'quick': ncases = 450     # changed sources: larger budget
    rng = random.Random(seed)
    cases = [gen_case(rng, k) for k in range(ncases)]
    if replay:
        body = json.load(open(replay))
        if body.get('case'): cases = [body['case']]
    # fixed corpus: the D1 witness (any invocation of the dev binary) is covered by every case
    records = []
    meta = {}
    for c in cases:
        for prof, path in bins.items():
            rec = run_case(path, prof, c, rundir)
            meta[rec[0].split()[1]] = (c, prof)
            records += rec
    recfile = os.path.join(rundir, 'cli.rec'); verfile = os.path.join(rundir, 'cli.ver')
    open(recfile, 'w').write('\n'.join(records) + '\n')
    lines = []
    if os.path.exists(G['DRIVER']):
        with open(recfile, 'rb') as fin:
            r = subprocess.run([G['DRIVER']], stdin=fin, stdout=subprocess.PIPE, stderr=subprocess.DEVNULL)
        lines = r.stdout.decode(errors='replace').split('\n')
    else:
        problems.append(('model', 'driver missing'))
    props = [l for l in lines if l.startswith('PROP id=C16')]
    corrs = [l for l in lines if l.startswith('CORR suite=K-cli')]
    infos = {}
    for l in lines:
        if l.startswith('INFO '):
            kv = dict(x.split('=', 1) for x in l.split()[2:])
            infos[kv['h']] = max(infos.get(kv['h'], 0), int(kv['nt']))
    violations = []
    def write(kind, case, verdicts, note, no_input=False):
        os.makedirs(os.path.join(G['VERIF'], 'replays'), exist_ok=True)
        body = {'property': pid, 'kind': kind, 'case': case, 'verdicts': verdicts, 'note': note,
                'how_to_replay': f'./check {pid} --replay <this file>'}
        h = hashlib.sha1(json.dumps(body, sort_keys=True).encode()).hexdigest()[:12]
        path = os.path.join(G['VERIF'], 'replays', f'{pid}-{h}.json')
        json.dump(body, open(path, 'w'), indent=1, ensure_ascii=False)
        violations.append((path, ' no-failing-input-found' if no_input else ''))
    for l in props[:2]:
        cid = dict(t.split('=', 1) for t in l.split()[1:] if '=' in t).get('case')
        c, prof = meta.get(cid, (None, None))
        write('failing-input', c, [l[:500]], f'daacfind ({prof} build) output violates the property on this invocation')
    if not props and (corrs or problems):
        if corrs:
            cid = dict(t.split('=', 1) for t in corrs[0].split()[1:] if '=' in t).get('case')
            c, prof = meta.get(cid, (None, None))
            write('broken-tie', c, [x[:400] for x in corrs[:3]], 'suite K-cli: the binary output differs from the model rendering although the property-level checks pass on all generated invocations', True)
        else:
            write('broken-obligation', None, [f'{k}: {m}' for k, m in problems[:3]], '; '.join(m for _, m in problems)[:400], True)
    thm = [o['theorem'] for o in obligations]
    ties = ['K-cli', 'K-consts']
    n_obl = len(thm) + len(ties)
    broken = (1 if corrs else 0) + len(problems)
    ev = {
        'property_id': pid, 'tier': tier, 'seed': seed, 'level': 'proof',
        'coverage': {
            'obligations': n_obl, 'discharged': max(0, n_obl - broken),
            'checker_cmd': 'cd /verif/lean && lake build Daac.Props.C16 driver  # then ./check C16 runs suite K-cli on both binaries',
            'trusted_base': G['TRUSTED_BASE'] + ['clap argument parsing, file and stdin I/O, termcolor (its ANSI output is represented by two byte strings checked by K-cli) are exercised, not modelled'],
            'theorems': obligations, 'ties': ties,
            'evaluations': len(cases) * len(bins), 'distinct_nontrivial': sum(1 for v in infos.values() if v),
            'distinct_cases': len(infos),
            'rule': 'random invocations: 1-5 patterns over a small pool incl. multi-byte characters via -p or -f (with blank pattern lines sprinkled in), stdin or 1-2 files, -n/--line-number, -h/--no-filename, -f and -p together, --color=never|always|auto (TERM=dumb / TERM=xterm) or omitted, each run on the dev and the release binary; distinct = distinct (patterns, inputs, flags); non-trivial = at least two patterns and at least one printed line',
            'samples': [{k: c.get(k) for k in ('pats', 'inputs', 'cmode', 'n', 'h', 'files', 'both', 'long_flags')} for c in cases[:3]],
            'colour_modes': {m: sum(1 for c in cases if c.get('cmode') == m) for m in ('never', 'always', 'omitted', 'auto-dumb', 'auto-xterm')},
            'binaries': sorted(bins.keys()), 'build_log': log, 'source_files_changed': changed_files,
        },
        'assumptions': ['inputs are LF-terminated UTF-8 without ESC bytes', 'line numbers are 0-based as the code prints them (the property does not fix the base)'],
        'wall_s': round(time.time() - t0, 2), 'violations': len(violations),
    }
    os.makedirs(os.path.join(G['VERIF'], 'evidence'), exist_ok=True)
    json.dump(ev, open(os.path.join(G['VERIF'], 'evidence', pid + '.json'), 'w'), indent=1, ensure_ascii=False)
    shutil.rmtree(rundir, ignore_errors=True)
    if violations:
        for path, suf in violations[:3]: print(f'VIOLATION property={pid} replay={path}{suf}')
        return 1
    print(f'OK property={pid} tier={tier} cases={len(cases) * len(bins)} theorems={len(thm)} wall={ev["wall_s"]}s')
    return 0

#!/usr/bin/env python3
"""Source scans (DESIGN §4.5): ties that cannot be observed by running code.

  unsafe   : the multiset of unchecked operations (get_unchecked, unwrap_unchecked,
             from_u32_unchecked, `unsafe` blocks/fns) per (file, enclosing fn) in the non-test,
             non-hook source must equal tools/unsafe_sites.json — the sites the Lean model covers
             with checked accesses. Used by C07.
  purity   : the automaton structs and the search path contain no interior mutability and every
             search entry point takes `&self`. Used by C14.

  changed  : which source files differ (comments and blank lines ignored) from the tree the
             framework was developed against (tools/source_hashes.json)? Never a failure: ./check
             uses the answer to raise the quick-tier case budget on changed code. `record-hashes`
             rewrites the file from the current tree.

Usage: srcscan.py <unsafe|purity|record-unsafe|changed|record-hashes> [repo_root]
Prints 'OK ...' and exits 0, or prints 'DIFF ...' lines and exits 2.
"""
import re, sys, os, json

mode = sys.argv[1]
repo = sys.argv[2] if len(sys.argv) > 2 else '/repo'
here = os.path.dirname(os.path.abspath(__file__))
FILES = ['src/bytewise.rs', 'src/bytewise/iter.rs', 'src/charwise.rs', 'src/charwise/iter.rs',
         'src/charwise/mapper.rs', 'src/utils.rs', 'src/lib.rs', 'src/serializer.rs',
         'src/intpack.rs', 'src/nfa_builder.rs', 'src/build_helper.rs',
         'src/bytewise/builder.rs', 'src/charwise/builder.rs', 'src/errors.rs']

def strip(text):
    """drop the test module, comments and cfg(daachorse_verif)-guarded single statements"""
    i = text.find('#[cfg(test)]')
    if i >= 0: text = text[:i]
    out = []
    skip_next = False
    for line in text.split('\n'):
        s = line.strip()
        if s.startswith('//'): continue
        if skip_next:
            skip_next = False
            continue
        if s.startswith('#[cfg(daachorse_verif)]'):
            skip_next = True
            continue
        line = re.sub(r'//.*$', '', line)
        out.append(line)
    return '\n'.join(out)

def sites(text):
    res = []
    fn = '<top>'
    for line in text.split('\n'):
        m = re.search(r'\bfn\s+(\w+)', line)
        if m: fn = m.group(1)
        for tok in re.findall(r'\b(get_unchecked|unwrap_unchecked|from_u32_unchecked|unsafe)\b', line):
            res.append((fn, tok))
    return res

def scan_unsafe():
    allsites = {}
    for f in FILES:
        p = os.path.join(repo, f)
        if not os.path.exists(p):
            allsites[f] = ['<missing>']
            continue
        ss = sites(strip(open(p, encoding='utf-8').read()))
        if ss:
            allsites[f] = sorted(f'{fn}:{tok}' for fn, tok in ss)
    # any new source file with unsafe code
    for root, _, files in os.walk(os.path.join(repo, 'src')):
        for fl in files:
            rel = os.path.relpath(os.path.join(root, fl), repo)
            if rel in FILES or rel.endswith('verif.rs') or not rel.endswith('.rs'): continue
            ss = sites(strip(open(os.path.join(root, fl), encoding='utf-8').read()))
            if ss: allsites[rel] = sorted(f'{fn}:{tok}' for fn, tok in ss)
    return allsites

if mode == 'record-unsafe':
    json.dump(scan_unsafe(), open(os.path.join(here, 'unsafe_sites.json'), 'w'), indent=1, sort_keys=True)
    print('recorded'); sys.exit(0)

if mode == 'unsafe':
    want = json.load(open(os.path.join(here, 'unsafe_sites.json')))
    got = scan_unsafe()
    bad = False
    for f in sorted(set(want) | set(got)):
        w, g = want.get(f, []), got.get(f, [])
        if w != g:
            bad = True
            extra = list(g); missing = []
            for x in w:
                if x in extra: extra.remove(x)
                else: missing.append(x)
            print(f'DIFF unsafe-sites {f}: new={extra} gone={missing}')
    if bad: sys.exit(2)
    print('OK unsafe-sites', sum(len(v) for v in got.values())); sys.exit(0)

if mode == 'purity':
    bad = False
    for f in ['src/bytewise.rs', 'src/bytewise/iter.rs', 'src/charwise.rs', 'src/charwise/iter.rs',
              'src/charwise/mapper.rs', 'src/lib.rs', 'src/intpack.rs']:
        t = strip(open(os.path.join(repo, f), encoding='utf-8').read())
        for m in re.finditer(r'\b(Cell|RefCell|UnsafeCell|OnceCell|Atomic\w+|Mutex|RwLock|static\s+mut|thread_local)\b', t):
            bad = True
            print(f'DIFF purity {f}: interior mutability / global state: {m.group(0)}')
    # every search entry point and transition function takes &self
    for f in ['src/bytewise.rs', 'src/charwise.rs']:
        t = strip(open(os.path.join(repo, f), encoding='utf-8').read())
        for m in re.finditer(r'fn\s+(find_\w+|leftmost_find_iter|child_index_unchecked|next_state_id\w*)\s*(<[^>]*>)?\s*\(\s*([^,)]*)', t):
            recv = m.group(3).strip()
            if recv != '&self':
                bad = True
                print(f'DIFF purity {f}: {m.group(1)} takes `{recv}` instead of `&self`')
    if bad: sys.exit(2)
    print('OK purity'); sys.exit(0)
if mode in ('changed', 'record-hashes'):
    import hashlib
    files = FILES + ['daacfind/src/main.rs']
    cur = {}
    for f in files:
        try:
            t = strip(open(os.path.join(repo, f), encoding='utf-8').read())
            t = '\n'.join(l.strip() for l in t.split('\n') if l.strip())
            cur[f] = hashlib.sha256(t.encode()).hexdigest()[:16]
        except OSError:
            cur[f] = 'missing'
    hf = os.path.join(here, 'source_hashes.json')
    if mode == 'record-hashes':
        json.dump(cur, open(hf, 'w'), indent=1, sort_keys=True); print('recorded', len(cur)); sys.exit(0)
    want = json.load(open(hf)) if os.path.exists(hf) else {}
    ch = sorted(f for f in cur if want.get(f) != cur[f])
    print('CHANGED ' + ' '.join(ch) if ch else 'UNCHANGED'); sys.exit(0)
print('bad mode'); sys.exit(2)

#!/usr/bin/env python3
"""dbl2lean.py — translator from the Rust text of the two layout passes
(`DoubleArrayAhoCorasickBuilder::build_double_array`, src/bytewise/builder.rs, and
`CharwiseDoubleArrayAhoCorasickBuilder::build_double_array`, src/charwise/builder.rs) to Lean 4
(`lean/Daac/Gen/BuildB.lean`, namespace `Daac.Gen.DB`; `lean/Daac/Gen/BuildC.lean`, namespace
`Daac.Gen.DC`).  `Daac/Proofs/TieD.lean` / `Daac/Proofs/TieDC.lean` relate the generated definitions to
the hand-written model `buildLayout .bytewise` / `buildLayout .charwise` (Daac/Model/Build.lean).

Every run re-reads the repository's current source text, parses the function body with the Rust parser
of tools/rs2lean.py (extended here by `while let` in statement position and both `vec!` forms) and
translates the AST by a syntax-directed translation.  The translation is STRICT: a statement /
expression / method / pattern form that is not explicitly listed below raises `TErr` (exit status 2);
nothing is skipped or guessed.  The functions it calls (`init_array`, `find_base`, `extend_array`,
`remove_invalid_checks` of the builder, every `BuildHelper` method) are NOT re-translated: their
generated Lean signatures are read from Gen/LayoutB.lean / Gen/Helper.lean and checked against the
Rust signatures (which parameters are `&mut`, whether the result is a `Result`).

Translation rules (trusted base, with lean/Daac/Gen/PreludeDbl.lean, PreludeNfa.lean, PreludeBuild.lean):

 * integers (`u8`, `u32`, `usize`, `NonZeroU32`) are `Nat`; `usize::from_u32(x)`, `u32::from(x)`,
   `x.get()` on a `NonZeroU32`, references (`&`, `&mut`) and `state.borrow()` are erased (the `nfa`
   argument is never written, so a borrow is a read);
 * `&mut self` / `&mut helper` and every `let mut` local are threaded: a call returns the new values
   next to its result, assignments rebind; the function returns `Except BuildErr (Unit × Builder)`;
 * `Result` + `?`, `assert!` and out-of-range `Vec` indexing are `Except BuildErr` (`Rs.index`,
   `Rs.indexSet`: out of range = `.panic`);
 * `debug_assert*!` statements are DROPPED (they are compiled out in release builds); their
   conditions are still parsed and type-checked by the translator, and the generated header lists them;
 * a `vec!`-initialised local is classified by the ways the body uses it (anything else is an error):
   only indexed = `Array Nat`; only `push` / `pop` = a stack, represented by the `List` whose head is
   the top (`push x` = `x :: l`, `pop` = head / tail, `vec![a, b]` = `[b, a]`); only `clear` / `push` /
   borrowed as a slice argument = `List Nat` in order (`push x` = `l ++ [x]`, `clear` = `[]`);
 * `while let Some(x) = stack.pop() { .. }` is a recursive function with fuel taking the variables the
   body modifies and returning them (`continue` = the recursive call, the `None` case = `.ok` of the
   variables); fuel from FUEL below, exhaustion = `BuildErr.panic "fuel"`;
 * `for PAT in ITER { .. }` is structural recursion over the list of items, again over the modified
   variables: `&s.edges` = the association list itself, `v.iter().enumerate()` = `Rs.enumerateA v`,
   a `Range<u32>` value `r` = `Rs.rangeList r.1 r.2`;
 * `s.edges.keys()` = the labels in order (`List.map Prod.fst`), `it.for_each(|&k| l.push(k))` =
   `List.foldl (fun l k => l ++ [k]) l it`, `edges.is_empty()` = `List.isEmpty`;
 * `if c { A }` / `if c { A } else { B }` whose branches do not leave the loop: both branches yield
   the variables they modify (`.ok (..)`), which are then rebound; `if c { ..; continue; }` is
   `if c then <continue> else <rest>`;
 * `self.states[i].set_X(v)`: element `i` is read (`Rs.index`), `Rs.St.set_X` applied (prelude; the
   Rust signature in src/bytewise.rs is checked for the argument kind and for `Result`), and written
   back; `self.states.shrink_to_fit()` is the identity.

Char-wise builder only (the setters are `Rs.StC.set_X`, checked against src/charwise.rs):

 * an empty `vec![]` local all of whose `push`es take a pair `(a, b)` of integers is a
   `List (Nat × Nat)` in order (`push p` = `l ++ [p]`, `clear` = `[]`, `&l` as a slice argument or as
   the iterator of `for &(a, b) in &l` = the list itself);
 * `l.sort_by(|(c1, _), (c2, _)| c1.cmp(c2))` (exactly this closure shape) = `Rs.sortByFst l`, the STABLE
   insertion sort by the first component (Gen/PreludeDbl.lean; `slice::sort_by` is stable);
 * `self.mapper.get(c)` = `Rs.CodeMapper.get self.mapper c` (Gen/PreludeDbl.lean).  The Rust signature
   in src/charwise/mapper.rs is checked, and the prelude's definition is compared TEXTUALLY with the
   definition `CodeMapper.get` that tools/rs2lean.py generates from src/charwise/mapper.rs into
   Gen/SearchC.lean (modulo the carrier: `self.table` of a `Mapper` for `self.mapTable` of a `DA V`);
 * `x.unwrap()` on an `Option<u32>` = `match x with | none => .error (.panic ..) | some v => ..`.

Usage: dbl2lean.py [repo_root] [out_dir]
"""
import os, re, sys, json, hashlib
sys.path.insert(0, os.path.dirname(os.path.abspath(__file__)))
from rs2lean import P, parse_items, TErr, lname
from nfa2lean import PN, ind
import nfa2lean

SRC = 'src/bytewise/builder.rs'
BUILDER = 'DoubleArrayAhoCorasickBuilder'
FUEL = {'Builder.build_double_array.loop0': 'nfa.states.size + 1'}

CONSTS = {'ROOT_STATE_IDX': ('Gen.rootStateIdx', 'rootStateIdx', 'src/bytewise.rs'),
          'DEAD_STATE_IDX': ('Gen.deadStateIdx', 'deadStateIdx', 'src/bytewise.rs'),
          'ROOT_STATE_ID': ('Gen.rootStateId', 'rootStateId', 'src/nfa_builder.rs'),
          'DEAD_STATE_ID': ('Gen.deadStateId', 'deadStateId', 'src/nfa_builder.rs')}

# Per-variant configuration; `configure` installs one of them in the module-level names used below.
STATE_SRC = 'src/bytewise.rs'      # where `State::set_X` is defined
ST = 'St'                          # prelude namespace of the setters (`Rs.St.set_X`)
LAYOUT = ('LayoutB.lean', 'LB')    # generated layout primitives of the builder and their namespace
NFA_ALIAS = ('BytewiseNfaBuilder', 'u8')
NS = 'DB'
OUT = 'BuildB.lean'
CHARWISE = False

VARIANTS = {
    'bytewise': dict(SRC='src/bytewise/builder.rs', BUILDER='DoubleArrayAhoCorasickBuilder', STATE_SRC='src/bytewise.rs',
                     ST='St', LAYOUT=('LayoutB.lean', 'LB'), NFA_ALIAS=('BytewiseNfaBuilder', 'u8'), NS='DB',
                     OUT='BuildB.lean', CHARWISE=False),
    'charwise': dict(SRC='src/charwise/builder.rs', BUILDER='CharwiseDoubleArrayAhoCorasickBuilder', STATE_SRC='src/charwise.rs',
                     ST='StC', LAYOUT=('LayoutC.lean', 'LC'), NFA_ALIAS=('CharwiseNfaBuilder', 'char'), NS='DC',
                     OUT='BuildC.lean', CHARWISE=True),
}

def configure(variant):
    g = globals()
    for k, v in VARIANTS[variant].items(): g[k] = v
    for n in ('ROOT_STATE_IDX', 'DEAD_STATE_IDX'):
        CONSTS[n] = CONSTS[n][:2] + (STATE_SRC,)

LEAN_TY = {'nat': 'Nat', 'bool': 'Bool', 'helper': 'BuildHelper', 'vecnat': 'Array Nat', 'stack': 'List Nat',
           'labels': 'List Nat', 'nfa': 'NfaBuilder V', 'nstate': 'NfaBuilderState V',
           'nstates': 'Array (NfaBuilderState V)', 'edges': 'Rs.EdgeMap', 'optnat': 'Option Nat',
           'self': 'Builder', 'unit': 'Unit', 'range': 'Nat × Nat', 'states': 'Array St',
           'pairs': 'List (Nat × Nat)'}


class PD(PN):
    """rs2lean's parser + `while let` as a statement without `;` + both `vec!` forms."""
    def statement(self):
        save = self.i
        try:
            return super().statement()
        except TErr:
            self.i = save
            if self.at('while'):
                e = self.expr()
                if e[0] == 'whilelet' and not self.at(';') and not self.at('}'):
                    return ('expr', e), False
            self.i = save
            return super().statement()

    def primary(self, nostruct):
        if self.peek() == ('id', 'vec') and self.peek(1)[1] == '!' and self.peek(2)[1] == '[':
            j, depth, semi = self.i + 3, 1, False
            while depth:
                if j >= len(self.t): raise TErr(f'{self.where}: unterminated vec!')
                tk = self.t[j]
                if tk[1] in ('[', '(', '{'): depth += 1
                elif tk[1] in (']', ')', '}'): depth -= 1
                elif tk[1] == ';' and depth == 1: semi = True
                j += 1
            if semi: return P.primary(self, nostruct)
        return super().primary(nostruct)


def walk(x, f):
    """pre-order walk over an AST (nested tuples / lists); `f(node)` returns True to stop descending."""
    if isinstance(x, tuple):
        if x and isinstance(x[0], str) and f(x): return
        for y in x[1:] if (x and isinstance(x[0], str)) else x: walk(y, f)
    elif isinstance(x, list):
        for y in x: walk(y, f)


def names_in(x):
    acc = []
    def f(n):
        if n[0] == 'path' and len(n[1]) == 1 and n[1][0] not in acc: acc.append(n[1][0])
        return n[0] == 'path'
    walk(x, f)
    return acc


def uses_of(var, body):
    """The syntactic ways `var` is used in `body`."""
    acc = set()
    pv = ('path', [var])
    def f(n):
        if n[0] == 'mcall' and n[1] == pv:
            acc.add('m:' + n[2]); walk(n[3], f); return True
        if n[0] == 'index' and n[1] == pv:
            acc.add('index'); walk(n[2], f); return True
        if n[0] == 'un' and n[1] == '&' and n[2] == pv:
            acc.add('ref'); return True
        if n == pv:
            acc.add('other'); return True
        return False
    walk(body, f)
    return acc


def exits(blk):
    """the block always leaves the loop iteration (its last statement is `continue`)."""
    return blk[0] == 'block' and blk[2] is None and blk[1] and blk[1][-1] == ('expr', ('continue',))


def has_exit(x):
    found = []
    def f(n):
        if n[0] in ('continue', 'break', 'return'): found.append(n[0])
        return n[0] in ('for', 'whilelet', 'closure')       # exits of an inner loop belong to it
    walk(x, f)
    return bool(found)


class Tr:
    def __init__(self, unit, f):
        self.u, self.f, self.where = unit, f, f['where']
        self.n, self.nloops, self.loops, self.dropped = 0, 0, [], []
        self.lean_name = 'Builder.' + lname(f['name'])

    def err(self, msg):
        raise TErr(f'{self.where}: {msg}')

    def fresh(self, base):
        self.n += 1
        return f'{base}{self.n}'

    def bind(self, term, pat, rest):
        return [f'match {term} with', '| .error e => .error e', f'| .ok {pat} =>'] + ind(rest)

    def ty(self, tag):
        if tag not in LEAN_TY: self.err(f'no Lean type for a value of kind {tag}')
        return LEAN_TY[tag]

    # ------------------------------------------------------------------ variables modified by a piece of code
    def modified(self, x, env):
        acc = []
        def add(v):
            if v is not None and v not in acc: acc.append(v)
        def root(e):
            while e[0] in ('index', 'field', 'un'):
                e = e[2] if e[0] == 'un' else e[1]
            return e[1][0] if e[0] == 'path' and len(e[1]) == 1 else None
        def f(n):
            if n[0] == 'assign': add(root(n[1]))
            if n[0] == 'mcall':
                recv, m, args = n[1], n[2], n[3]
                if recv[0] == 'path' and len(recv[1]) == 1:
                    v = recv[1][0]
                    if v == 'self':
                        sig = self.u.rust_sig(BUILDER, m, self)
                        if sig['selfkind'] == 'mut': add('self')
                        for a, (_, pty, _) in zip(args, sig['params']):
                            if pty.replace(' ', '').startswith('&mut'): add(root(a))
                    elif v in env:
                        tag = env[v][1]
                        if tag in ('stack', 'labels') and m in ('push', 'pop', 'clear'): add(v)
                        elif tag == 'pairs' and m in ('push', 'clear', 'sort_by'): add(v)
                        elif tag == 'helper':
                            if self.u.rust_sig('BuildHelper', m, self)['selfkind'] == 'mut': add(v)
                elif recv[0] == 'index' and recv[1] == ('field', ('path', ['self']), 'states') and m.startswith('set_'):
                    add('self')
                elif CHARWISE and recv == ('field', ('path', ['self']), 'mapper') and m == 'get':
                    self.u.check_mapper_get(self)          # `CodeMapper::get(&self, ..)`: a read
                elif recv[0] == 'field' and recv[1] == ('path', ['self']) and m != 'len' and m != 'shrink_to_fit':
                    add('self')
            return False
        walk(x, f)
        order = ['self'] + [v for v in env if v != 'self']
        return [v for v in order if v in acc] + [v for v in acc if v not in order]

    # ------------------------------------------------------------------ expressions (CPS; k(term, tag) -> lines)
    def px(self, e, env):
        box = []
        def k(t, tag):
            box.append((t, tag)); return ['@']
        lines = self.tx(e, env, k)
        if lines != ['@'] or len(box) != 1: self.err(f'expression with an effect or a failure in a pure position: {e}')
        return box[0]

    def tx_list(self, es, env, k, acc=None):
        acc = acc or []
        if not es: return k(acc)
        return self.tx(es[0], env, lambda t, tag: self.tx_list(es[1:], env, k, acc + [(t, tag)]))

    def tx(self, e, env, k, under_try=False):
        h = e[0]
        if h == 'lit': return k(str(e[1]), 'nat')
        if h == 'bool': return k('true' if e[1] else 'false', 'bool')
        if h == 'path':
            p = e[1]
            if len(p) == 1 and p[0] in env:
                return k(lname(p[0]), env[p[0]][1])
            if len(p) == 1 and p[0] in self.u.consts: return k(self.u.consts[p[0]], 'nat')
            self.err(f'unknown name `{"::".join(p)}`')
        if h == 'un':
            if e[1] == '&': return self.tx(e[2], env, k)
            if e[1] == '!':
                return self.tx(e[2], env, lambda t, tag: k(f'(!{t})', 'bool') if tag == 'bool' else self.err('`!` on a non-bool'))
            self.err(f'unsupported unary operator `{e[1]}`')
        if h == 'bin':
            op = e[1]
            def kab(ts):
                (ta, tga), (tb, tgb) = ts
                if op in ('||', '&&'):
                    if (tga, tgb) != ('bool', 'bool'): self.err(f'`{op}` on non-bools')
                    return k(f'({ta} {op} {tb})', 'bool')
                if (tga, tgb) != ('nat', 'nat'): self.err(f'`{op}` on {tga} / {tgb}')
                if op == '^': return k(f'({ta} ^^^ {tb})', 'nat')
                if op == '+': return k(f'({ta} + {tb})', 'nat')
                if op in ('==', '!='): return k(f'({ta} {op} {tb})', 'bool')
                rel = {'<': '<', '<=': '≤', '>': '>', '>=': '≥'}
                if op in rel: return k(f'(decide ({ta} {rel[op]} {tb}))', 'bool')
                self.err(f'unsupported binary operator `{op}`')
            if op in ('||', '&&'):
                a = self.px(e[2], env); b = self.px(e[3], env)       # both operands must be pure
                return kab([a, b])
            return self.tx_list([e[2], e[3]], env, kab)
        if h == 'call':
            if e[1][0] != 'path': self.err('call of a non-path')
            name = '::'.join(e[1][1])
            if name in ('usize::from_u32', 'u32::from') and len(e[2]) == 1:
                return self.tx(e[2][0], env, lambda t, tag: k(t, 'nat') if tag == 'nat' else self.err(f'{name} of a non-integer'))
            self.err(f'unsupported call `{name}(..)`')
        if h == 'field':
            def kf(t, tag):
                if tag == 'nfa':
                    ftag = self.u.nfa_field('NfaBuilder', e[2], self)
                elif tag == 'nstate':
                    ftag = self.u.nfa_field('NfaBuilderState', e[2], self)
                elif tag == 'self':
                    ftag = self.u.self_field(e[2], self)
                else: self.err(f'field `.{e[2]}` of a value of kind {tag}')
                return k(f'{t}.{lname(e[2])}', ftag)
            return self.tx(e[1], env, kf)
        if h == 'index':
            def ki(ts):
                (tb, tgb), (ti, tgi) = ts
                if tgi != 'nat': self.err('index that is not an integer')
                elt = {'nstates': 'nstate', 'vecnat': 'nat'}.get(tgb)
                if elt is None: self.err(f'indexing a value of kind {tgb} (only as the receiver of a setter for `self.states`)')
                x = self.fresh('x')
                return self.bind(f'Rs.index {tb} {ti}', x, k(x, elt))
            return self.tx_list([e[1], e[2]], env, ki)
        if h == 'tuple':
            if not CHARWISE or len(e[1]) != 2: self.err('unsupported tuple expression')
            def kt(ts):
                (ta, tga), (tb, tgb) = ts
                if (tga, tgb) != ('nat', 'nat'): self.err(f'pair of {tga} / {tgb}')
                return k(f'({ta}, {tb})', ('pair', 'nat', 'nat'))
            return self.tx_list(e[1], env, kt)
        if h == 'try':
            if e[1][0] != 'mcall': self.err('`?` on something that is not a method call')
            return self.tx_mcall(e[1], env, k, under_try=True)
        if h == 'mcall': return self.tx_mcall(e, env, k, under_try=False)
        self.err(f'unsupported expression form `{h}`')

    def tx_mcall(self, e, env, k, under_try):
        recv, m, args = e[1], e[2], e[3]
        def need_try(is_result):
            if is_result and not under_try: self.err(f'`Result` of `.{m}(..)` is neither propagated by `?` nor handled')
            if under_try and not is_result: self.err(f'`?` on `.{m}(..)`, which does not return a `Result`')
        # --- translated methods of the builder / the helper
        owner = None
        if recv == ('path', ['self']): owner, recv_name = BUILDER, 'self'
        elif recv[0] == 'path' and len(recv[1]) == 1 and recv[1][0] in env and env[recv[1][0]][1] == 'helper':
            owner, recv_name = 'BuildHelper', recv[1][0]
        if owner is not None:
            sig = self.u.rust_sig(owner, m, self)
            lean = self.u.lean_sig(owner, m, self)
            need_try(sig['result'])
            if len(args) != len(sig['params']): self.err(f'arity of `{m}`')
            muts = ([recv_name] if sig['selfkind'] == 'mut' else [])
            terms = []
            for a, (pn, pty, _) in zip(args, sig['params']):
                t, tag = self.px(a, env)
                want = self.u.param_tag(pty, self)
                if tag != want and not (want == 'labels' and tag == 'labels'): self.err(f'argument `{pn}` of `{m}`: {tag} for {want}')
                if pty.replace(' ', '').startswith('&mut'):
                    if not (a[0] == 'un' and a[2][0] == 'path' and len(a[2][1]) == 1): self.err('`&mut` argument must be a variable')
                    muts.append(a[2][1][0])
                terms.append(t)
            for v in muts:
                if v not in env or env[v][0] != 'mut': self.err(f'`{v}` is modified by `{m}` but is not mutable here')
            if sig['selfkind'] not in ('ref', 'mut'): self.err(f'`{m}` does not take `&self` / `&mut self`')
            call = ' '.join([lean['name'], lname(recv_name)] + terms)
            rtag = sig['rtag']
            ncomp = 1 + len(muts)
            if lean['fallible']:
                if len(lean['comps']) != ncomp: self.err(f'generated signature of `{m}` does not have {ncomp} result component(s): {lean["ret"]}')
                r = self.fresh('r') if rtag != 'unit' else '_'
                pat = ', '.join([r] + [lname(v) for v in muts])
                if ncomp > 1: pat = f'({pat})'
                return self.bind(call, pat, k('()' if rtag == 'unit' else r, rtag))
            if muts or sig['result']: self.err(f'`{m}` modifies or fails but its generated signature is pure')
            return k(f'({call})', rtag)
        # --- setters of `self.states[i]`
        if recv[0] == 'index' and recv[1] == ('field', ('path', ['self']), 'states'):
            if self.u.self_field('states', self) != 'states': self.err('`states` changed type')
            if 'self' not in env or env['self'][0] != 'mut': self.err('write through `&self`')
            ptag, is_result = self.u.setter(m, self)
            need_try(is_result)
            if len(args) != 1: self.err(f'arity of `{m}`')
            def ks(ts):
                (ti, tgi), (tv, tgv) = ts
                if tgi != 'nat' or tgv != ptag: self.err(f'`{m}`: index of kind {tgi}, argument of kind {tgv} (wanted {ptag})')
                el = self.fresh('el')
                if is_result:
                    el2 = self.fresh('el')
                    inner = self.bind(f'Rs.{ST}.{m} {el} {tv}', el2,
                                      [f'let self := {{ self with states := self.states.setIfInBounds {ti} {el2} }}'] + k('()', 'unit'))
                else:
                    inner = [f'let self := {{ self with states := self.states.setIfInBounds {ti} (Rs.{ST}.{m} {el} {tv}) }}'] + k('()', 'unit')
                return self.bind(f'Rs.index self.states {ti}', el, inner)
            return self.tx_list([recv[2], args[0]], env, ks)
        # --- `self.states.shrink_to_fit()` / `.len()`
        if recv == ('field', ('path', ['self']), 'states') and m == 'shrink_to_fit' and args == []:
            need_try(False)
            return k('()', 'unit')          # capacity is not observable: identity
        # --- local collections
        if recv[0] == 'path' and len(recv[1]) == 1 and recv[1][0] in env and env[recv[1][0]][1] in ('stack', 'labels'):
            v, (kind, tag) = recv[1][0], env[recv[1][0]]
            need_try(False)
            if kind != 'mut': self.err(f'`{v}` is not mutable')
            if m == 'push' and len(args) == 1:
                t, tga = self.px(args[0], env)
                if tga != 'nat': self.err('push of a non-integer')
                new = f'({t} :: {lname(v)})' if tag == 'stack' else f'({lname(v)} ++ [{t}])'
                return [f'let {lname(v)} := {new}'] + k('()', 'unit')
            if m == 'clear' and args == [] and tag == 'labels':
                return [f'let {lname(v)} : List Nat := []'] + k('()', 'unit')
            self.err(f'unsupported method `.{m}(..)` on the local collection `{v}`')
        if recv[0] == 'path' and len(recv[1]) == 1 and recv[1][0] in env and env[recv[1][0]][1] == 'pairs':
            v, (kind, tag) = recv[1][0], env[recv[1][0]]
            need_try(False)
            if kind != 'mut': self.err(f'`{v}` is not mutable')
            if m == 'push' and len(args) == 1:
                def kp(t, tga):
                    if tga != ('pair', 'nat', 'nat'): self.err('push of something that is not a pair of integers')
                    return [f'let {lname(v)} := ({lname(v)} ++ [{t}])'] + k('()', 'unit')
                return self.tx(args[0], env, kp)
            if m == 'clear' and args == []:
                return [f'let {lname(v)} : List (Nat × Nat) := []'] + k('()', 'unit')
            if m == 'sort_by' and len(args) == 1:
                c = args[0]
                ok = c[0] == 'closure' and len(c[1]) == 2 and all(
                    p[0] == 'ptuple' and len(p[1]) == 2 and p[1][0][0] == 'pid' and p[1][1] == ('pwild',) for p in c[1])
                if ok:
                    c1, c2 = c[1][0][1][0][1], c[1][1][1][0][1]
                    ok = c1 != c2 and c[2] == ('mcall', ('path', [c1]), 'cmp', [('path', [c2])])
                if not ok: self.err('`sort_by` closure must be exactly `|(c1, _), (c2, _)| c1.cmp(c2)`')
                return [f'let {lname(v)} := Rs.sortByFst {lname(v)}'] + k('()', 'unit')
            self.err(f'unsupported method `.{m}(..)` on the local collection `{v}`')
        # --- std methods on values
        def kr(t, tag):
            need_try(False)
            if m == 'len' and args == [] and tag in ('nstates', 'states'): return k(f'{t}.size', 'nat')
            if m == 'borrow' and args == [] and tag == 'nstate': return k(t, 'nstate')
            if m == 'get' and args == [] and tag == 'nat': return k(t, 'nat')
            if m == 'get' and len(args) == 1 and tag == 'mapper':
                self.u.check_mapper_get(self)
                return self.tx(args[0], env, lambda a, tga: k(f'(Rs.CodeMapper.get {t} {a})', 'optnat') if tga == 'nat'
                               else self.err('`mapper.get` of a non-integer'))
            if m == 'unwrap' and args == [] and tag == 'optnat' and CHARWISE:
                u = self.fresh('u')
                return [f'match {t} with', '| none => .error (.panic "unwrap on None")', f'| some {u} =>'] + ind(k(u, 'nat'))
            if m == 'is_empty' and args == [] and tag == 'edges': return k(f'(List.isEmpty {t})', 'bool')
            if m == 'keys' and args == [] and tag == 'edges': return k(f'(List.map Prod.fst {t})', ('iter', 'nat'))
            if m == 'iter' and args == [] and tag == 'nstates': return k(t, ('iterA', 'nstate'))
            if m == 'enumerate' and args == [] and isinstance(tag, tuple) and tag[0] == 'iterA':
                return k(f'(Rs.enumerateA {t})', ('iter', ('pair', 'nat', tag[1])))
            if m == 'for_each' and len(args) == 1 and tag == ('iter', 'nat'):
                c = args[0]
                if c[0] != 'closure' or len(c[1]) != 1: self.err('for_each needs a one-parameter closure')
                p = c[1][0]
                if p[0] == 'pref': p = p[1]
                if p[0] != 'pid': self.err('for_each closure parameter must be a variable')
                b = c[2]
                if not (b[0] == 'mcall' and b[2] == 'push' and len(b[3]) == 1 and b[1][0] == 'path' and len(b[1][1]) == 1
                        and b[1][1][0] in env and env[b[1][1][0]] == ('mut', 'labels')):
                    self.err('for_each closure body must be `<list>.push(..)`')
                acc = b[1][1][0]
                env2 = dict(env); env2[p[1]] = ('val', 'nat')
                a, tga = self.px(b[3][0], env2)
                if tga != 'nat': self.err('push of a non-integer')
                return [f'let {lname(acc)} := List.foldl (fun {lname(acc)} {lname(p[1])} => {lname(acc)} ++ [{a}]) {lname(acc)} {t}'] + k('()', 'unit')
            self.err(f'unsupported method `.{m}(..)` with {len(args)} argument(s) on a value of kind {tag}')
        return self.tx(recv, env, kr)

    # ------------------------------------------------------------------ statements
    def tuple_of(self, M):
        return lname(M[0]) if len(M) == 1 else '(' + ', '.join(lname(v) for v in M) + ')'

    def tuple_ty(self, M, env):
        return ' × '.join(self.ty(env[v][1]) for v in M)

    def tx_block(self, blk, env, ctx, k):
        if blk[0] != 'block': self.err('expected a block')
        return self.tx_stmts(blk[1], blk[2], env, ctx, k)

    def tx_stmts(self, stmts, tail, env, ctx, k):
        if not stmts:
            if tail is None: return k(env)
            if tail[0] in ('if',): return self.tx_if(tail, env, ctx, k)
            self.err(f'unsupported tail expression `{tail[0]}` of a block without a value')
        st, rest = stmts[0], stmts[1:]
        cont = lambda env2: self.tx_stmts(rest, tail, env2, ctx, k)
        h = st[0]
        if h == 'let':
            _, pat, mut, ty, init = st
            if pat[0] != 'pid' or init is None or ty is not None: self.err(f'unsupported `let` form: {pat}')
            x = pat[1]
            if x in ctx.get('frozen', ()): self.err(f'`let {x}` shadows a variable that is live across the enclosing `if`')
            if init[0] in ('vecrep', 'veclist'):
                if not mut: self.err('immutable vec!')
                uses = uses_of(x, (rest, tail))
                if init[0] == 'vecrep':
                    if not uses <= {'index'}: self.err(f'`{x}` (vec![v; n]) is used in an unsupported way: {sorted(uses)}')
                    (tv, tgv), (tn, tgn) = self.px(init[1], env), self.px(init[2], env)
                    if (tgv, tgn) != ('nat', 'nat'): self.err('vec![v; n] of non-integers')
                    env2 = dict(env); env2[x] = ('mut', 'vecnat')
                    return [f'let {lname(x)} : Array Nat := Array.replicate {tn} {tv}'] + cont(env2)
                elems = [self.px(a, env) for a in init[1]]
                if any(tg != 'nat' for _, tg in elems): self.err('vec![..] of non-integers')
                if uses <= {'m:push', 'm:pop'} and 'm:pop' in uses:
                    kind, items = 'stack', list(reversed(elems))
                elif CHARWISE and not elems and uses <= {'m:push', 'm:clear', 'm:sort_by', 'ref'} and self.pushes_pairs(x, (rest, tail)):
                    env2 = dict(env); env2[x] = ('mut', 'pairs')
                    return [f'let {lname(x)} : List (Nat × Nat) := []'] + cont(env2)
                elif uses <= {'m:push', 'm:clear', 'ref'}:
                    kind, items = 'labels', elems
                else: self.err(f'`{x}` (vec![..]) is used in an unsupported way: {sorted(uses)}')
                env2 = dict(env); env2[x] = ('mut', kind)
                return [f'let {lname(x)} : List Nat := [' + ', '.join(t for t, _ in items) + ']'] + cont(env2)
            def kl(t, tag):
                if not isinstance(tag, str) or tag in ('unit',): self.err(f'`let {x}` of a value of kind {tag}')
                env2 = dict(env); env2[x] = ('mut' if mut else 'val', tag)
                if t == lname(x): return cont(env2)
                return [f'let {lname(x)} := {t}'] + cont(env2)
            return self.tx(init, env, kl)
        if h == 'assign':
            _, lhs, op, rhs = st
            if op == '=' and lhs[0] == 'index' and lhs[1][0] == 'path' and len(lhs[1][1]) == 1 and lhs[1][1][0] in env \
                    and env[lhs[1][1][0]] == ('mut', 'vecnat'):
                v = lhs[1][1][0]
                (ti, tgi), (tv, tgv) = self.px(lhs[2], env), self.px(rhs, env)
                if (tgi, tgv) != ('nat', 'nat'): self.err('indexed assignment of non-integers')
                return self.bind(f'Rs.indexSet {lname(v)} {ti} {tv}', lname(v), cont(env))
            self.err(f'unsupported assignment: {lhs} {op}')
        if h == 'expr':
            x = st[1]
            if x[0] == 'continue':
                if rest or tail is not None: self.err('code after `continue`')
                if 'cont' not in ctx: self.err('`continue` outside a loop body (or inside a joined `if`)')
                return ctx['cont'](env)
            if x[0] == 'assert':
                t, tag = self.px(x[1], env)
                if tag != 'bool': self.err('assert of a non-bool')
                if x[2].startswith('debug_assert'):
                    self.dropped.append(x[2]); return cont(env)
                return [f'if {t} then'] + ind(cont(env)) + ['else'] + ind([f'.error (.panic {json.dumps(x[2])})'])
            if x[0] == 'if': return self.tx_if(x, env, ctx, cont)
            if x[0] == 'for': return self.tx_for(x, env, cont)
            if x[0] == 'whilelet': return self.tx_whilelet(x, env, cont)
            if x[0] in ('mcall', 'try'):
                def km(t, tag):
                    if tag != 'unit': self.err(f'value of kind {tag} is dropped')
                    return cont(env)
                return self.tx(x, env, km)
            self.err(f'unsupported expression statement `{x[0]}`')
        self.err(f'unsupported statement form `{h}`')

    def pushes_pairs(self, var, body):
        """every `var.push(..)` in `body` takes a two-component tuple (and there is at least one)."""
        acc = []
        def f(n):
            if n[0] == 'mcall' and n[1] == ('path', [var]) and n[2] == 'push':
                acc.append(len(n[3]) == 1 and n[3][0][0] == 'tuple' and len(n[3][0][1]) == 2)
            return False
        walk(body, f)
        return bool(acc) and all(acc)

    def tx_if(self, e, env, ctx, cont):
        _, cond, then, els = e
        def kc(t, tag):
            if tag != 'bool': self.err('`if` on a non-bool')
            if exits(then) and els is None:
                a = self.tx_block(then, env, ctx, lambda env2: self.err('unreachable'))
                return [f'if {t} then'] + ind(a) + ['else'] + ind(cont(env))
            if has_exit(then) or (els is not None and has_exit(els)):
                self.err('`continue` / `break` / `return` in an `if` that does not end with it')
            M = self.modified((then, els), env)
            if not M: self.err('`if` statement without an effect')
            for v in M:
                if v not in env or env[v][0] != 'mut': self.err(f'`{v}` is modified but not mutable here')
            ctx2 = {'frozen': set(M) | set(ctx.get('frozen', ()))}
            fin = lambda env2: [f'.ok {self.tuple_of(M)}']
            a = self.tx_block(then, env, ctx2, fin)
            b = self.tx_block(els, env, ctx2, fin) if els is not None else fin(env)
            return ([f'match ((if {t} then'] + ind(a, 4) + ['  else'] + ind(b, 4) +
                    [f'  ) : Except BuildErr ({self.tuple_ty(M, env)})) with', '| .error e => .error e',
                     f'| .ok {self.tuple_of(M)} =>'] + ind(cont(env)))
        return self.tx(cond, env, kc)

    def loop_frame(self, body_ast, env, bound):
        """(M, F): variables the loop modifies / reads (in scope before the loop)."""
        M = self.modified(body_ast, env)
        M = [v for v in M if v not in bound]
        for v in M:
            if v not in env or env[v][0] != 'mut': self.err(f'`{v}` is modified in a loop but not mutable here')
        if not M: self.err('loop without an effect')
        F = [v for v in env if v in names_in(body_ast) and v not in M and v not in bound]
        return M, F

    def loop_head(self, name, M, F, env, lead_tys):
        fx = ' '.join(f'({lname(v)} : {self.ty(env[v][1])})' for v in F)
        tys = lead_tys + [self.ty(env[v][1]) for v in M]
        ret = f'Except BuildErr ({self.tuple_ty(M, env)})'
        usesV = ' V' in fx + ' '.join(tys)
        return f'def {name} ' + ('{V : Type} ' if usesV else '') + (fx + ' ' if fx else '') + ': ' + ' → '.join(tys) + f' → {ret}'

    def tx_for(self, e, env, cont):
        _, pat, it, body = e
        name = f'{self.lean_name}.loop{self.nloops}'; self.nloops += 1
        lt, ltag = self.px(it, env)
        if ltag == 'edges': item = ('pair', 'nat', 'nat')
        elif ltag == 'pairs':
            item = ('pair', 'nat', 'nat')
            if pat[0] != 'pref': self.err('`for` over `&Vec<(u32, u32)>` must bind `&(a, b)`')
            pat = pat[1]
        elif isinstance(ltag, tuple) and ltag[0] == 'iter': item = ltag[1]
        elif ltag == 'range': lt, item = f'(Rs.rangeList {lt}.1 {lt}.2)', 'nat'
        else: self.err(f'`for` over a value of kind {ltag}')
        def strip(p):
            return p[1] if p[0] == 'pref' else p
        bound = {}
        if isinstance(item, tuple):
            if pat[0] != 'ptuple' or len(pat[1]) != 2: self.err(f'`for` pattern {pat} for pairs')
            ps = [strip(p) for p in pat[1]]
            if any(p[0] != 'pid' for p in ps): self.err('`for` sub-patterns must be variables')
            for p, tg in zip(ps, item[1:]): bound[p[1]] = tg
            ipat = '(' + ', '.join(lname(p[1]) for p in ps) + ')'
            ity = '(' + ' × '.join(self.ty(tg) for tg in item[1:]) + ')'
        else:
            p = strip(pat)
            if p[0] != 'pid': self.err('`for` pattern must be a variable')
            bound[p[1]] = item; ipat = lname(p[1]); ity = self.ty(item)
        M, F = self.loop_frame(body, env, bound)
        env_in = {v: (('mut' if v in M else 'val'), env[v][1]) for v in env}
        for v, tg in bound.items(): env_in[v] = ('val', tg)
        fargs = ' '.join(lname(v) for v in F)
        rec = lambda env2: [' '.join([name] + ([fargs] if fargs else []) + ['rest'] + [lname(v) for v in M])]
        body_lines = self.tx_block(body, env_in, {'cont': rec}, rec)
        mpat = ''.join(', ' + lname(v) for v in M)
        d = [self.loop_head(name, M, F, env, [f'List {ity}']),
             f'  | []{mpat} => .ok {self.tuple_of(M)}', f'  | {ipat} :: rest{mpat} =>'] + ind(body_lines, 6)
        self.loops.append(d)
        call = ' '.join([name] + ([fargs] if fargs else []) + [lt] + [lname(v) for v in M])
        return self.bind(call, self.tuple_of(M), cont(env))

    def tx_whilelet(self, e, env, cont):
        blk = e[1]
        if not (blk[0] == 'block' and len(blk[1]) == 1 and blk[2] is None and blk[1][0][0] == 'expr' and blk[1][0][1][0] == 'iflet'):
            self.err('unexpected shape of `while let`')
        _, pat, scrut, body, els = blk[1][0][1]
        if els != ('block', [('expr', ('break',))], None): self.err('unexpected `else` of `while let`')
        if not (pat[0] == 'penum' and pat[1] == ['Some'] and len(pat[2]) == 1 and pat[2][0][0] == 'pid'): self.err('`while let` pattern must be `Some(x)`')
        if not (scrut[0] == 'mcall' and scrut[2] == 'pop' and scrut[3] == [] and scrut[1][0] == 'path' and len(scrut[1][1]) == 1
                and scrut[1][1][0] in env and env[scrut[1][1][0]] == ('mut', 'stack')):
            self.err('`while let` scrutinee must be `<stack>.pop()`')
        stack, x = scrut[1][1][0], pat[2][0][1]
        name = f'{self.lean_name}.loop{self.nloops}'; self.nloops += 1
        if name not in FUEL: self.err(f'no fuel expression for {name}')
        M, F = self.loop_frame((scrut, body), env, {x: 'nat'})
        env_in = {v: (('mut' if v in M else 'val'), env[v][1]) for v in env}
        env_in[x] = ('val', 'nat')
        fargs = ' '.join(lname(v) for v in F)
        rec = lambda env2: [' '.join([name] + ([fargs] if fargs else []) + ['fuel'] + [lname(v) for v in M])]
        body_lines = self.tx_block(body, env_in, {'cont': rec}, rec)
        mpat = ''.join(', ' + lname(v) for v in M)
        d = [self.loop_head(name, M, F, env, ['Nat']),
             f'  | 0{mpat} => .error (.panic "fuel")', f'  | fuel + 1{mpat} =>',
             f'      match {lname(stack)} with', f'      | [] => .ok {self.tuple_of(M)}',
             f'      | {lname(x)} :: {lname(stack)} =>'] + ind(body_lines, 8)
        self.loops.append(d)
        for v in names_in(P(self.u.lex(FUEL[name]), 'fuel').expr()):
            if v not in env: self.err(f'fuel expression mentions `{v}`, which is not in scope')
        call = ' '.join([name] + ([fargs] if fargs else []) + [f'({FUEL[name]})'] + [lname(v) for v in M])
        return self.bind(call, self.tuple_of(M), cont(env))

    # ------------------------------------------------------------------ the function
    def run(self):
        f = self.f
        if f['selfkind'] != 'mut' or (f['ret'] or '').replace(' ', '') != 'Result<()>': self.err('signature changed')
        body = PD(f['body_toks'], self.where).block()
        env, params = {'self': ('mut', 'self')}, ['(self : Builder)']
        for pn, pty, pmut in f['params']:
            tag = self.u.param_tag(pty, self)
            if pmut or pty.replace(' ', '').startswith('&mut'): self.err('mutable parameter')
            env[pn] = ('val', tag); params.append(f'({lname(pn)} : {self.ty(tag)})')
        if body[2] != ('call', ('path', ['Ok']), [('unit',)]): self.err('the body must end with `Ok(())`')
        lines = self.tx_stmts(body[1], None, env, {}, lambda env2: ['.ok ((), self)'])
        out = []
        for d in self.loops: out += d + ['']
        out += [f'/-- `{BUILDER}::{f["name"]}` ({SRC}) -/',
                f'def {self.lean_name} {{V : Type}} ' + ' '.join(params) + ' : Except BuildErr (Unit × Builder) :='] + ind(lines)
        return '\n'.join(out) + '\n'


class Unit:
    def __init__(self, repo, outdir):
        from rs2lean import lex
        self.lex = lambda s: lex(s) + [('eof', '')]
        rd = lambda p: open(os.path.join(repo, p), encoding='utf-8').read()
        self.src = rd(SRC)
        self.structs, self.fns = parse_items(self.src, SRC)
        _, self.hfns = parse_items(rd('src/build_helper.rs'), 'src/build_helper.rs')
        self.nstructs, _ = parse_items(rd('src/nfa_builder.rs'), 'src/nfa_builder.rs')
        _, self.sfns = parse_items(rd(STATE_SRC), STATE_SRC)
        if BUILDER not in self.structs: raise TErr(f'{SRC}: struct {BUILDER} not found')
        if not re.search(rf'type\s+{NFA_ALIAS[0]}\s*<\s*V\s*>\s*=\s*NfaBuilder\s*<\s*{NFA_ALIAS[1]}\s*,\s*V\s*>\s*;', self.src):
            raise TErr(f'{SRC}: `type {NFA_ALIAS[0]}<V> = NfaBuilder<{NFA_ALIAS[1]}, V>` not found')
        if CHARWISE:
            _, self.mfns = parse_items(rd('src/charwise/mapper.rs'), 'src/charwise/mapper.rs')
            self.searchc = open(os.path.join(outdir, 'SearchC.lean')).read()
        consts_lean = open(os.path.join(outdir, 'Consts.lean')).read()
        self.consts = {}
        for n, (lean, ln, file) in CONSTS.items():
            m = re.search(rf'const {n}: u32 = (\d+);', rd(file))
            m2 = re.search(rf'def {ln} : Nat := (\d+)', consts_lean)
            if not m or not m2 or m.group(1) != m2.group(1): raise TErr(f'{file}: constant {n} does not agree with Gen/Consts.lean')
            if not re.search(rf'\b{n}\b', self.src.split('impl')[0]): raise TErr(f'{SRC}: {n} is not imported')
            self.consts[n] = lean
        self.lean_text = {BUILDER: open(os.path.join(outdir, LAYOUT[0])).read(),
                          'BuildHelper': open(os.path.join(outdir, 'Helper.lean')).read()}
        self.prelude = open(os.path.join(outdir, 'PreludeDbl.lean')).read()

    def param_tag(self, pty, tr):
        t = re.sub(r"^&('[a-z_]+)?(mut)?", '', pty.replace(' ', ''))
        table = {'u32': 'nat', 'u8': 'nat', 'usize': 'nat', 'NonZeroU32': 'nat', '[u8]': 'labels', 'BuildHelper': 'helper',
                 NFA_ALIAS[0] + '<V>': 'nfa', 'Option<NonZeroU32>': 'optnat'}
        if CHARWISE:
            del table['[u8]'], table['u8']
            table['[(u32,u32)]'] = 'pairs'; table['char'] = 'nat'
        if t not in table: tr.err(f'parameter type `{pty}` is outside the supported subset')
        return table[t]

    def rust_sig(self, owner, m, tr):
        fns = self.fns if owner == BUILDER else self.hfns
        f = fns.get((owner, m))
        if f is None: tr.err(f'method `{owner}::{m}` not found')
        ret = (f['ret'] or '()').replace(' ', '')
        result = ret.startswith('Result<')
        inner = ret[len('Result<'):-1] if result else ret
        rtag = {'()': 'unit', 'BuildHelper': 'helper', 'NonZeroU32': 'nat', 'u32': 'nat', 'Range<u32>': 'range', 'bool': 'bool'}.get(inner)
        if rtag is None: tr.err(f'result type `{f["ret"]}` of `{m}` is outside the supported subset')
        return dict(selfkind=f['selfkind'], params=f['params'], result=result, rtag=rtag)

    def lean_sig(self, owner, m, tr):
        short = 'Builder' if owner == BUILDER else owner
        mm = re.search(rf'^def {short}\.{lname(m)} (.*?) : ([^:\n]*) :=$', self.lean_text[owner], re.M)
        if not mm: tr.err(f'`{owner}::{m}` has no generated definition (Gen/{LAYOUT[0]} / Gen/Helper.lean)')
        ret = mm.group(2).strip()
        fallible = ret.startswith('Except BuildErr ')
        inner = ret[len('Except BuildErr '):].strip() if fallible else ret
        if inner.startswith('(') and inner.endswith(')'): inner = inner[1:-1]
        comps, depth, cur = [], 0, ''
        for ch in inner:
            if ch == '(': depth += 1
            if ch == ')': depth -= 1
            if ch == '×' and depth == 0: comps.append(cur.strip()); cur = ''
            else: cur += ch
        comps.append(cur.strip())
        name = (LAYOUT[1] + '.' if owner == BUILDER else 'H.') + f'{short}.{lname(m)}'
        return dict(name=name, ret=ret, fallible=fallible, comps=comps if fallible else [inner])

    def nfa_field(self, struct, field, tr):
        if field not in self.nstructs.get(struct, {}): tr.err(f'src/nfa_builder.rs: {struct} has no field `{field}`')
        tag = nfa2lean.map_type(self.nstructs[struct][field], f'{struct}.{field}')[1]
        tag = {'edges': 'edges', 'nat': 'nat', 'states': 'nstates', ('opt', 'nat'): 'optnat'}.get(tag)
        if tag is None: tr.err(f'field `{struct}.{field}` has an unsupported type here')
        return tag

    def self_field(self, field, tr):
        ty = self.structs[BUILDER].get(field)
        if ty is None: tr.err(f'{BUILDER} has no field `{field}`')
        tag = {'Vec<State>': 'states', 'u32': 'nat', **({'CodeMapper': 'mapper'} if CHARWISE else {})}.get(ty.replace(' ', ''))
        if tag is None: tr.err(f'field `self.{field}` has an unsupported type here')
        return tag

    def setter(self, m, tr):
        f = self.sfns.get(('State', m))
        if f is None or f['selfkind'] != 'mut' or len(f['params']) != 1: tr.err(f'{STATE_SRC}: `State::{m}(&mut self, x)` not found')
        if not re.search(rf'^def {ST}\.{m} ', self.prelude, re.M): tr.err(f'Gen/PreludeDbl.lean does not define `{ST}.{m}`')
        ret = (f['ret'] or '()').replace(' ', '')
        if ret not in ('()', 'Result<()>'): tr.err(f'`State::{m}` returns `{f["ret"]}`')
        return self.param_tag(f['params'][0][1], tr), ret == 'Result<()>'

    def check_mapper_get(self, tr):
        """`CodeMapper::get(&self, c: char) -> Option<u32>`, and the prelude's `CodeMapper.get` is textually the
        definition generated from src/charwise/mapper.rs into Gen/SearchC.lean (carrier renamed)."""
        f = self.mfns.get(('CodeMapper', 'get'))
        if f is None or f['selfkind'] != 'ref' or [p[1].replace(' ', '') for p in f['params']] != ['char'] \
                or (f['ret'] or '').replace(' ', '') != 'Option<u32>':
            tr.err('src/charwise/mapper.rs: `CodeMapper::get(&self, c: char) -> Option<u32>` not found')
        def body(text, what):
            m = re.search(r'^def CodeMapper\.get (.*?) :=\n((?:[ \t]+.*\n)+)', text, re.M)
            if not m: tr.err(f'{what} does not define `CodeMapper.get`')
            return m.group(1), m.group(2)
        sh, sb = body(self.searchc, 'Gen/SearchC.lean')
        ph, pb = body(self.prelude, 'Gen/PreludeDbl.lean')
        if sh != '{V : Type} (self : DA V) (c : Nat) : Option Nat' or ph != '(self : Mapper) (c : Nat) : Option Nat' \
                or sb.replace('self.mapTable', 'self.table') != pb:
            tr.err('Gen/PreludeDbl.lean: `Rs.CodeMapper.get` is not the definition generated from src/charwise/mapper.rs (Gen/SearchC.lean)')


HEADER = '''/- GENERATED by tools/dbl2lean.py from the repository's current source ({src}:
   `{builder}::build_double_array`). Do not edit.
   Translation rules and their trusted base: see the header of tools/dbl2lean.py and
   Daac/Gen/PreludeDbl.lean.  Representation: integers are `Nat`; `&mut self`, `&mut helper` and `let mut`
   locals are threaded; `Result` / `?` / out-of-range indexing are `Except BuildErr`; `state_id_map` is
   `Array Nat`; the `stack` is the `List` whose head is its top; `while let Some(x) = stack.pop()` has
   fuel `{fuel}`; the byte-wise `State` is `St` (setters: Gen/PreludeDbl.lean, Proofs/TieA.lean).
   DROPPED `debug_assert*!` statements (compiled out in release builds; conditions parsed and checked):
{dropped}
-/
import Daac.Gen.LayoutB
import Daac.Gen.Nfa
import Daac.Gen.PreludeDbl
set_option linter.unusedVariables false
namespace Daac.Gen.DB
open Daac Daac.Gen.H Daac.Gen.LB Daac.Gen.N

'''

HEADER_C = '''/- GENERATED by tools/dbl2lean.py from the repository's current source ({src}:
   `{builder}::build_double_array`). Do not edit.
   Translation rules and their trusted base: see the header of tools/dbl2lean.py and
   Daac/Gen/PreludeDbl.lean.  Representation: integers (and `char` labels, as code points) are `Nat`;
   `&mut self`, `&mut helper` and `let mut` locals are threaded; `Result` / `?` / `unwrap` / out-of-range
   indexing are `Except BuildErr`; `state_id_map` is `Array Nat`; the `stack` is the `List` whose head is its
   top; `mapped` is a `List (Nat × Nat)`; `sort_by` on the first component is `Rs.sortByFst` (stable insertion
   sort); `self.mapper.get` is `Rs.CodeMapper.get`; `while let Some(x) = stack.pop()` has fuel `{fuel}`; the
   char-wise `State` is `St` (setters `Rs.StC.*`: Gen/PreludeDbl.lean).
   DROPPED `debug_assert*!` statements (compiled out in release builds; conditions parsed and checked):
{dropped}
-/
import Daac.Gen.LayoutC
import Daac.Gen.Nfa
import Daac.Gen.PreludeDbl
set_option linter.unusedVariables false
namespace Daac.Gen.DC
open Daac Daac.Gen.H Daac.Gen.LC Daac.Gen.N

'''

def translate(variant, repo, outdir):
    configure(variant)
    u = Unit(repo, outdir)
    f = u.fns.get((BUILDER, 'build_double_array'))
    if f is None: raise TErr(f'{SRC}: {BUILDER}::build_double_array not found')
    tr = Tr(u, f)
    body = tr.run()
    dropped = '\n'.join(f'     {d}' for d in tr.dropped) or '     (none)'
    header = HEADER_C if CHARWISE else HEADER
    text = header.format(src=SRC, builder=BUILDER, fuel=FUEL['Builder.build_double_array.loop0'], dropped=dropped) + body + f'\nend Daac.Gen.{NS}\n'
    defs = {}
    for chunk in re.split(r'\n(?=/-- |def )', body):
        m = re.search(r'^def (\S+)', chunk, re.M)
        if m: defs[NS + '.' + m.group(1)] = hashlib.sha1(chunk.encode()).hexdigest()[:16]
    return OUT, text, defs

def main():
    repo = sys.argv[1] if len(sys.argv) > 1 else '/repo'
    outdir = sys.argv[2] if len(sys.argv) > 2 else os.path.join(os.path.dirname(os.path.abspath(__file__)), '..', 'lean', 'Daac', 'Gen')
    results = [translate(v, repo, outdir) for v in ('bytewise', 'charwise')]     # nothing is written if either fails
    defs = {}
    for out, text, d in results:
        path = os.path.join(outdir, out)
        if not os.path.exists(path) or open(path).read() != text:
            with open(path, 'w') as fh: fh.write(text)
        defs.update(d)
    jtext = json.dumps(defs, indent=1, sort_keys=True) + '\n'
    jpath = os.path.join(outdir, 'dbl_defs.json')
    if not os.path.exists(jpath) or open(jpath).read() != jtext:
        open(jpath, 'w').write(jtext)
    print('dbl2lean: ok')

if __name__ == '__main__':
    try:
        main()
    except TErr as ex:
        print(f'dbl2lean: {ex}')
        sys.exit(2)

#!/usr/bin/env python3
"""acc2lean.py — translator for the field accessors and the bit packing behind them.

The search-side and layout translation units (rs2lean.py) map the Rust `State` / `Output` to the
model records `St` / `Out` and read `state.check()`, `state.output_pos()`, `set_check(..)` … as the
model's fields. This unit removes that assumption from the trusted base: on every run it translates
the CURRENT text of

  src/intpack.rs   `U24::get`, `U24::try_from`, `U24nU8::{a, b, set_a, set_b}`
  src/bytewise.rs  `State::{base, check, fail, output_pos, set_base, set_check, set_fail, set_output_pos}`
  src/charwise.rs  `State::{base, check, fail, output_pos, set_base?, …}` (every method of `impl State`)
  src/lib.rs       `Output::{new, value, length, parent}`

into `lean/Daac/Gen/Access.lean` (over the raw structs of Gen/Serial.lean: the byte-wise state with
its packed `opos_ch` word), and `Daac/Proofs/TieA.lean` proves them equal to the field reads and
writes of the model record through the representation maps `toStB` / `toStC` / `toOut`.

The functions are single expressions or two-statement bodies; the translator walks the AST produced
by rs2lean's parser and accepts exactly the node forms listed in `tx` below — anything else is an
error (exit 2 = broken tie). Meaning: integers, `U24`, `U24nU8`, `NonZeroU32` are `Nat` (newtype
constructors and `.0` / `.get()` on them are the identity); `Option<NonZeroU32>` is `Option Nat`;
`>> << | &` are `Nat` shifts / bitwise ops; `u32::from(u8)` is the identity; `u8::try_from(x).unwrap()`
panics above 255 (a function that can panic returns `Option`, `none` = panic); `&mut self` methods
return the new `self`; `Result<(), DaachorseError>` is `Except BuildErr` (error kind only).

Usage: acc2lean.py [repo_root] [out_dir]
"""
import os, re, sys
sys.path.insert(0, os.path.dirname(os.path.abspath(__file__)))
from rs2lean import TErr, P, parse_items

NEWTYPES = {'U24', 'U24nU8', 'NonZeroU32'}

class Acc:
    def __init__(self, repo):
        self.repo = repo
        self.units = []      # (ns, rel, target, leanSelf, fields)
        self.fn = {}         # (target_key, name) -> info
        self.partial = set()
        self.out = []

    def load(self, rel):
        src = open(os.path.join(self.repo, rel), encoding='utf-8').read()
        return src, parse_items(src, rel)

    # ---- types of expressions (just enough to resolve method receivers)
    def ret_type(self, key, name):
        f = self.fn.get((key, name))
        if f is None: raise TErr(f'unknown method {key}::{name}')
        return (f['ret'] or '()').replace(' ', '')

    def type_of(self, e, env):
        k = e[0]
        if k == 'path' and len(e[1]) == 1:
            if e[1][0] in env:
                t = env[e[1][0]]
                if t == 'Self': t = {'U24': 'U24', 'U24nU8': 'U24nU8', 'B.State': 'State', 'C.State': 'State', 'Output': 'Output<V>'}[self.cur_key]
                return t
            raise TErr(f'{self.where}: unknown variable {e[1][0]}')
        if k == 'field':
            t = self.type_of(e[1], env)
            fs = self.fields.get('State' if t.startswith('Output') else t)
            if fs is None or e[2] not in fs: raise TErr(f'{self.where}: unknown field {e[2]} of {t}')
            return fs[e[2]].replace(' ', '')
        if k == 'tupfield':
            t = self.type_of(e[1], env)
            if t in ('U24', 'U24nU8'): return 'u32'
            raise TErr(f'{self.where}: `.0` on {t}')
        if k == 'mcall':
            t = self.type_of(e[1], env)
            key = self.key_of_type(t)
            return self.ret_type(key, e[2])
        raise TErr(f'{self.where}: cannot type {e[0]}')

    def key_of_type(self, t):
        if t == 'Self': return self.cur_key
        if t in ('U24', 'U24nU8'): return t
        if t == 'State': return self.cur_ns + '.State'
        if t.startswith('Output'): return 'Output'
        raise TErr(f'{self.where}: no methods known for type {t}')

    # ---- expressions: returns (binds, term)
    def tx(self, e, env):
        k = e[0]
        if k == 'lit': return [], str(e[1])
        if k == 'unit': return [], '()'
        if k == 'path':
            p = e[1]
            if len(p) == 1:
                if p[0] in env: return [], p[0]
                raise TErr(f'{self.where}: unknown name {p[0]}')
            if p == ['u8', 'MAX']: return [], '255'
            if p in (['Self', 'MAX'], ['U24', 'MAX']) : return [], 'Gen.u24Max'
            raise TErr(f'{self.where}: unsupported path {"::".join(p)}')
        if k == 'field':
            b, t = self.tx(e[1], env)
            self.type_of(e, env)
            return b, f'{t}.{e[2]}'
        if k == 'tupfield':
            self.type_of(e, env)
            return self.tx(e[1], env)
        if k == 'bin':
            ops = {'>>': '>>>', '<<': '<<<', '|': '|||', '&': '&&&'}
            b1, a = self.tx(e[2], env); b2, c = self.tx(e[3], env)
            if e[1] in ops: return b1 + b2, f'({a} {ops[e[1]]} {c})'
            if e[1] == '<=': return b1 + b2, f'(decide ({a} ≤ {c}))'
            raise TErr(f'{self.where}: unsupported operator {e[1]}')
        if k == 'call':
            f = e[1]
            if f[0] != 'path': raise TErr(f'{self.where}: unsupported call')
            p, args = f[1], e[2]
            if p in (['U24'], ['Self']) and len(args) == 1 and self.cur_key in ('U24', 'U24nU8') or p == ['U24'] and len(args) == 1:
                return self.tx(args[0], env)                      # newtype constructor
            if p == ['NonZeroU32', 'new'] and len(args) == 1:
                b, t = self.tx(args[0], env); return b, f'(Rs.NonZeroU32_new {t})'
            if p == ['u32', 'from'] and len(args) == 1:
                return self.tx(args[0], env)
            if p == ['Some'] and len(args) == 1:
                b, t = self.tx(args[0], env); return b, f'(some {t})'
            raise TErr(f'{self.where}: unsupported call {"::".join(p)}')
        if k == 'mcall':
            recv, m, args = e[1], e[2], e[3]
            # u8::try_from(x).unwrap()
            if m == 'unwrap' and not args and recv[0] == 'call' and recv[1] == ('path', ['u8', 'try_from']) and len(recv[2]) == 1:
                b, t = self.tx(recv[2][0], env)
                v = self.fresh()
                return b + [(v, f'Rs.u8_try_from {t}')], v
            if m == 'map_or' and len(args) == 2 and args[0] == ('lit', 0) and args[1] == ('path', ['NonZeroU32', 'get']):
                b, t = self.tx(recv, env); return b, f'(Rs.map_or_0_get {t})'
            t = self.type_of(recv, env)
            key = self.key_of_type(t)
            f = self.fn.get((key, m))
            if f is None: raise TErr(f'{self.where}: unknown method {key}::{m}')
            if f['selfkind'] == 'mut': raise TErr(f'{self.where}: mutating call in expression position')
            b, r = self.tx(recv, env)
            ts = []
            for a in args:
                ba, ta = self.tx(a, env); b += ba; ts.append(ta)
            call = f'({key}.{m} {r}' + ''.join(' ' + x for x in ts) + ')'
            if (key, m) in self.partial:
                v = self.fresh(); return b + [(v, call[1:-1])], v
            return b, call
        raise TErr(f'{self.where}: unsupported expression form `{k}`')

    def fresh(self):
        self.n += 1; return f't{self.n}'

    def wrap(self, binds, body, ind):
        pad = '  ' * ind
        s = ''
        for v, t in binds:
            s += f'{pad}match {t} with\n{pad}| none => none\n{pad}| some {v} =>\n'
        return s + pad + body

    # ---- statements of a `&mut self` body: returns list of (binds, lean let-line)
    def stmt(self, st, env):
        if st[0] == 'assign' and st[2] == '=':
            place, rhs = st[1], st[3]
            b, t = self.tx(rhs, env)
            if place == ('tupfield', ('path', ['self']), 0):
                return b, f'let self := {t}'
            if place[0] == 'field' and place[1] == ('path', ['self']):
                self.type_of(place, env)
                return b, f'let self := {{ self with {place[2]} := {t} }}'
            raise TErr(f'{self.where}: unsupported assignment target')
        if st[0] == 'expr' and st[1][0] == 'mcall':
            e = st[1]
            recv, m, args = e[1], e[2], e[3]
            if recv[0] == 'field' and recv[1] == ('path', ['self']):
                t = self.type_of(recv, env); key = self.key_of_type(t)
                f = self.fn.get((key, m))
                if f is None or f['selfkind'] != 'mut' or (f['ret'] or '()').replace(' ', '') != '()':
                    raise TErr(f'{self.where}: unsupported statement call {m}')
                b = []; ts = []
                for a in args:
                    ba, ta = self.tx(a, env); b += ba; ts.append(ta)
                call = f'{key}.{m} self.{recv[2]}' + ''.join(' ' + x for x in ts)
                if (key, m) in self.partial:
                    v = self.fresh(); b.append((v, call)); call = v
                else:
                    call = '(' + call + ')'
                return b, f'let self := {{ self with {recv[2]} := {call} }}'
        if st[0] == 'let' and st[1][0] == 'pid' and st[4] is not None:
            b, t = self.tx(st[4], env)
            env[st[1][1]] = 'u32'
            return b, f'let {st[1][1]} := {t}'
        raise TErr(f'{self.where}: unsupported statement form `{st[0]}`')

    def uses_partial(self, e):
        """does the AST contain `.unwrap()` or a call of a partial method?"""
        if isinstance(e, tuple):
            if e and e[0] == 'mcall':
                if e[2] == 'unwrap': return True
                if any(k[1] == e[2] and k in self.partial for k in self.fn):
                    return True
            return any(self.uses_partial(x) for x in e)
        if isinstance(e, list):
            return any(self.uses_partial(x) for x in e)
        return False

    def lean_ty(self, t, key):
        t = (t or '()').replace(' ', '')
        if t in ('u8', 'u32', 'U24', 'U24nU8', 'NonZeroU32'): return 'Nat'
        if t == 'Option<NonZeroU32>': return 'Option Nat'
        if t == 'V': return 'V'
        if t == 'Self': return self.self_lean[key]
        raise TErr(f'{self.where}: unsupported type {t}')

    def gen_fn(self, key, name):
        f = self.fn[(key, name)]
        self.where = f['where']; self.n = 0
        self.cur_key = key; self.cur_ns = key.split('.')[0] if '.' in key else None
        blk = P(f['body_toks'] + [('eof', '')], f['where']).block()
        _, stmts, tail = blk
        selfty = self.self_lean[key]
        env = {'self': 'Self'} if f['selfkind'] else {}
        params = ''
        for pn, pt, _ in f['params']:
            env[pn] = pt.replace(' ', '')
            params += f' ({pn} : {self.lean_ty(pt, key)})'
        tp = ' {V : Type}' if 'V' in selfty else ''
        partial = (key, name) in self.partial
        ret = (f['ret'] or '()').replace(' ', '')
        hdr_self = f' (self : {selfty})' if f['selfkind'] else ''
        doc = f'/-- {f["where"]} -/\n'
        lines = []
        for st in stmts:
            b, l = self.stmt(st, env)
            lines.append(self.wrap(b, l, 1))
        if f['selfkind'] == 'mut' and ret == '()':
            if tail is not None: raise TErr(f'{self.where}: tail expression in a unit method')
            rty = f'Option ({selfty})' if partial else selfty
            lines.append('  ' + ('some self' if partial else 'self'))
        elif f['selfkind'] == 'mut' and ret == 'Result<()>':
            # if let Ok(x) = U24::try_from(x) { stmts; Ok(()) } else { Err(..automaton_scale..) }
            if tail is None or tail[0] != 'iflet' or tail[1] != ('penum', ['Ok'], [('pid', tail[1][2][0][1])]):
                raise TErr(f'{self.where}: unsupported Result body')
            v = tail[1][2][0][1]
            scrut = tail[2]
            if scrut[0] != 'call' or scrut[1] != ('path', ['U24', 'try_from']) or len(scrut[2]) != 1:
                raise TErr(f'{self.where}: unsupported scrutinee')
            bs, ts = self.tx(scrut[2][0], env)
            then, els = tail[3], tail[4]
            if then[2] != ('call', ('path', ['Ok']), [('unit',)]): raise TErr(f'{self.where}: then-branch must end in Ok(())')
            env2 = dict(env); env2[v] = 'U24'
            tl = []
            for st in then[1]:
                b, l = self.stmt(st, env2); tl.append(self.wrap(b, l, 2))
            et = els[2] if els else None
            if not (et and et[0] == 'call' and et[1] == ('path', ['Err']) and et[2][0][0] == 'call'
                    and et[2][0][1] == ('path', ['DaachorseError', 'automaton_scale'])):
                raise TErr(f'{self.where}: else-branch must be Err(DaachorseError::automaton_scale(..))')
            okv = 'some (.ok self)' if partial else '.ok self'
            erv = 'some (.error .automatonScale)' if partial else '.error .automatonScale'
            lines.append(self.wrap(bs, f'match U24.try_from {ts} with\n  | .ok {v} =>\n' + '\n'.join(tl) + f'\n    {okv}\n  | .error _ => {erv}', 1))
            rty = f'Option (Except BuildErr ({selfty}))' if partial else f'Except BuildErr ({selfty})'
        elif ret.startswith('Result<Self'):
            # U24::try_from: if value <= Self::MAX { Ok(Self(value)) } else { Err("..") }
            if tail is None or tail[0] != 'if': raise TErr(f'{self.where}: unsupported Result body')
            bc, c = self.tx(tail[1], env)
            th = tail[2][2]
            if th[0] != 'call' or th[1] != ('path', ['Ok']): raise TErr(f'{self.where}: then-branch must be Ok(..)')
            bt, tt = self.tx(th[2][0], env)
            el = tail[3][2]
            if el[0] != 'call' or el[1] != ('path', ['Err']): raise TErr(f'{self.where}: else-branch must be Err(..)')
            if bc or bt: raise TErr(f'{self.where}: effects in try_from')
            lines.append(f'  if {c} then .ok {tt} else .error ()')
            rty = 'Except Unit Nat'
        else:
            if tail is None: raise TErr(f'{self.where}: no tail expression')
            if tail[0] == 'struct':
                if tail[1] != ['Self']: raise TErr(f'{self.where}: unsupported constructor')
                fs = [x[0] for x in tail[2]]
                if fs != list(self.fields[key if key in self.fields else 'Self'].keys()) and fs != list(self.fields_of_key[key].keys()):
                    raise TErr(f'{self.where}: constructor fields differ from the declaration')
                parts = []
                for fn_, fe in tail[2]:
                    b, t = self.tx(fe, env)
                    if b: raise TErr(f'{self.where}: effects in constructor')
                    parts.append(f'{fn_} := {t}')
                lines.append('  { ' + ', '.join(parts) + ' }')
                rty = selfty
            else:
                b, t = self.tx(tail, env)
                lines.append(self.wrap(b, f'some {t}' if partial else t, 1))
                rty = self.lean_ty(f['ret'], key)
                if partial: rty = f'Option ({rty})' if ' ' in rty else f'Option {rty}'
        self.out.append(doc + f'def {key}.{name}{tp}{hdr_self}{params} : {rty} :=\n' + '\n'.join(lines) + '\n')

    def run(self):
        srcI, (stI, fI) = self.load('src/intpack.rs')
        srcB, (stB, fB) = self.load('src/bytewise.rs')
        srcC, (stC, fC) = self.load('src/charwise.rs')
        srcL, (stL, fL) = self.load('src/lib.rs')
        if not re.search(r'pub struct U24\(u32\);', srcI) or not re.search(r'pub struct U24nU8\(u32\);', srcI):
            raise TErr('src/intpack.rs: the newtypes U24(u32) / U24nU8(u32) changed')
        self.fields = {'Self': {}}
        self.fields_of_key = {}
        self.self_lean = {'U24': 'Nat', 'U24nU8': 'Nat', 'B.State': 'S.B.State', 'C.State': 'S.C.State', 'Output': 'S.Output V'}
        order = []
        def add(fns, target, key, names=None, skip=()):
            for (tg, nm), f in fns.items():
                if tg != target or f['trait'] is not None and not (tg == 'U24' and nm == 'try_from'): continue
                if nm in skip or nm.startswith('verif_'): continue
                if names is not None and nm not in names: continue
                self.fn[(key, nm)] = f; order.append((key, nm))
        add(fI, 'U24', 'U24'); add(fI, 'U24nU8', 'U24nU8', names=('a', 'b', 'set_a', 'set_b'))
        add(fB, 'State', 'B.State', skip=('serialize_to_vec', 'deserialize_from_slice', 'serialized_bytes', 'fmt'))
        add(fC, 'State', 'C.State', skip=('serialize_to_vec', 'deserialize_from_slice', 'serialized_bytes', 'fmt', 'default'))
        add(fL, 'Output', 'Output', skip=('serialize_to_vec', 'deserialize_from_slice', 'serialized_bytes'))
        for need in (('U24', 'get'), ('U24', 'try_from'), ('U24nU8', 'a'), ('U24nU8', 'b'), ('U24nU8', 'set_a'), ('U24nU8', 'set_b'),
                     ('B.State', 'check'), ('B.State', 'output_pos'), ('B.State', 'set_check'), ('B.State', 'set_output_pos'),
                     ('B.State', 'base'), ('B.State', 'fail'), ('B.State', 'set_base'), ('B.State', 'set_fail'),
                     ('C.State', 'base'), ('C.State', 'check'), ('C.State', 'fail'), ('C.State', 'output_pos'),
                     ('Output', 'value'), ('Output', 'length'), ('Output', 'parent'), ('Output', 'new')):
            if need not in self.fn: raise TErr(f'accessor {need[0]}::{need[1]} not found')
        self.fields_of_key = {'B.State': stB['State'], 'C.State': stC['State'], 'Output': stL['Output'], 'U24': {}, 'U24nU8': {}}
        # partiality: fixpoint over "contains unwrap() or calls a partial method of the same unit"
        changed = True
        asts = {}
        for k in order:
            asts[k] = P(self.fn[k]['body_toks'] + [('eof', '')], self.fn[k]['where']).block()
        def calls(e, acc):
            if isinstance(e, tuple):
                if e and e[0] == 'mcall': acc.add(e[2])
                for x in e: calls(x, acc)
            elif isinstance(e, list):
                for x in e: calls(x, acc)
        while changed:
            changed = False
            for k in order:
                if k in self.partial: continue
                acc = set(); calls(asts[k], acc)
                if 'unwrap' in acc or any(p[1] in acc for p in self.partial):
                    self.partial.add(k); changed = True
        # emit in dependency-friendly order: intpack first
        for k in order:
            key = k[0]
            self.fields = {'Self': self.fields_of_key[key], 'State': self.fields_of_key.get(key, {})}
            self.gen_fn(*k)

HEADER = '''/- GENERATED by /verif/tools/acc2lean.py from /repo's current source
   (src/intpack.rs, the `impl State` blocks of src/bytewise.rs and src/charwise.rs, `impl Output` of src/lib.rs). Do not edit. -/
import Daac.Gen.Serial
import Daac.Model.Trie
set_option linter.unusedVariables false
namespace Daac.Gen.A
open Daac Daac.Gen

'''

def main():
    repo = sys.argv[1] if len(sys.argv) > 1 else '/repo'
    outdir = sys.argv[2] if len(sys.argv) > 2 else os.path.join(os.path.dirname(os.path.abspath(__file__)), '..', 'lean', 'Daac', 'Gen')
    a = Acc(repo)
    a.run()
    text = HEADER + '\n'.join(a.out) + '\nend Daac.Gen.A\n'
    path = os.path.join(outdir, 'Access.lean')
    old = open(path).read() if os.path.exists(path) else None
    if old != text:
        open(path, 'w').write(text)
    import hashlib, json
    defs = {}
    for chunk in a.out:
        m = re.search(r'^def (\S+)', chunk, re.M)
        if m: defs['A.' + m.group(1)] = hashlib.sha1(chunk.encode()).hexdigest()[:16]
    jtext = json.dumps(defs, indent=1, sort_keys=True) + '\n'
    jpath = os.path.join(outdir, 'acc_defs.json')
    if not os.path.exists(jpath) or open(jpath).read() != jtext:
        open(jpath, 'w').write(jtext)
    print('acc2lean: ok')

if __name__ == '__main__':
    try:
        main()
    except TErr as ex:
        print(f'acc2lean: {ex}')
        sys.exit(2)

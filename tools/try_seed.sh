#!/bin/bash
# try_seed.sh <seed-dir> <property ids...>: applies the seeded change to /repo, runs the given
# checks, undoes the change straight afterwards and regenerates the constants from the clean tree.
S=$(realpath "$1"); shift
cd /verif
# evidence written while a seeded change is applied must not replace the committed evidence
rm -rf .cache/evidence.bak; cp -r evidence .cache/evidence.bak 2>/dev/null
git -C /repo apply $S/patch.diff || { echo "patch does not apply"; exit 2; }
for id in "$@"; do
  out=$(./check $id 2>&1 | grep -E "^(VIOLATION|OK|KNOWN)" | head -3 | tr '\n' ' ')
  echo "$(basename $S) -> $id: $out"
done
git -C /repo checkout -- .
rm -rf evidence; cp -r .cache/evidence.bak evidence 2>/dev/null
python3 tools/gen_consts.py /repo >/dev/null
python3 tools/rs2lean.py /repo >/dev/null
python3 tools/ser2lean.py /repo >/dev/null
python3 tools/acc2lean.py /repo >/dev/null
python3 tools/nfa2lean.py /repo >/dev/null
python3 tools/dbl2lean.py /repo >/dev/null
python3 tools/map2lean.py /repo >/dev/null
python3 tools/top2lean.py /repo >/dev/null
(cd lean && lake build driver >/dev/null 2>&1)

#!/bin/bash
# try_seed.sh <seed-dir> <property ids...>: applies the seeded change to /repo, runs the given
# checks, undoes the change straight afterwards and regenerates the constants from the clean tree.
S=$(realpath "$1"); shift
cd /verif
git -C /repo apply $S/patch.diff || { echo "patch does not apply"; exit 2; }
for id in "$@"; do
  out=$(./check $id 2>&1 | grep -E "^(VIOLATION|OK|KNOWN)" | head -3 | tr '\n' ' ')
  echo "$(basename $S) -> $id: $out"
done
git -C /repo checkout -- .
python3 tools/gen_consts.py /repo >/dev/null
(cd lean && lake build driver >/dev/null 2>&1)

#!/usr/bin/env python3
"""map2lean.py — translator from the Rust text of the construction of the char-wise CODE MAPPER to Lean 4
(`lean/Daac/Gen/MapperNew.lean`, namespace `Daac.Gen.M`):

 (1) `CodeMapper::new(freqs: &[u32]) -> Self`                       (src/charwise/mapper.rs), whole body;
 (2) the frequency-counting loop `for &c in &chars { .. }` inside
     `CharwiseDoubleArrayAhoCorasickBuilder::build_original_nfa_and_mapper`   (src/charwise/builder.rs),
     generated as `count_chars (freqs) (chars)`.  Only that inner loop is translated (the surrounding
     pattern loop interleaves `nfa.add`, translated by tools/nfa2lean.py); its CONTEXT is checked: the
     enclosing function must read, token for token,
         let mut nfa = ..; let mut freqs = vec![]; { let mut chars = vec![];
           for (pattern, value) in patvals { chars.clear();
             pattern.as_ref().chars().for_each(|c| chars.push(c)); nfa.add(&chars, value)?; <LOOP> } }
         self.mapper = CodeMapper::new(&freqs);
     i.e. `freqs` starts empty, the loop runs once per pattern AFTER `nfa.add` returned `Ok` (a failing
     `add` returns before the mapper is built; a pattern shadowed under leftmost-first IS counted), on
     the pattern's characters in order, and the mapper is built from the final `freqs`.

`Daac/Proofs/TieM.lean` proves that the generated pipeline equals the hand-written model `Mapper.build`
(Daac/Model/Build.lean) on `table` and `alphabet_size`.

Every run re-reads the repository's current source text, parses the bodies with the Rust parser of
tools/rs2lean.py (+ the `vec!` forms of nfa2lean / dbl2lean) and translates the AST by a syntax-directed
translation.  The translation is STRICT: a statement / expression / method / pattern / type form that is
not explicitly listed below raises `TErr` (exit status 2); nothing is skipped, guessed or hard-coded.

Translation rules (trusted base, with lean/Daac/Gen/PreludeMap.lean and PreludeBuild.lean):

 * integers (`u32`, `usize`) and `char` (its code point: `u32::from(c)`) are `Nat`; `usize::from_u32(x)`,
   `u32::from(x)`, references (`&`, `&x` patterns) and `.iter()` are erased; arithmetic is unbounded
   (`freqs[c] += 1` on a `u32` would overflow only after 2^32 occurrences of one character);
 * `&[u32]` / `Vec<u32>` / `vec![v; n]` is `Array Nat` (`Array.replicate n v`); `v.len()` is `.size`;
   `v[i]` / `v[i] = x` / `v[i] += x` are checked (`Rs.index`, `Rs.indexSet`: out of range = `.panic`);
   `v.resize(n, x)` is `Rs.resize`;
 * a local `vec![]` that is only `push`ed / sorted / iterated / measured is a `List` in order
   (`push x` = `l ++ [x]`, `len()` = `.length`); tuples are Lean pairs;
 * `it.enumerate()` = `Rs.enumerate` (positions from 0), `it.filter(|PAT| e)` = `List.filter` with the
   translated closure (a named definition `F.closureN`; closures must not capture variables);
 * `a.cmp(b)` on integers = `Rs.cmpNat a b` (`compare`), `o.then_with(|| e)` = `Rs.thenWith o (fun _ => e)`;
 * `l.sort_unstable_by(|PAT, PAT| e)` = `Rs.sortUnstableBy F.closureN l`: insertion sort with the
   translated comparator.  TRUSTED MEANING: this is what `sort_unstable_by` computes when the comparator
   is a total order under which the elements are pairwise distinct (then there is exactly one sorted
   permutation); for a comparator that leaves distinct elements equal the result of the Rust method is
   unspecified, the translation still goes through, and the tie proof (which needs
   `closureN x y = .lt ↔ (freq desc, code asc)`) fails;
 * `u32::try_from(n).unwrap()` = `Rs.u32TryFromUnwrap n` (panic above `u32::MAX`);
 * `for PAT in ITER { .. }` is structural recursion over the list of items, over the variables the body
   modifies; `if c { A }` rebinds the variables `A` modifies; a block expression `{ ..; x }` is a nested
   `let`; sub-terms that can fail are `Except BuildErr` (a loop / block / function that cannot fail is pure);
 * `Self { f: e, .. }` is the generated structure `CodeMapper` (fields from the Rust struct);
   `INVALID_CODE` is `Gen.invalidCode` (Gen/Consts.lean, value cross-checked here).

Usage: map2lean.py [repo_root] [out_dir]
"""
import os, re, sys, json, hashlib
sys.path.insert(0, os.path.dirname(os.path.abspath(__file__)))
from rs2lean import P, parse_items, TErr, lname, lex
from nfa2lean import ind
from dbl2lean import PD, walk, names_in

SRC_M = 'src/charwise/mapper.rs'
SRC_B = 'src/charwise/builder.rs'
BUILDER = 'CharwiseDoubleArrayAhoCorasickBuilder'
HOST = 'build_original_nfa_and_mapper'

# token text of the context of the counting loop (see the module docstring); `@LOOP@` = the inner loop
CONTEXT = ('{ let mut nfa = CharwiseNfaBuilder :: new ( self . match_kind ) ; let mut freqs = vec ! [ ] ; '
           '{ let mut chars = vec ! [ ] ; for ( pattern , value ) in patvals { chars . clear ( ) ; '
           'pattern . as_ref ( ) . chars ( ) . for_each ( | c | chars . push ( c ) ) ; '
           'nfa . add ( & chars , value ) ? ; @LOOP@ } } self . mapper = CodeMapper :: new ( & freqs ) ;')


class Impure(Exception):
    pass


def lean_ty(tag):
    if tag == 'nat': return 'Nat'
    if tag == 'bool': return 'Bool'
    if tag == 'ord': return 'Ordering'
    if tag == 'self': return 'CodeMapper'
    if isinstance(tag, tuple):
        if tag[0] == 'arr': return f'Array {lean_ty_a(tag[1])}'
        if tag[0] in ('list', 'iter'): return f'List {lean_ty_a(tag[1])}'
        if tag[0] == 'pair': return f'{lean_ty_a(tag[1])} × {lean_ty_a(tag[2])}'
    raise TErr(f'no Lean type for a value of kind {tag}')


def lean_ty_a(tag):
    t = lean_ty(tag)
    return f'({t})' if ' ' in t else t


class Cell:
    """element type of a local `vec![]`, fixed by its first `push`."""
    def __init__(self, name): self.name, self.tag = name, None


class Tr:
    def __init__(self, unit, where, fname):
        self.u, self.where, self.fname = unit, where, fname
        self.n, self.nloops, self.nclos, self.defs, self.cells = 0, 0, 0, [], []
        self.pure = False

    def err(self, msg):
        raise TErr(f'{self.where}: {msg}')

    def fresh(self, base):
        self.n += 1
        return f'{base}{self.n}'

    def bind(self, term, pat, rest):
        if self.pure: raise Impure()
        return [f'match {term} with', '| .error e => .error e', f'| .ok {pat} =>'] + ind(rest)

    def ret(self, term):
        return [term] if self.pure else [f'.ok {term}']

    def attempt(self, fn):
        """run `fn` in pure mode; if something in it can fail, run it again in `Except` mode."""
        snap = (self.n, self.nloops, self.nclos, len(self.defs), len(self.cells), [c.tag for c in self.cells])
        old = self.pure
        for pure in (True, False):
            self.pure = pure
            try:
                return pure, fn()
            except Impure:
                self.n, self.nloops, self.nclos = snap[0], snap[1], snap[2]
                del self.defs[snap[3]:]; del self.cells[snap[4]:]
                for c, t in zip(self.cells, snap[5]): c.tag = t
            finally:
                self.pure = old
        self.err('internal: impure in Except mode')

    def tagof(self, tag):
        """resolve the element type of a local vec![]"""
        if isinstance(tag, tuple) and tag[0] in ('list', 'iter') and isinstance(tag[1], Cell):
            if tag[1].tag is None: self.err(f'element type of `{tag[1].name}` is not known yet (no `push` before this use)')
            return (tag[0], tag[1].tag)
        return tag

    def ty(self, tag):
        if isinstance(tag, tuple) and tag[0] == 'list' and isinstance(tag[1], Cell):
            return f'List «ELT:{id(tag[1])}»'
        return lean_ty(tag)

    # ------------------------------------------------------------------ patterns
    def pat(self, p, tag, binds):
        """Lean pattern for the Rust pattern `p` matched against a value of kind `tag` (references erased)."""
        if p[0] == 'pref': return self.pat(p[1], tag, binds)
        if p[0] == 'pwild': return '_'
        if p[0] == 'pid':
            if p[1] in binds: self.err(f'`{p[1]}` bound twice in a pattern')
            binds[p[1]] = tag
            return lname(p[1])
        if p[0] == 'ptuple':
            if not (isinstance(tag, tuple) and tag[0] == 'pair' and len(p[1]) == 2):
                self.err(f'tuple pattern {p} against a value of kind {tag}')
            return '(' + ', '.join(self.pat(q, t, binds) for q, t in zip(p[1], tag[1:])) + ')'
        self.err(f'unsupported pattern form `{p[0]}`')

    # ------------------------------------------------------------------ closures
    def closure_def(self, c, ptags, rtag):
        """a named definition for a closure that captures nothing."""
        if c[0] != 'closure' or len(c[1]) != len(ptags): self.err(f'expected a closure with {len(ptags)} parameter(s)')
        binds = {}
        pats = [self.pat(p, t, binds) for p, t in zip(c[1], ptags)]
        env = {v: ('val', t) for v, t in binds.items()}
        free = [v for v in names_in(c[2]) if v not in env and v not in self.u.consts]
        if free: self.err(f'closure captures {free} (or uses unknown names)')
        old, self.pure = self.pure, True
        try:
            t, tag = self.px(c[2], env)
        except Impure:
            self.err('closure body can fail')
        finally:
            self.pure = old
        if tag != rtag: self.err(f'closure returns a value of kind {tag}, wanted {rtag}')
        name = f'{self.fname}.closure{self.nclos}'; self.nclos += 1
        sig = ' → '.join([lean_ty_a(t) for t in ptags] + [lean_ty(rtag)])
        self.defs.append([f'def {name} : {sig}', f'  | {", ".join(pats)} => {t}'])
        return name

    # ------------------------------------------------------------------ expressions (CPS; k(term, tag) -> lines)
    def px(self, e, env):
        box = []
        def k(t, tag):
            box.append((t, tag)); return ['@']
        lines = self.tx(e, env, k)
        if lines != ['@'] or len(box) != 1: self.err(f'expression with an effect or a failure in a pure position: {e}')
        return box[0]

    def tx_list(self, es, env, k, acc=None):
        acc = acc or []
        if not es: return k(acc)
        return self.tx(es[0], env, lambda t, tag: self.tx_list(es[1:], env, k, acc + [(t, tag)]))

    def tx(self, e, env, k):
        h = e[0]
        if h == 'lit': return k(str(e[1]), 'nat')
        if h == 'path':
            p = e[1]
            if len(p) == 1 and p[0] in env: return k(lname(p[0]), env[p[0]][1])
            if len(p) == 1 and p[0] in self.u.consts: return k(self.u.consts[p[0]], 'nat')
            self.err(f'unknown name `{"::".join(p)}`')
        if h == 'un':
            if e[1] == '&': return self.tx(e[2], env, k)
            self.err(f'unsupported unary operator `{e[1]}`')
        if h == 'tuple':
            if len(e[1]) != 2: self.err('only pairs are supported')
            def kt(ts):
                (ta, tga), (tb, tgb) = ts
                return k(f'({ta}, {tb})', ('pair', tga, tgb))
            return self.tx_list(e[1], env, kt)
        if h == 'bin':
            op = e[1]
            def kab(ts):
                (ta, tga), (tb, tgb) = ts
                if (tga, tgb) != ('nat', 'nat'): self.err(f'`{op}` on {tga} / {tgb}')
                if op == '+': return k(f'({ta} + {tb})', 'nat')
                if op in ('==', '!='): return k(f'({ta} {op} {tb})', 'bool')
                rel = {'<': '<', '<=': '≤', '>': '>', '>=': '≥'}
                if op in rel: return k(f'(decide ({ta} {rel[op]} {tb}))', 'bool')
                self.err(f'unsupported binary operator `{op}`')
            return self.tx_list([e[2], e[3]], env, kab)
        if h == 'call':
            if e[1][0] != 'path': self.err('call of a non-path')
            name = '::'.join(e[1][1])
            if name in ('usize::from_u32', 'u32::from') and len(e[2]) == 1:
                return self.tx(e[2][0], env, lambda t, tag: k(t, 'nat') if tag == 'nat' else self.err(f'{name} of a non-integer'))
            self.err(f'unsupported call `{name}(..)`')
        if h == 'index':
            def ki(ts):
                (tb, tgb), (ti, tgi) = ts
                if tgb != ('arr', 'nat') or tgi != 'nat': self.err(f'indexing a value of kind {tgb} by {tgi}')
                x = self.fresh('x')
                return self.bind(f'Rs.index {tb} {ti}', x, k(x, 'nat'))
            return self.tx_list([e[1], e[2]], env, ki)
        if h == 'mcall': return self.tx_mcall(e, env, k)
        if h == 'struct':
            if e[1] != ['Self']: self.err(f'struct literal of `{"::".join(e[1])}`')
            fields = self.u.self_fields
            if [f for f, _ in e[2]] != list(fields): self.err(f'`Self {{ .. }}` must give the fields {list(fields)} in order')
            def kf(ts):
                for (f, _), (_, tg) in zip(e[2], ts):
                    if tg != fields[f]: self.err(f'field `{f}`: value of kind {tg}, wanted {fields[f]}')
                return k('{ ' + ', '.join(f'{lname(f)} := {t}' for (f, _), (t, _) in zip(e[2], ts)) + ' }', 'self')
            return self.tx_list([x for _, x in e[2]], env, kf)
        self.err(f'unsupported expression form `{h}`')

    def tx_mcall(self, e, env, k):
        recv, m, args = e[1], e[2], e[3]
        # `u32::try_from(n).unwrap()`
        if m == 'unwrap' and args == [] and recv[0] == 'call' and recv[1] == ('path', ['u32', 'try_from']) and len(recv[2]) == 1:
            def ku(t, tag):
                if tag != 'nat': self.err('u32::try_from of a non-integer')
                x = self.fresh('x')
                return self.bind(f'Rs.u32TryFromUnwrap {t}', x, k(x, 'nat'))
            return self.tx(recv[2][0], env, ku)
        def kr(t, tag0):
            tag = self.tagof(tag0) if m != 'push' else tag0
            if m == 'len' and args == []:
                if tag == ('arr', 'nat'): return k(f'{t}.size', 'nat')
                if isinstance(tag, tuple) and tag[0] == 'list': return k(f'{t}.length', 'nat')
            if m == 'iter' and args == []:
                if tag == ('arr', 'nat'): return k(f'{t}.toList', ('iter', 'nat'))
                if isinstance(tag, tuple) and tag[0] == 'list': return k(t, ('iter', tag[1]))
            if m == 'enumerate' and args == [] and isinstance(tag, tuple) and tag[0] == 'iter':
                return k(f'(Rs.enumerate {t})', ('iter', ('pair', 'nat', tag[1])))
            if m == 'filter' and len(args) == 1 and isinstance(tag, tuple) and tag[0] == 'iter':
                name = self.closure_def(args[0], [tag[1]], 'bool')
                return k(f'(List.filter {name} {t})', tag)
            if m == 'cmp' and len(args) == 1 and tag == 'nat':
                return self.tx(args[0], env, lambda t2, tg2: k(f'(Rs.cmpNat {t} {t2})', 'ord') if tg2 == 'nat'
                               else self.err('cmp with a non-integer'))
            if m == 'then_with' and len(args) == 1 and tag == 'ord':
                c = args[0]
                if c[0] != 'closure' or c[1] != []: self.err('then_with needs a closure without parameters')
                t2, tg2 = self.px(c[2], env)
                if tg2 != 'ord': self.err('then_with closure must return an Ordering')
                return k(f'(Rs.thenWith {t} (fun _ => {t2}))', 'ord')
            self.err(f'unsupported method `.{m}(..)` with {len(args)} argument(s) on a value of kind {tag}')
        return self.tx(recv, env, kr)

    # ------------------------------------------------------------------ variables modified by a piece of code
    def modified(self, x, env):
        acc = []
        def root(e):
            while e[0] in ('index', 'field'): e = e[1]
            return e[1][0] if e[0] == 'path' and len(e[1]) == 1 else None
        def f(n):
            v = None
            if n[0] == 'assign': v = root(n[1])
            if n[0] == 'mcall' and n[2] in ('push', 'resize', 'sort_unstable_by') and n[1][0] == 'path' and len(n[1][1]) == 1:
                v = n[1][1][0]
            if v is not None and v not in acc: acc.append(v)
            return n[0] == 'closure'
        walk(x, f)
        return [v for v in env if v in acc] + [v for v in acc if v not in env]

    def tuple_of(self, M):
        return lname(M[0]) if len(M) == 1 else '(' + ', '.join(lname(v) for v in M) + ')'

    def tuple_ty(self, M, env):
        return ' × '.join((self.ty(env[v][1]) if len(M) == 1 else f'({self.ty(env[v][1])})') for v in M)

    # ------------------------------------------------------------------ statements
    def tx_block(self, blk, env, k):
        """k(env, tail_expr_or_None) -> lines"""
        if blk[0] != 'block': self.err('expected a block')
        return self.tx_stmts(blk[1], blk[2], env, k)

    def tx_stmts(self, stmts, tail, env, k):
        if tail is not None and (tail[0] == 'for' or (tail[0] == 'if' and tail[3] is None)):
            stmts, tail = stmts + [('expr', tail)], None       # a unit-valued `for` / `if` in tail position is a statement
        if not stmts: return k(env, tail)
        st, rest = stmts[0], stmts[1:]
        cont = lambda env2: self.tx_stmts(rest, tail, env2, k)
        h = st[0]
        if h == 'let':
            _, pat, mut, ty, init = st
            if pat[0] != 'pid' or init is None or ty is not None: self.err(f'unsupported `let` form: {pat}')
            x = pat[1]
            def bound(t, tag):
                env2 = dict(env); env2[x] = ('mut' if mut else 'val', tag)
                if t == lname(x): return cont(env2)
                return [f'let {lname(x)} := {t}'] + cont(env2)
            if init[0] == 'veclist':
                if init[1] != [] or not mut: self.err('only `let mut x = vec![];` is supported for the list form of vec!')
                cell = Cell(x); self.cells.append(cell)
                env2 = dict(env); env2[x] = ('mut', ('list', cell))
                return [f'let {lname(x)} : {self.ty(("list", cell))} := []'] + cont(env2)
            if init[0] == 'vecrep':
                (tv, tgv), (tn, tgn) = self.px(init[1], env), self.px(init[2], env)
                if (tgv, tgn) != ('nat', 'nat'): self.err('vec![v; n] of non-integers')
                return bound(f'Array.replicate {tn} {tv}', ('arr', 'nat'))
            if init[0] == 'block':
                res = {}
                def fin(env2, tl):
                    if tl is None: self.err('block expression without a value')
                    t, tag = self.px(tl, env2)
                    res['tag'] = self.tagof(tag)
                    return self.ret(t)
                pure, lines = self.attempt(lambda: self.tx_block(init, env, fin))
                env2 = dict(env); env2[x] = ('mut' if mut else 'val', res['tag'])
                if pure: return [f'let {lname(x)} : {lean_ty(res["tag"])} :='] + ind(lines) + cont(env2)
                if self.pure: raise Impure()
                return ([f'match ((', ] + ind(lines, 4) + [f'  ) : Except BuildErr ({lean_ty(res["tag"])})) with',
                        '| .error e => .error e', f'| .ok {lname(x)} =>'] + ind(cont(env2)))
            return self.tx(init, env, lambda t, tag: bound(t, tag))
        if h == 'assign':
            _, lhs, op, rhs = st
            if lhs[0] == 'index' and lhs[1][0] == 'path' and len(lhs[1][1]) == 1 and lhs[1][1][0] in env \
                    and env[lhs[1][1][0]] == ('mut', ('arr', 'nat')) and op in ('=', '+='):
                v = lname(lhs[1][1][0])
                def ka(ts):
                    (ti, tgi), (tv, tgv) = ts
                    if (tgi, tgv) != ('nat', 'nat'): self.err('indexed assignment of non-integers')
                    if op == '=':
                        return self.bind(f'Rs.indexSet {v} {ti} {tv}', v, cont(env))
                    x = self.fresh('x')
                    return self.bind(f'Rs.index {v} {ti}', x, self.bind(f'Rs.indexSet {v} {ti} ({x} + {tv})', v, cont(env)))
                return self.tx_list([lhs[2], rhs], env, ka)
            self.err(f'unsupported assignment: {lhs} {op}')
        if h == 'expr':
            x = st[1]
            if x[0] == 'for': return self.tx_for(x, env, cont)
            if x[0] == 'if': return self.tx_if(x, env, cont)
            if x[0] == 'mcall' and x[1][0] == 'path' and len(x[1][1]) == 1 and x[1][1][0] in env:
                v, m, args = x[1][1][0], x[2], x[3]
                kind, tag = env[v]
                if m in ('push', 'resize', 'sort_unstable_by'):
                    if kind != 'mut': self.err(f'`{v}` is not mutable')
                    if m == 'push' and len(args) == 1 and isinstance(tag, tuple) and tag[0] == 'list':
                        def kp(t, tga):
                            if isinstance(tag[1], Cell):
                                if tag[1].tag is None: tag[1].tag = tga
                                want = tag[1].tag
                            else: want = tag[1]
                            if tga != want: self.err(f'push of a value of kind {tga} onto a list of {want}')
                            return [f'let {lname(v)} := {lname(v)} ++ [{t}]'] + cont(env)
                        return self.tx(args[0], env, kp)
                    if m == 'resize' and len(args) == 2 and tag == ('arr', 'nat'):
                        def kz(ts):
                            (tn, tgn), (tv, tgv) = ts
                            if (tgn, tgv) != ('nat', 'nat'): self.err('resize with non-integers')
                            return [f'let {lname(v)} := Rs.resize {lname(v)} {tn} {tv}'] + cont(env)
                        return self.tx_list(args, env, kz)
                    if m == 'sort_unstable_by' and len(args) == 1 and isinstance(tag, tuple) and tag[0] == 'list':
                        elt = self.tagof(tag)[1]
                        name = self.closure_def(args[0], [elt, elt], 'ord')
                        return [f'let {lname(v)} := Rs.sortUnstableBy {name} {lname(v)}'] + cont(env)
                    self.err(f'unsupported use of `.{m}(..)` on `{v}` of kind {tag}')
            self.err(f'unsupported expression statement `{x[0]}`' + (f' (`.{x[2]}(..)`)' if x[0] == 'mcall' else ''))
        self.err(f'unsupported statement form `{h}`')

    def tx_if(self, e, env, cont):
        _, cond, then, els = e
        if els is not None: self.err('`if` .. `else` as a statement is not supported')
        t, tag = self.px(cond, env)
        if tag != 'bool': self.err('`if` on a non-bool')
        M = self.modified(then, env)
        if not M: self.err('`if` statement without an effect')
        for v in M:
            if v not in env or env[v][0] != 'mut': self.err(f'`{v}` is modified but is not a mutable variable in scope')
        def fin(env2, tl):
            if tl is not None: self.err('`if` statement with a value')
            for v in M:
                if env2[v] != env[v]: self.err(f'`{v}` is shadowed inside an `if`')
            return self.ret(self.tuple_of(M))
        pure, a = self.attempt(lambda: self.tx_block(then, env, fin))
        if pure:
            return [f'let {self.tuple_of(M)} : {self.tuple_ty(M, env)} :=', f'  if {t} then'] + ind(a, 4) + [f'  else {self.tuple_of(M)}'] + cont(env)
        if self.pure: raise Impure()
        return ([f'match ((if {t} then'] + ind(a, 4) + [f'  else .ok {self.tuple_of(M)}',
                 f'  ) : Except BuildErr ({self.tuple_ty(M, env)})) with', '| .error e => .error e',
                 f'| .ok {self.tuple_of(M)} =>'] + ind(cont(env)))

    def tx_for(self, e, env, cont):
        _, pat, it, body = e
        lt, ltag = self.px(it, env)
        ltag = self.tagof(ltag)
        if not (isinstance(ltag, tuple) and ltag[0] in ('iter', 'list')): self.err(f'`for` over a value of kind {ltag}')
        if ltag[0] == 'list' and not (it[0] == 'un' and it[1] == '&'): self.err('`for` over a list must borrow it (`&v`)')
        item = ltag[1]
        bound = {}
        ipat = self.pat(pat, item, bound)
        M = [v for v in self.modified(body, env) if v not in bound]
        if not M: self.err('loop without an effect')
        for v in M:
            if v not in env or env[v][0] != 'mut': self.err(f'`{v}` is modified in a loop but is not a mutable variable in scope')
        F = [v for v in env if v in names_in(body) and v not in M and v not in bound]
        env_in = {v: (('mut' if v in M else 'val'), env[v][1]) for v in env}
        for v, tg in bound.items(): env_in[v] = ('val', tg)
        fargs = ' '.join(lname(v) for v in F)
        def gen():
            name = f'{self.fname}.loop{self.nloops}'; self.nloops += 1
            def rec(env2, tl):
                if tl is not None: self.err('loop body with a value')
                for v in M:
                    if env2[v] != env_in[v]: self.err(f'`{v}` is shadowed inside a loop body')
                return [' '.join([name] + ([fargs] if fargs else []) + ['rest'] + [lname(v) for v in M])]
            slot = len(self.defs); self.defs.append(None)      # placeholder: definitions made by the body go first
            body_lines = self.tx_block(body, env_in, rec)
            return name, slot, body_lines
        pure, (name, slot, body_lines) = self.attempt(gen)
        fx = ' '.join(f'({lname(v)} : {self.ty(env[v][1])})' for v in F)
        tys = [f'List {lean_ty_a(item)}'] + [self.ty(env[v][1]) for v in M]
        rty = self.tuple_ty(M, env)
        ret = rty if pure else f'Except BuildErr ({rty})'
        mpat = ''.join(', ' + lname(v) for v in M)
        base = self.tuple_of(M) if pure else f'.ok {self.tuple_of(M)}'
        d = [f'def {name} ' + (fx + ' ' if fx else '') + ': ' + ' → '.join(tys) + f' → {ret}',
             f'  | []{mpat} => {base}', f'  | {ipat} :: rest{mpat} =>'] + ind(body_lines, 6)
        # definitions made while translating the body (closures, inner loops) must precede the loop
        inner = self.defs[slot + 1:]
        self.defs[slot:] = inner + [d]
        call = ' '.join([name] + ([fargs] if fargs else []) + [lt] + [lname(v) for v in M])
        if pure: return [f'let {self.tuple_of(M)} := {call}'] + cont(env)
        return self.bind(call, self.tuple_of(M), cont(env))

    # ------------------------------------------------------------------ output
    def finish(self, lines):
        text = '\n'.join(lines)
        for c in self.cells:
            if c.tag is None: self.err(f'element type of `{c.name}` is never fixed by a `push`')
            text = text.replace(f'«ELT:{id(c)}»', lean_ty_a(c.tag))
        return text


class Unit:
    def __init__(self, repo, outdir):
        rd = lambda p: open(os.path.join(repo, p), encoding='utf-8').read()
        self.msrc, self.bsrc = rd(SRC_M), rd(SRC_B)
        self.mstructs, self.mfns = parse_items(self.msrc, SRC_M)
        _, self.bfns = parse_items(self.bsrc, SRC_B)
        if 'CodeMapper' not in self.mstructs: raise TErr(f'{SRC_M}: struct CodeMapper not found')
        tymap = {'Vec<u32>': ('arr', 'nat'), 'u32': 'nat'}
        self.self_fields = {}
        for f, ty in self.mstructs['CodeMapper'].items():
            t = ty.replace(' ', '')
            if t not in tymap: raise TErr(f'{SRC_M}: field `CodeMapper.{f}: {ty}` is outside the supported subset')
            self.self_fields[f] = tymap[t]
        m = re.search(r'pub const INVALID_CODE: u32 = ([A-Za-z0-9_:]+);', self.msrc)
        m2 = re.search(r'def invalidCode : Nat := (\d+)', open(os.path.join(outdir, 'Consts.lean')).read())
        if not m or not m2: raise TErr(f'{SRC_M}: INVALID_CODE / Gen.invalidCode not found')
        val = {'u32::MAX': 4294967295}.get(m.group(1), int(m.group(1)) if m.group(1).isdigit() else None)
        if val != int(m2.group(1)): raise TErr(f'{SRC_M}: INVALID_CODE = {m.group(1)} does not agree with Gen/Consts.lean')
        self.consts = {'INVALID_CODE': 'Gen.invalidCode'}

    # ---- (1) CodeMapper::new
    def gen_new(self):
        f = self.mfns.get(('CodeMapper', 'new'))
        if f is None: raise TErr(f'{SRC_M}: CodeMapper::new not found')
        tr = Tr(self, f['where'], 'CodeMapper.new')
        if f['selfkind'] is not None or (f['ret'] or '').strip() != 'Self': tr.err('signature changed')
        env, params = {}, []
        for pn, pty, pmut in f['params']:
            if pmut or pty.replace(' ', '') != '&[u32]': tr.err(f'parameter `{pn}: {pty}` is outside the supported subset')
            env[pn] = ('val', ('arr', 'nat')); params.append(f'({lname(pn)} : Array Nat)')
        body = PD(f['body_toks'], f['where']).block()
        def fin(env2, tl):
            if tl is None: tr.err('the body must end with a value')
            t, tag = None, None
            return tr.tx(tl, env2, lambda t, tag: tr.ret(t) if tag == 'self' else tr.err(f'the body returns a value of kind {tag}'))
        pure, lines = tr.attempt(lambda: tr.tx_block(body, env, fin))
        ret = 'CodeMapper' if pure else 'Except BuildErr CodeMapper'
        out = []
        for d in tr.defs: out += d + ['']
        out += [f'/-- `CodeMapper::new` ({SRC_M}) -/', f'def CodeMapper.new ' + ' '.join(params) + f' : {ret} :='] + ind(lines)
        return tr.finish(out) + '\n'

    # ---- (2) the counting loop
    def gen_count(self):
        f = self.bfns.get((BUILDER, HOST))
        where = f'{SRC_B}:{BUILDER}::{HOST}'
        if f is None: raise TErr(f'{where} not found')
        toks = f['body_toks']
        text = [t[1] for t in toks]
        pre, post = [s.split() for s in CONTEXT.split('@LOOP@')]
        if text[:len(pre)] != pre: raise TErr(f'{where}: the code before the counting loop changed (expected: {" ".join(pre)})')
        i = len(pre)
        if text[i:i + 6] != ['for', '&', 'c', 'in', '&', 'chars']: raise TErr(f'{where}: `for &c in &chars` not found after `nfa.add(&chars, value)?;`')
        j = i
        while text[j] != '{': j += 1
        depth, j = 1, j + 1
        while depth:
            if j >= len(text): raise TErr(f'{where}: unterminated loop')
            if text[j] == '{': depth += 1
            elif text[j] == '}': depth -= 1
            j += 1
        if text[j:j + len(post)] != post: raise TErr(f'{where}: the code after the counting loop changed (expected: {" ".join(post)})')
        blk = PD([('op', '{')] + toks[i:j] + [('op', '}'), ('eof', '')], where).block()
        if not (blk[1] == [] and blk[2] is not None and blk[2][0] == 'for'):
            raise TErr(f'{where}: the counting loop did not parse as one `for` statement')
        # `CodeMapper::new` must take the frequencies as `&[u32]`; `chars` holds the pattern's characters
        tr = Tr(self, where, 'count_chars')
        env = {'freqs': ('mut', ('arr', 'nat')), 'chars': ('val', ('list', 'nat'))}
        def fin(env2, tl):
            return tr.ret('freqs')
        pure, lines = tr.attempt(lambda: tr.tx_stmts(blk[1], blk[2], env, fin))
        ret = 'Array Nat' if pure else 'Except BuildErr (Array Nat)'
        out = []
        for d in tr.defs: out += d + ['']
        out += [f'/-- the loop `for &c in &chars {{ .. }}` of `{BUILDER}::{HOST}` ({SRC_B}) -/',
                f'def count_chars (freqs : Array Nat) (chars : List Nat) : {ret} :='] + ind(lines)
        return tr.finish(out) + '\n'

    def gen_struct(self):
        lines = ['/-- `struct CodeMapper` (' + SRC_M + ') -/', 'structure CodeMapper where']
        for f, tag in self.self_fields.items(): lines.append(f'  {lname(f)} : {lean_ty(tag)}')
        return '\n'.join(lines) + '\n'


HEADER = '''/- GENERATED by tools/map2lean.py from the repository's current source ({srcm}: `CodeMapper::new`;
   {srcb}: the loop `for &c in &chars` of `{builder}::{host}`).  Do not edit.
   Translation rules and their trusted base: see the header of tools/map2lean.py and Daac/Gen/PreludeMap.lean.
   Representation: integers and `char`s are `Nat`; `&[u32]` / `Vec<u32>` is `Array Nat`; the local `sorted` is a
   `List (Nat × Nat)`; `sort_unstable_by` is insertion sort with the translated comparator (`Rs.sortUnstableBy`);
   `unwrap` of `u32::try_from` and out-of-range indexing are `Except BuildErr`.
-/
import Daac.Gen.PreludeMap
set_option linter.unusedVariables false
namespace Daac.Gen.M
open Daac

'''


def main():
    repo = sys.argv[1] if len(sys.argv) > 1 else '/repo'
    outdir = sys.argv[2] if len(sys.argv) > 2 else os.path.join(os.path.dirname(os.path.abspath(__file__)), '..', 'lean', 'Daac', 'Gen')
    u = Unit(repo, outdir)
    body = u.gen_struct() + '\n' + u.gen_new() + '\n' + u.gen_count()
    text = HEADER.format(srcm=SRC_M, srcb=SRC_B, builder=BUILDER, host=HOST) + body + '\nend Daac.Gen.M\n'
    path = os.path.join(outdir, 'MapperNew.lean')
    if not os.path.exists(path) or open(path).read() != text:
        with open(path, 'w') as fh: fh.write(text)
    defs = {}
    for chunk in re.split(r'\n(?=/-- |def |structure )', body):
        m = re.search(r'^(?:def|structure) (\S+)', chunk, re.M)
        if m: defs['M.' + m.group(1)] = hashlib.sha1(chunk.strip().encode()).hexdigest()[:16]
    jtext = json.dumps(defs, indent=1, sort_keys=True) + '\n'
    jpath = os.path.join(outdir, 'map_defs.json')
    if not os.path.exists(jpath) or open(jpath).read() != jtext:
        open(jpath, 'w').write(jtext)
    print('map2lean: ok')


if __name__ == '__main__':
    try:
        main()
    except TErr as ex:
        print(f'map2lean: {ex}')
        sys.exit(2)

#!/usr/bin/env python3
"""top2lean.py — translator from the Rust text of the two top-level functions of the byte-wise builder
(`DoubleArrayAhoCorasickBuilder::{build_sparse_nfa, build_with_values}`, src/bytewise/builder.rs) to
Lean 4 (`lean/Daac/Gen/BuildTopB.lean`, namespace `Daac.Gen.TB`).  `Daac/Proofs/TieTop.lean` relates the
generated definitions to the hand-written sequencing glue `Tie.P.genBuildB` (Proofs/TieP.lean) and,
through it, to the model `buildDA .bytewise` (Daac/Model/Build.lean).

Every run re-reads the repository's current source text, parses the two function bodies with the Rust
parser of tools/rs2lean.py (as extended by nfa2lean.py / dbl2lean.py, and here by `match`) and translates
the AST by a syntax-directed translation.  The translation is STRICT: a statement / expression / method /
pattern form that is not explicitly listed below raises `TErr` (exit status 2); nothing is skipped or
guessed.  The functions they call are NOT re-translated: the generated Lean signatures of
`NfaBuilder::{new, add, build_fails, build_fails_leftmost, build_outputs}` (Gen/Nfa.lean) and of
`build_double_array` (Gen/BuildB.lean) are read from the generated files and checked against the Rust
signatures (parameter names and kinds, `&mut self`, the number of result components).

Translation rules (trusted base, with lean/Daac/Gen/PreludeNfa.lean):

 * `patvals: I` with `I: IntoIterator<Item = (P, V)>`, `P: AsRef<[u8]>` (the `where` clause is checked)
   is `List (List Nat × V)`: a pattern is the list of its bytes, `pattern.as_ref()` is the identity;
 * integers (`u32`, `usize`) are `Nat`; `usize::from_u32(x)` and references are erased; `U24::MAX` is
   `Gen.u24Max` (src/intpack.rs, checked against Gen/Consts.lean); `a - b` on `usize` is guarded:
   underflow is `BuildErr.panic` (the debug-build behaviour; proved unreachable in Proofs/TieTop.lean);
 * `BytewiseNfaBuilder<V>` is `NfaBuilder<u8, V>` (the alias is checked) = `N.NfaBuilder V`; the
   label-width parameter `nb` of the generated `add` is `fun _ => n` where `n` is the literal returned by
   `impl EdgeLabel for u8 { fn num_bytes(&self) -> usize { n } }` (src/nfa_builder.rs, re-read here);
 * `MatchKind` is its byte; `match self.match_kind { A | B => e, .. }` is an if-chain over the arms in
   order, each variant compared through its discriminant in `Gen.kindBytes` (Gen/Consts.lean, from
   `impl From<MatchKind> for u8`); an unknown variant name, a repeated or a missing variant is an error;
   the chain ends in `BuildErr.panic` (a byte that is no `MatchKind`; unreachable for kinds 0..2);
 * `&mut self` / `mut self` / `let mut` locals are threaded: a call returns the new values next to its
   result; a `&self` method of `NfaBuilder` whose generated signature returns a new builder (`build_fails`,
   `build_fails_leftmost`: writes through the `RefCell`s of `states`) threads its receiver as well; `Result` + `?` + `return Err(..)` are `Except BuildErr`; `DaachorseError::ctor(..)` keeps the
   error KIND only (src/errors.rs is checked: `ctor` builds the variant of that name);
   `u32::try_from(x).map_err(|_| e)?` is `Rs.mapErr (Rs.u32TryFrom x) e`;
 * `for (p, v) in patvals { .. }` is structural recursion over the list, over the variables the body
   modifies; `if c { return Err(e); }` is `if c then .error e else <rest>`;
 * the struct literal `DoubleArrayAhoCorasick { .. }` builds the generated structure
   `TB.DoubleArrayAhoCorasick V` whose fields (names, order, types) are read from src/bytewise.rs.

THE CHAR-WISE UNIT (`CharwiseDoubleArrayAhoCorasickBuilder::{build_original_nfa_and_mapper,
build_with_values}`, src/charwise/builder.rs -> `lean/Daac/Gen/BuildTopC.lean`, namespace `Daac.Gen.TC`;
`Daac/Proofs/TieTopC.lean` relates it to the glue `Tie.PC.genBuildC` / `addCountAllGen` and to the model
`buildDA .charwise`) is translated by the same code under the profile `charwise`; the rules above apply,
with these differences and additions:

 * `P: AsRef<str>`: a pattern is the `List Nat` of its code points (Unicode scalar values);
   `pattern.as_ref()` is the identity and `.chars()` iterates that list in order;
   `it.for_each(|c| v.push(c))` is `List.foldl (fun v c => v ++ [c]) v it`;
 * `CharwiseNfaBuilder<V>` is `NfaBuilder<char, V>` (alias checked); `nb` of `add` is `Rs.lenUtf8`
   (Gen/Prelude.lean, `char::len_utf8`) because `impl EdgeLabel for char` returns `self.len_utf8()`;
 * `let mut x = vec![];` takes its type from the parameter to which `&x` is passed (`nfa.add(&chars, ..)`:
   `&[L]` = `List Nat`; `CodeMapper::new(&freqs)`: `&[u32]` = `Array Nat`); `x.clear()` is `let x := []`;
 * a block statement `{ .. }` is its statements; its locals go out of scope at the end;
 * the inner loop `for &c in &chars { .. freqs[c] += 1 }` is NOT re-translated: it is the loop that
   tools/map2lean.py translates into `M.count_chars` (Gen/MapperNew.lean).  Cross-check on every run:
   map2lean's own extraction of that loop from the current text (which pins the token text around it) is
   re-run here and its output must occur verbatim in Gen/MapperNew.lean; the loop must be the last statement
   of the pattern loop, after `nfa.add(&chars, value)?`, iterate `&chars`, and name no variable but `freqs`;
 * `self.mapper = CodeMapper::new(&freqs)`: the generated `M.CodeMapper.new` (Gen/MapperNew.lean; fallible:
   its `unwrap`s) returns the generated `M.CodeMapper`, while Gen/LayoutC.lean represents the same Rust
   struct by the model's record `Mapper`; the value is converted field by field by the generated
   `TC.CodeMapper.repr` (the fields of `struct CodeMapper`, src/charwise/mapper.rs, are checked);
 * `&mut self` functions return the new builder next to their result;
 * the result structure `TC.CharwiseDoubleArrayAhoCorasick V` is read from src/charwise.rs.

THE ENTRY POINT `build` of both builders (`pub fn build<I, P, V>(self, patterns: I)`, `I: IntoIterator<Item = P>`,
`V: Copy + TryFrom<usize>`; generated `Builder.build` at the end of each unit; Daac/Proofs/TieTopBuild.lean relates it
to the model `buildPositions`).  Its body is matched TOKEN BY TOKEN against

    let patvals: Vec<_> = patterns.into_iter().enumerate().map(|(i, p)| V::try_from(i).map(|i| (p, i)))
        .collect::<Result<_, _>>().map_err(|_| DaachorseError::ctor("..", ..))?;
    self.build_with_values(patvals)

(only the variable names, the constructor `ctor` -- looked up in src/errors.rs -- and its string literals are free;
any other deviation is an error).  Trusted meaning (prelude of this unit, emitted as `enumTryCollect` into both
generated files): `V::try_from` is a parameter `conv : Nat -> Option V` (`none` = `Err`); `patterns` is
`List (List Nat)`; `into_iter().enumerate().map(..).collect::<Result<Vec<_>, _>>()` is the left-to-right traversal
`enumTryCollect conv 0 patterns` that pairs every pattern with its converted position and stops at the first
position that does not convert; `.map_err(|_| e)?` turns that `none` into the error kind of `e`; the tail call is
the translated `build_with_values` of the same unit (signature checked).

Usage: top2lean.py [repo_root] [out_dir]
"""
import os, re, sys, json, hashlib
sys.path.insert(0, os.path.dirname(os.path.abspath(__file__)))
from rs2lean import parse_items, TErr, lname, lex
from nfa2lean import ind
from dbl2lean import PD, walk

SRC = 'src/bytewise/builder.rs'
BUILDER = 'DoubleArrayAhoCorasickBuilder'
RESULT = 'DoubleArrayAhoCorasick'
FUNCS = ['build_sparse_nfa', 'build_with_values']
RES_SRC = 'src/bytewise.rs'
ALIAS = 'BytewiseNfaBuilder'
LABEL = 'u8'
NS, DNS = 'TB', 'DB.'
BUILD_LEAN, LAYOUT_LEAN = 'BuildB.lean', 'LayoutB.lean'
IMPORTS = ('DoubleArrayAhoCorasick', 'MatchKind', 'DaachorseError', 'Result', 'U24', 'NfaBuilder', 'FromU32')
PAT_TAG = 'bytes'
OUT = 'BuildTopB.lean'

PROFILES = {
    'bytewise': dict(SRC=SRC, BUILDER=BUILDER, RESULT=RESULT, FUNCS=FUNCS, RES_SRC=RES_SRC, ALIAS=ALIAS, LABEL=LABEL, NS=NS,
                     DNS=DNS, BUILD_LEAN=BUILD_LEAN, LAYOUT_LEAN=LAYOUT_LEAN, IMPORTS=IMPORTS, PAT_TAG=PAT_TAG, OUT=OUT,
                     ASREF=r'\[\s*u8\s*\]'),
    'charwise': dict(SRC='src/charwise/builder.rs', BUILDER='CharwiseDoubleArrayAhoCorasickBuilder',
                     RESULT='CharwiseDoubleArrayAhoCorasick', FUNCS=['build_original_nfa_and_mapper', 'build_with_values'],
                     RES_SRC='src/charwise.rs', ALIAS='CharwiseNfaBuilder', LABEL='char', NS='TC', DNS='DC.',
                     BUILD_LEAN='BuildC.lean', LAYOUT_LEAN='LayoutC.lean',
                     IMPORTS=('CharwiseDoubleArrayAhoCorasick', 'CodeMapper', 'MatchKind', 'DaachorseError', 'Result', 'NfaBuilder', 'FromU32'),
                     PAT_TAG='str', OUT='BuildTopC.lean', ASREF=r'str'),
}

def set_profile(name):
    """the unit being translated: rebinds the module-level names above (the code below reads them)."""
    g = globals()
    for k, v in PROFILES[name].items():
        if k != 'ASREF': g[k] = v
    g['PROFILE'] = name
    g['WHERE_CLAUSE'] = WHERE_TEMPLATE.replace('@ASREF@', PROFILES[name]['ASREF'])
    LEAN_TY['da'] = f'{RESULT} V'
PROFILE = 'bytewise'

# type tags -> Lean types
LEAN_TY = {'nat': 'Nat', 'bool': 'Bool', 'kind': 'Nat', 'self': 'Builder', 'patvals': 'List (List Nat × V)',
           'bytes': 'List Nat', 'V': 'V', 'nfa': 'NfaBuilder V', 'queue': 'Array Nat', 'unit': 'Unit',
           'states': 'Array St', 'nstates': 'Array (NfaBuilderState V)', 'outputs': 'Array (Rs.Output V)',
           'da': 'DoubleArrayAhoCorasick V', 'str': 'List Nat', 'mapper': 'Mapper'}

# Rust types (spaces removed, leading reference stripped) -> tag
RUST_TY = {'u32': 'nat', 'usize': 'nat', 'MatchKind': 'kind', 'Vec<State>': 'states', 'V': 'V', '[L]': 'bytes',
           'Vec<Output<V>>': 'outputs', 'Vec<u32>': 'queue', '[u32]': 'queue', '()': 'unit', 'Self': 'Self',
           'BytewiseNfaBuilder<V>': 'nfa', 'Vec<RefCell<NfaBuilderState<L,V>>>': 'nstates',
           'DoubleArrayAhoCorasick<V>': 'da', 'I': 'patvals',
           'CharwiseNfaBuilder<V>': 'nfa', 'CharwiseDoubleArrayAhoCorasick<V>': 'da', 'CodeMapper': 'mapper'}

WHERE_TEMPLATE = r'where\s*I\s*:\s*IntoIterator\s*<\s*Item\s*=\s*\(\s*P\s*,\s*V\s*\)\s*>\s*,\s*P\s*:\s*AsRef\s*<\s*@ASREF@\s*>\s*,\s*V\s*:\s*Copy\s*,?\s*\{'
WHERE_CLAUSE = WHERE_TEMPLATE.replace('@ASREF@', r'\[\s*u8\s*\]')


class PT(PD):
    """dbl2lean's parser + `match SCRUT { PAT | PAT => EXPR, .. }`."""
    def primary(self, nostruct):
        if self.peek() == ('id', 'match'):
            self.next()
            scrut = self.expr(nostruct=True)
            self.expect('{')
            arms = []
            while not self.at('}'):
                pats = [self.pattern()]
                while self.at('|'):
                    self.next(); pats.append(self.pattern())
                if self.at('if'): raise TErr(f'{self.where}: `match` guards are not in the supported subset')
                self.expect('=>')
                body = self.expr()
                if self.at(','): self.next()
                elif not self.at('}') and body[0] != 'block':
                    raise TErr(f'{self.where}: expected `,` after a `match` arm')
                arms.append((pats, body))
            self.expect('}')
            return ('match', scrut, arms)
        return super().primary(nostruct)


def rust_tag(ty, where):
    t = re.sub(r"^&('[a-z_]+)?(mut)?", '', (ty or '()').replace(' ', ''))
    if t not in RUST_TY: raise TErr(f'{where}: type `{ty}` is outside the supported subset')
    return RUST_TY[t]


def split_result(ret):
    r = (ret or '()').replace(' ', '')
    if r.startswith('Result<') and r.endswith('>'): return True, r[len('Result<'):-1]
    return False, r


class Unit:
    def __init__(self, repo, outdir):
        rd = lambda p: open(os.path.join(repo, p), encoding='utf-8').read()
        self.src = rd(SRC)
        self.structs, self.fns = parse_items(self.src, SRC)
        self.nsrc = rd('src/nfa_builder.rs')
        self.nstructs, self.nfns = parse_items(self.nsrc, 'src/nfa_builder.rs')
        self.bstructs, _ = parse_items(rd(RES_SRC), RES_SRC)
        if BUILDER not in self.structs: raise TErr(f'{SRC}: struct {BUILDER} not found')
        if RESULT not in self.bstructs: raise TErr(f'{RES_SRC}: struct {RESULT} not found')
        if 'NfaBuilder' not in self.nstructs: raise TErr('src/nfa_builder.rs: struct NfaBuilder not found')
        if not re.search(rf'type\s+{ALIAS}\s*<\s*V\s*>\s*=\s*NfaBuilder\s*<\s*{LABEL}\s*,\s*V\s*>\s*;', self.src):
            raise TErr(f'{SRC}: `type {ALIAS}<V> = NfaBuilder<{LABEL}, V>` not found')
        head = self.src.split('impl')[0]
        for n in IMPORTS:
            if not re.search(rf'\b{n}\b', head): raise TErr(f'{SRC}: {n} is not imported')
        consts_lean = open(os.path.join(outdir, 'Consts.lean')).read()
        # U24::MAX
        m = re.search(r'pub const MAX: u32 = (0x[0-9a-fA-F_]+|\d+);', rd('src/intpack.rs'))
        m2 = re.search(r'def u24Max : Nat := (\d+)', consts_lean)
        if not m or not m2 or int(m.group(1).replace('_', ''), 0) != int(m2.group(1)):
            raise TErr('src/intpack.rs: U24::MAX does not agree with Gen/Consts.lean')
        self.consts = {'U24::MAX': 'Gen.u24Max'}
        # MatchKind discriminants
        mk = re.search(r'def kindBytes.*', consts_lean)
        if not mk: raise TErr('Gen/Consts.lean: kindBytes not found')
        self.kinds = [(n, int(b)) for n, b in re.findall(r'\("(\w+)", (\d+)\)', mk.group(0))]
        if not self.kinds: raise TErr('Gen/Consts.lean: kindBytes is empty')
        # label width: `impl EdgeLabel for u8` (a literal) / `impl EdgeLabel for char` (`self.len_utf8()`)
        f = self.nfns.get((LABEL, 'num_bytes'))
        if f is None or f['trait'] != 'EdgeLabel': raise TErr(f'src/nfa_builder.rs: `impl EdgeLabel for {LABEL}` not found')
        b = PT(f['body_toks'], f['where']).block()
        if LABEL == 'u8':
            if not (b[0] == 'block' and b[1] == [] and b[2] and b[2][0] == 'lit'):
                raise TErr('src/nfa_builder.rs: `<u8 as EdgeLabel>::num_bytes` is not a literal')
            self.nb = f'(fun _ => {b[2][1]})'
        else:
            if b != ('block', [], ('mcall', ('path', ['self']), 'len_utf8', [])):
                raise TErr('src/nfa_builder.rs: `<char as EdgeLabel>::num_bytes` is not `self.len_utf8()`')
            if not re.search(r'/-- `char::len_utf8`\. -/\ndef lenUtf8 \(c : Nat\) : Nat :=', open(os.path.join(outdir, 'Prelude.lean')).read()):
                raise TErr('Gen/Prelude.lean does not define `lenUtf8` (`char::len_utf8`)')
            self.nb = 'Rs.lenUtf8'
        # error constructors
        esrc = rd('src/errors.rs')
        self.err_ctors = {}
        for fn, var in re.findall(r'fn (\w+)\([^)]*\) -> Self \{\s*Self::(\w+)\(', esrc):
            self.err_ctors[fn] = '.' + var[0].lower() + var[1:]
        self.lean_text = {'NfaBuilder': open(os.path.join(outdir, 'Nfa.lean')).read(),
                          BUILDER: open(os.path.join(outdir, BUILD_LEAN)).read()}
        self.layout_text = open(os.path.join(outdir, LAYOUT_LEAN)).read()
        self.prelude = open(os.path.join(outdir, 'PreludeNfa.lean')).read()
        self.own = {}          # functions of this unit, once translated: name -> lean signature dict
        self.check_builder_struct()
        if PROFILE == 'charwise': self.init_charwise(repo, outdir, rd)

    def init_charwise(self, repo, outdir, rd):
        """`CodeMapper` (src/charwise/mapper.rs) and the generated unit Gen/MapperNew.lean (tools/map2lean.py)."""
        msrc = 'src/charwise/mapper.rs'
        self.mstructs, self.mfns = parse_items(rd(msrc), msrc)
        want = {'table': 'Vec<u32>', 'alphabet_size': 'u32'}
        got = {f: t.replace(' ', '') for f, t in self.mstructs.get('CodeMapper', {}).items()}
        if got != want: raise TErr(f'{msrc}: fields of `struct CodeMapper` are {got}, expected {want}')
        self.map_text = open(os.path.join(outdir, 'MapperNew.lean')).read()
        if not re.search(r'^structure CodeMapper where\n  table : Array Nat\n  alphabet_size : Nat\n', self.map_text, re.M):
            raise TErr('Gen/MapperNew.lean: structure CodeMapper (table : Array Nat, alphabet_size : Nat) not found')
        model = open(os.path.join(outdir, '..', 'Model', 'Build.lean')).read()
        if not re.search(r'^structure Mapper where\n  table : Array Nat\n  alphaSize : Nat\n', model, re.M):
            raise TErr('Model/Build.lean: structure Mapper (table : Array Nat, alphaSize : Nat) not found')
        self.lean_text['CodeMapper'] = self.map_text
        # the counting loop: what map2lean generates from the CURRENT text must be what Gen/MapperNew.lean contains
        import map2lean
        chunk = map2lean.Unit(repo, outdir).gen_count()
        if chunk.strip() not in self.map_text:
            raise TErr('Gen/MapperNew.lean: `count_chars` is not what tools/map2lean.py generates from the current counting loop (re-run map2lean.py)')
        if not re.search(r'^def count_chars \(freqs : Array Nat\) \(chars : List Nat\) : Except BuildErr \(Array Nat\) :=$', self.map_text, re.M):
            raise TErr('Gen/MapperNew.lean: unexpected signature of `count_chars`')

    def check_builder_struct(self):
        """the generated `LB.Builder` has the fields of the Rust builder, in order."""
        m = re.search(r'^structure Builder where\n((?:  \w+ : .*\n)+)', self.layout_text, re.M)
        if not m: raise TErr(f'Gen/{LAYOUT_LEAN}: structure Builder not found')
        lean_fields = re.findall(r'^  (\w+) : (.*)$', m.group(1), re.M)
        rust_fields = [(f, LEAN_TY[rust_tag(t, f'{BUILDER}.{f}')]) for f, t in self.structs[BUILDER].items()]
        if lean_fields != rust_fields: raise TErr(f'{SRC}: fields of {BUILDER} do not agree with Gen/{LAYOUT_LEAN}')

    def field(self, tag, fld, tr):
        table = {'self': (self.structs, BUILDER), 'nfa': (self.nstructs, 'NfaBuilder')}
        if tag not in table: tr.err(f'field `.{fld}` of a value of kind {tag}')
        structs, name = table[tag]
        if fld not in structs[name]: tr.err(f'{name} has no field `{fld}`')
        return rust_tag(structs[name][fld], f'{name}.{fld}')

    def rust_sig(self, owner, m, tr):
        f = (self.nfns if owner == 'NfaBuilder' else self.mfns if owner == 'CodeMapper' else self.fns).get((owner, m))
        if f is None: tr.err(f'method `{owner}::{m}` not found')
        result, inner = split_result(f['ret'])
        params = []
        for pn, pty, pmut in f['params']:
            if pty.replace(' ', '').startswith('&mut'): tr.err(f'`{owner}::{m}`: `&mut` parameter `{pn}`')
            params.append((pn, rust_tag(pty, f'{owner}::{m}')))
        return dict(selfkind=f['selfkind'], params=params, result=result, rtag=rust_tag(inner, f'{owner}::{m}'))

    def threads(self, owner, m, tr):
        """the call returns a new value of its receiver: `&mut self`, or `&self` of `NfaBuilder` writing through the
        `RefCell`s of `states` (interior mutability; then the generated signature has the extra component)."""
        sig = self.rust_sig(owner, m, tr)
        if sig['selfkind'] == 'mut': return True
        if sig['selfkind'] == 'ref' and owner == 'NfaBuilder' and 'RefCell' in self.nstructs['NfaBuilder'].get('states', ''):
            lean = self.lean_sig(owner, m, tr)
            return lean['fallible'] and len(lean['comps']) == 2 and lean['comps'][-1] == LEAN_TY['nfa']
        return False

    def lean_sig(self, owner, m, tr):
        """generated signature: explicit parameters (name, type) and result components."""
        if owner == BUILDER and m in self.own: return self.own[m]
        if owner not in self.lean_text: tr.err(f'no generated file for `{owner}`')
        short = 'Builder' if owner == BUILDER else owner
        mm = re.search(rf'^def {short}\.{lname(m)} (.*?) : ([^:\n]*) :=$', self.lean_text[owner], re.M)
        if not mm: tr.err(f'`{owner}::{m}` has no generated definition (Gen/Nfa.lean / Gen/{BUILD_LEAN})')
        params = re.findall(r'\((\w+) : ([^()]*(?:\([^()]*\)[^()]*)*)\)', mm.group(1))
        return self.mk_lean_sig(('N.' if owner == 'NfaBuilder' else 'M.' if owner == 'CodeMapper' else DNS) + f'{short}.{lname(m)}', params, mm.group(2).strip())

    def mk_lean_sig(self, name, params, ret):
        fallible = ret.startswith('Except BuildErr ')
        inner = ret[len('Except BuildErr '):].strip() if fallible else ret
        if inner.startswith('(') and inner.endswith(')') and inner.count('(') == inner.count(')') and '×' in inner: inner = inner[1:-1]
        comps, depth, cur = [], 0, ''
        for ch in inner:
            if ch == '(': depth += 1
            if ch == ')': depth -= 1
            if ch == '×' and depth == 0: comps.append(cur.strip()); cur = ''
            else: cur += ch
        comps.append(cur.strip())
        return dict(name=name, params=params, ret=ret, fallible=fallible, comps=[c.strip('()') if c.startswith('(') and c.endswith(')') else c for c in comps])


class Tr:
    def __init__(self, unit, f):
        self.u, self.f, self.where = unit, f, f['where']
        self.n, self.nloops, self.loops = 0, 0, []
        self.after_add = False
        self.lean_name = 'Builder.' + lname(f['name'])

    def err(self, msg):
        raise TErr(f'{self.where}: {msg}')

    def fresh(self, base):
        self.n += 1
        return f'{base}{self.n}'

    def ty(self, tag):
        if tag not in LEAN_TY: self.err(f'no Lean type for a value of kind {tag}')
        return LEAN_TY[tag]

    def bind(self, term, pat, rest):
        return [f'match {term} with', '| .error e => .error e', f'| .ok {pat} =>'] + ind(rest)

    def var_of(self, e):
        if e[0] == 'un' and e[1] == '&': e = e[2]
        return e[1][0] if e[0] == 'path' and len(e[1]) == 1 else None

    # ------------------------------------------------------------------ variables modified by a piece of code
    def modified(self, x, env):
        acc = []
        def f(n):
            if n[0] == 'for' and n[1][0] == 'pref':
                # the counting loop (`M.count_chars`): modifies `freqs` only (checked in tx_count); not descended into
                if PROFILE != 'charwise': self.err('`for &x in ..` is not in the supported subset')
                if 'freqs' not in acc: acc.append('freqs')
                return True
            if n[0] == 'assign': self.err('assignments are not in the supported subset here')
            if n[0] == 'mcall':
                v = self.var_of(n[1])
                if v in env and env[v][1] in ('self', 'nfa'):
                    owner = BUILDER if env[v][1] == 'self' else 'NfaBuilder'
                    if self.u.threads(owner, n[2], self) and v not in acc: acc.append(v)
                if v in env and env[v][1] == 'bytes' and n[2] in ('clear', 'push') and n[1][0] == 'path' and v not in acc: acc.append(v)
            return False
        walk(x, f)
        return [v for v in env if v in acc]

    # ------------------------------------------------------------------ error values
    def err_value(self, e):
        """`DaachorseError::ctor(args)`: the kind only; the arguments must be literals / `X::MAX` constants."""
        if not (e[0] == 'call' and e[1][0] == 'path' and len(e[1][1]) == 2 and e[1][1][0] == 'DaachorseError'):
            self.err(f'unsupported error value: {e}')
        ctor = e[1][1][1]
        if ctor not in self.u.err_ctors: self.err(f'src/errors.rs: unknown error constructor `{ctor}`')
        for a in e[2]:
            if a[0] not in ('str', 'lit') and not (a[0] == 'path' and len(a[1]) == 2 and a[1][1] == 'MAX'):
                self.err(f'argument of `DaachorseError::{ctor}` that is not a literal: {a}')
        return self.u.err_ctors[ctor]

    # ------------------------------------------------------------------ expressions (CPS; k(term, tag) -> lines)
    def px(self, e, env):
        box = []
        def k(t, tag):
            box.append((t, tag)); return ['@']
        lines = self.tx(e, env, k)
        if lines != ['@'] or len(box) != 1: self.err(f'expression with an effect or a failure in a pure position: {e}')
        return box[0]

    def tx_list(self, es, env, k, acc=None):
        acc = acc or []
        if not es: return k(acc)
        return self.tx(es[0], env, lambda t, tag: self.tx_list(es[1:], env, k, acc + [(t, tag)]))

    def tx(self, e, env, k):
        h = e[0]
        if h == 'lit': return k(str(e[1]), 'nat')
        if h == 'path':
            p = e[1]
            if len(p) == 1 and p[0] in env:
                if env[p[0]][0] == 'moved': self.err(f'use of `{p[0]}` after it was moved')
                return k(lname(p[0]), env[p[0]][1])
            if '::'.join(p) in self.u.consts: return k(self.u.consts['::'.join(p)], 'nat')
            self.err(f'unknown name `{"::".join(p)}`')
        if h == 'un':
            if e[1] == '&': return self.tx(e[2], env, k)
            self.err(f'unsupported unary operator `{e[1]}`')
        if h == 'bin':
            op = e[1]
            def kab(ts):
                (ta, tga), (tb, tgb) = ts
                if (tga, tgb) != ('nat', 'nat'): self.err(f'`{op}` on {tga} / {tgb}')
                if op in ('==', '!='): return k(f'({ta} {op} {tb})', 'bool')
                rel = {'<': '<', '<=': '≤', '>': '>', '>=': '≥'}
                if op in rel: return k(f'(decide ({ta} {rel[op]} {tb}))', 'bool')
                if op == '+': return k(f'({ta} + {tb})', 'nat')
                if op == '-':
                    return [f'if (decide ({tb} ≤ {ta})) then'] + ind(k(f'({ta} - {tb})', 'nat')) + \
                           ['else', '  .error (.panic "attempt to subtract with overflow")']
                self.err(f'unsupported binary operator `{op}`')
            return self.tx_list([e[2], e[3]], env, kab)
        if h == 'call':
            if e[1][0] != 'path': self.err('call of a non-path')
            name = '::'.join(e[1][1])
            if name == 'usize::from_u32' and len(e[2]) == 1:
                return self.tx(e[2][0], env, lambda t, tag: k(t, 'nat') if tag == 'nat' else self.err(f'{name} of a non-integer'))
            if name == 'u32::try_from' and len(e[2]) == 1:
                if not re.search(r'^def u32TryFrom ', self.u.prelude, re.M): self.err('Gen/PreludeNfa.lean does not define u32TryFrom')
                return self.tx(e[2][0], env, lambda t, tag: k(f'(Rs.u32TryFrom {t})', ('tryres', 'nat')) if tag == 'nat' else self.err(f'{name} of a non-integer'))
            if name == ALIAS + '::new':
                return self.tx_call('NfaBuilder', 'new', None, e[2], env, k, under_try=False)
            if name == 'CodeMapper::new' and PROFILE == 'charwise':
                # generated `M.CodeMapper` -> the `Mapper` record of Gen/LayoutC.lean, field by field (`CodeMapper.repr`)
                return self.tx_call('CodeMapper', 'new', None, e[2], env, lambda t, tag: k(f'(CodeMapper.repr {t})', 'mapper') if tag == 'mapper' else self.err('CodeMapper::new'), under_try=False)
            self.err(f'unsupported call `{name}(..)`')
        if h == 'field':
            def kf(t, tag):
                return k(f'{t}.{lname(e[2])}', self.u.field(tag, e[2], self))
            return self.tx(e[1], env, kf)
        if h == 'try':
            x = e[1]
            if x[0] != 'mcall': self.err('`?` on something that is not a method call')
            if x[2] == 'map_err':
                def km(t, tag):
                    if not (isinstance(tag, tuple) and tag[0] == 'result'): self.err('`?` on a non-`Result`')
                    v = self.fresh('v')
                    return self.bind(t, v, k(v, tag[1]))
                return self.tx_mcall(x, env, km, under_try=False)
            return self.tx_mcall(x, env, k, under_try=True)
        if h == 'mcall': return self.tx_mcall(e, env, k, under_try=False)
        if h == 'veclist' and e[1] == []: self.err('`vec![]` outside `let mut x = vec![];`')
        if h == 'match': return self.tx_match(e, env, k)
        if h == 'struct': return self.tx_struct(e, env, k)
        self.err(f'unsupported expression form `{h}`')

    def tx_call(self, owner, m, recv, args, env, k, under_try):
        """a call of a generated function: `recv.m(args)` or the associated function `Owner::m(args)`."""
        sig, lean = self.u.rust_sig(owner, m, self), self.u.lean_sig(owner, m, self)
        if sig['result'] and not under_try: self.err(f'`Result` of `{m}(..)` is neither propagated by `?` nor handled')
        if under_try and not sig['result']: self.err(f'`?` on `{m}(..)`, which does not return a `Result`')
        if len(args) != len(sig['params']): self.err(f'arity of `{m}`')
        lparams = list(lean['params'])
        terms, muts = [], []
        if lparams and lparams[0] == ('nb', 'Nat → Nat'):
            terms.append(self.u.nb); lparams = lparams[1:]
        if recv is None:
            if sig['selfkind'] is not None: self.err(f'`{owner}::{m}` takes `self` but is called as an associated function')
        else:
            if sig['selfkind'] not in ('ref', 'mut'): self.err(f'`{m}` does not take `&self` / `&mut self`')
            if not lparams or lparams[0][0] != 'self': self.err(f'generated `{lean["name"]}` has no `self` parameter')
            want = self.ty('self' if owner == BUILDER else 'nfa')
            if lparams[0][1] != want: self.err(f'generated `{lean["name"]}`: self of type {lparams[0][1]}, wanted {want}')
            lparams = lparams[1:]
            terms.append(lname(recv))
            if self.u.threads(owner, m, self):
                if env[recv][0] != 'mut' and sig['selfkind'] == 'mut': self.err(f'`{recv}` is modified by `{m}` but is not mutable here')
                muts.append(recv)
        if [p[0] for p in lparams] != [lname(pn) for pn, _ in sig['params']]:
            self.err(f'generated `{lean["name"]}`: parameters {lparams} do not agree with the Rust signature')
        for a, (pn, ptag), (_, lty) in zip(args, sig['params'], lparams):
            t, tag = self.px(a, env)
            if tag != ptag: self.err(f'argument `{pn}` of `{m}`: {tag} for {ptag}')
            if lty != self.ty(ptag): self.err(f'generated `{lean["name"]}`: parameter `{pn}` of type {lty}, wanted {self.ty(ptag)}')
            v = self.var_of(a)
            terms.append(t if v else f'({t})')
        rtag = sig['rtag']
        if rtag == 'Self': rtag = 'nfa' if owner == 'NfaBuilder' else 'mapper' if owner == 'CodeMapper' else self.err('`Self` result')
        want_comps = [('CodeMapper' if owner == 'CodeMapper' else self.ty(rtag))] + [self.ty(env[v][1]) for v in muts]
        if lean['comps'] != want_comps:
            self.err(f'generated `{lean["name"]}` returns {lean["ret"]}; the Rust signature needs the components {want_comps}')
        call = ' '.join([lean['name']] + terms)
        if lean['fallible']:
            r = self.fresh('r') if rtag != 'unit' else '_'
            pat = ', '.join([r] + [lname(v) for v in muts])
            if muts: pat = f'({pat})'
            return self.bind(call, pat, k('()' if rtag == 'unit' else r, rtag))
        if muts or sig['result']: self.err(f'`{m}` modifies or fails but its generated signature is pure')
        return k(f'({call})', rtag)

    def tx_mcall(self, e, env, k, under_try):
        recv, m, args = e[1], e[2], e[3]
        v = self.var_of(recv) if recv[0] == 'path' else None
        if v in env and env[v][1] in ('self', 'nfa'):
            return self.tx_call(BUILDER if env[v][1] == 'self' else 'NfaBuilder', m, v, args, env, k, under_try)
        if under_try: self.err(f'`?` on `.{m}(..)`')
        def kr(t, tag):
            if m == 'as_ref' and args == [] and tag == 'bytes' and PAT_TAG == 'bytes': return k(t, 'bytes')       # P: AsRef<[u8]>
            if m == 'as_ref' and args == [] and tag == 'str' and PAT_TAG == 'str': return k(t, 'str')             # P: AsRef<str>
            if m == 'chars' and args == [] and tag == 'str': return k(t, 'chariter')                             # str::chars
            if m == 'len' and args == [] and tag in ('nstates', 'states', 'outputs'): return k(f'{t}.size', 'nat')
            if m == 'map_err' and len(args) == 1 and isinstance(tag, tuple) and tag[0] == 'tryres':
                c = args[0]
                if not (c[0] == 'closure' and c[1] == [('pwild',)]): self.err('map_err needs a closure `|_| ..`')
                if not re.search(r'^def mapErr ', self.u.prelude, re.M): self.err('Gen/PreludeNfa.lean does not define mapErr')
                return k(f'(Rs.mapErr {t} {self.err_value(c[2])})', ('result', tag[1]))
            self.err(f'unsupported method `.{m}(..)` with {len(args)} argument(s) on a value of kind {tag}')
        return self.tx(recv, env, kr)

    def tx_match(self, e, env, k):
        """`match <kind> { Variants => arm, .. }` in value position: every arm yields (value, modified variables)."""
        _, scrut, arms = e
        ts, tag = self.px(scrut, env)
        if tag != 'kind': self.err(f'`match` on a value of kind {tag}')
        kinds = dict(self.u.kinds)
        seen, conds = [], []
        for pats, body in arms:
            bs = []
            for p in pats:
                if not (p[0] == 'penum' and len(p[1]) == 2 and p[1][0] == 'MatchKind' and p[2] == []):
                    self.err(f'unsupported `match` pattern {p}')
                if p[1][1] not in kinds: self.err(f'unknown MatchKind variant `{p[1][1]}` (Gen/Consts.lean: kindBytes)')
                if p[1][1] in seen: self.err(f'variant `{p[1][1]}` is matched twice')
                seen.append(p[1][1]); bs.append(kinds[p[1][1]])
            conds.append(' || '.join(f'{ts} == {b}' for b in bs))
        if set(seen) != set(kinds): self.err(f'`match` does not cover the variants {sorted(set(kinds) - set(seen))}')
        M = self.modified([b for _, b in arms], env)
        for v in M:
            if env[v][0] != 'mut': self.err(f'`{v}` is modified in a `match` arm but is not mutable here')
        rtags = []
        def fin(t, tg):
            rtags.append(tg)
            return ['.ok ' + ('(' + ', '.join([t] + [lname(v) for v in M]) + ')' if M else t)]
        lines = []
        for i, ((pats, body), c) in enumerate(zip(arms, conds)):
            lines += [('if ' if i == 0 else 'else if ') + f'({c}) then'] + ind(self.tx(body, env, fin))
        lines += ['else', f'  .error (.panic "match: not a MatchKind")']
        if len(set(rtags)) != 1 or not isinstance(rtags[0], str): self.err(f'`match` arms of kinds {rtags}')
        r = self.fresh('r')
        tys = ' × '.join([self.ty(rtags[0])] + [self.ty(env[v][1]) for v in M])
        pat = '(' + ', '.join([r] + [lname(v) for v in M]) + ')' if M else r
        return ['match ((' + lines[0]] + ind(lines[1:], 4) + [f'  ) : Except BuildErr ({tys})) with', '| .error e => .error e',
                f'| .ok {pat} =>'] + ind(k(r, rtags[0]))

    def tx_struct(self, e, env, k):
        _, path, fields = e
        if path != [RESULT]: self.err(f'struct literal of `{"::".join(path)}`')
        decl = self.u.bstructs[RESULT]
        if [f for f, _ in fields] != list(decl): self.err(f'fields of the `{RESULT}` literal: {[f for f, _ in fields]}; declared: {list(decl)}')
        def kf(ts):
            parts = []
            for (f, _), (t, tag) in zip(fields, ts):
                want = rust_tag(decl[f], f'{RESULT}.{f}')
                if tag != want: self.err(f'field `{f}`: {tag} for {want}')
                parts.append(f'{lname(f)} := {t}')
            return k('({ ' + ', '.join(parts) + f' }} : {self.ty("da")})', 'da')
        return self.tx_list([x for _, x in fields], env, kf)

    # ------------------------------------------------------------------ statements
    def tx_stmts(self, stmts, tail, env, k):
        if not stmts: return k(tail, env)
        st, rest = stmts[0], stmts[1:]
        cont = lambda env2: self.tx_stmts(rest, tail, env2, k)
        h = st[0]
        if h == 'let':
            _, pat, mut, ty, init = st
            if pat[0] != 'pid' or init is None or ty is not None: self.err(f'unsupported `let` form: {pat}')
            x = pat[1]
            if init == ('veclist', []):
                if PROFILE != 'charwise' or not mut: self.err('`let x = vec![]`')
                if x in env: self.err(f'`{x}` shadows a variable')
                tag = self.vec_tag(x)
                env2 = dict(env); env2[x] = ('mut', tag)
                return [f'let {lname(x)} : {self.ty(tag)} := ' + ('[]' if tag == 'bytes' else '#[]')] + cont(env2)
            def kl(t, tag):
                if not isinstance(tag, str) or tag == 'unit': self.err(f'`let {x}` of a value of kind {tag}')
                env2 = dict(env); env2[x] = ('mut' if mut else 'val', tag)
                if t == lname(x): return cont(env2)
                return [f'let {lname(x)} : {self.ty(tag)} := {t}'] + cont(env2)
            return self.tx(init, env, kl)
        if h == 'assign' and PROFILE == 'charwise':
            _, lhs, op, rhs = st
            if not (op == '=' and lhs[0] == 'field' and lhs[1] == ('path', ['self'])): self.err(f'unsupported assignment {lhs} {op} ..')
            if env['self'][0] != 'mut': self.err('`self` is assigned to but is not mutable here')
            ftag = self.u.field('self', lhs[2], self)
            def ka(t, tag):
                if tag != ftag: self.err(f'`self.{lhs[2]} = ..`: a value of kind {tag} for {ftag}')
                return [f'let self := {{ self with {lname(lhs[2])} := {t} }}'] + cont(env)
            return self.tx(rhs, env, ka)
        if h == 'expr':
            x = st[1]
            if x[0] == 'for' and x[1][0] == 'pref': return self.tx_count(x, env, rest, cont)
            if x[0] == 'for': return self.tx_for(x, env, cont)
            if x[0] == 'block' and PROFILE == 'charwise':
                inner = list(x[1]) + ([('expr', x[2])] if x[2] is not None else [])
                for s2 in inner:
                    if s2[0] == 'let' and s2[1][0] == 'pid' and s2[1][1] in env: self.err(f'`{s2[1][1]}` shadows a variable')
                # the locals of the block go out of scope; the outer variables keep their (new) status
                return self.tx_stmts(inner, None, env, lambda tl, env2: cont({v: env2[v] for v in env}))
            if x[0] == 'mcall' and x[2] == 'clear' and x[3] == [] and PROFILE == 'charwise':
                v = self.var_of(x[1]) if x[1][0] == 'path' else None
                if v not in env or env[v] != ('mut', 'bytes'): self.err('`.clear()` on something that is not a mutable `Vec` local')
                return [f'let {lname(v)} : {self.ty("bytes")} := []'] + cont(env)
            if x[0] == 'mcall' and x[2] == 'for_each' and PROFILE == 'charwise':
                c = x[3][0] if len(x[3]) == 1 else None
                if not (c and c[0] == 'closure' and len(c[1]) == 1 and c[1][0][0] == 'pid' and c[2][0] == 'mcall' and c[2][2] == 'push'
                        and c[2][1][0] == 'path' and c[2][3] == [('path', [c[1][0][1]])]):
                    self.err('`for_each` needs a closure `|c| v.push(c)`')
                v = self.var_of(c[2][1])
                if v not in env or env[v] != ('mut', 'bytes') or v == c[1][0][1]: self.err('`for_each(|c| v.push(c))`: `v` is not a mutable `Vec` local')
                t, tag = self.px(x[1], env)
                if tag != 'chariter': self.err(f'`for_each` on a value of kind {tag}')
                lv, lc = lname(v), lname(c[1][0][1])
                return [f'let {lv} := List.foldl (fun {lv} {lc} => {lv} ++ [{lc}]) {lv} {t}'] + cont(env)
            if x[0] == 'if':
                _, cond, then, els = x
                if els is not None: self.err('`if .. else` statement')
                if not (then[0] == 'block' and then[2] is None and len(then[1]) == 1 and then[1][0][0] == 'expr' and then[1][0][1][0] == 'return'):
                    self.err('the body of an `if` statement must be `return Err(..);`')
                r = then[1][0][1][1]
                if not (r and r[0] == 'call' and r[1] == ('path', ['Err']) and len(r[2]) == 1): self.err('`return` of something that is not `Err(..)`')
                t, tag = self.px(cond, env)
                if tag != 'bool': self.err('`if` on a non-bool')
                return [f'if {t} then', f'  .error {self.err_value(r[2][0])}', 'else'] + ind(cont(env))
            if x[0] in ('mcall', 'try'):
                self.after_add = (x == ('try', ('mcall', ('path', ['nfa']), 'add', [('un', '&', ('path', ['chars'])), ('path', ['value'])])))
                def km(t, tag):
                    if tag != 'unit': self.err(f'value of kind {tag} is dropped')
                    return cont(env)
                return self.tx(x, env, km)
            self.err(f'unsupported expression statement `{x[0]}`')
        self.err(f'unsupported statement form `{h}`')

    def tx_for(self, e, env, cont):
        _, pat, it, body = e
        v = self.var_of(it) if it[0] == 'path' else None
        if v not in env or env[v][1] != 'patvals': self.err('`for` over something that is not the `patvals` parameter')
        if env[v][0] == 'moved': self.err(f'`{v}` is consumed twice')
        if not (pat[0] == 'ptuple' and len(pat[1]) == 2 and all(p[0] == 'pid' for p in pat[1])): self.err(f'`for` pattern {pat}')
        pn, vn = pat[1][0][1], pat[1][1][1]
        name = f'{self.lean_name}.loop{self.nloops}'; self.nloops += 1
        M = self.modified(body, env)
        if not M: self.err('loop without an effect')
        for w in M:
            if env[w][0] != 'mut': self.err(f'`{w}` is modified in a loop but is not mutable here')
        names = []
        walk(body, lambda n: (names.append(n[1][0]) if n[0] == 'path' and len(n[1]) == 1 else None) and False)
        F = [w for w in env if w in names and w not in M]
        env_in = {w: (('mut' if w in M else 'val'), env[w][1]) for w in env if w != v}
        env_in[pn] = ('val', PAT_TAG); env_in[vn] = ('val', 'V')
        fargs = ' '.join(lname(w) for w in F)
        rec = [' '.join([name] + ([fargs] if fargs else []) + ['rest'] + [lname(w) for w in M])]
        stmts = body[1]
        if body[0] == 'block' and body[2] is not None and body[2][0] == 'for' and PROFILE == 'charwise':
            stmts = list(body[1]) + [('expr', body[2])]          # a `for` without `;` in tail position is a statement
        elif body[0] != 'block' or body[2] is not None: self.err('loop body with a value')
        lines = self.tx_stmts(stmts, None, env_in, lambda tl, env2: rec)
        tup = lname(M[0]) if len(M) == 1 else '(' + ', '.join(lname(w) for w in M) + ')'
        mty = ' × '.join(self.ty(env[w][1]) for w in M)
        fx = ' '.join(f'({lname(w)} : {self.ty(env[w][1])})' for w in F)
        mpat = ''.join(', ' + lname(w) for w in M)
        d = [f'def {name} {{V : Type}} ' + (fx + ' ' if fx else '') + ': ' +
             ' → '.join([self.ty('patvals')] + [self.ty(env[w][1]) for w in M]) + f' → Except BuildErr ({mty})',
             f'  | []{mpat} => .ok {tup}', f'  | ({lname(pn)}, {lname(vn)}) :: rest{mpat} =>'] + ind(lines, 6)
        self.loops.append(d)
        env2 = dict(env); env2[v] = ('moved', 'patvals')
        call = ' '.join([name] + ([fargs] if fargs else []) + [lname(v)] + [lname(w) for w in M])
        return self.bind(call, tup, cont(env2))

    def vec_tag(self, x):
        """the type of `let mut x = vec![]`: the kind of the parameter to which `&x` is passed (exactly one kind)."""
        tags = []
        ref = ('un', '&', ('path', [x]))
        def f(n):
            if n[0] == 'mcall' and ref in n[3]:
                for owner, fns in (('NfaBuilder', self.u.nfns), (BUILDER, self.u.fns)):
                    if (owner, n[2]) in fns:
                        tags.append(self.u.rust_sig(owner, n[2], self)['params'][n[3].index(ref)][1]); break
                else: self.err(f'`&{x}` is passed to an unknown method `{n[2]}`')
            if n[0] == 'call' and ref in n[2]:
                if n[1] != ('path', ['CodeMapper', 'new']): self.err(f'`&{x}` is passed to an unknown function')
                tags.append(self.u.rust_sig('CodeMapper', 'new', self)['params'][n[2].index(ref)][1])
            return False
        walk(self.body, f)
        if len(set(tags)) != 1 or tags[0] not in ('bytes', 'queue'): self.err(f'cannot fix the element type of `{x}` (uses as a `&` argument: {tags})')
        return tags[0]

    def tx_count(self, e, env, rest, cont):
        """the counting loop `for &c in &chars { .. }` = the generated `M.count_chars freqs chars` (cross-checked against
        tools/map2lean.py in `Unit.init_charwise`: the loop map2lean translates is the one at this position)."""
        _, pat, it, body = e
        if PROFILE != 'charwise': self.err('`for &x in ..` is not in the supported subset')
        if rest: self.err('the counting loop is not the last statement of the pattern loop')
        if not self.after_add: self.err('the counting loop does not follow `nfa.add(&chars, value)?`')
        if not (pat == ('pref', ('pid', 'c')) and it == ('un', '&', ('path', ['chars']))): self.err('the counting loop is not `for &c in &chars`')
        if env.get('chars') != ('mut', 'bytes') or env.get('freqs') != ('mut', 'queue'):
            self.err('the counting loop needs the locals `chars` (characters of the pattern) and `freqs` (`Vec<u32>`, mutable)')
        names = []
        walk(body, lambda n: (names.append(n[1][0]) if n[0] == 'path' and len(n[1]) == 1 else None) and False)
        extra = sorted(set(names) - {'c', 'freqs'})
        if extra: self.err(f'the counting loop names {extra}')
        return self.bind('M.count_chars freqs chars', 'freqs', cont(env))

    # ------------------------------------------------------------------ the function
    def run(self):
        f = self.f
        m = re.search(rf'fn\s+{f["name"]}\s*<\s*I\s*,\s*P\s*,\s*V\s*>\s*\([^)]*\)\s*->\s*[^{{]*?' + WHERE_CLAUSE, self.u.src)
        if not m: self.err('generic parameters / `where` clause changed (expected I: IntoIterator<Item = (P, V)>, P: AsRef<[u8]>, V: Copy)')
        result, inner = split_result(f['ret'])
        if not result: self.err('the function must return a `Result`')
        rtag = rust_tag(inner, self.where)
        if f['selfkind'] == 'ref': selfmut = 'val'
        elif f['selfkind'] == 'mutval': selfmut = 'mut'
        elif f['selfkind'] == 'mut' and PROFILE == 'charwise': selfmut = 'mut'      # `&mut self`: the new builder is returned as well
        else: self.err(f'unsupported receiver kind {f["selfkind"]}')
        threaded = f['selfkind'] == 'mut'
        env, params = {'self': (selfmut, 'self')}, [('self', 'Builder')]
        for pn, pty, pmut in f['params']:
            tag = rust_tag(pty, self.where)
            if pmut or pty.replace(' ', '').startswith('&'): self.err('mutable / reference parameter')
            env[pn] = ('val', tag); params.append((lname(pn), self.ty(tag)))
        body = PT(f['body_toks'], self.where).block()
        self.body = body
        def fin(tail, env2):
            if not (tail and tail[0] == 'call' and tail[1] == ('path', ['Ok']) and len(tail[2]) == 1): self.err('the body must end with `Ok(..)`')
            def kt(t, tag):
                if tag != rtag: self.err(f'the function returns a value of kind {tag}, declared {rtag}')
                return [f'.ok ({t}, self)' if threaded else f'.ok {t}']
            return self.tx(tail[2][0], env2, kt)
        lines = self.tx_stmts(body[1], body[2], env, fin)
        ret = f'Except BuildErr ({self.ty(rtag)} × Builder)' if threaded else f'Except BuildErr ({self.ty(rtag)})'
        self.u.own[f['name']] = self.u.mk_lean_sig(self.lean_name, params, ret)
        out = []
        for d in self.loops: out += d + ['']
        out += [f'/-- `{BUILDER}::{f["name"]}` ({SRC}) -/',
                f'def {self.lean_name} {{V : Type}} ' + ' '.join(f'({n} : {t})' for n, t in params) + f' : {ret} :='] + ind(lines)
        return '\n'.join(out) + '\n'


def result_struct(u):
    decl = u.bstructs[RESULT]
    lines = [f'/-- `struct {RESULT}<V>` ({RES_SRC}) -/', f'structure {RESULT} (V : Type) where']
    for f, t in decl.items():
        lines.append(f'  {lname(f)} : {LEAN_TY[rust_tag(t, RESULT + "." + f)]}')
    return '\n'.join(lines) + '\n'


BUILD_WHERE = r'where\s*I\s*:\s*IntoIterator\s*<\s*Item\s*=\s*P\s*>\s*,\s*P\s*:\s*AsRef\s*<\s*@ASREF@\s*>\s*,\s*V\s*:\s*Copy\s*\+\s*TryFrom\s*<\s*usize\s*>\s*,?\s*\{'

# the body of `build`, token by token (tokens joined by one space); the only free parts are the names of the
# local / the parameter / the closure variables, and the error constructor with its string-literal arguments
BUILD_BODY = (r'\{ let (?P<pv>\w+) : Vec < _ > = (?P<pats>\w+) \. into_iter \( \) \. enumerate \( \) '
              r'\. map \( \| \( (?P<i>\w+) , (?P<p>\w+) \) \| V :: try_from \( (?P=i) \) \. map \( \| (?P<j>\w+) \| \( (?P=p) , (?P=j) \) \) \) '
              r'\. collect :: < Result < _ , _ >> \( \) '
              r'\. map_err \( \| _ \| DaachorseError :: (?P<ctor>\w+) \( (?P<args>"[^"]*"(?: , "[^"]*")*)? ?\) \) \? ; '
              r'self \. build_with_values \( (?P=pv) \) \}')

ENUM_HELPER = """/-- Meaning of the iterator chain of `build`:
`it.into_iter().enumerate().map(|(i, p)| V::try_from(i).map(|i| (p, i))).collect::<Result<Vec<_>, _>>()`
with `conv i` standing for `V::try_from(i)` (`none` = `Err`), started at position `i`: a left-to-right traversal
pairing every item with its converted position; `collect` into a `Result` stops at the first `Err` (`none`)
and otherwise yields the pairs in order. -/
def enumTryCollect {P V : Type} (conv : Nat → Option V) : Nat → List P → Option (List (P × V))
  | _, [] => some []
  | i, p :: rest =>
    match conv i with
    | none => none
    | some v =>
      match enumTryCollect conv (i + 1) rest with
      | none => none
      | some r => some ((p, v) :: r)
"""


def gen_build(u):
    """the entry point `build`: exactly `let patvals: Vec<_> = <the chain>.map_err(|_| DaachorseError::ctor(lits))?;
    self.build_with_values(patvals)`; the body is matched token by token (any deviation is an error)."""
    f = u.fns.get((BUILDER, 'build'))
    where = f'{SRC}:{BUILDER}::build'
    if f is None: raise TErr(f'{where} not found')
    bw = BUILD_WHERE.replace('@ASREF@', PROFILES[PROFILE]['ASREF'])
    if not re.search(r'fn\s+build\s*<\s*I\s*,\s*P\s*,\s*V\s*>\s*\([^)]*\)\s*->\s*[^{]*?' + bw, u.src):
        raise TErr(f'{where}: generic parameters / `where` clause changed (expected I: IntoIterator<Item = P>, P: AsRef<..>, V: Copy + TryFrom<usize>)')
    if f['selfkind'] not in ('val', 'mutval'): raise TErr(f'{where}: unsupported receiver kind {f["selfkind"]}')
    if [(pt.replace(' ', ''), pm) for _, pt, pm in f['params']] != [('I', False)]: raise TErr(f'{where}: parameters changed (expected one parameter of type I)')
    result, inner = split_result(f['ret'])
    if not result or rust_tag(inner, where) != 'da': raise TErr(f'{where}: must return Result<{RESULT}<V>>')
    text = ' '.join(v for _, v in f['body_toks'])
    m = re.fullmatch(BUILD_BODY, text)
    if not m:
        raise TErr(f'{where}: the body is not `let patvals: Vec<_> = patterns.into_iter().enumerate().map(|(i, p)| V::try_from(i).map(|i| (p, i)))'
                   f'.collect::<Result<_, _>>().map_err(|_| DaachorseError::ctor(..))?; self.build_with_values(patvals)`; found: {text}')
    if m.group('pats') != f['params'][0][0]: raise TErr(f'{where}: the chain does not start at the parameter `{f["params"][0][0]}`')
    names = [m.group(k) for k in ('pv', 'pats', 'i', 'p')]
    if len(set(names)) != 4 or m.group('j') in (m.group('p'), m.group('pv'), m.group('pats')) or 'self' in names or 'V' in names:
        raise TErr(f'{where}: clashing variable names {names}')
    if m.group('ctor') not in u.err_ctors: raise TErr(f'{where}: src/errors.rs: unknown error constructor `{m.group("ctor")}`')
    err = u.err_ctors[m.group('ctor')]
    bwv = u.own.get('build_with_values')
    want = u.mk_lean_sig('Builder.build_with_values', [('self', 'Builder'), ('patvals', LEAN_TY['patvals'])], f'Except BuildErr ({LEAN_TY["da"]})')
    if bwv is None or (bwv['params'], bwv['ret']) != (want['params'], want['ret']):
        raise TErr(f'{where}: the translated `build_with_values` does not have the signature (self, patvals) -> Result<{RESULT}<V>>')
    if u.fns[(BUILDER, 'build_with_values')]['selfkind'] not in ('val', 'mutval'): raise TErr(f'{where}: `build_with_values` does not take `self` by value')
    pv, pats = lname(m.group('pv')), lname(m.group('pats'))
    lines = [f'/-- `{BUILDER}::build` ({SRC}); `conv` is `V::try_from` (`V: TryFrom<usize>`), `{pats}` the patterns in order -/',
             f'def Builder.build {{V : Type}} (conv : Nat → Option V) (self : Builder) ({pats} : List (List Nat)) : Except BuildErr ({LEAN_TY["da"]}) :=',
             f'  match enumTryCollect conv 0 {pats} with',
             f'  | none => .error {err}',
             f'  | some {pv} => Builder.build_with_values self {pv}']
    return ENUM_HELPER + '\n' + '\n'.join(lines) + '\n'


HEADER = '''/- GENERATED by tools/top2lean.py from the repository's current source ({src}:
   `{builder}::{{build_sparse_nfa, build_with_values}}`; src/bytewise.rs: `struct {result}`).
   Do not edit.  Translation rules and their trusted base: see the header of tools/top2lean.py and
   Daac/Gen/PreludeNfa.lean.  Representation: `patvals` is `List (List Nat × V)` (a pattern = its bytes,
   `as_ref` = identity); integers are `Nat`; `MatchKind` is its byte (`Gen.kindBytes` = {kinds});
   `nb` of `add` is `{nb}` (`impl EdgeLabel for u8`, src/nfa_builder.rs); `&mut self` / `mut self` /
   `let mut` locals are threaded; `Result` / `?` / `return Err(..)` are `Except BuildErr` (kind only);
   `usize` subtraction is guarded (underflow = `BuildErr.panic`). -/
import Daac.Gen.BuildB
set_option linter.unusedVariables false
namespace Daac.Gen.TB
open Daac Daac.Gen.LB Daac.Gen.N

'''

HEADER_C = '''/- GENERATED by tools/top2lean.py (profile `charwise`) from the repository's current source ({src}:
   `{builder}::{{build_original_nfa_and_mapper, build_with_values}}`; src/charwise.rs: `struct {result}`).
   Do not edit.  Translation rules and their trusted base: see the header of tools/top2lean.py and
   Daac/Gen/PreludeNfa.lean.  Representation: `patvals` is `List (List Nat × V)`: a pattern (`P: AsRef<str>`) is the
   list of its code points (Unicode scalar values); `pattern.as_ref().chars()` is the identity on that list;
   `it.for_each(|c| chars.push(c))` is `List.foldl (fun chars c => chars ++ [c]) chars it`; `chars.clear()` is `[]`;
   integers are `Nat`; `MatchKind` is its byte (`Gen.kindBytes` = {kinds});
   `nb` of `add` is `{nb}` (`impl EdgeLabel for char`: `self.len_utf8()`, src/nfa_builder.rs; Gen/Prelude.lean);
   the inner loop `for &c in &chars {{ .. }}` is the generated `M.count_chars` (Gen/MapperNew.lean, tools/map2lean.py;
   cross-checked on every run against map2lean's extraction from the current text); `CodeMapper::new` is the generated
   `M.CodeMapper.new`, its value converted by `CodeMapper.repr` to the record `Mapper` by which Gen/LayoutC.lean
   represents `struct CodeMapper`; the layout is the generated `DC.Builder.build_double_array` (Gen/BuildC.lean);
   `&mut self` / `mut self` / `let mut` locals are threaded (a `&mut self` function returns the new builder next to
   its result); `Result` / `?` / `return Err(..)` are `Except BuildErr` (kind only); `usize` subtraction is guarded
   (underflow = `BuildErr.panic`). -/
import Daac.Gen.BuildC
import Daac.Gen.MapperNew
set_option linter.unusedVariables false
namespace Daac.Gen.TC
open Daac Daac.Gen.LC Daac.Gen.N

/-- `struct CodeMapper` (src/charwise/mapper.rs: `table`, `alphabet_size`): the generated `M.CodeMapper`
(Gen/MapperNew.lean) as the record `Mapper` used for it by Gen/LayoutC.lean, field by field. -/
def CodeMapper.repr (m : M.CodeMapper) : Mapper :=
  {{ table := m.table, alphaSize := m.alphabet_size }}

'''


def gen(profile, repo, outdir):
    """translates one unit; returns the hashes of its definitions."""
    set_profile(profile)
    u = Unit(repo, outdir)
    body = result_struct(u)
    for name in FUNCS:
        f = u.fns.get((BUILDER, name))
        if f is None: raise TErr(f'{SRC}: {BUILDER}::{name} not found')
        body += '\n' + Tr(u, f).run()
    body += '\n' + gen_build(u)
    head = (HEADER if profile == 'bytewise' else HEADER_C).format(src=SRC, builder=BUILDER, result=RESULT, nb=u.nb,
                                                                  kinds=', '.join(f'{n} = {b}' for n, b in u.kinds))
    text = head + body + f'\nend Daac.Gen.{NS}\n'
    path = os.path.join(outdir, OUT)
    if not os.path.exists(path) or open(path).read() != text:
        with open(path, 'w') as fh: fh.write(text)
    defs = {}
    if profile == 'charwise':
        chunk = head[head.index('/-- `struct CodeMapper`'):].rstrip('\n')
        defs[NS + '.CodeMapper.repr'] = hashlib.sha1(chunk.encode()).hexdigest()[:16]
    for chunk in re.split(r'\n(?=/-- |def )', body):
        m = re.search(r'^(?:def|structure) (\S+)', chunk, re.M)
        if m: defs[NS + '.' + m.group(1)] = hashlib.sha1(chunk.encode()).hexdigest()[:16]
    return defs


def main():
    repo = sys.argv[1] if len(sys.argv) > 1 else '/repo'
    outdir = sys.argv[2] if len(sys.argv) > 2 else os.path.join(os.path.dirname(os.path.abspath(__file__)), '..', 'lean', 'Daac', 'Gen')
    defs = {}
    for profile in ('bytewise', 'charwise'):
        defs.update(gen(profile, repo, outdir))
    jtext = json.dumps(defs, indent=1, sort_keys=True) + '\n'
    jpath = os.path.join(outdir, 'top_defs.json')
    if not os.path.exists(jpath) or open(jpath).read() != jtext:
        open(jpath, 'w').write(jtext)
    print('top2lean: ok')

if __name__ == '__main__':
    try:
        main()
    except TErr as ex:
        print(f'top2lean: {ex}')
        sys.exit(2)

#!/usr/bin/env python3
"""nfa2lean.py — translator from the Rust text of daachorse's sparse-NFA builder
(`src/nfa_builder.rs`: `NfaBuilderState::default`, `NfaBuilder::{new, add, is_registered, child_id,
build_fails, build_fails_leftmost, build_outputs}`) to Lean 4 definitions (`lean/Daac/Gen/Nfa.lean`).
`Daac/Proofs/TieN.lean` proves that the generated `add` refines the hand-written model `NfaAcc.add` /
`Trie.insert` (Daac/Model/Trie.lean); `Daac/Proofs/TieF.lean` (+ TieFBase, TieFOut) that the generated
`build_fails` / `build_outputs` refine `buildFailMap` / `buildOutAcc` (Daac/Model/Nfa.lean).

Every run re-reads the repository's current source text, parses the function bodies with the Rust
parser of tools/rs2lean.py (`P(...).block()` on the body tokens; the only extension is the list form
of `vec![a, b, ..]`), and translates the AST by a syntax-directed, continuation-passing translation.
The translation is STRICT: a statement / expression / method / type / pattern form that is not
explicitly listed below raises `TErr` (exit status 2) — nothing is skipped or guessed.

Translation rules (trusted base, with lean/Daac/Gen/PreludeNfa.lean):

 * integers are `Nat`; `usize::from_u32(x)` is `x`; references (`&`, `&mut`, `*`, `.copied()`,
   `.iter()` / `.to_vec()` on a slice, `RefCell::new`) are erased;
 * `Vec<RefCell<S>>` is `Array S`; `self.states[i].borrow().f` reads, `self.states[i].borrow_mut().f`
   reads or writes field `f` of element `i`; the index is checked (`Rs.index`, out of range =
   `BuildErr.panic`); `let x = &PLACE;` / `let x = &mut PLACE;` makes `x` an alias of the place
   (read or written where `x` is used);
 * `&mut self` methods return the new `self` next to their result (`Except BuildErr (R × NfaBuilder V)`),
   `&self` methods that index return `Except BuildErr R`; assignments rebind (`let x := ..`);
 * `for &c in <slice>` is structural recursion over the list; the loop function takes the live
   variables, its `[]` case is the code that follows the loop, `return` inside the body simply ends
   the branch with the function result (continuation passing, the continuation of an `if` without
   `else` is duplicated into both branches);
 * `a || b` where `b` has an effect is evaluated left to right with short circuit;
 * `?` on `x.map_err(|_| E)` / `x.ok_or_else(|| E)`: `Rs.mapErr` / `Rs.okOrElse`, the error value is
   the KIND of the `DaachorseError` constructor named in the closure (`invalid_argument` →
   `.invalidArgument`, `duplicate_pattern` → `.duplicatePattern`, `automaton_scale` → `.automatonScale`);
   constructor arguments (names, bounds, `format!` payloads) are dropped;
 * `iter.fold(i, |acc, c| e)` is `List.foldl`; `c.num_bytes()` is `nb c` for the parameter
   `nb : Nat → Nat` (checked here: `impl EdgeLabel for u8` returns `1`, `for char` `self.len_utf8()`);
   `.try_into()` is the conversion to `u32` (`Rs.u32TryFrom`; the translator checks that the
   accompanying error names `u32::MAX`), `u32::try_from` likewise, `NonZeroU32::new` is
   `Rs.nonZeroU32New`; `Option::replace`, `BTreeMap::{get, insert}`, `BTreeSet::insert`,
   `Vec::{push, len}`, `Option::is_some`: see the prelude;
 * `self.match_kind.is_leftmost_first()` is `self.match_kind == k` where `k` is the byte of the variant
   the body of `MatchKind::is_leftmost_first` (src/lib.rs, re-read and checked to be `self == Self::X`)
   compares with (`Gen.kindBytes` of lean/Daac/Gen/Consts.lean).

 * (fail / output passes) `&self` methods whose body contains `borrow_mut` write through `RefCell`: they
   return the new `self` next to their result like `&mut self` methods.  `let s = &[mut] self.states[i]
   .borrow[_mut]();` makes `s` an alias of the whole cell (`s.f` reads / writes `self.states[i].f` of the
   CURRENT array; an alias alive across a loop may only depend on immutable variables).  The dynamic
   borrow check of `RefCell` (BorrowError / BorrowMutError panics) is NOT modelled;
 * loops without `return` are translated in RETURNING mode: the loop function returns the variables the
   body assigns (`x = ..`, `x += ..`, `x.push(..)`; `self` if the body writes a place), the code after
   the loop is emitted once at the call site.  `for &x in <slice / Vec<u32> / edges.values()>` and
   `for (&c, &x) in &<edges place>` (the association list read at loop entry) are structural recursions;
   `while c { .. }` and `loop { .. break v; .. }` take FUEL `self.states.size + 1` evaluated at loop entry
   and return `BuildErr.panic "fuel"` on exhaustion (TieF proves it is never exhausted); a `loop` with a
   value returns (break value, assigned variables) and must not write `self`; plain `break` /
   `continue` / nested loops inside a value `loop` are rejected;
 * an `if` statement that falls through on every path and is followed by more code is translated once
   (its branches return the variables they change) instead of duplicating the continuation;
 * `debug_assert_ne!(a, b)` is CHECKED (debug-profile semantics): failure = `BuildErr.panic "debug_assert"`;
   `x.unwrap()` on `u32::try_from(..)`: `none` = `BuildErr.panic "unwrap"`; `v[i]` on a local vector /
   slice: `Rs.index`; `Vec::with_capacity(n)`: the empty array; `NonZeroU32::get`: identity;
   `tuple.0` / `.1`: projections; `Output::new(v, l, p)`: the record (checked against src/lib.rs: the
   body must be `Self { value, length, parent }`).

Usage: nfa2lean.py [repo_root] [out_dir]
"""
import os, re, sys
sys.path.insert(0, os.path.dirname(os.path.abspath(__file__)))
from rs2lean import lex, P, parse_items, TErr, lname

SRC = 'src/nfa_builder.rs'


class PN(P):
    """The parser of rs2lean.py plus the list form of `vec![..]`."""
    def primary(self, nostruct):
        if self.peek() == ('id', 'vec') and self.peek(1)[1] == '!' and self.peek(2)[1] == '[':
            self.next(); self.next(); self.next()
            depth, toks = 1, []
            while depth:
                tk = self.next()
                if tk[0] == 'eof': raise TErr(f'{self.where}: unterminated vec!')
                if tk[1] == '[': depth += 1
                elif tk[1] == ']': depth -= 1
                if depth: toks.append(tk)
            sub = PN(toks + [('eof', '')], self.where)
            elems = []
            while sub.peek()[0] != 'eof':
                elems.append(sub.expr())
                if sub.at(','): sub.next()
                elif sub.peek()[0] != 'eof':
                    raise TErr(f'{self.where}: only `vec![a, b, ..]` is supported here')
            return ('veclist', elems)
        if self.peek() == ('id', 'break'):
            self.next()
            if self.at(';') or self.at('}'): return ('break',)
            return ('breakv', self.expr())
        return super().primary(nostruct)


def ind(lines, n=2):
    return [' ' * n + l for l in lines]

ERR_CTORS = {'invalid_argument': '.invalidArgument', 'duplicate_pattern': '.duplicatePattern',
             'automaton_scale': '.automatonScale'}

# Rust type (spaces removed) -> (Lean type, type tag)
def map_type(ty, where):
    t = ty.replace(' ', '')
    t = re.sub(r"^&('[a-z_]+)?(mut)?", '', t)
    table = {
        'u32': ('Nat', 'nat'), 'usize': ('Nat', 'nat'), 'L': ('Nat', 'nat'), 'NonZeroU32': ('Nat', 'nat'),
        'V': ('V', 'V'), 'bool': ('Bool', 'bool'), 'MatchKind': ('Nat', 'kind'),
        '[L]': ('List Nat', 'listnat'),
        'EdgeMap<L>': ('Rs.EdgeMap', 'edges'),
        'Option<(V,NonZeroU32)>': ('Option (V × Nat)', ('opt', ('tuple', ['V', 'nat']))),
        'Option<NonZeroU32>': ('Option Nat', ('opt', 'nat')),
        'Option<u32>': ('Option Nat', ('opt', 'nat')),
        'Vec<RefCell<NfaBuilderState<L,V>>>': ('Array (NfaBuilderState V)', 'states'),
        'Vec<Output<V>>': ('Array (Rs.Output V)', ('vec', 'output')),
        'BTreeSet<Vec<L>>': ('Rs.SetL', 'set'),
        'Result<()>': ('Unit', 'result_unit'),
        '()': ('Unit', 'unit'),
        'Vec<u32>': ('Array Nat', ('vec', 'nat')),
        '[u32]': ('Array Nat', ('vec', 'nat')),
        'Self': (None, 'Self'),
    }
    if t not in table:
        raise TErr(f'{where}: type `{ty}` is outside the supported subset')
    return table[t]


class Tr:
    """Translation of one function."""
    def __init__(self, unit, f):
        self.u, self.f, self.where = unit, f, f['where']
        self.n = 0
        self.loops = []          # generated loop definitions (lists of lines)
        self.nloops = 0
        self.struct = f['target']
        self.lean_name = f"{f['target']}.{lname(f['name'])}"
        self.selfkind = f['selfkind']
        ret = f['ret'] or '()'
        self.ret_lean, self.ret_tag = map_type(ret, self.where)
        if self.ret_tag == 'Self':
            self.ret_lean = f'{self.struct} V'
        self.fallible = f['name'] in unit.fallible
        # `&self` methods that write through `RefCell::borrow_mut` return the new `self` like `&mut self` ones
        self.threads = self.selfkind == 'mut' or (self.selfkind == 'ref' and any(t == ('id', 'borrow_mut') for t in f['body_toks']))
        self.loopctx = []        # enclosing loops translated in returning mode
        self.refine = {}         # element kinds of `Vec::with_capacity` vectors, learnt at `push`

    def err(self, msg):
        raise TErr(f'{self.where}: {msg}')

    def fresh(self, base):
        self.n += 1
        return f'{base}{self.n}'

    # ---------------------------------------------------------------- results
    def ret_type(self):
        if not self.fallible:
            return self.ret_lean
        if self.threads:
            return f'Except BuildErr ({self.ret_lean} × {self.struct} V)'
        return f'Except BuildErr {paren(self.ret_lean)}'

    def pack(self, v):
        if not self.fallible: return v
        if self.threads: return f'.ok ({v}, self)'
        return f'.ok {v}'

    def tx_return(self, e, env):
        """`return e` / the tail expression of the function body."""
        if self.loopctx: self.err('`return` inside a loop translated in returning mode')
        if self.ret_tag == 'result_unit':
            if e is not None and e[0] == 'call' and e[1] == ('path', ['Err']) and len(e[2]) == 1:
                t, ty = self.px(e[2][0], env)
                if ty != 'err': self.err('`Err(..)` of something that is not a DaachorseError')
                return [f'.error {t}']
            if e is not None and e[0] == 'call' and e[1] == ('path', ['Ok']) and e[2] == [('unit',)]:
                return [self.pack('()')]
            self.err(f'result of a `Result<()>` function must be `Ok(())` or `Err(..)`: {e}')
        if e is None: self.err('`return;` in a function with a value')
        def k(t, ty):
            return [self.pack(t)]
        return self.tx(e, env, k)

    def bind(self, term, pat, rest):
        return [f'match {term} with', '| .error e => .error e', f'| .ok {pat} =>'] + ind(rest)

    # ---------------------------------------------------------------- places
    def as_place(self, e, env):
        """('selffield', f, tag) | ('statefield', ix_expr, f, tag, mutable) | None"""
        if e[0] == 'path' and len(e[1]) == 1 and e[1][0] in env and env[e[1][0]][0] == 'alias':
            return env[e[1][0]][1]
        if e[0] == 'field' and e[1][0] == 'path' and len(e[1][1]) == 1 and e[1][1][0] in env and env[e[1][1][0]][0] == 'alias' \
                and env[e[1][1][0]][1][0] == 'statecell':
            cell = env[e[1][1][0]][1]
            return ('statefield', cell[1], e[2], self.u.field_tag('NfaBuilderState', e[2]), cell[2])
        if e[0] == 'field' and e[1] == ('path', ['self']):
            if self.selfkind not in ('ref', 'mut'): self.err('`self` outside a method')
            return ('selffield', e[2], self.u.field_tag(self.struct, e[2]))
        if e[0] == 'field' and e[1][0] == 'mcall' and e[1][2] in ('borrow', 'borrow_mut') and e[1][3] == []:
            cell = e[1][1]
            if cell[0] == 'index' and cell[1] == ('field', ('path', ['self']), 'states'):
                if self.u.field_tag(self.struct, 'states') != 'states': self.err('`states` changed type')
                return ('statefield', cell[2], e[2], self.u.field_tag('NfaBuilderState', e[2]), e[1][2] == 'borrow_mut')
            self.err(f'`.{e[1][2]}()` on something other than `self.states[..]`')
        return None

    def as_cell(self, e):
        """`self.states[ix].borrow()` / `.borrow_mut()` -> ('statecell', ix_expr, mutable) | None"""
        if e[0] == 'mcall' and e[2] in ('borrow', 'borrow_mut') and e[3] == []:
            cell = e[1]
            if cell[0] == 'index' and cell[1] == ('field', ('path', ['self']), 'states'):
                if self.u.field_tag(self.struct, 'states') != 'states': self.err('`states` changed type')
                return ('statecell', cell[2], e[2] == 'borrow_mut')
        return None

    def place_read(self, pl, env, k):
        if pl[0] == 'selffield':
            return k(f'self.{lname(pl[1])}', pl[2])
        if pl[0] == 'statecell': self.err('a whole state cell is used as a value')
        def ki(ix, ty):
            if ty != 'nat': self.err('index of a non-integer kind')
            s = self.fresh('s')
            return self.bind(f'Rs.index self.states {ix}', s, k(f'{s}.{lname(pl[2])}', pl[3]))
        return self.tx(pl[1], env, ki)

    def place_update(self, pl, env, mk, k):
        """mk(old_term) -> (lines_before, new_term, result_term, result_ty); writes the place, then k(result)."""
        if not self.threads: self.err('write through `&self`')
        if any(c['kind'] == 'loop' for c in self.loopctx): self.err('write inside a `loop` with a value')
        if pl[0] == 'selffield':
            pre, new, res, rty = mk(f'self.{lname(pl[1])}')
            return pre + [f'let self := {{ self with {lname(pl[1])} := {new} }}'] + k(res, rty)
        if pl[0] == 'statecell': self.err('a whole state cell is overwritten')
        if not pl[4]: self.err('write through `.borrow()`')
        def ki(ix, ty):
            if ty != 'nat': self.err('index of a non-integer kind')
            s = self.fresh('s')
            pre, new, res, rty = mk(f'{s}.{lname(pl[2])}')
            body = pre + [f'let self := {{ self with states := self.states.setIfInBounds {ix} {{ {s} with {lname(pl[2])} := {new} }} }}'] + k(res, rty)
            return self.bind(f'Rs.index self.states {ix}', s, body)
        return self.tx(pl[1], env, ki)

    # ---------------------------------------------------------------- pure expressions
    def px(self, e, env):
        box = []
        def k(t, ty):
            box.append((t, ty)); return ['@']
        lines = self.tx(e, env, k)
        if lines != ['@'] or len(box) != 1:
            self.err(f'expression with an effect or a failure in a pure position: {e}')
        return box[0]

    def px_ty(self, e, env, want):
        t, ty = self.px(e, env)
        if ty != want: self.err(f'expected a value of kind {want}, found {ty}: {e}')
        return t, ty

    def err_value(self, e, env):
        """closure body / argument that must be a DaachorseError constructor call."""
        t, ty = self.px(e, env)
        if ty != 'err': self.err(f'expected a DaachorseError constructor: {e}')
        return t

    # ---------------------------------------------------------------- expressions (CPS)
    def tx(self, e, env, k):
        h = e[0]
        if h == 'lit': return k(str(e[1]), 'nat')
        if h == 'bool': return k('true' if e[1] else 'false', 'bool')
        if h == 'unit': return k('()', 'unit')
        if h == 'path': return self.tx_path(e, env, k)
        if h == 'un':
            if e[1] in ('&', '*'):
                return self.tx(e[2], env, k)
            if e[1] == '!':
                def kn(t, ty):
                    if ty != 'bool': self.err('`!` on a non-bool')
                    return k(f'(!{t})', 'bool')
                return self.tx(e[2], env, kn)
            self.err(f'unsupported unary operator `{e[1]}`')
        if h == 'bin': return self.tx_bin(e, env, k)
        if h == 'tuple':
            def kt(ts):
                return k('(' + ', '.join(t for t, _ in ts) + ')', ('tuple', [ty for _, ty in ts]))
            return self.tx_list(e[1], env, kt)
        if h == 'index' and e[1][0] == 'path' and len(e[1][1]) == 1 and e[1][1][0] in env and env[e[1][1][0]][0] in ('val', 'mut'):
            b = env[e[1][1][0]]
            ety = self.vec_elem(b)
            def kx(ix, ty):
                if ty != 'nat': self.err('index of a non-integer kind')
                x = self.fresh('x')
                return self.bind(f'Rs.index {b[1]} {ix}', x, k(x, ety))
            return self.tx(e[2], env, kx)
        if h == 'tupfield':
            def ktf(t, ty):
                if not (isinstance(ty, tuple) and ty[0] == 'tuple' and e[2] < len(ty[1])): self.err(f'`.{e[2]}` on a value of kind {ty}')
                n = len(ty[1])
                proj = t + ''.join(['.2'] * e[2]) + ('.1' if e[2] < n - 1 else '')
                return k(proj, ty[1][e[2]])
            return self.tx(e[1], env, ktf)
        if h == 'loop': return self.tx_vloop(e, env, k)
        if h == 'field' or h == 'index':
            pl = self.as_place(e, env)
            if pl is None: self.err(f'unsupported place expression: {e}')
            return self.place_read(pl, env, k)
        if h == 'call': return self.tx_call(e, env, k)
        if h == 'mcall': return self.tx_mcall(e, env, k)
        if h == 'try':
            def kq(t, ty):
                if not (isinstance(ty, tuple) and ty[0] == 'except'):
                    self.err('`?` on something that is not `map_err(..)` / `ok_or_else(..)`')
                v = self.fresh('v')
                return self.bind(t, v, k(v, ty[1]))
            return self.tx(e[1], env, kq)
        if h == 'veclist':
            def kv(ts):
                tys = {repr(ty) for _, ty in ts}
                if len(tys) > 1: self.err('heterogeneous vec!')
                ety = ts[0][1] if ts else None
                return k('#[' + ', '.join(t for t, _ in ts) + ']', 'states' if ety == 'state' else ('vec', ety))
            return self.tx_list(e[1], env, kv)
        if h == 'struct':
            if e[1] != ['Self']: self.err(f'struct literal of `{"::".join(e[1])}`')
            want = list(self.u.structs[self.struct].keys())
            if [f for f, _ in e[2]] != want: self.err('struct literal must list every field in declaration order')
            def ks(ts):
                for (f, _), (t, ty) in zip(e[2], ts):
                    fty = self.u.field_tag(self.struct, f)
                    if not compatible(ty, fty): self.err(f'field `{f}`: value of kind {ty}, field of kind {fty}')
                body = ', '.join(f'{lname(f)} := {t}' for (f, _), (t, _) in zip(e[2], ts))
                return k(f'({{ {body} }} : {self.struct} V)', 'Self')
            return self.tx_list([x for _, x in e[2]], env, ks)
        if h in ('if', 'iflet'):
            return self.tx_if(e, env, k)
        if h == 'block':
            return self.tx_block(e, env, k)
        if h == 'macro':
            self.err(f'macro `{e[1]}!` outside an error constructor')
        self.err(f'unsupported expression form `{h}`')

    def tx_list(self, es, env, k, acc=None):
        acc = acc or []
        if not es: return k(acc)
        return self.tx(es[0], env, lambda t, ty: self.tx_list(es[1:], env, k, acc + [(t, ty)]))

    def tx_path(self, e, env, k):
        p = e[1]
        if len(p) == 1:
            n = p[0]
            if n in env:
                b = env[n]
                if b[0] == 'alias': return self.place_read(b[1], env, k)
                return k(b[1], b[2])
            if n == 'self':
                if self.selfkind is None: self.err('`self` outside a method')
                return k('self', 'self')
            if n in self.u.consts: return k(self.u.consts[n], 'nat')
            if n == 'None': return k('none', ('opt', None))
        if p == ['u32', 'MAX']: return k('Rs.u32Max', 'nat')
        self.err(f'unknown name `{"::".join(p)}`')

    def tx_bin(self, e, env, k):
        op, a, b = e[1], e[2], e[3]
        if op in ('||', '&&'):
            def ka(ta, tya):
                if tya != 'bool': self.err(f'`{op}` on a non-bool')
                try:
                    tb, tyb = self.px(b, env)
                except TErr:
                    tb = None
                if tb is not None:
                    if tyb != 'bool': self.err(f'`{op}` on a non-bool')
                    return k(f'({ta} {op} {tb})', 'bool')
                # effectful right operand: short circuit, the continuation is duplicated
                def kb(t, ty):
                    if ty != 'bool': self.err(f'`{op}` on a non-bool')
                    return k(t, 'bool')
                other = self.tx(b, env, kb)
                if op == '||':
                    return [f'if {ta} then'] + ind(k('true', 'bool')) + ['else'] + ind(other)
                return [f'if {ta} then'] + ind(other) + ['else'] + ind(k('false', 'bool'))
            return self.tx(a, env, ka)
        lean_op = {'+': '+', '==': '==', '!=': '!=', '<': '<', '<=': '≤', '>': '>', '>=': '≥'}
        if op not in lean_op: self.err(f'unsupported binary operator `{op}`')
        def kab(ts):
            (ta, tya), (tb, tyb) = ts
            if op == '+':
                if (tya, tyb) != ('nat', 'nat'): self.err('`+` on non-integers')
                return k(f'({ta} + {tb})', 'nat')
            if tya != tyb or tya not in ('nat', 'kind'): self.err(f'`{op}` on {tya} / {tyb}')
            if op in ('==', '!='):
                return k(f'({ta} {lean_op[op]} {tb})', 'bool')
            return k(f'(decide ({ta} {lean_op[op]} {tb}))', 'bool')
        return self.tx_list([a, b], env, kab)

    def tx_call(self, e, env, k):
        if e[1][0] != 'path': self.err(f'call of a non-path: {e[1]}')
        p, args = e[1][1], e[2]
        name = '::'.join(p)
        if name == 'usize::from_u32' and len(args) == 1:
            return self.tx(args[0], env, lambda t, ty: k(t, 'nat') if ty == 'nat' else self.err('from_u32 of a non-integer'))
        if name == 'RefCell::new' and len(args) == 1:
            return self.tx(args[0], env, k)
        if name == 'NfaBuilderState::default' and args == []:
            if 'default' not in self.u.done.get('NfaBuilderState', ()): self.err('NfaBuilderState::default is not translated')
            return k('NfaBuilderState.default', 'state')
        if name == 'EdgeMap::default' and args == []: return k('Rs.EdgeMap.empty', 'edges')
        if name == 'BTreeSet::new' and args == []: return k('Rs.SetL.empty', 'set')
        if name == 'NonZeroU32::new' and len(args) == 1:
            def kn(t, ty):
                if ty != 'nat': self.err('NonZeroU32::new of a non-integer')
                return k(f'(Rs.nonZeroU32New {t})', ('opt', 'nat'))
            return self.tx(args[0], env, kn)
        if name == 'u32::try_from' and len(args) == 1:
            def kt(t, ty):
                if ty != 'nat': self.err('u32::try_from of a non-integer')
                return k(f'(Rs.u32TryFrom {t})', ('tryres', 'nat'))
            return self.tx(args[0], env, kt)
        if name == 'Vec::with_capacity' and len(args) == 1:
            t, _ = self.px_ty(args[0], env, 'nat')
            return k(f'(Rs.vecWithCapacity {t})', ('vec', None))
        if name == 'Output::new' and len(args) == 3:
            self.u.check_output_new()
            def ko(ts):
                if [ty for _, ty in ts] != ['V', 'nat', ('opt', 'nat')]: self.err(f'Output::new of {[ty for _, ty in ts]}')
                return k(f'({{ value := {ts[0][0]}, length := {ts[1][0]}, parent := {ts[2][0]} }} : Rs.Output V)', 'output')
            return self.tx_list(args, env, ko)
        if len(p) == 2 and p[0] == 'DaachorseError':
            if p[1] not in ERR_CTORS: self.err(f'unknown error constructor `{name}`')
            return k(ERR_CTORS[p[1]], 'err')       # arguments (names, bounds, format! payloads) are dropped
        self.err(f'unsupported call `{name}(..)`')

    def closure(self, e, nparams):
        if e[0] != 'closure' or len(e[1]) != nparams: self.err(f'expected a closure with {nparams} parameter(s): {e}')
        return e[1], e[2]

    def tx_mcall(self, e, env, k):
        recv, m, args = e[1], e[2], e[3]
        # --- calls of translated methods of self
        if recv == ('path', ['self']) and (self.struct, m) in self.u.sigs:
            sig = self.u.sigs[(self.struct, m)]
            if sig['selfkind'] != 'ref' or not sig['fallible']: self.err(f'call of `{m}`: only fallible `&self` methods are supported')
            if len(args) != len(sig['params']): self.err(f'arity of `{m}`')
            def kc(ts):
                for (t, ty), (_, pty) in zip(ts, sig['params']):
                    if ty != pty: self.err(f'argument of `{m}`: {ty} for {pty}')
                r = self.fresh('r')
                call = f'{self.struct}.{lname(m)} self ' + ' '.join(t for t, _ in ts)
                return self.bind(call.rstrip(), r, k(r, sig['ret']))
            return self.tx_list(args, env, kc)
        # --- mutators of places
        pl = self.as_place(recv, env)
        if pl is not None:
            tag = pl[2] if pl[0] == 'selffield' else pl[3]
            if m == 'replace' and len(args) == 1 and isinstance(tag, tuple) and tag[0] == 'opt':
                v, vty = self.px(args[0], env)
                if not compatible(vty, tag[1]): self.err(f'replace: {vty} into {tag}')
                r = self.fresh('r')
                def mk(old):
                    return [f'let {r} := Rs.optReplace {old} {v}'], f'{r}.2', f'{r}.1', tag
                return self.place_update(pl, env, mk, k)
            if m == 'insert' and tag == 'edges' and len(args) == 2:
                c, _ = self.px_ty(args[0], env, 'nat')
                v, _ = self.px_ty(args[1], env, 'nat')
                def mk(old):
                    return [], f'Rs.EdgeMap.insert {old} {c} {v}', None, 'discarded'
                return self.place_update(pl, env, mk, k)
            if m == 'insert' and tag == 'set' and len(args) == 1:
                x, _ = self.px_ty(args[0], env, 'listnat')
                r = self.fresh('r')
                def mk(old):
                    return [f'let {r} := Rs.SetL.insert {old} {x}'], f'{r}.2', f'{r}.1', 'bool'
                return self.place_update(pl, env, mk, k)
            if m == 'push' and tag == 'states' and len(args) == 1:
                x, _ = self.px_ty(args[0], env, 'state')
                def mk(old):
                    return [], f'{old}.push {x}', '()', 'unit'
                return self.place_update(pl, env, mk, k)
            if m == 'push' and isinstance(tag, tuple) and tag[0] == 'vec' and len(args) == 1:
                def kp(x, xty):
                    if xty != tag[1]: self.err(f'push of {xty} into {tag}')
                    def mk(old):
                        return [], f'{old}.push {x}', '()', 'unit'
                    return self.place_update(pl, env, mk, k)
                return self.tx(args[0], env, kp)
        if m == 'push' and len(args) == 1 and recv[0] == 'path' and len(recv[1]) == 1 and recv[1][0] in env and env[recv[1][0]][0] == 'mut':
            b = env[recv[1][0]]
            if not (isinstance(b[2], tuple) and b[2][0] == 'vec'): self.err(f'push on a variable of kind {b[2]}')
            def kp(x, xty):
                ety = b[2][1] if b[2][1] is not None else self.refine.setdefault(b[1], xty)
                if xty != ety: self.err(f'push of {xty} into a vector of {ety}')
                return [f'let {b[1]} := {b[1]}.push {x}'] + k('()', 'unit')
            return self.tx(args[0], env, kp)
        # --- `self.match_kind.is_leftmost_first()`
        if m == 'is_leftmost_first' and args == []:
            def kk(t, ty):
                if ty != 'kind': self.err('is_leftmost_first on a non-MatchKind')
                return k(f'({t} == {self.u.leftmost_first_byte})', 'bool')
            return self.tx(recv, env, kk)
        # --- std methods on values
        def kr(t, ty):
            if m == 'len' and args == [] and ty == 'states': return k(f'{t}.size', 'nat')
            if m == 'len' and args == [] and isinstance(ty, tuple) and ty[0] == 'vec': return k(f'{t}.size', 'nat')
            if m == 'values' and args == [] and ty == 'edges': return k(f'(Rs.EdgeMap.values {t})', 'listnat')
            if m == 'get' and args == [] and ty == 'nat': return k(t, 'nat')        # NonZeroU32::get
            if m == 'unwrap' and args == [] and isinstance(ty, tuple) and ty[0] == 'tryres':
                v = self.fresh('v')
                return [f'match {t} with', f'| some {v} =>'] + ind(k(v, ty[1])) + ['| none =>', '  .error (.panic "unwrap")']
            if m == 'iter' and args == [] and ty == 'listnat': return k(t, 'iter')
            if m == 'to_vec' and args == [] and ty == 'listnat': return k(t, 'listnat')
            if m == 'fold' and len(args) == 2 and ty == 'iter':
                i, _ = self.px_ty(args[0], env, 'nat')
                ps, body = self.closure(args[1], 2)
                if not all(p[0] == 'pid' for p in ps): self.err('fold closure parameters')
                a, c = ps[0][1], ps[1][1]
                env2 = dict(env); env2[a] = ('val', lname(a), 'nat'); env2[c] = ('val', lname(c), 'nat')
                b, _ = self.px_ty(body, env2, 'nat')
                return k(f'(List.foldl (fun {lname(a)} {lname(c)} => {b}) {i} {t})', 'nat')
            if m == 'num_bytes' and args == [] and ty == 'nat': return k(f'(nb {t})', 'nat')
            if m == 'try_into' and args == [] and ty == 'nat': return k(f'(Rs.u32TryFrom {t})', ('tryres_unchecked', 'nat'))
            if m == 'map_err' and len(args) == 1 and isinstance(ty, tuple) and ty[0] in ('tryres', 'tryres_unchecked'):
                ps, body = self.closure(args[0], 1)
                if ps[0] != ('pwild',): self.err('map_err closure must ignore the error')
                if ty[0] == 'tryres_unchecked':
                    # the target type of `.try_into()` is inferred by rustc; the bound in the error fixes it here
                    if not (body[0] == 'call' and len(body[2]) == 3 and body[2][2] == ('path', ['u32', 'MAX'])):
                        self.err('`.try_into()`: cannot confirm that the target type is u32')
                return k(f'(Rs.mapErr {t} {self.err_value(body, env)})', ('except', ty[1]))
            if m == 'ok_or_else' and len(args) == 1 and isinstance(ty, tuple) and ty[0] == 'opt':
                ps, body = self.closure(args[0], 0)
                return k(f'(Rs.okOrElse {t} {self.err_value(body, env)})', ('except', ty[1]))
            if m == 'is_some' and args == [] and isinstance(ty, tuple) and ty[0] == 'opt': return k(f'{t}.isSome', 'bool')
            if m == 'copied' and args == [] and isinstance(ty, tuple) and ty[0] == 'opt': return k(t, ty)
            if m == 'get' and len(args) == 1 and ty == 'edges':
                c, _ = self.px_ty(args[0], env, 'nat')
                return k(f'(Rs.EdgeMap.get {t} {c})', ('opt', 'nat'))
            self.err(f'unsupported method `.{m}(..)` with {len(args)} argument(s) on a value of kind {ty}')
        return self.tx(recv, env, kr)

    # ---------------------------------------------------------------- control
    def tx_if(self, e, env, k):
        if e[0] == 'if':
            _, cond, then, els = e
            def kc(t, ty):
                if ty != 'bool': self.err('`if` on a non-bool')
                a = self.tx_block(then, env, k)
                b = self.tx_block(els, env, k) if els is not None else k('()', 'unit')
                return [f'if {t} then'] + ind(a) + ['else'] + ind(b)
            return self.tx(cond, env, kc)
        _, pat, scrut, then, els = e
        def ks(t, ty):
            if pat[0] == 'penum' and pat[1] == ['Some'] and isinstance(ty, tuple) and ty[0] == 'opt': pass
            elif pat[0] == 'penum' and pat[1] == ['Ok'] and isinstance(ty, tuple) and ty[0] == 'tryres': pass
            else: self.err(f'unsupported `if let` pattern {pat} on a value of kind {ty}')
            if len(pat[2]) != 1 or pat[2][0][0] != 'pid': self.err('`if let` sub-pattern must be a variable')
            x = pat[2][0][1]
            env2 = dict(env); env2[x] = ('val', lname(x), ty[1])
            a = self.tx_block(then, env2, k)
            b = self.tx_block(els, env, k) if els is not None else k('()', 'unit')
            return [f'match {t} with', f'| some {lname(x)} =>'] + ind(a) + ['| none =>'] + ind(b)
        return self.tx(scrut, env, ks)

    def tx_if_join(self, x, env, cont):
        """`if` statement that falls through on every path and is followed by more code: its branches
        return the variables they change, the code that follows is emitted once."""
        assigned = assigned_in(x)
        wself = writes_self(x)
        if wself and not self.threads: self.err('write through `&self`')
        var = ([('self', None)] if wself else []) + [(b[1], b[2]) for n, b in env.items() if b[0] == 'mut' and n in assigned]
        for n in assigned:
            if n not in env or env[n][0] != 'mut': self.err(f'assignment to `{n}` in an `if`')
        vs = [v for v, _ in var]
        def kj(t, ty):
            if ty != 'unit': self.err('`if` statement with a value')
            return ['.ok ' + (tup(vs) if vs else '()')]
        lines = self.tx_if(x, env, kj)
        rty = ' × '.join(self.lean_ty2(v, t) for v, t in var) if var else 'Unit'
        head = [f'match (show Except BuildErr ({rty}) from'] + ind(lines) + [') with']
        return head + ['| .error e => .error e', f'| .ok {tup(vs) if vs else "_"} =>'] + ind(cont(env))

    def tx_block(self, blk, env, k):
        if blk[0] != 'block': self.err('expected a block')
        return self.tx_stmts(blk[1], blk[2], env, k)

    def tx_stmts(self, stmts, tail, env, k):
        if not stmts:
            if tail is None: return k('()', 'unit')
            if tail[0] == 'return': return self.tx_return(tail[1], env)
            if tail[0] in ('for', 'while', 'breakv'):      # a statement in tail position
                return self.tx_stmts([('expr', tail)], None, env, k)
            return self.tx(tail, env, k)
        st, rest = stmts[0], stmts[1:]
        cont = lambda env2: self.tx_stmts(rest, tail, env2, k)
        h = st[0]
        if h == 'let':
            _, pat, mut, ty, init = st
            if pat[0] != 'pid' or init is None: self.err(f'unsupported `let` form: {pat}')
            if ty is not None: self.err('`let` with a type annotation')
            x = pat[1]
            if init[0] == 'un' and init[1] == '&':
                pl = self.as_place(init[2], env) or self.as_cell(init[2])
                if pl is not None:
                    if mut: self.err('`let mut` of a reference')
                    env2 = dict(env); env2[x] = ('alias', pl)
                    return cont(env2)
            def kl(t, tyv):
                if tyv in ('discarded', 'unit', 'iter', 'err') or (isinstance(tyv, tuple) and tyv[0] in ('except', 'tryres_unchecked')):
                    self.err(f'`let {x}` of a value of kind {tyv}')
                env2 = dict(env); env2[x] = ('mut' if mut else 'val', lname(x), tyv)
                return [f'let {lname(x)} := {t}'] + cont(env2)
            return self.tx(init, env, kl)
        if h == 'assign':
            _, lhs, op, rhs = st
            if lhs[0] == 'path' and len(lhs[1]) == 1 and lhs[1][0] in env and env[lhs[1][0]][0] == 'mut' and op in ('=', '+='):
                b = env[lhs[1][0]]
                def ka(t, ty):
                    if ty != b[2]: self.err(f'assignment of {ty} to a variable of kind {b[2]}')
                    if op == '+=':
                        if ty != 'nat': self.err('`+=` on a non-integer')
                        return [f'let {b[1]} := ({b[1]} + {t})'] + cont(env)
                    return [f'let {b[1]} := {t}'] + cont(env)
                return self.tx(rhs, env, ka)
            pl = self.as_place(lhs, env)
            if pl is not None and pl[0] != 'statecell' and op in ('=', '+='):
                tag = pl[2] if pl[0] == 'selffield' else pl[3]
                def kr(t, ty):
                    if not compatible(ty, tag) or (op == '+=' and ty != 'nat'): self.err(f'assignment `{op}` of {ty} to a place of kind {tag}')
                    def mk(old):
                        return [], (t if op == '=' else f'({old} + {t})'), '()', 'unit'
                    return self.place_update(pl, env, mk, lambda _t, _ty: cont(env))
                return self.tx(rhs, env, kr)
            self.err(f'unsupported assignment: {lhs} {op}')
        if h == 'expr':
            x = st[1]
            if x[0] == 'return': return self.tx_return(x[1], env)
            if x[0] == 'for' and not has_form(x[3], 'return'): return self.tx_rloop('for', x, env, cont)
            if x[0] == 'for': return self.tx_for(x, env, cont)
            if x[0] == 'while': return self.tx_rloop('while', x, env, cont)
            if x[0] == 'breakv':
                if not self.loopctx or self.loopctx[-1]['kind'] != 'loop': self.err('`break <value>` outside a `loop`')
                ctx = self.loopctx[-1]
                def kb(t, ty):
                    if ctx['ty'] is None: ctx['ty'] = ty
                    if ctx['ty'] != ty: self.err(f'`break` values of kinds {ctx["ty"]} and {ty}')
                    return ['.ok ' + tup([t] + [v for v, _ in ctx['var']])]
                return self.tx(x[1], env, kb)
            if x[0] == 'assert':
                if not x[2].startswith('debug_assert'): self.err(f'unsupported assertion `{x[2]}`')
                def kas(t, ty):
                    if ty != 'bool': self.err('assertion on a non-bool')
                    return [f'if {t} then'] + ind(cont(env)) + ['else', '  .error (.panic "debug_assert")']
                return self.tx(x[1], env, kas)
            if x[0] in ('if', 'iflet') and (rest or tail is not None) and self.fallible and \
                    not any(has_form(x, f) for f in ('return', 'break', 'breakv', 'continue')):
                return self.tx_if_join(x, env, cont)
            if x[0] in ('if', 'iflet'):
                def ki(t, ty):
                    if ty != 'unit': self.err('`if` statement with a value')
                    return cont(env)
                return self.tx_if(x, env, ki)
            if x[0] == 'mcall':
                def km(t, ty):
                    if ty not in ('unit', 'discarded'): self.err(f'value of kind {ty} of `.{x[2]}(..)` is dropped')
                    return cont(env)
                return self.tx_mcall(x, env, km)
            self.err(f'unsupported expression statement `{x[0]}`')
        self.err(f'unsupported statement form `{h}`')

    def lean_ty(self, tag):
        t = {'nat': 'Nat', 'listnat': 'List Nat', 'V': 'V', 'bool': 'Bool', 'kind': 'Nat'}.get(tag if isinstance(tag, str) else None)
        if t is None: self.err(f'loop over a live variable of kind {tag}')
        return t

    def tx_for(self, e, env, cont):
        _, pat, it, body = e
        if not (pat[0] == 'pref' and pat[1][0] == 'pid'): self.err(f'unsupported `for` pattern {pat}')
        c = pat[1][1]
        lt, lty = self.px(it, env)
        if lty != 'listnat': self.err('`for` over something that is not a slice of labels')
        if not self.fallible: self.err('`for` in an infallible function')
        name = f'{self.lean_name}.loop{self.nloops}'; self.nloops += 1
        fixed = [(b[1], b[2]) for n, b in env.items() if b[0] == 'val']
        var = [(b[1], b[2]) for n, b in env.items() if b[0] == 'mut']
        if any(b[0] == 'alias' for b in env.values()): self.err('reference alive across a loop')
        selfp = [('self', None)] if self.selfkind in ('ref', 'mut') else []
        if self.selfkind == 'mut': var = selfp + var
        else: fixed = selfp + fixed
        def tyof(x): return f'{self.struct} V' if x[1] is None else self.lean_ty(x[1])
        env_in = dict(env); env_in[c] = ('val', lname(c), 'nat')
        rec = lambda: [' '.join([name, 'ARGS'] + ['rest'] + [v for v, _ in var])]
        def kbody(t, ty):
            if ty != 'unit': self.err('loop body with a value')
            return rec()
        body_lines = self.tx_block(body, env_in, kbody)
        after_lines = cont(env)
        uses_nb = any('(nb ' in l for l in body_lines + after_lines)
        fx = ([('nb', 'Nat → Nat')] if uses_nb else []) + [(v, tyof((v, t))) for v, t in fixed]
        args = ' '.join(v for v, _ in fx)
        body_lines = [l.replace(' ARGS', ' ' + args if args else '') for l in body_lines]
        vars_pat = ''.join(', ' + v for v, _ in var)
        sig = ' '.join(f'({v} : {t})' for v, t in fx)
        d = [f'def {name} {{V : Type}} {sig} : List Nat' + ''.join(' → ' + tyof(x) for x in var) + f' → {self.ret_type()}',
             f'  | []{vars_pat} =>'] + ind(after_lines, 6) + [f'  | {lname(c)} :: rest{vars_pat} =>'] + ind(body_lines, 6)
        self.loops.append(d)
        return [' '.join([name] + ([args] if args else []) + [lt] + [v for v, _ in var])]

    # ---------------------------------------------------------------- loops in returning mode
    def vec_elem(self, b):
        if not (isinstance(b[2], tuple) and b[2][0] == 'vec'): self.err(f'index of a variable of kind {b[2]}')
        ety = b[2][1] if b[2][1] is not None else self.refine.get(b[1])
        if ety is None: self.err(f'element kind of `{b[1]}` is not known')
        return ety

    def lean_ty2(self, name, tag):
        if tag is None: return f'{self.struct} V'
        if isinstance(tag, tuple) and tag[0] == 'vec':
            ety = tag[1] if tag[1] is not None else self.refine.get(name)
            if ety == 'nat': return 'Array Nat'
            self.err(f'loop over a live vector `{name}` of unknown / unsupported element kind {ety}')
        return self.lean_ty(tag)

    def loop_frame(self, e, body, env):
        """(fixed, var): the live variables a loop function takes; `var` are those it may change."""
        used = names_in(body) | (names_in(e[1]) if e[0] == 'while' else set())
        for n in list(used):
            if n in env and env[n][0] == 'alias':
                used |= names_in(env[n][1][1])
                for m in names_in(env[n][1][1]):
                    if m in env and env[m][0] != 'val' and m not in self.u.consts:
                        self.err(f'reference `{n}` alive across a loop depends on the mutable variable `{m}`')
        assigned = assigned_in(body)
        for n in assigned:
            if n not in env or env[n][0] != 'mut':
                if n in env: self.err(f'assignment to the immutable / aliased variable `{n}` in a loop')
        wself = writes_self(body)
        if wself and not self.threads: self.err('write through `&self`')
        uses_self = 'self' in used
        var = ([('self', None)] if wself else []) + [(b[1], b[2]) for n, b in env.items() if b[0] == 'mut' and n in assigned]
        fixed = ([('self', None)] if (uses_self and not wself) else []) + \
                [(b[1], b[2]) for n, b in env.items() if b[0] in ('val', 'mut') and n in used and n not in assigned]
        return fixed, var

    FUEL = '(self.states.size + 1)'

    def tx_rloop(self, kind, e, env, cont):
        """`for` / `while` without `return`: the loop function returns the variables it changes."""
        if not self.fallible: self.err('loop in an infallible function')
        body = e[-1]
        name = f'{self.lean_name}.loop{self.nloops}'; self.nloops += 1
        fixed, var = self.loop_frame(e, body, env)
        env_in = dict(env)
        if kind == 'for':
            pat, it = e[1], e[2]
            if pat[0] == 'pref' and pat[1][0] == 'pid':
                binder, ity = lname(pat[1][1]), 'List Nat'
                env_in[pat[1][1]] = ('val', binder, 'nat')
                want = ('listnat', ('vec', 'nat'))
            elif pat[0] == 'ptuple' and len(pat[1]) == 2 and all(q[0] == 'pref' and q[1][0] == 'pid' for q in pat[1]):
                a, b = pat[1][0][1][1], pat[1][1][1][1]
                binder, ity = f'({lname(a)}, {lname(b)})', 'List (Nat × Nat)'
                env_in[a] = ('val', lname(a), 'nat'); env_in[b] = ('val', lname(b), 'nat')
                want = ('edges',)
            else:
                self.err(f'unsupported `for` pattern {pat}')
            stepper, first, exhausted = 'rest', f'{binder} :: rest', '[]'
        else:
            cond = e[1]
            stepper, first, exhausted, ity = 'fuel', 'fuel + 1', '0', 'Nat'
        self.loopctx.append(dict(kind=kind))
        fx = ' '.join(v for v, _ in fixed)
        vs = [v for v, _ in var]
        rec = [' '.join([name] + ([fx] if fx else []) + [stepper] + vs)]
        done = ['.ok ' + tup(vs)]
        def kbody(t, ty):
            if ty != 'unit': self.err('loop body with a value')
            return rec
        if kind == 'for':
            step_lines = self.tx_block(body, env_in, kbody)
            nil_lines = done
        else:
            def kc(t, ty):
                if ty != 'bool': self.err('`while` on a non-bool')
                return [f'if {t} then'] + ind(self.tx_block(body, env_in, kbody)) + ['else'] + ind(done)
            step_lines = self.tx(cond, env_in, kc)
            nil_lines = ['.error (.panic "fuel")']
        self.loopctx.pop()
        if any('(nb ' in l for l in step_lines): self.err('`num_bytes` inside a loop in returning mode')
        sig = ''.join(f' ({v} : {self.lean_ty2(v, t)})' for v, t in fixed)
        vtys = [self.lean_ty2(v, t) for v, t in var]
        rty = ' × '.join(vtys) if vtys else 'Unit'
        vpat = ''.join(', ' + v for v in vs)
        tyV = ' {V : Type}' if re.search(r'\bV\b', sig + ' '.join(vtys)) else ''
        d = [f'def {name}{tyV}{sig} : {ity}' + ''.join(' → ' + t for t in vtys) + f' → Except BuildErr ({rty})',
             f'  | {exhausted}{vpat} =>'] + ind(nil_lines, 6) + [f'  | {first}{vpat} =>'] + ind(step_lines, 6)
        self.loops.append(d)
        def call(src):
            return self.bind(' '.join([name] + ([fx] if fx else []) + [src] + vs), tup(vs) if vs else '_', cont(env))
        if kind == 'while': return call(self.FUEL)
        def ksrc(t, ty):
            if ty not in want: self.err(f'`for` with pattern {pat} over a value of kind {ty}')
            return call(f'{t}.toList' if ty == ('vec', 'nat') else t)
        return self.tx(e[2], env, ksrc)

    def tx_vloop(self, e, env, k):
        """`loop { .. break v; .. }` as an expression: the loop function takes fuel and returns the break
        value next to the variables it changes; it must not write `self`."""
        if not self.fallible: self.err('loop in an infallible function')
        body = e[1]
        for form in ('return', 'break', 'continue', 'for', 'while', 'loop', 'whilelet'):
            if has_form(body, form): self.err(f'`{form}` inside a `loop` with a value')
        name = f'{self.lean_name}.loop{self.nloops}'; self.nloops += 1
        fixed, var = self.loop_frame(e, body, env)
        if any(v == 'self' for v, _ in var): self.err('write inside a `loop` with a value')
        ctx = dict(kind='loop', ty=None, var=var)
        self.loopctx.append(ctx)
        fx = ' '.join(v for v, _ in fixed)
        vs = [v for v, _ in var]
        def kbody(t, ty):
            if ty != 'unit': self.err('loop body with a value')
            return [' '.join([name] + ([fx] if fx else []) + ['fuel'] + vs)]
        step_lines = self.tx_block(body, env, kbody)
        self.loopctx.pop()
        if ctx['ty'] is None: self.err('`loop` without `break <value>`')
        if any('(nb ' in l for l in step_lines): self.err('`num_bytes` inside a loop in returning mode')
        sig = ''.join(f' ({v} : {self.lean_ty2(v, t)})' for v, t in fixed)
        vtys = [self.lean_ty2(v, t) for v, t in var]
        rty = ' × '.join([self.lean_ty2('', ctx['ty'])] + vtys)
        vpat = ''.join(', ' + v for v in vs)
        tyV = ' {V : Type}' if re.search(r'\bV\b', sig + ' '.join(vtys) + rty) else ''
        d = [f'def {name}{tyV}{sig} : Nat' + ''.join(' → ' + t for t in vtys) + f' → Except BuildErr ({rty})',
             f'  | 0{vpat} =>', '      .error (.panic "fuel")', f'  | fuel + 1{vpat} =>'] + ind(step_lines, 6)
        self.loops.append(d)
        v = self.fresh('v')
        return self.bind(' '.join([name] + ([fx] if fx else []) + [self.FUEL] + vs), tup([v] + vs), k(v, ctx['ty']))

    # ---------------------------------------------------------------- whole function
    def run(self):
        f = self.f
        body = PN(f['body_toks'], self.where).block()
        env, params = {}, []
        for pn, pty, pmut in f['params']:
            lt, tag = map_type(pty, self.where)
            env[pn] = ('mut' if pmut else 'val', lname(pn), tag)
            params.append(f'({lname(pn)} : {lt})')
        def k(t, ty):
            if self.ret_tag == 'result_unit': self.err('a `Result<()>` function must end with `Ok(())` / `Err(..)` / `return`')
            if not compatible(ty, self.u.tag_of_ret(self)): self.err(f'function value of kind {ty}, declared {f["ret"]}')
            return [self.pack(t)]
        if body[2] is not None and self.ret_tag == 'result_unit':
            lines = self.tx_stmts(body[1], ('return', body[2]), env, k)
        else:
            lines = self.tx_stmts(body[1], body[2], env, k)
        uses_nb = any('(nb ' in l for l in lines)
        selfp = [f'(self : {self.struct} V)'] if self.selfkind in ('ref', 'mut') else []
        head = f'def {self.lean_name} {{V : Type}} ' + ' '.join((['(nb : Nat → Nat)'] if uses_nb else []) + selfp + params)
        out = []
        for d in self.loops:
            out += d + ['']
        out += [f'/-- `{f["target"]}::{f["name"]}` ({SRC}) -/', f'{head.rstrip()} : {self.ret_type()} :='] + ind(lines)
        return '\n'.join(out) + '\n'


def tup(xs):
    return xs[0] if len(xs) == 1 else '(' + ', '.join(xs) + ')'

def walk_ast(e):
    if isinstance(e, (tuple, list)):
        yield e
        for x in e:
            yield from walk_ast(x)

def names_in(e):
    return {x[1][0] for x in walk_ast(e) if isinstance(x, tuple) and len(x) == 2 and x[0] == 'path' and isinstance(x[1], list) and len(x[1]) == 1}

def assigned_in(e):
    out = set()
    for x in walk_ast(e):
        if isinstance(x, tuple) and x and x[0] == 'assign' and x[1][0] == 'path' and len(x[1][1]) == 1: out.add(x[1][1][0])
        if isinstance(x, tuple) and len(x) == 4 and x[0] == 'mcall' and x[2] == 'push' and x[1][0] == 'path' and len(x[1][1]) == 1: out.add(x[1][1][0])
    return out

def writes_self(e):
    """over-approximation: a `borrow_mut`, an assignment to a non-variable, or a mutator call on a non-variable"""
    for x in walk_ast(e):
        if not (isinstance(x, tuple) and x): continue
        if x[0] == 'mcall' and len(x) == 4 and x[2] == 'borrow_mut': return True
        if x[0] == 'assign' and not (x[1][0] == 'path' and len(x[1][1]) == 1): return True
        if x[0] == 'mcall' and len(x) == 4 and x[2] in ('push', 'insert', 'replace') and not (x[1][0] == 'path' and len(x[1][1]) == 1): return True
    return False

def has_form(e, form):
    return any(isinstance(x, tuple) and x and x[0] == form for x in walk_ast(e))

def compatible(ty, want):
    if ty == want: return True
    if isinstance(ty, tuple) and isinstance(want, tuple) and ty[0] == want[0] == 'opt' and ty[1] is None: return True
    if isinstance(ty, tuple) and isinstance(want, tuple) and ty[0] == want[0] == 'vec' and ty[1] is None: return True
    if isinstance(ty, tuple) and isinstance(want, tuple) and ty[0] == want[0] == 'tuple': return list(ty[1]) == list(want[1])
    return False

def paren(s):
    return f'({s})' if ' ' in s else s


class Unit:
    def __init__(self, repo, outdir):
        src = open(os.path.join(repo, SRC)).read()
        self.structs, self.fns = parse_items(src, SRC)
        for s in ('NfaBuilderState', 'NfaBuilder'):
            if s not in self.structs: raise TErr(f'{SRC}: struct {s} not found')
        # constants of the file
        self.consts = {}
        for n, v in re.findall(r'pub const (\w+): u32 = (\d+);', src):
            self.consts[n] = {'ROOT_STATE_ID': 'Gen.rootStateId', 'DEAD_STATE_ID': 'Gen.deadStateId'}.get(n)
        consts_lean = open(os.path.join(outdir, 'Consts.lean')).read()
        for n, ln in (('ROOT_STATE_ID', 'rootStateId'), ('DEAD_STATE_ID', 'deadStateId')):
            m = re.search(rf'pub const {n}: u32 = (\d+);', src)
            m2 = re.search(rf'def {ln} : Nat := (\d+)', consts_lean)
            if not m or not m2 or m.group(1) != m2.group(1):
                raise TErr(f'{SRC}: constant {n} does not agree with Gen/Consts.lean')
        # label widths
        for tgt, want in (('u8', ('lit', 1)), ('char', ('mcall', ('path', ['self']), 'len_utf8', []))):
            f = self.fns.get((tgt, 'num_bytes'))
            if f is None or PN(f['body_toks'], f['where']).block() != ('block', [], want):
                raise TErr(f'{SRC}: `impl EdgeLabel for {tgt}` is not the expected width function')
        # MatchKind::is_leftmost_first
        _, lfns = parse_items(open(os.path.join(repo, 'src/lib.rs')).read(), 'src/lib.rs')
        f = lfns.get(('MatchKind', 'is_leftmost_first'))
        if f is None: raise TErr('src/lib.rs: MatchKind::is_leftmost_first not found')
        b = PN(f['body_toks'], f['where']).block()
        if not (b[1] == [] and b[2] and b[2][0] == 'bin' and b[2][1] == '==' and b[2][2] == ('path', ['self'])
                and b[2][3][0] == 'path' and len(b[2][3][1]) == 2 and b[2][3][1][0] == 'Self'):
            raise TErr('src/lib.rs: MatchKind::is_leftmost_first is not `self == Self::<Variant>`')
        kinds = dict(re.findall(r'\("(\w+)", (\d+)\)', re.search(r'def kindBytes.*', consts_lean).group(0)))
        if b[2][3][1][1] not in kinds: raise TErr('src/lib.rs: unknown MatchKind variant in is_leftmost_first')
        self.leftmost_first_byte = kinds[b[2][3][1][1]]
        self.fallible = {'child_id', 'is_registered', 'add', 'build_fails', 'build_fails_leftmost', 'build_outputs'}
        self.repo = repo
        self.sigs, self.done = {}, {}

    def check_output_new(self):
        """`Output::new(value, length, parent)` of src/lib.rs must be the plain constructor of the three fields."""
        if getattr(self, '_out_ok', False): return
        lsrc = open(os.path.join(self.repo, 'src/lib.rs')).read()
        lstructs, lfns = parse_items(lsrc, 'src/lib.rs')
        f = lfns.get(('Output', 'new'))
        if f is None or 'Output' not in lstructs: raise TErr('src/lib.rs: Output::new not found')
        if list(lstructs['Output'].keys()) != ['value', 'length', 'parent']: raise TErr('src/lib.rs: fields of Output changed')
        b = PN(f['body_toks'], f['where']).block()
        want = ('struct', ['Self'], [(n, ('path', [n])) for n in ('value', 'length', 'parent')])
        if [p[0] for p in f['params']] != ['value', 'length', 'parent'] or b != ('block', [], want):
            raise TErr('src/lib.rs: Output::new is not the plain constructor')
        self._out_ok = True

    def field_tag(self, struct, field):
        if field not in self.structs[struct]: raise TErr(f'{SRC}: {struct} has no field `{field}`')
        return map_type(self.structs[struct][field], f'{SRC}:{struct}.{field}')[1]

    def tag_of_ret(self, tr):
        return tr.ret_tag

    def gen_struct(self, name):
        out = [f'/-- `struct {name}` ({SRC}) -/', f'structure {name} (V : Type) where']
        for f, ty in self.structs[name].items():
            out.append(f'  {lname(f)} : {map_type(ty, f"{SRC}:{name}.{f}")[0]}')
        return '\n'.join(out) + '\n'

    def gen_fn(self, target, name):
        f = self.fns.get((target, name))
        if f is None: raise TErr(f'{SRC}: function {target}::{name} not found')
        tr = Tr(self, f)
        text = tr.run()
        self.sigs[(target, name)] = dict(selfkind=f['selfkind'], fallible=tr.fallible, ret=tr.ret_tag,
                                         params=[(pn, map_type(pty, f['where'])[1]) for pn, pty, _ in f['params']])
        self.done.setdefault(target, set()).add(name)
        return text


HEADER = '''/- GENERATED by tools/nfa2lean.py from the repository's current source ({src}). Do not edit.
   Translation rules and their trusted base: see the header of tools/nfa2lean.py and
   Daac/Gen/PreludeNfa.lean.  Representation: integers are `Nat`; `Vec<RefCell<NfaBuilderState>>` is
   `Array (NfaBuilderState V)` (borrow / borrow_mut = read / write, out-of-range index =
   `BuildErr.panic`); `BTreeMap<L, u32>` is the label-sorted association list `Rs.EdgeMap`;
   `BTreeSet<Vec<L>>` is `Rs.SetL` (`insert` returns (was-new, set')); `Option<(V, NonZeroU32)>` is
   `Option (V × Nat)`; `MatchKind` is its byte; `num_bytes` is the parameter `nb`; errors keep their
   kind only; `&mut self` methods return the new `self` next to their result. -/
import Daac.Gen.PreludeNfa
set_option linter.unusedVariables false
namespace Daac.Gen.N
open Daac

'''

def main():
    repo = sys.argv[1] if len(sys.argv) > 1 else '/repo'
    outdir = sys.argv[2] if len(sys.argv) > 2 else os.path.join(os.path.dirname(os.path.abspath(__file__)), '..', 'lean', 'Daac', 'Gen')
    u = Unit(repo, outdir)
    text = HEADER.format(src=SRC)
    text += u.gen_struct('NfaBuilderState') + '\n'
    text += u.gen_fn('NfaBuilderState', 'default') + '\n'
    text += u.gen_struct('NfaBuilder') + '\n'
    for fn in ('new', 'child_id', 'is_registered', 'add', 'build_fails', 'build_fails_leftmost', 'build_outputs'):
        text += u.gen_fn('NfaBuilder', fn) + '\n'
    text += 'end Daac.Gen.N\n'
    path = os.path.join(outdir, 'Nfa.lean')
    if not os.path.exists(path) or open(path).read() != text:
        with open(path, 'w') as fh:
            fh.write(text)
    import hashlib, json, re
    defs = {}
    # one hash per translated item; the loop functions `F.loopN` are accounted to `F`
    acc = {}
    for block in text.split('\n\n'):
        m = re.search(r'^(?:def|structure) (\S+)', block, re.M)
        if m: acc.setdefault(re.sub(r'\.loop\d+$', '', m.group(1)), []).append(block)
    for name, blocks in acc.items():
        defs['N.' + name] = hashlib.sha1('\n\n'.join(blocks).encode()).hexdigest()[:16]
    jtext = json.dumps(defs, indent=1, sort_keys=True) + '\n'
    jpath = os.path.join(outdir, 'nfa_defs.json')
    if not os.path.exists(jpath) or open(jpath).read() != jtext:
        open(jpath, 'w').write(jtext)
    print('nfa2lean: ok')

if __name__ == '__main__':
    try:
        main()
    except TErr as ex:
        print(f'nfa2lean: {ex}')
        sys.exit(2)

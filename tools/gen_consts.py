#!/usr/bin/env python3
"""Translator for constants: extracts from /repo's *current* source text the constants the Lean
model and proofs refer to and writes lean/Daac/Gen/Consts.lean (only if its content changed, so
that `lake build` stays incremental). A pattern that no longer matches is a broken tie: exit 2
and print the reason. Usage: gen_consts.py [repo_root] [out_file]"""
import re, sys, os

repo = sys.argv[1] if len(sys.argv) > 1 else '/repo'
out = sys.argv[2] if len(sys.argv) > 2 else os.path.join(os.path.dirname(__file__), '..', 'lean', 'Daac', 'Gen', 'Consts.lean')

def read(p):
    return open(os.path.join(repo, p), encoding='utf-8').read()

def need(pat, text, what, flags=0):
    m = re.search(pat, text, flags)
    if not m:
        print(f'gen_consts: cannot find {what}')
        sys.exit(2)
    return m

def num(s):
    s = s.replace('_', '')
    if s == 'u32::MAX': return 4294967295
    return int(s, 0)

bb = read('src/bytewise/builder.rs'); bw = read('src/bytewise.rs'); cw = read('src/charwise.rs')
cb = read('src/charwise/builder.rs'); nb = read('src/nfa_builder.rs'); mp = read('src/charwise/mapper.rs')
ip = read('src/intpack.rs'); se = read('src/serializer.rs'); lib = read('src/lib.rs'); ci = read('src/charwise/iter.rs')

block_len = num(need(r'const BLOCK_LEN: u32 = ([0-9_xa-fA-F]+);', bb, 'BLOCK_LEN').group(1))
root_idx_b = num(need(r'const ROOT_STATE_IDX: u32 = (\d+);', bw, 'bytewise ROOT_STATE_IDX').group(1))
dead_idx_b = num(need(r'const DEAD_STATE_IDX: u32 = (\d+);', bw, 'bytewise DEAD_STATE_IDX').group(1))
root_idx_c = num(need(r'const ROOT_STATE_IDX: u32 = (\d+);', cw, 'charwise ROOT_STATE_IDX').group(1))
dead_idx_c = num(need(r'const DEAD_STATE_IDX: u32 = (\d+);', cw, 'charwise DEAD_STATE_IDX').group(1))
if (root_idx_b, dead_idx_b) != (root_idx_c, dead_idx_c):
    print('gen_consts: byte-wise and char-wise root/dead indices differ'); sys.exit(2)
root_id = num(need(r'pub const ROOT_STATE_ID: u32 = (\d+);', nb, 'ROOT_STATE_ID').group(1))
dead_id = num(need(r'pub const DEAD_STATE_ID: u32 = (\d+);', nb, 'DEAD_STATE_ID').group(1))
nfb_b = num(need(r'num_free_blocks: (\d+),', bb, 'default num_free_blocks (bytewise)').group(1))
nfb_c = num(need(r'num_free_blocks: (\d+),', cb, 'default num_free_blocks (charwise)').group(1))
invalid = num(need(r'pub const INVALID_CODE: u32 = ([A-Za-z0-9_:]+);', mp, 'INVALID_CODE').group(1))
u24max = num(need(r'pub const MAX: u32 = (0x[0-9a-fA-F_]+|\d+);', ip, 'U24::MAX').group(1))

# U24nU8: `a` = high 24 bits, `b` = low 8 bits; the four accessors must agree on the shift
sh_a = num(need(r'pub const fn a\(self\) -> U24 \{\s*U24\(self\.0 >> (\d+)\)', ip, 'U24nU8::a shift', re.S).group(1))
sh_sa = num(need(r'pub fn set_a\(&mut self, a: U24\) \{\s*self\.0 = \(a\.get\(\) << (\d+)\) \| u32::from\(self\.b\(\)\);', ip, 'U24nU8::set_a', re.S).group(1))
sh_sb = num(need(r'pub fn set_b\(&mut self, b: u8\) \{\s*self\.0 = \(self\.a\(\)\.get\(\) << (\d+)\) \| u32::from\(b\);', ip, 'U24nU8::set_b', re.S).group(1))
need(r'pub fn b\(self\) -> u8 \{\s*u8::try_from\(self\.0 & u32::from\(u8::MAX\)\)\.unwrap\(\)', ip, 'U24nU8::b mask', re.S)
if not (sh_a == sh_sa == sh_sb):
    print('gen_consts: U24nU8 accessors disagree on the shift'); sys.exit(2)

# define_serializable_primitive!(type, size) table; usize/isize under cfg(target_pointer_width = "64")
prims = []
lines = se.split('\n')
for i, l in enumerate(lines):
    m = re.match(r'\s*define_serializable_primitive!\((\w+), (\d+)\);', l)
    if m:
        cfg = lines[i - 1].strip() if i > 0 else ''
        if cfg.startswith('#[cfg(target_pointer_width'):
            if '"64"' not in cfg: continue
        prims.append((m.group(1), int(m.group(2))))
names = [p[0] for p in prims]
for t in ['u8','u16','u32','u64','u128','usize','i8','i16','i32','i64','i128','isize']:
    if t not in names:
        print(f'gen_consts: no Serializable impl found for {t}'); sys.exit(2)

# MatchKind discriminants and the two conversion tables
kb = need(r'impl From<MatchKind> for u8 \{.*?match src \{(.*?)\}\s*\}\s*\}', lib, 'From<MatchKind> for u8', re.S).group(1)
kind_bytes = re.findall(r'MatchKind::(\w+) => (\d+),', kb)
kf = need(r'impl From<u8> for MatchKind \{.*?match src \{(.*?)\}\s*\}\s*\}', lib, 'From<u8> for MatchKind', re.S).group(1)
kind_from = re.findall(r'(\d+) => Self::(\w+),', kf)
kind_default = need(r'_ => Self::(\w+),', kf, 'default arm of From<u8> for MatchKind').group(1)
if len(kind_bytes) != 3:
    print('gen_consts: expected three MatchKind variants'); sys.exit(2)

# char-wise State::default()
sd = need(r'impl Default for State \{.*?Self \{(.*?)\}', cw, 'charwise State::default()', re.S).group(1)
def fld(name):
    v = need(name + r': (\w+),', sd, f'State::default().{name}').group(1)
    return {'None': 0, 'DEAD_STATE_IDX': dead_idx_c, 'ROOT_STATE_IDX': root_idx_c}.get(v, None) if not v.isdigit() else int(v)
cdef = (fld('base'), fld('check'), fld('fail'), fld('output_pos'))
if None in cdef:
    print('gen_consts: cannot interpret charwise State::default()'); sys.exit(2)

# UTF-8 decoder constants (CharWithEndOffsetIterator::next)
dec = need(r'impl<I> Iterator for CharWithEndOffsetIterator<I>.*?fn next\(&mut self\).*?\n    \}\n', ci, 'CharWithEndOffsetIterator::next', re.S).group(0)
thr = [num(x) for x in re.findall(r'if first < (0x[0-9a-fA-F]+)', dec)]
cont = sorted(set(num(x) for x in re.findall(r'rest & (0x[0-9a-fA-F]+)', dec)))
lead = [num(x) for x in re.findall(r'first & (0x[0-9a-fA-F]+)', dec)]
shifts = [num(x) for x in re.findall(r'first & 0x[0-9a-fA-F]+\) << (\d+)', dec)]
cshift = sorted(set(num(x) for x in re.findall(r'\(c << (\d+)\)', dec)))
if len(thr) != 3 or len(cont) != 1 or len(lead) != 3 or len(shifts) != 3 or cshift != [6]:
    print(f'gen_consts: UTF-8 decoder shape changed: thr={thr} cont={cont} lead={lead} shifts={shifts} cshift={cshift}'); sys.exit(2)

def lst(xs): return '[' + ', '.join(xs) + ']'
signed = lambda t: 'true' if t.startswith('i') else 'false'
text = f'''/- GENERATED by /verif/tools/gen_consts.py from /repo's current source. Do not edit. -/
namespace Daac.Gen

def blockLen : Nat := {block_len}
def rootStateIdx : Nat := {root_idx_b}
def deadStateIdx : Nat := {dead_idx_b}
def rootStateId : Nat := {root_id}
def deadStateId : Nat := {dead_id}
def defaultNumFreeBlocksB : Nat := {nfb_b}
def defaultNumFreeBlocksC : Nat := {nfb_c}
def invalidCode : Nat := {invalid}
def u24Max : Nat := {u24max}
/-- `U24nU8`: `a()` is `self.0 >> packShift`, `b()` is `self.0 & u8::MAX`; `set_a`/`set_b` use the same shift -/
def packShift : Nat := {sh_a}
def packMask : Nat := 255
/-- `define_serializable_primitive!(type, size)` table (64-bit target): name, width, signed. -/
def primWidths : List (String × Nat × Bool) :=
  {lst([f'("{t}", {w}, {signed(t)})' for t, w in prims])}
/-- `From<MatchKind> for u8` -/
def kindBytes : List (String × Nat) := {lst([f'("{n}", {b})' for n, b in kind_bytes])}
/-- `From<u8> for MatchKind`: explicit arms; every other byte is `kindFromU8Default`. -/
def kindFromU8 : List (Nat × String) := {lst([f'({b}, "{n}")' for b, n in kind_from])}
def kindFromU8Default : String := "{kind_default}"
/-- char-wise `State::default()` (base, check, fail, output_pos) with None = 0 -/
def charStateDefault : Nat × Nat × Nat × Nat := ({cdef[0]}, {cdef[1]}, {cdef[2]}, {cdef[3]})
/-- UTF-8 decoder thresholds, masks and shifts of `CharWithEndOffsetIterator::next` -/
def utf8Thresholds : List Nat := {lst([hex(x) for x in thr])}
def utf8ContMask : Nat := {hex(cont[0])}
def utf8LeadMasks : List Nat := {lst([hex(x) for x in lead])}
def utf8Shifts : List Nat := {lst([str(x) for x in shifts])}

end Daac.Gen
'''
out = os.path.abspath(out)
old = open(out).read() if os.path.exists(out) else None
if old != text:
    open(out, 'w').write(text)
    print('gen_consts: wrote', out)
else:
    print('gen_consts: unchanged')

#!/usr/bin/env python3
"""rs2lean.py — translator from the Rust source of daachorse's *search side* to Lean 4 definitions.

Every run re-reads /repo's current source text, parses the listed functions with a real
(if small) Rust parser, and writes `lean/Daac/Gen/SearchB.lean` (byte-wise) and
`lean/Daac/Gen/SearchC.lean` (char-wise).  `Daac/Props/Tie.lean` proves that the generated
definitions are extensionally equal to the hand-written model (`Daac/Model/Search.lean`) that all
property theorems are about — so a change to an iterator or transition function changes the
generated definitions and the equalities are re-checked against what the code says *now*.

The translation is syntax-directed and total on the subset it accepts; anything outside the subset
(an unknown method, macro, attribute, statement form, type) is an error (exit 2 = broken tie),
never silently skipped.  Semantics of the translation (= trusted base of this tie):

 * integers (`u8/u32/usize/char`) are `Nat`, `Option<NonZeroU32>` is `Option Nat`;
 * `&mut self` methods return the new `self` next to their result; assignments rebind;
 * `loop` / `for` become recursive functions; `loop` and `for` over a stateful iterator take fuel
   (expression from FUEL below; exhaustion = `Fault.fuel`), `for` over a slice/str expression is
   structural recursion over the list;
 * `return`, `?` on `Option`, `break` are compiled by continuation passing (early exit = the
   branch simply ends with the function result);
 * `get_unchecked`, `unwrap_unchecked`, `char::from_u32_unchecked`, `str::get_unchecked(pos..)`
   are *checked* operations returning `Except Fault` (Daac/Gen/Prelude.lean) — a violated
   precondition is a value, not undefined behaviour;
 * std combinators (`and_then`, `filter`, `map`, `copied`, `replace`, `enumerate`, `skip`, `iter`,
   `as_ref`, `as_bytes`, `by_ref`, `chars`, `len_utf8`) have the meanings fixed in METHOD rules below
   and in the prelude;
 * statements under `#[cfg(daachorse_verif)]` (the step counter hook) are dropped.

Usage: rs2lean.py [repo_root] [out_dir]
"""
import re, sys, os

class TErr(Exception):
    pass

# ------------------------------------------------------------------------------------- lexer
TOKEN_RE = re.compile(r'''
    (?P<ws>\s+)
  | (?P<lcomment>//[^\n]*)
  | (?P<bcomment>/\*.*?\*/)
  | (?P<str>b?"(?:[^"\\]|\\.)*")
  | (?P<char>b?'(?:[^'\\]|\\.[^']*)')
  | (?P<life>'[A-Za-z_][A-Za-z0-9_]*)
  | (?P<num>0x[0-9a-fA-F_]+(?:[ui](?:8|16|32|64|128|size))?|[0-9][0-9_]*(?:[ui](?:8|16|32|64|128|size))?)
  | (?P<id>[A-Za-z_][A-Za-z0-9_]*)
  | (?P<op><<=|>>=|\.\.=|\.\.\.|::|->|=>|==|!=|<=|>=|&&|\|\||<<|>>|\+=|-=|\*=|/=|%=|\^=|&=|\|=|\.\.|[-+*/%^!&|=<>@.,;:#$?~(){}\[\]])
''', re.X | re.S)

def lex(src):
    toks, i = [], 0
    while i < len(src):
        m = TOKEN_RE.match(src, i)
        if not m:
            raise TErr(f'lexer: unexpected character {src[i]!r} at offset {i}')
        i = m.end()
        k = m.lastgroup
        if k in ('ws', 'lcomment', 'bcomment'):
            continue
        toks.append((k, m.group(k)))
    return toks

# ------------------------------------------------------------------------------------- parser
class P:
    def __init__(self, toks, where):
        self.t, self.i, self.where = toks, 0, where
    def peek(self, k=0):
        return self.t[self.i + k] if self.i + k < len(self.t) else ('eof', '')
    def at(self, v, k=0):
        return self.peek(k)[1] == v and self.peek(k)[0] in ('op', 'id')
    def next(self):
        tok = self.peek(); self.i += 1; return tok
    def expect(self, v):
        tok = self.next()
        if tok[1] != v:
            raise TErr(f'{self.where}: expected `{v}`, found `{tok[1]}` near token {self.i}: ' +
                       ' '.join(x[1] for x in self.t[max(0, self.i - 8):self.i + 4]))
        return tok
    def ident(self):
        tok = self.next()
        if tok[0] != 'id':
            raise TErr(f'{self.where}: expected identifier, found `{tok[1]}`')
        return tok[1]

    # --- attributes: returns True if the following statement/item must be dropped
    def attributes(self, lenient=False):
        drop = False
        while self.at('#'):
            self.next()
            if self.at('!'): self.next()
            self.expect('[')
            depth, body = 1, []
            while depth:
                tok = self.next()
                if tok[0] == 'eof': raise TErr(f'{self.where}: unterminated attribute')
                if tok[1] == '[': depth += 1
                elif tok[1] == ']': depth -= 1
                if depth: body.append(tok[1])
            head = body[0] if body else ''
            if head == 'cfg':
                if 'daachorse_verif' in body and 'not' not in body:
                    drop = True
                elif lenient:
                    drop = True      # item level: an item under another cfg is not translated at all
                else:
                    raise TErr(f'{self.where}: unsupported cfg attribute: {" ".join(body)}')
            elif head in ('inline', 'allow', 'doc', 'must_use', 'derive', 'cfg_attr') or lenient:
                pass
            else:
                raise TErr(f'{self.where}: unsupported attribute `{head}`')
        return drop

    # --- types (kept as a flat string)
    def type_(self, stops=(',', ')', '{', '=', ';', '>')):
        out, depth = [], 0
        while True:
            k, v = self.peek()
            if k == 'eof': break
            if depth == 0 and v in stops and (k == 'op' or v == 'where'): break
            if v in ('<', '(', '['): depth += 1
            elif v in ('>', ')', ']'): depth -= 1
            elif v == '>>': depth -= 2
            elif v == '->': pass
            out.append(v); self.next()
        return ' '.join(out)

    # --- patterns
    def pattern(self):
        k, v = self.peek()
        if v == '&':
            self.next()
            if self.at('mut'): self.next()
            return ('pref', self.pattern())
        if v == '(':
            self.next(); ps = []
            while not self.at(')'):
                ps.append(self.pattern())
                if self.at(','): self.next()
            self.expect(')')
            return ('ptuple', ps)
        if v == '_' and k == 'id':
            self.next(); return ('pwild',)
        if k == 'num':
            self.next(); return ('plit', num(v))
        if k == 'id':
            if v == 'mut':
                self.next(); return ('pid', self.ident())
            path = [self.ident()]
            while self.at('::'):
                self.next(); path.append(self.ident())
            if self.at('('):
                self.next(); ps = []
                while not self.at(')'):
                    ps.append(self.pattern())
                    if self.at(','): self.next()
                self.expect(')')
                return ('penum', path, ps)
            if len(path) == 1 and path[0] not in ('None',):
                return ('pid', path[0])
            return ('penum', path, [])
        raise TErr(f'{self.where}: unsupported pattern starting at `{v}`')

    # --- blocks and statements
    def block(self):
        self.expect('{')
        stmts, tail = [], None
        while not self.at('}'):
            drop = self.attributes()
            if self.at('}'):
                break
            st, is_tail = self.statement()
            if drop:
                continue
            if is_tail:
                tail = st
                if not self.at('}'):
                    raise TErr(f'{self.where}: expression without `;` in the middle of a block')
            else:
                stmts.append(st)
        self.expect('}')
        return ('block', stmts, tail)

    def statement(self):
        """returns (stmt, is_tail_expression)"""
        if self.at('let'):
            self.next()
            pat = self.pattern() if not self.at('mut') else None
            mut = False
            if pat is None:
                self.next(); mut = True
                pat = ('pid', self.ident())
            ty = None
            if self.at(':'):
                self.next(); ty = self.type_(stops=('=', ';'))
            init = None
            if self.at('='):
                self.next(); init = self.expr()
            self.expect(';')
            return ('let', pat, mut, ty, init), False
        if self.at(';'):
            self.next(); return ('expr', ('unit',)), False
        e = self.expr()
        for op in ('=', '+=', '-=', '*=', '|=', '&=', '^=', '<<=', '>>='):
            if self.at(op):
                self.next()
                rhs = self.expr()
                self.expect(';')
                return ('assign', e, op, rhs), False
        if self.at(';'):
            self.next(); return ('expr', e), False
        if self.at('}'):
            return e, True
        if e[0] in ('if', 'iflet', 'loop', 'for', 'while', 'block', 'match'):
            return ('expr', e), False          # block-like expression statement, no `;` needed
        raise TErr(f'{self.where}: expected `;` or `}}` after expression, found `{self.peek()[1]}`')

    # --- expressions: precedence climbing
    BINOPS = [
        (['||'], 1), (['&&'], 2), (['==', '!=', '<', '>', '<=', '>='], 3), (['|'], 4), (['^'], 5),
        (['&'], 6), (['<<', '>>'], 7), (['+', '-'], 8), (['*', '/', '%'], 9),
    ]
    def binprec(self, v):
        for ops, p in self.BINOPS:
            if v in ops: return p
        return None

    def expr(self, nostruct=False, minp=0):
        lhs = self.unary(nostruct)
        while True:
            k, v = self.peek()
            if k == 'id' and v == 'as':
                self.next(); ty = self.type_(stops=(',', ')', '{', '=', ';', '>', '<', '+', '-', '*', '/', '|', '&', '^', '==', '!=', '<<', '>>', '}', ']'))
                lhs = ('cast', lhs, ty); continue
            if k != 'op': break
            if v == '..=' and minp == 0:
                self.next()
                hi = self.expr(nostruct, 1)
                lhs = ('range', lhs, ('bin', '+', hi, ('lit', 1))); continue
            if v == '..' and minp == 0:
                self.next()
                hi = None
                if not (self.at(')') or self.at(']') or self.at(';') or self.at(',') or self.at('}')):
                    hi = self.expr(nostruct, 1)
                lhs = ('range', lhs, hi); continue
            p = self.binprec(v)
            if p is None or p < minp: break
            self.next()
            rhs = self.expr(nostruct, p + 1)
            lhs = ('bin', v, lhs, rhs)
        return lhs

    def unary(self, nostruct):
        k, v = self.peek()
        if k == 'op' and v in ('-', '!', '*'):
            self.next(); return ('un', v, self.unary(nostruct))
        if k == 'op' and v in ('&', '&&'):
            self.next()
            if self.at('mut'): self.next()
            return ('un', '&', self.unary(nostruct))
        return self.postfix(self.primary(nostruct), nostruct)

    def args(self):
        self.expect('('); out = []
        while not self.at(')'):
            out.append(self.expr())
            if self.at(','): self.next()
        self.expect(')')
        return out

    def postfix(self, e, nostruct):
        while True:
            if self.at('.'):
                self.next()
                k, v = self.next()
                if k == 'num':
                    e = ('tupfield', e, int(v)); continue
                if k != 'id': raise TErr(f'{self.where}: bad field access `.{v}`')
                if self.at('::'):      # turbofish
                    self.next(); self.expect('<'); self.type_(stops=('>',)); self.expect('>')
                if self.at('('):
                    e = ('mcall', e, v, self.args())
                else:
                    e = ('field', e, v)
                continue
            if self.at('('):
                e = ('call', e, self.args()); continue
            if self.at('['):
                self.next(); ix = self.expr(); self.expect(']')
                e = ('index', e, ix); continue
            if self.at('?'):
                self.next(); e = ('try', e); continue
            return e

    def primary(self, nostruct):
        k, v = self.peek()
        if k == 'num':
            self.next(); return ('lit', num(v))
        if k == 'str':
            self.next(); return ('str', v)      # opaque: only allowed inside error-value constructors
        if k == 'char':
            raise TErr(f'{self.where}: character literals are not supported')
        if v == '(' and k == 'op':
            self.next(); es = []
            trailing = False
            while not self.at(')'):
                es.append(self.expr()); trailing = False
                if self.at(','): self.next(); trailing = True
            self.expect(')')
            if len(es) == 1 and not trailing: return es[0]
            if not es: return ('unit',)
            return ('tuple', es)
        if v == '{' and k == 'op':
            return self.block()
        if v == '|' or v == '||':
            self.next(); params = []
            if v == '|':
                while not self.at('|'):
                    params.append(self.pattern())
                    if self.at(':'): self.next(); self.type_(stops=(',', '|'))
                    if self.at(','): self.next()
                self.expect('|')
            body = self.expr()
            return ('closure', params, body)
        if k != 'id':
            raise TErr(f'{self.where}: unexpected token `{v}` in expression')
        if v == 'unsafe':
            self.next(); return self.block()
        if v == 'if':
            self.next()
            if self.at('let'):
                self.next(); pat = self.pattern(); self.expect('=')
                scrut = self.expr(nostruct=True)
                then = self.block()
                els = self.else_()
                return ('iflet', pat, scrut, then, els)
            cond = self.expr(nostruct=True)
            then = self.block()
            els = self.else_()
            return ('if', cond, then, els)
        if v == 'loop':
            self.next(); return ('loop', self.block())
        if v == 'while':
            self.next()
            if self.at('let'):
                self.next(); pat = self.pattern(); self.expect('=')
                scrut = self.expr(nostruct=True)
                body = self.block()
                # while let P = E { B }  ==  loop { if let P = E { B } else { break } }
                return ('whilelet', ('block', [('expr', ('iflet', pat, scrut, body, ('block', [('expr', ('break',))], None)))], None))
            c = self.expr(nostruct=True); return ('while', c, self.block())
        if v == 'for':
            self.next(); pat = self.pattern(); self.expect('in')
            it = self.expr(nostruct=True)
            return ('for', pat, it, self.block())
        if v == 'return':
            self.next()
            if self.at(';') or self.at('}'): return ('return', None)
            return ('return', self.expr())
        if v == 'break':
            self.next(); return ('break',)
        if v == 'continue':
            self.next(); return ('continue',)
        if v == 'match':
            raise TErr(f'{self.where}: `match` expressions are not in the supported subset')
        if v in ('true', 'false'):
            self.next(); return ('bool', v == 'true')
        # path
        path = [self.ident()]
        while self.at('::'):
            self.next()
            if self.at('<'):
                self.next(); self.type_(stops=('>',)); self.expect('>'); continue
            path.append(self.ident())
        if self.at('!'):
            self.next()
            toks, depth = [], 0
            open_ = self.next()[1]
            close = {'(': ')', '[': ']', '{': '}'}[open_]
            depth = 1
            while depth:
                tk = self.next()
                if tk[0] == 'eof': raise TErr(f'{self.where}: unterminated macro')
                if tk[1] == open_: depth += 1
                elif tk[1] == close: depth -= 1
                if depth: toks.append(tk)
            if path[-1] in ('assert', 'debug_assert'):
                sub = P(toks + [('eof', '')], self.where)
                cond = sub.expr()
                if not (sub.peek()[0] == 'eof' or sub.at(',')):
                    raise TErr(f'{self.where}: cannot parse assert! condition')
                return ('assert', cond, path[-1] + '!(' + ' '.join(t[1] for t in toks[:12]) + ')')
            if path[-1] in ('assert_ne', 'assert_eq', 'debug_assert_ne', 'debug_assert_eq'):
                sub = P(toks + [('eof', '')], self.where)
                a = sub.expr(); sub.expect(','); b = sub.expr()
                op = '!=' if path[-1].endswith('_ne') else '=='
                return ('assert', ('bin', op, a, b), path[-1] + '!(' + ' '.join(t[1] for t in toks[:12]) + ')')
            if path[-1] == 'vec' and open_ == '[':
                sub = P(toks + [('eof', '')], self.where)
                a = sub.expr()
                if sub.at(';'):
                    sub.next(); n = sub.expr()
                    return ('vecrep', a, n)
                raise TErr(f'{self.where}: only `vec![x; n]` is supported')
            return ('macro', path[-1], toks)
        if self.at('{') and not nostruct and (path[-1][0].isupper()):
            self.next(); fields = []
            while not self.at('}'):
                f = self.ident()
                if self.at(':'):
                    self.next(); fields.append((f, self.expr()))
                else:
                    fields.append((f, ('path', [f])))
                if self.at(','): self.next()
            self.expect('}')
            return ('struct', path, fields)
        return ('path', path)

    def else_(self):
        if not self.at('else'): return None
        self.next()
        if self.at('if'):
            e = self.primary(False)
            return ('block', [], e)
        return self.block()

def num(s):
    s = s.replace('_', '')
    s = re.sub(r'[ui](8|16|32|64|128|size)$', '', s)
    return int(s, 0)

# ------------------------------------------------------------------------------------- items
def parse_items(src, where):
    """Returns (structs, fns): structs[name] = {field: type}, fns[(impl_target, fn)] = dict."""
    toks = lex(src)
    p = P(toks, where)
    structs, fns = {}, {}
    def skip_balanced(open_, close):
        depth = 0
        while True:
            tk = p.next()
            if tk[0] == 'eof': raise TErr(f'{where}: unbalanced {open_}')
            if tk[1] == open_: depth += 1
            elif tk[1] == close:
                depth -= 1
                if depth == 0: return
    while p.peek()[0] != 'eof':
        dropped = p.attributes(lenient=True)
        k, v = p.peek()
        if k == 'eof': break
        # visibility
        if v == 'pub':
            p.next()
            if p.at('('): skip_balanced('(', ')')
            k, v = p.peek()
        if v == 'struct':
            p.next(); name = p.ident()
            if p.at('<'): p.type_(stops=('{', '(', ';', 'where'))
            while not (p.at('{') or p.at('(') or p.at(';')): p.next()
            fields = {}
            if p.at('{'):
                p.next()
                while not p.at('}'):
                    p.attributes(lenient=True)
                    if p.at('pub'):
                        p.next()
                        if p.at('('): skip_balanced('(', ')')
                    f = p.ident(); p.expect(':')
                    fields[f] = p.type_(stops=(',', '}'))
                    if p.at(','): p.next()
                p.expect('}')
            elif p.at('('):
                skip_balanced('(', ')')
                if p.at(';'): p.next()
            else:
                p.next()
            if not dropped: structs[name] = fields
            continue
        if v == 'impl':
            p.next()
            header = []
            while not p.at('{'):
                header.append(p.next()[1])
            # target type: identifier after a top-level `for`, else first identifier after generics
            target, trait = None, None
            depth, j = 0, 0
            if header and header[0] == '<':
                for j, h in enumerate(header):
                    if h == '<': depth += 1
                    elif h == '>': depth -= 1
                    elif h == '>>': depth -= 2
                    if depth == 0: break
                header = header[j + 1:]
            if 'where' in header:
                header = header[:header.index('where')]
            depth = 0; split = None
            for j, h in enumerate(header):
                if h == '<': depth += 1
                elif h == '>': depth -= 1
                elif h == '>>': depth -= 2
                elif h == 'for' and depth == 0: split = j
            if split is not None:
                trait = header[0]; target = header[split + 1]
            else:
                target = header[0]
            p.expect('{')
            item_ty = None
            while not p.at('}'):
                drop = p.attributes(lenient=True)
                if p.at('pub'):
                    p.next()
                    if p.at('('): skip_balanced('(', ')')
                while p.peek()[1] in ('const', 'unsafe', 'async') and p.peek(1)[1] in ('fn', 'unsafe', 'const'):
                    p.next()
                if p.at('type'):
                    p.next(); nm = p.ident(); p.expect('='); ty = p.type_(stops=(';',)); p.expect(';')
                    if nm == 'Item': item_ty = ty
                    continue
                if p.at('const'):
                    while not p.at(';'): p.next()
                    p.next(); continue
                if not p.at('fn'):
                    raise TErr(f'{where}: unexpected `{p.peek()[1]}` inside impl {target}')
                p.next(); name = p.ident()
                if p.at('<'):
                    depth = 0
                    while True:
                        tk = p.next()
                        if tk[1] == '<': depth += 1
                        elif tk[1] == '>': depth -= 1
                        elif tk[1] == '>>': depth -= 2
                        if depth <= 0: break
                p.expect('(')
                params, selfkind = [], None
                while not p.at(')'):
                    if p.at('&'):
                        p.next()
                        if p.peek()[0] == 'life': p.next()
                        if p.at('mut'):
                            p.next(); p.expect('self'); selfkind = 'mut'
                        else:
                            p.expect('self'); selfkind = 'ref'
                    elif p.at('self'):
                        p.next(); selfkind = 'val'
                    elif p.at('mut') and p.peek(1)[1] == 'self':
                        p.next(); p.next(); selfkind = 'mutval'
                    else:
                        mut = False
                        if p.at('mut'): p.next(); mut = True
                        pn = p.ident(); p.expect(':')
                        params.append((pn, p.type_(stops=(',', ')')), mut))
                    if p.at(','): p.next()
                p.expect(')')
                ret = None
                if p.at('->'):
                    p.next(); ret = p.type_(stops=('{', 'where', ';'))
                if p.at('where'):
                    while not (p.at('{') or p.at(';')): p.next()
                if p.at(';'):
                    p.next(); continue
                start = p.i
                # skip the body quickly, parse lazily on request
                depth = 0
                while True:
                    tk = p.next()
                    if tk[0] == 'eof': raise TErr(f'{where}: unbalanced body of {name}')
                    if tk[1] == '{': depth += 1
                    elif tk[1] == '}':
                        depth -= 1
                        if depth == 0: break
                if not drop:
                    fns[(target, name)] = dict(target=target, trait=trait, name=name, params=params,
                                               selfkind=selfkind, ret=ret, body_toks=toks[start:p.i],
                                               item_ty=item_ty, where=f'{where}:{target}::{name}')
            p.expect('}')
            # `type Item` may follow the fn inside the impl: patch
            for key, f in fns.items():
                if key[0] == target and f['item_ty'] is None and f['trait'] == trait:
                    f['item_ty'] = item_ty
            continue
        # anything else at top level: skip one item
        if v in ('use', 'const', 'static', 'type', 'extern'):
            while not p.at(';'): p.next()
            p.next(); continue
        if v == 'mod':
            p.next(); p.ident()
            if p.at(';'): p.next()
            else: skip_balanced('{', '}')
            continue
        if v in ('fn', 'trait', 'enum', 'macro_rules', 'unsafe'):
            while not (p.at('{') or p.at(';')): p.next()
            if p.at(';'): p.next()
            else: skip_balanced('{', '}')
            continue
        if k == 'id' and p.peek(1)[1] == '!':      # item-position macro invocation
            p.next(); p.next()
            o = p.peek()[1]
            skip_balanced(o, {'(': ')', '{': '}', '[': ']'}[o])
            if p.at(';'): p.next()
            continue
        raise TErr(f'{where}: unsupported top-level item starting with `{v}`')
    return structs, fns

# ------------------------------------------------------------------------------------- translation
LEAN_KEYWORDS = {'end', 'at', 'from', 'open', 'show', 'have', 'then', 'do', 'fun', 'by', 'with', 'in',
                 'local', 'instance', 'where', 'variable', 'section', 'namespace', 'macro', 'syntax'}
def lname(n):
    return n + '_' if n in LEAN_KEYWORDS else n

class Cfg:
    """Per-variant configuration: which Rust types map to which Lean types, constants, fuel."""
    def __init__(self, ns, da_type, consts, fuel, types, field_fault, field_rename,
                 err='Fault', fuel_err='.fuel', assert_mode='option', err_ctors=None, places=None):
        self.ns, self.da_type, self.consts, self.fuel = ns, da_type, consts, fuel
        self.types, self.field_fault, self.field_rename = types, field_fault, field_rename
        self.err, self.fuel_err, self.assert_mode = err, fuel_err, assert_mode
        self.err_ctors = err_ctors or {}
        self.elem_setters = {}
        self.places = places or {}       # method name -> True: `recv.m(E)` denotes the place recv.items[recv.offset(E)]

def map_type(ty, cfg, item_ty=None):
    """Rust type string -> Lean type string."""
    t = ty.replace(' ', '')
    t = re.sub(r"&('[a-z_]+)?(mut)?", '', t)
    if t in ('u8', 'u16', 'u32', 'u64', 'usize', 'char', 'NonZeroU32', 'U24'): return 'Nat'
    m = re.fullmatch(r'\[(.*)\]', t)
    if m: return f'List {paren(map_type(m.group(1), cfg, item_ty))}'
    if t == 'bool': return 'Bool'
    if t == 'V': return 'V'
    if t in ('P', 'I') : return 'List Nat'
    if t == 'Self::Item' and item_ty: return map_type(item_ty, cfg)
    m = re.fullmatch(r'Option<(.*)>', t)
    if m: return f'Option {paren(map_type(m.group(1), cfg, item_ty))}'
    m = re.fullmatch(r'\((.*)\)', t)
    if m:
        parts = split_top(m.group(1))
        return ' × '.join(paren(map_type(x, cfg, item_ty)) for x in parts)
    m = re.fullmatch(r'([A-Za-z0-9_]+)(<.*>)?', t)
    if m and m.group(1) in cfg.types:
        return cfg.types[m.group(1)]
    raise TErr(f'type `{ty}` is outside the supported subset')

def split_top(s):
    out, depth, cur = [], 0, ''
    for ch in s:
        if ch in '<(': depth += 1
        if ch in '>)': depth -= 1
        if ch == ',' and depth == 0:
            out.append(cur); cur = ''
        else: cur += ch
    if cur: out.append(cur)
    return out

def paren(s):
    return s if re.fullmatch(r'[A-Za-z0-9_.]+', s) else f'({s})'

def type_head(ty):
    if ty is None: return None
    t = re.sub(r"&\s*('\s*[a-z_]+)?\s*(mut\s)?", '', ty).strip()
    m = re.match(r'([A-Za-z0-9_]+)', t)
    return m.group(1) if m else None

class FnT:
    """Translator for one function."""
    def __init__(self, unit, f):
        self.u, self.f, self.cfg = unit, f, unit.cfg
        self.tmp = 0
        self.loops = []          # emitted auxiliary loop definitions
        self.nloops = 0
        self.lean_name = unit.lean_fn_name(f)
        self.eff = unit.effectful[(f['target'], f['name'])]
        self.self_mut = f['selfkind'] == 'mut'
        self.self_ty = unit.struct_lean_type(f['target']) if f['selfkind'] else None
        self.panics = unit.panics[(f['target'], f['name'])]
        self.mutrefs = [n for (n, ty, _) in f['params'] if ty.replace(' ', '').startswith('&mut')]

    def fresh(self, base='t'):
        self.tmp += 1
        return f'{base}{self.tmp}'

    # ---- wrappers
    def ok(self, term):
        return f'.ok {paren_t(term)}' if self.eff else term
    def pack_ret(self, v):
        extra = (['self'] if self.self_mut else []) + [lname(m) for m in self.mutrefs]
        v = f'({", ".join([v] + extra)})' if extra else v
        return f'(some {v})' if self.panics else v
    def bind(self, term, pat, rest, ind):
        """term : Except Fault α  (only in effectful functions)"""
        pad = '  ' * ind
        return (f'match {term} with\n{pad}| .error e => .error e\n{pad}| .ok {pat} =>\n{pad}  {rest(ind + 1)}')

    # ---- type inference (very small): Rust type string or None
    def type_of(self, e, env):
        k = e[0]
        if k == 'path' and len(e[1]) == 1:
            n = e[1][0]
            if n == 'self': return self.f['target']
            return env['types'].get(n)
        if k == 'field':
            h = type_head(self.type_of(e[1], env))
            if h and h in self.u.structs:
                return self.u.structs[h].get(e[2])
            return None
        if k == 'mcall':
            recv_t = self.type_of(e[1], env)
            h = type_head(recv_t)
            if e[2] in ('as_ref', 'by_ref', 'copied', 'iter', 'as_bytes'): return recv_t
            key = (h, e[2])
            if key in self.u.fns:
                return self.u.fns[key]['ret']
            return None
        if k in ('block',) and e[2] is not None and not e[1]:
            return self.type_of(e[2], env)
        if k == 'call' and e[1][0] == 'path' and len(e[1][1]) == 2:
            t0 = self.f['target'] if e[1][1][0] == 'Self' else e[1][1][0]
            if (t0, e[1][1][1]) in self.u.fns:
                r = self.u.fns[(t0, e[1][1][1])]['ret']
                if r: r = re.sub(r'\bSelf\b', t0, r)
                return r
        if k == 'try':
            t = (self.type_of(e[1], env) or '')
            m = re.fullmatch(r'\s*Result\s*<(.*)>\s*', t)
            return m.group(1).strip() if m else None
        if k == 'index':
            t = (self.type_of(e[1], env) or '').replace(' ', '')
            m = re.fullmatch(r'&?(?:mut)?\[(.*)\]', t) or re.fullmatch(r'Vec<(.*)>', t)
            return m.group(1) if m else None
        if k == 'tupfield':
            t = (self.type_of(e[1], env) or '').replace(' ', '')
            m = re.fullmatch(r'\((.*)\)', t)
            if m:
                parts = split_top(m.group(1))
                if e[2] < len(parts): return parts[e[2]]
            return None
        if k == 'lit': return 'u32'
        return None

    # ---- expressions, CPS.  k : (lean_term, env, ind) -> lean text
    def tx(self, e, env, ind, k):
        kind = e[0]
        pad = '  ' * ind
        if kind == 'lit': return k(str(e[1]), env, ind)
        if kind == 'bool': return k('true' if e[1] else 'false', env, ind)
        if kind == 'unit': return k('()', env, ind)
        if kind == 'path':
            p = e[1]
            if len(p) == 1:
                n = p[0]
                if n in self.cfg.consts: return k(self.cfg.consts[n], env, ind)
                if n == 'None': return k('none', env, ind)
                if n in env['vars'] or n == 'self': return k(lname(n), env, ind)
                raise TErr(f'{self.f["where"]}: unknown name `{n}`')
            if '::'.join(p) in self.cfg.consts: return k(self.cfg.consts['::'.join(p)], env, ind)
            raise TErr(f'{self.f["where"]}: unsupported path `{"::".join(p)}`')
        if kind == 'tuple':
            return self.tx_list(e[1], env, ind, lambda ts, env, ind: k('(' + ', '.join(ts) + ')', env, ind))
        if kind == 'cast':
            # only lossless widening casts (to usize / u64 / u128) keep their value on `Nat`
            if e[2].replace(' ', '') not in ('usize', 'u64', 'u128'):
                raise TErr(f'{self.f["where"]}: cast `as {e[2]}` may truncate; not in the supported subset')
            return self.tx(e[1], env, ind, k)
        if kind == 'un':
            if e[1] in ('*', '&'): return self.tx(e[2], env, ind, k)
            if e[1] == '!':
                return self.tx(e[2], env, ind, lambda t, env, ind: k(f'(!{t})', env, ind))
            raise TErr(f'{self.f["where"]}: unary `{e[1]}` is not supported')
        if kind == 'bin':
            op = e[1]
            lop = {'+': '+', '-': '-', '*': '*', '%': '%', '^': '^^^', '&': '&&&', '|': '|||', '<<': '<<<', '>>': '>>>',
                   '==': '==', '!=': '!=', '<': '<', '<=': '≤', '>': '>', '>=': '≥', '&&': '&&', '||': '||'}.get(op)
            if lop is None: raise TErr(f'{self.f["where"]}: binary `{op}` is not supported')
            if op in ('&&', '||') and self.has_effect(e[3]):
                # short-circuit: the right operand (which may fault) is evaluated only when needed
                def ksc(a, env, ind):
                    pad = '  ' * ind
                    if op == '||':
                        return f'if {a} then\n{pad}  {k("true", env, ind + 1)}\n{pad}else\n{pad}  {self.tx(e[3], env, ind + 1, k)}'
                    return f'if {a} then\n{pad}  {self.tx(e[3], env, ind + 1, k)}\n{pad}else\n{pad}  {k("false", env, ind + 1)}'
                return self.tx(e[2], env, ind, ksc)
            def k1(a, env, ind):
                def k2(b, env, ind):
                    if op in ('==', '!=', '<', '<=', '>', '>='):
                        return k(f'(decide ({a} {"=" if op == "==" else "≠" if op == "!=" else lop} {b}))', env, ind)
                    return k(f'({a} {lop} {b})', env, ind)
                return self.tx(e[3], env, ind, k2)
            return self.tx(e[2], env, ind, k1)
        if kind == 'field':
            def kf(r, env, ind):
                fld = e[2]
                h = type_head(self.type_of(e[1], env))
                ren = self.cfg.field_rename.get((h, fld))
                if ren == '': return k(r, env, ind)          # transparent field (e.g. `mapper`)
                return k(f'{r}.{lname(ren) if ren else self.u.fld(h, fld)}', env, ind)
            return self.tx(e[1], env, ind, kf)
        if kind == 'tupfield':
            return self.tx(e[1], env, ind, lambda t, env, ind: k(f'{t}.{e[2] + 1}', env, ind))
        if kind == 'block':
            return self.tx_block(e, env, ind, k)
        if kind == 'struct':
            name = e[1][-1]
            if name == 'Self': name = self.f['target']
            lty = self.u.struct_ctor(name)
            fs = e[2]
            def ks(ts, env, ind):
                body = ', '.join(f'{self.u.fld(name, f)} := {t}' for (f, _), t in zip(fs, ts))
                return k(f'({{ {body} }} : {lty})', env, ind)
            return self.tx_list([x for _, x in fs], env, ind, ks)
        if kind == 'try' and self.is_result_expr(e[1], env):
            # `?` on a `Result`: errors already propagate through the binds of the one error monad
            return self.tx(e[1], env, ind, k)
        if kind == 'try':
            # `?` on an Option in a function returning Option
            if not (self.f['ret'] or '').replace(' ', '').startswith('Option<'):
                raise TErr(f'{self.f["where"]}: `?` outside an Option-returning function')
            def kt(t, env, ind):
                pad = '  ' * ind
                v = self.fresh('v')
                return (f'match {t} with\n{pad}| none => {self.exit_return("none", env)}\n{pad}| some {v} =>\n{pad}  '
                        + k(v, env, ind + 1))
            return self.tx(e[1], env, ind, kt)
        if kind == 'if':
            def kc(c, env, ind):
                pad = '  ' * ind
                els = e[3] if e[3] is not None else ('block', [], None)
                return (f'if {c} then\n{pad}  {self.tx(e[2], env, ind + 1, k)}\n{pad}else\n{pad}  {self.tx(els, env, ind + 1, k)}')
            return self.tx(e[1], env, ind, kc)
        if kind == 'iflet':
            pat, scrut, then, els = e[1], e[2], e[3], e[4]
            if not (pat[0] == 'penum' and pat[1] == ['Some'] and len(pat[2]) == 1):
                raise TErr(f'{self.f["where"]}: only `if let Some(p) = …` is supported')
            def kl(t, env, ind):
                pad = '  ' * ind
                lp, env2 = self.bind_pat(pat[2][0], env, self.opt_payload_type(scrut, env))
                els_ = els if els is not None else ('block', [], None)
                return (f'match {t} with\n{pad}| some {lp} =>\n{pad}  {self.tx(then, env2, ind + 1, k)}\n'
                        f'{pad}| none =>\n{pad}  {self.tx(els_, env, ind + 1, k)}')
            return self.tx(scrut, env, ind, kl)
        if kind == 'return':
            if e[1] is None: return self.exit_return('()', env)
            return self.tx(e[1], env, ind, lambda t, env, ind: self.exit_return(t, env))
        if kind == 'break':
            return self.exit_break(env)
        if kind == 'continue':
            return self.exit_continue(env)
        if kind == 'loop':
            return self.tx_loop(e, env, ind, k)
        if kind == 'for':
            return self.tx_for(e, env, ind, k)
        if kind == 'call':
            return self.tx_call(e, env, ind, k)
        if kind == 'mcall':
            return self.tx_mcall(e, env, ind, k)
        if kind == 'assert' and self.cfg.assert_mode == 'panic':
            # a failed assertion (debug assertions are armed in the harness build) is a panic value
            self.need_eff('assert!')
            def kap(c, env, ind):
                pad = '  ' * ind
                return f'if {c} then\n{pad}  {k("()", env, ind + 1)}\n{pad}else\n{pad}  .error (.panic {lean_str(e[2])})'
            return self.tx(e[1], env, ind, kap)
        if kind == 'whilelet':
            return self.emit_loop(e[1], env, ind, k, mode='for-iter')
        if kind == 'index':
            self.need_eff('indexing')
            is_list = (self.type_of(e[1], env) or '').replace(' ', '').lstrip('&').startswith('[')
            def kix(r, env, ind):
                def kiy(t, env, ind):
                    v = self.fresh('x')
                    return self.bind(f'Rs.{"indexL" if is_list else "index"} {paren_t(r)} {paren_t(t)}', v, lambda i2: k(v, env, i2), ind)
                return self.tx(e[2], env, ind, kiy)
            return self.tx(e[1], env, ind, kix)
        if kind == 'range':
            if e[2] is None: raise TErr(f'{self.f["where"]}: open range as a value')
            return self.tx_list([e[1], e[2]], env, ind, lambda ts, env, ind: k(f'({ts[0]}, {ts[1]})', env, ind))
        if kind == 'vecrep':
            return self.tx_list([e[1], e[2]], env, ind, lambda ts, env, ind: k(f'(Array.replicate {paren_t(ts[1])} {paren_t(ts[0])})', env, ind))
        if kind == 'assert':
            # `assert!(cond, …)`: a failed assertion is a panic = the function yields `none`
            if not self.panics or env.get('loop'): raise TErr(f'{self.f["where"]}: assert! in an unsupported position')
            def kas(c, env, ind):
                pad = '  ' * ind
                return f'if {c} then\n{pad}  {k("()", env, ind + 1)}\n{pad}else\n{pad}  {self.ok("none")}'
            return self.tx(e[1], env, ind, kas)
        if kind == 'macro':
            raise TErr(f'{self.f["where"]}: macro `{e[1]}!` is not in the supported subset')
        raise TErr(f'{self.f["where"]}: expression form `{kind}` is not in the supported subset')

    def is_result_expr(self, e, env):
        if e[0] == 'mcall' and e[2] in ('ok_or_else', 'ok_or', 'map_err'): return True
        t = self.type_of(e, env)
        return bool(t) and t.replace(' ', '').startswith('Result<')

    def tx_list(self, es, env, ind, k):
        def go(i, acc, env, ind):
            if i == len(es): return k(acc, env, ind)
            return self.tx(es[i], env, ind, lambda t, env, ind: go(i + 1, acc + [t], env, ind))
        return go(0, [], env, ind)

    def opt_payload_type(self, e, env):
        t = self.type_of(e, env)
        if t:
            m = re.fullmatch(r'Option\s*<\s*(.*)\s*>', t.strip())
            if m: return m.group(1)
        return 'u32'

    def bind_pat(self, pat, env, rty=None):
        """pattern -> (lean pattern text, new env)"""
        env = dict(env, vars=list(env['vars']), types=dict(env['types']))
        def go(p, ty):
            if p[0] == 'pid':
                if p[1] not in env['vars']: env['vars'].append(p[1])
                env['types'][p[1]] = ty or 'u32'
                if p[1] in env['muts']: env['muts'] = [m for m in env['muts'] if m != p[1]]
                return lname(p[1])
            if p[0] == 'pref': return go(p[1], ty)
            if p[0] == 'pwild': return '_'
            if p[0] == 'ptuple':
                parts = split_top(re.fullmatch(r'\s*\((.*)\)\s*', ty).group(1)) if ty and ty.strip().startswith('(') else [None] * len(p[1])
                return '(' + ', '.join(go(q, t) for q, t in zip(p[1], parts)) + ')'
            raise TErr(f'{self.f["where"]}: unsupported pattern {p}')
        return go(pat, rty), env

    # ---- blocks / statements
    def tx_block(self, blk, env, ind, k):
        stmts, tail = blk[1], blk[2]
        outer_vars = env['vars']
        def go(i, env, ind):
            if i == len(stmts):
                if tail is None:
                    return k('()', self.leave(env, outer_vars), ind)
                return self.tx(tail, env, ind, lambda t, env, ind: k(t, self.leave(env, outer_vars), ind))
            st = stmts[i]
            pad = '  ' * ind
            if st[0] == 'let':
                _, pat, mut, ty, init = st
                if init is None: raise TErr(f'{self.f["where"]}: `let` without initialiser')
                def kl(t, env, ind):
                    pad = '  ' * ind
                    rty = ty or self.type_of(init, env) or ('u32' if init[0] in ('lit',) or (init[0] == 'path' and init[1][0] in self.cfg.consts) else None)
                    lp, env2 = self.bind_pat(pat, env, rty)
                    if mut:
                        env2['muts'] = env2['muts'] + [pat[1]]
                        if rty is None: raise TErr(f'{self.f["where"]}: cannot infer the type of `let mut {pat[1]}`')
                    if pat[0] == 'pid':
                        return f'let {lp} := {t}\n{pad}' + go(i + 1, env2, ind)
                    return f'match {t} with\n{pad}| {lp} =>\n{pad}  ' + go(i + 1, env2, ind + 1)
                return self.tx(init, env, ind, kl)
            if st[0] == 'assign' and st[2] == '=' and st[1][0] == 'index' and st[1][1][0] == 'field' and st[1][1][1] == ('path', ['self']):
                # self.<vec>[i] = v   (panics when out of range)
                _, place, op, rhs = st
                if not self.self_mut: raise TErr(f'{self.f["where"]}: assignment through `&self`')
                self.need_eff('index assignment')
                fld = lname(place[1][2])
                def kv(t, env, ind):
                    def ki(ix, env, ind):
                        a2 = self.fresh('a')
                        return self.bind(f'Rs.indexSet self.{fld} {paren_t(ix)} {paren_t(t)}', a2,
                                         lambda i2: f'let self := {{ self with {fld} := {a2} }}\n{"  " * i2}' + go(i + 1, env, i2), ind)
                    return self.tx(place[2], env, ind, ki)
                return self.tx(rhs, env, ind, kv)
            if st[0] == 'assign' and st[2] == '=' and st[1][0] == 'un' and st[1][1] == '*' and st[1][2][0] == 'mcall' \
                    and self.as_place(st[1][2][1], env) is not None and not st[1][2][3]:
                # *base.get_mut(E).<field>_mut() = v
                _, place, op, rhs = st
                pl = self.as_place(place[2][1], env)
                fld = self.u.field_lens.get((self.u.place_elem[pl[2]], place[2][2]))
                if fld is None: raise TErr(f'{self.f["where"]}: `{place[2][2]}` is not a verified field accessor')
                if pl[0] != ('path', ['self']) or not self.self_mut: raise TErr(f'{self.f["where"]}: write through an immutable base')
                def kv(t, env, ind):
                    def kp(b, o, it, env, ind):
                        pad = '  ' * ind
                        return (f'let self := {{ self with items := self.items.setIfInBounds {o} {{ {it} with {self.u.fld(self.u.place_elem[pl[2]], fld)} := {t} }} }}\n{pad}' + go(i + 1, env, ind))
                    return self.with_place(pl, env, ind, kp)
                return self.tx(rhs, env, ind, kv)
            if st[0] == 'expr' and st[1][0] in ('if', 'iflet') and not self.has_exit(st[1]) and i + 1 < len(stmts) + (1 if tail is not None else 0) \
                    and self.cfg.assert_mode == 'panic':
                # a conditional statement that cannot leave the function or a loop: computed as a value
                # (the variables it may assign), then the rest of the block follows ONCE
                return self.tx_join(st[1], env, ind, lambda env2, ind2: go(i + 1, env2, ind2))
            if st[0] == 'assign':
                _, place, op, rhs = st
                def ka(t, env, ind):
                    pad = '  ' * ind
                    if op != '=':
                        bop = {'+=': '+', '-=': '-', '|=': '|||', '&=': '&&&', '^=': '^^^', '<<=': '<<<', '>>=': '>>>', '*=': '*'}[op]
                        cur = self.place_read(place, env)
                        t = f'({cur} {bop} {t})'
                    return self.place_write(place, t, env, ind) + go(i + 1, env, ind)
                return self.tx(rhs, env, ind, ka)
            if st[0] == 'expr':
                return self.tx(st[1], env, ind, lambda t, env, ind: go(i + 1, env, ind))
            raise TErr(f'{self.f["where"]}: statement form {st[0]}')
        return go(0, env, ind)

    def has_exit(self, e, in_loop=False):
        if isinstance(e, tuple):
            if e and e[0] in ('loop', 'for', 'whilelet', 'while'):
                return any(self.has_exit(x, True) for x in e[1:])
            if e and e[0] == 'return': return True
            if e and e[0] in ('break', 'continue'): return not in_loop
            if e and e[0] == 'try' and not (e[1][0] == 'mcall' and e[1][2] in ('ok_or_else', 'ok_or', 'map_err')): return True
            if e and e[0] == 'call' and e[1][0] == 'path' and e[1][1][-1] == 'Err': return True
            return any(self.has_exit(x, in_loop) for x in e[1:])
        if isinstance(e, list): return any(self.has_exit(x, in_loop) for x in e)
        return False

    def assigned_vars(self, e, env, acc):
        """mutable variables (incl. `self`) a statement may assign — conservative"""
        if isinstance(e, tuple):
            if e and e[0] == 'assign':
                pl = e[1]
                if pl[0] == 'path' and len(pl[1]) == 1: acc.add(pl[1][0])
                else: acc.add('self')
            if e and e[0] == 'mcall':
                if e[2] == 'replace' and e[1][0] == 'path': acc.add(e[1][1][0])
                names = set(); self.names_in(e[1], names)
                if 'self' in names and self.self_mut: acc.add('self')
            if e and e[0] in ('loop', 'for', 'whilelet', 'while'): acc.add('self') if self.self_mut else None
            for x in e[1:]: self.assigned_vars(x, env, acc)
        elif isinstance(e, list):
            for x in e: self.assigned_vars(x, env, acc)

    def tx_join(self, cond_e, env, ind, rest):
        acc = set(); self.assigned_vars(cond_e, env, acc)
        vs = [v for v in (['self'] if 'self' in acc else []) + [m for m in env['muts'] if m in acc and m != 'self']]
        tup = self.tuple_of(vs)
        pad = '  ' * ind
        inner = self.tx(cond_e, env, ind + 1, lambda t, e2, i2: self.ok(tup))
        if self.eff:
            ty = f'Except {self.cfg.err} {paren(self.tuple_ty(vs, env))}'
            return (f'match ((\n{pad}  {inner}) : {ty}) with\n{pad}| .error e => .error e\n{pad}| .ok {tup} =>\n{pad}  ' + rest(env, ind + 1))
        return f'match (\n{pad}  {inner}) with\n{pad}| {tup} =>\n{pad}  ' + rest(env, ind + 1)

    def leave(self, env, outer_vars):
        # variables declared in the block go out of scope (mutations of outer variables stay)
        return dict(env, vars=[v for v in env['vars'] if v in outer_vars or v in env['muts']])

    def place_read(self, place, env):
        if place[0] == 'path' and len(place[1]) == 1: return lname(place[1][0])
        if place[0] == 'field' and place[1] == ('path', ['self']): return f'self.{self.u.fld(self.f["target"], place[2])}'
        raise TErr(f'{self.f["where"]}: unsupported assignment target')

    def place_write(self, place, t, env, ind):
        pad = '  ' * ind
        if place[0] == 'path' and len(place[1]) == 1:
            n = place[1][0]
            if n not in env['muts']: raise TErr(f'{self.f["where"]}: assignment to immutable `{n}`')
            return f'let {lname(n)} := {t}\n{pad}'
        if place[0] == 'field' and place[1] == ('path', ['self']):
            if not self.self_mut: raise TErr(f'{self.f["where"]}: assignment through `&self`')
            return f'let self := {{ self with {self.u.fld(self.f["target"], place[2])} := {t} }}\n{pad}'
        raise TErr(f'{self.f["where"]}: unsupported assignment target')

    # ---- exits
    def exit_return(self, t, env):
        lp = env.get('loop')
        val = self.pack_ret(t)
        if lp and lp['ctl']:
            return f'.ok (.ret {paren_t(val)})'
        return self.ok(val)
    def exit_break(self, env):
        lp = env.get('loop')
        if lp and lp.get('plain'): return f'.ok {self.tuple_of(lp["carried"])}'
        if not lp or not lp['ctl']: raise TErr(f'{self.f["where"]}: `break` outside a supported loop')
        return f'.ok (.done {self.tuple_of(lp["carried"])})'
    def exit_continue(self, env):
        lp = env.get('loop')
        if not lp: raise TErr(f'{self.f["where"]}: `continue` outside a loop')
        return lp['recurse'](env)

    def tuple_of(self, names):
        if not names: return '()'
        if len(names) == 1: return lname(names[0])
        return '(' + ', '.join(lname(n) for n in names) + ')'
    def tuple_ty(self, names, env):
        if not names: return 'Unit'
        return ' × '.join(paren(self.var_lean_type(n, env)) for n in names)

    def var_lean_type(self, n, env):
        if n == 'self': return self.self_ty
        ty = env['types'].get(n)
        if ty is None: raise TErr(f'{self.f["where"]}: cannot determine the type of `{n}`')
        return map_type(ty, self.cfg, self.f['item_ty'])

    # ---- free variables
    def names_in(self, e, acc):
        if isinstance(e, tuple):
            if e and e[0] == 'path' and len(e[1]) == 1: acc.add(e[1][0])
            if e and e[0] == 'macro': return
            for x in e[1:]: self.names_in(x, acc)
        elif isinstance(e, list):
            for x in e: self.names_in(x, acc)

    def has_effect(self, e):
        """conservative: does evaluating e involve a checked (fault) operation or a loop?"""
        if self.cfg.assert_mode == 'panic' and self.u.body_effect(e): return True
        if isinstance(e, tuple):
            if e and e[0] in ('loop', 'for', 'while', 'return', 'break', 'try'): return True
            if e and e[0] == 'mcall':
                if e[2] in EFFECT_METHODS: return True
                for key, val in self.u.effectful.items():
                    if key[1] == e[2] and val: return True
            if e and e[0] == 'call' and e[1][0] == 'path' and e[1][1][-1] in EFFECT_CALLS: return True
            return any(self.has_effect(x) for x in e[1:])
        if isinstance(e, list): return any(self.has_effect(x) for x in e)
        return False

    # ---- loops
    def loop_def(self, body_builder, env, kind, item_pat=None, list_term=None, after=None, ind=0, has_break=True):
        """Common part of `loop` and `for`.  Emits an auxiliary recursive definition and returns the
        text of the call site.  kind: 'fuel' | 'list'."""
        if env.get('loop'): raise TErr(f'{self.f["where"]}: nested loops are not supported')
        idx = self.nloops; self.nloops += 1
        lname_ = f'{self.lean_name}.loop{idx}'
        return lname_

    def tx_loop(self, e, env, ind, k):
        """`loop { body }` without `break`: diverges unless it returns; must be in tail position
        (checked by giving the continuation no chance to run)."""
        body = e[1]
        return self.emit_loop(body, env, ind, k, mode='loop')

    def tx_for(self, e, env, ind, k):
        pat, it, body = e[1], e[2], e[3]
        if it[0] == 'mcall' and it[2] == 'by_ref' and not it[3]:
            # stateful iterator place: loop { if let Some(pat) = place.next() { body } else { break } }
            inner = ('iflet', ('penum', ['Some'], [pat]), ('mcall', it[1], 'next', []), body, ('block', [('expr', ('break',))], None))
            return self.emit_loop(('block', [('expr', inner)], None), env, ind, k, mode='for-iter')
        ith = type_head(self.type_of(it, env))
        if ith and (ith, 'next') in self.u.selected:
            # `for p in <translated iterator>`: let mut it = …; loop { match it.next() { Some(p) => body, None => break } }
            def kit(t, env, ind):
                v = self.fresh('iter')
                env2 = dict(env, vars=env['vars'] + [v], muts=env['muts'] + [v], types=dict(env['types'], **{v: ith}))
                inner = ('iflet', ('penum', ['Some'], [pat]), ('mcall', ('path', [v]), 'next', []), body, ('block', [('expr', ('break',))], None))
                pad = '  ' * ind
                return f'let {v} := {t}\n{pad}' + self.emit_loop(('block', [('expr', inner)], None), env2, ind, k, mode='for-iter')
            return self.tx(it, env, ind, kit)
        if it[0] == 'range' and it[2] is not None:
            # `for x in a..b`: structural recursion over the list a, a+1, …, b-1
            return self.tx_list([it[1], it[2]], env, ind, lambda ts, env, ind:
                                self.emit_loop(body, env, ind, k, mode='list', list_term=f'(Rs.rangeList {paren_t(ts[0])} {paren_t(ts[1])})', item_pat=pat, it_expr=('lit', 0)))
        # list-valued iterable: structural recursion
        return self.tx(it, env, ind, lambda lt, env, ind: self.emit_loop(body, env, ind, k, mode='list', list_term=lt, item_pat=pat, it_expr=it))

    def emit_loop(self, body, env, ind, k, mode, list_term=None, item_pat=None, it_expr=None):
        if env.get('loop'): raise TErr(f'{self.f["where"]}: nested loops are not supported')
        idx = self.nloops; self.nloops += 1
        fname = f'{self.lean_name}.loop{idx}'
        used = set(); self.names_in(body, used)
        carried = [v for v in env['vars'] if v in env['muts'] and (v in used)]
        if self.self_mut and 'self' in used: carried = ['self'] + [c for c in carried if c != 'self']
        caps = [v for v in env['vars'] if v in used and v not in carried]
        if 'self' in used and 'self' not in carried and self.f['selfkind']: caps = ['self'] + [c for c in caps if c != 'self']
        # a loop that cannot return from the function yields just its carried variables ("plain")
        plain = mode != 'loop' and not self.has_exit(body, True)
        ctl = mode != 'loop' and not plain
        R = self.ret_lean_type()
        resT = f'Ctl {paren(R)} {paren(self.tuple_ty(carried, env))}' if ctl else (self.tuple_ty(carried, env) if plain else R)
        cap_sig = ' '.join(f'({lname(c)} : {self.var_lean_type(c, env)})' for c in caps)
        car_tys = [self.var_lean_type(c, env) for c in carried]
        def recurse(env2, first='fuel'):
            args = ' '.join(lname(c) for c in caps + [])
            cars = ' '.join(lname(c) for c in carried)
            return f'{fname} {args} {first} {cars}'.replace('  ', ' ').rstrip()
        benv = dict(env, loop=dict(ctl=ctl, plain=plain, carried=carried, recurse=None))
        if mode == 'list':
            elem_ty = self.list_elem_type(it_expr, env)
            lp, benv2 = self.bind_pat(item_pat, benv, elem_ty)
            benv2['loop'] = dict(ctl=ctl, plain=plain, carried=carried, recurse=lambda e2: recurse(e2, 'rest'))
            body_txt = self.tx(body, benv2, 3, lambda t, e2, i2: recurse(e2, 'rest'))
            elem_lty = map_type(elem_ty, self.cfg)
            vb = '{V : Type} ' if re.search(r'\bV\b', cap_sig + ' '.join(car_tys) + resT) else ''
            sig = f'def {fname} {vb}{cap_sig} : List {paren(elem_lty)} → ' + ''.join(f'{paren(t)} → ' for t in car_tys) + f'Except {self.cfg.err} {paren(resT)}'
            wild = ' '.join(lname(c) for c in carried)
            d = (f'{sig}\n  | [], {", ".join(lname(c) for c in carried) if carried else ""}'.rstrip(', ') +
                 f' => .ok {"(.done " + self.tuple_of(carried) + ")" if ctl else self.tuple_of(carried)}\n'
                 f'  | {lp} :: rest{"".join(", " + lname(c) for c in carried)} =>\n      {body_txt}\n')
            self.loops.append(d)
            call = f'{fname} {" ".join(lname(c) for c in caps)} {list_term} {" ".join(lname(c) for c in carried)}'.replace('  ', ' ').rstrip()
        else:
            benv['loop']['recurse'] = lambda e2: recurse(e2)
            body_txt = self.tx(body, benv, 3, lambda t, e2, i2: recurse(e2))
            vb = '{V : Type} ' if re.search(r'\bV\b', cap_sig + ' '.join(car_tys) + resT) else ''
            sig = f'def {fname} {vb}{cap_sig} : Nat → ' + ''.join(f'{paren(t)} → ' for t in car_tys) + f'Except {self.cfg.err} {paren(resT)}'
            wilds = ''.join(', _' for _ in carried)
            d = (f'{sig}\n  | 0{wilds} => .error {self.cfg.fuel_err}\n'
                 f'  | fuel + 1{"".join(", " + lname(c) for c in carried)} =>\n      {body_txt}\n')
            self.loops.append(d)
            fuel = self.cfg.fuel.get(fname)
            if fuel is None: raise TErr(f'{self.f["where"]}: no fuel expression configured for {fname}')
            call = f'{fname} {" ".join(lname(c) for c in caps)} ({fuel}) {" ".join(lname(c) for c in carried)}'.replace('  ', ' ').rstrip()
        pad = '  ' * ind
        vs = self.tuple_of(carried)
        if plain:
            return f'match {call} with\n{pad}| .error e => .error e\n{pad}| .ok {vs} =>\n{pad}  ' + k('()', env, ind + 1)
        if not ctl:
            # diverging loop: its result is the function result; the continuation is dead code
            return call
        return (f'match {call} with\n{pad}| .error e => .error e\n{pad}| .ok (.ret r) => .ok r\n'
                f'{pad}| .ok (.done {vs}) =>\n{pad}  ' + k('()', env, ind + 1))

    def list_elem_type(self, it, env):
        """element type (Rust type string) of a list-valued iterable expression"""
        if it[0] == 'mcall':
            if it[2] == 'skip': return self.list_elem_type(it[1], env)
            if it[2] == 'enumerate': return f'(usize, {self.list_elem_type(it[1], env)})'
            if it[2] == 'chars': return 'char'
            if it[2] in ('iter', 'as_ref', 'as_bytes', 'copied'): return self.list_elem_type(it[1], env)
        if it[0] == 'lit': return 'u32'
        t = (self.type_of(it, env) or '').replace(' ', '')
        m = re.fullmatch(r'&?(?:mut)?\[(.*)\]', t)
        if m: return m.group(1)
        return 'u8'

    def ret_lean_type(self):
        ret = self.f['ret']
        m = re.fullmatch(r'\s*Result\s*<(.*)>\s*', ret or '')
        if m: ret = m.group(1).strip()
        if ret and ret.strip() == 'Self': ret = self.f['target']
        if ret and ret.replace(' ', '') == '()': ret = None
        r = map_type(ret, self.cfg, self.f['item_ty']) if ret else 'Unit'
        extra = ([self.self_ty] if self.self_mut else []) + [map_type(ty, self.cfg) for (n, ty, _) in self.f['params'] if n in self.mutrefs]
        r = ' × '.join(paren(x) for x in [r] + extra) if extra else r
        return f'Option {paren(r)}' if self.panics else r

    # ---- calls
    def tx_call(self, e, env, ind, k):
        fn, args = e[1], e[2]
        if fn[0] != 'path': raise TErr(f'{self.f["where"]}: call of a non-path expression')
        path = fn[1]; name = '::'.join(path)
        if name == 'Some':
            return self.tx(args[0], env, ind, lambda t, env, ind: k(f'(some {t})', env, ind))
        if name in ('usize::from_u32', 'u32::from', 'usize::from', 'u64::from'):
            return self.tx(args[0], env, ind, k)
        if name == 'NonZeroU32::new':
            return self.tx(args[0], env, ind, lambda t, env, ind: k(f'(Rs.nonZero {t})', env, ind))
        if name == 'Ok':
            # only in result position (checked by check_result_positions): the value of the function
            if not args: return k('()', env, ind)
            return self.tx(args[0], env, ind, k)
        if name == 'Err':
            self.need_eff('Err')
            return self.tx_errval(args[0], env, ind)
        if len(path) == 2 and path[1] == 'default' and not args and path[0] in self.u.default_structs:
            return k(f'{self.u.struct_short(path[0])}.default', env, ind)
        if name == 'char::from_u32_unchecked':
            def kc(t, env, ind):
                v = self.fresh('ch')
                return self.bind(f'Rs.charFromU32Unchecked {t}', v, lambda i2: k(v, env, i2), ind)
            self.need_eff(name)
            return self.tx(args[0], env, ind, kc)
        if len(path) == 2 and path[0] == 'Self': path = [self.f['target'], path[1]]
        if len(path) == 2 and (path[0], path[1]) in self.u.selected:
            callee = self.u.fns[(path[0], path[1])]
            ckey = (path[0], path[1])
            if callee['selfkind'] or self.u.panics[ckey] or any(ty.replace(' ', '').startswith('&mut') for (_, ty, _) in callee['params']):
                raise TErr(f'{self.f["where"]}: static call of `{name}`: unsupported callee kind')
            cname = self.u.lean_fn_name(callee)
            vb = ' (V := V)' if self.u.has_v else ''
            def kc(ts, env, ind):
                ts2 = []
                for t, a, (pn, pty, _) in zip(ts, args, callee['params']):
                    ts2.append(self.coerce_iter(t, a, pty, env))
                call = f'{cname}{vb} {" ".join(paren_t(t) for t in ts2)}'
                if self.u.effectful[ckey]:
                    self.need_eff(cname)
                    v = self.fresh('r')
                    return self.bind(call, v, lambda i2: k(v, env, i2), ind)
                return k(f'({call})', env, ind)
            return self.tx_list(args, env, ind, kc)
        if name in self.cfg.consts and not args:
            return k(self.cfg.consts[name], env, ind)
        raise TErr(f'{self.f["where"]}: call of `{name}` is not in the supported subset')

    def coerce_iter(self, t, arg, param_ty, env):
        """a value of a byte-iterator struct passed where a generic `Iterator<Item = u8>` is expected
        is represented by the bytes it will still yield (justified by the `*_next_eq` theorems)"""
        h = type_head(self.type_of(arg, env))
        if param_ty.strip() in ('P', 'I') and h in self.u.iter_structs:
            return f'({self.u.struct_short(h)}.toIter (V := V) {paren_t(t)})'
        return t

    def tx_errval(self, e, env, ind):
        """an error value expression (`DaachorseError::automaton_scale(…)`) -> `.error <ctor>`"""
        while e[0] == 'block' and not e[1] and e[2] is not None: e = e[2]
        if e[0] == 'call' and e[1][0] == 'path':
            ctor = self.cfg.err_ctors.get('::'.join(e[1][1]))
            if ctor: return f'.error {ctor}'
        raise TErr(f'{self.f["where"]}: unsupported error value')

    def need_eff(self, what):
        if not self.eff: raise TErr(f'{self.f["where"]}: internal: `{what}` in a function classified as pure')

    def tx_mcall(self, e, env, ind, k):
        recv, m, args = e[1], e[2], e[3]
        recv_ty = self.type_of(recv, env)
        h = type_head(recv_ty)
        pl = self.as_place(recv, env)
        if pl is not None:
            return self.tx_place_call(pl, m, args, env, ind, k)
        # --- user functions of the translation unit, resolved by receiver type
        if (h, m) in self.u.fns and (h, m) in self.u.selected:
            callee = self.u.fns[(h, m)]
            cname = self.u.lean_fn_name(callee)
            ceff = self.u.effectful[(h, m)]
            cmut = callee['selfkind'] == 'mut'
            def kr(r, env, ind):
                def ka(ts, env, ind):
                    call = f'{cname} {r} {" ".join(paren_t(t) for t in ts)}'.rstrip()
                    if cmut:
                        v, s2 = self.fresh('r'), self.fresh('s')
                        wr = lambda i2: self.place_write_expr(recv, s2, env, i2) + k(v, env, i2)
                        if ceff:
                            self.need_eff(cname)
                            return self.bind(call, f'({v}, {s2})', wr, ind)
                        pad = '  ' * ind
                        return f'match {call} with\n{pad}| ({v}, {s2}) =>\n{pad}  ' + wr(ind + 1)
                    if ceff:
                        self.need_eff(cname)
                        v = self.fresh('r')
                        return self.bind(call, v, lambda i2: k(v, env, i2), ind)
                    return k(f'({call})', env, ind)
                return self.tx_list(args, env, ind, ka)
            return self.tx(recv, env, ind, kr)
        # --- Option combinators with closures (inlined, CPS)
        if m in ('and_then', 'map', 'filter') and len(args) == 1 and args[0][0] == 'closure':
            cl = args[0]
            if len(cl[1]) != 1: raise TErr(f'{self.f["where"]}: closure arity')
            def ko(r, env, ind):
                pad = '  ' * ind
                lp, env2 = self.bind_pat(cl[1][0], env, self.opt_payload_type(recv, env))
                if m == 'and_then':
                    some = self.tx(cl[2], env2, ind + 1, lambda t, e3, i3: k(t, env, i3))
                elif m == 'map':
                    some = self.tx(cl[2], env2, ind + 1, lambda t, e3, i3: k(f'(some {t})', env, i3))
                else:
                    some = self.tx(cl[2], env2, ind + 1, lambda t, e3, i3:
                                   f'if {t} then\n{"  " * i3}  {k(f"(some {lp})", env, i3 + 1)}\n{"  " * i3}else\n{"  " * i3}  {k("none", env, i3 + 1)}')
                return f'match {r} with\n{pad}| none =>\n{pad}  {k("none", env, ind + 1)}\n{pad}| some {lp} =>\n{pad}  {some}'
            return self.tx(recv, env, ind, ko)
        if m == 'map' and len(args) == 1 and args[0][0] == 'path':
            raise TErr(f'{self.f["where"]}: `.map(path)` is not supported')
        # --- accessors / std methods with fixed meaning
        if m == 'enumerate' and not args and not (recv[0] == 'mcall' and recv[2] == 'iter'):
            # `Iterator::enumerate` on a byte iterator (a generic `P: Iterator<Item = u8>` = the bytes it
            # yields, or one of the translated slice iterators)
            def ke(r, env, ind):
                if h in self.u.iter_structs: r = f'({self.u.struct_short(h)}.toIter (V := V) {paren_t(r)})'
                elif (recv_ty or '').strip() not in ('P', 'I'):
                    raise TErr(f'{self.f["where"]}: `.enumerate()` on `{recv_ty}`')
                return k(f'(Rs.iterEnumerate {r})', env, ind)
            return self.tx(recv, env, ind, ke)
        if m in SIMPLE_METHODS and len(args) == SIMPLE_METHODS[m][0]:
            fmt = SIMPLE_METHODS[m][1]
            def kr(r, env, ind):
                return self.tx_list(args, env, ind, lambda ts, env, ind: k(fmt.format(r=r, a=ts), env, ind))
            return self.tx(recv, env, ind, kr)
        if m == 'unwrap' and not args and self.is_result_expr(recv, env):
            self.need_eff('unwrap')
            # Result::unwrap: an error becomes a panic; the value (and the `&mut` receiver update) flows on
            if not (recv[0] == 'mcall' and (type_head(self.type_of(recv[1], env)), recv[2]) in self.u.selected):
                raise TErr(f'{self.f["where"]}: `.unwrap()` on an unsupported Result expression')
            key = (type_head(self.type_of(recv[1], env)), recv[2])
            callee = self.u.fns[key]; cname = self.u.lean_fn_name(callee)
            def kr0(r, env, ind):
                def ka0(ts, env, ind):
                    call = f'{cname} {r} {" ".join(paren_t(t) for t in ts)}'.rstrip()
                    pad = '  ' * ind
                    v, s2 = self.fresh('r'), self.fresh('s')
                    if callee['selfkind'] == 'mut':
                        return (f'match {call} with\n{pad}| .error _ => .error (.panic {lean_str(recv[2] + "().unwrap()")})\n{pad}| .ok ({v}, {s2}) =>\n{pad}  '
                                + self.place_write_expr(recv[1], s2, env, ind + 1) + k(v, env, ind + 1))
                    return (f'match {call} with\n{pad}| .error _ => .error (.panic {lean_str(recv[2] + "().unwrap()")})\n{pad}| .ok {v} =>\n{pad}  ' + k(v, env, ind + 1))
                return self.tx_list(recv[3], env, ind, ka0)
            return self.tx(recv[1], env, ind, kr0)
        if m in self.cfg.elem_setters and len(args) == 1 and recv[0] == 'index' and recv[1][0] == 'field' and recv[1][1] == ('path', ['self']):
            # self.<vec>[i].set_x(v): checked indexing, then a field update of the element
            if not self.self_mut: raise TErr(f'{self.f["where"]}: element update through `&self`')
            self.need_eff('index')
            fld, efld = lname(recv[1][2]), self.cfg.elem_setters[m]
            def ki(ix, env, ind):
                def kv(t, env, ind):
                    it, a2 = self.fresh('el'), self.fresh('a')
                    return self.bind(f'Rs.index self.{fld} {paren_t(ix)}', it, lambda i2:
                                     f'let self := {{ self with {fld} := self.{fld}.setIfInBounds {paren_t(ix)} {{ {it} with {efld} := {t} }} }}\n{"  " * i2}' + k('()', env, i2), ind)
                return self.tx(args[0], env, ind, kv)
            return self.tx(recv[2], env, ind, ki)
        if m == 'resize' and len(args) == 2 and recv[0] == 'field' and recv[1] == ('path', ['self']):
            if not self.self_mut: raise TErr(f'{self.f["where"]}: resize through `&self`')
            fld = lname(recv[2])
            def kz(ts, env, ind):
                pad = '  ' * ind
                return f'let self := {{ self with {fld} := Rs.resize self.{fld} {paren_t(ts[0])} {paren_t(ts[1])} }}\n{pad}' + k('()', env, ind)
            return self.tx_list(args, env, ind, kz)
        if m == 'unwrap' and not args:
            self.need_eff('unwrap')
            if recv[0] == 'call' and recv[1][0] == 'path' and '::'.join(recv[1][1]) == 'u32::try_from':
                def ku(t, env, ind):
                    v = self.fresh('n')
                    return self.bind(f'Rs.u32TryFromUnwrap {paren_t(t)}', v, lambda i2: k(v, env, i2), ind)
                return self.tx(recv[2][0], env, ind, ku)
            def kr(r, env, ind):
                pad = '  ' * ind
                v = self.fresh('u')
                return (f'match {r} with\n{pad}| none => .error (.panic "unwrap on None")\n{pad}| some {v} =>\n{pad}  ' + k(v, env, ind + 1))
            return self.tx(recv, env, ind, kr)
        if m == 'ok_or_else' and len(args) == 1 and args[0][0] == 'closure' and not args[0][1]:
            self.need_eff('ok_or_else')
            def kr(r, env, ind):
                pad = '  ' * ind
                v = self.fresh('v')
                return (f'match {r} with\n{pad}| none => {self.tx_errval(args[0][2], env, ind)}\n{pad}| some {v} =>\n{pad}  ' + k(v, env, ind + 1))
            return self.tx(recv, env, ind, kr)
        if m == 'then' and len(args) == 1 and args[0][0] == 'closure' and not args[0][1]:
            def kr(c, env, ind):
                pad = '  ' * ind
                return (f'if {c} then\n{pad}  ' + self.tx(args[0][2], env, ind + 1, lambda t, e3, i3: k(f'(some {t})', env, i3)) +
                        f'\n{pad}else\n{pad}  ' + k('none', env, ind + 1))
            return self.tx(recv, env, ind, kr)
        if m == 'find' and len(args) == 1 and args[0][0] == 'closure' and recv[0] == 'range' and len(args[0][1]) == 1:
            # `(a..b).find(|&x| pred)`: first x in the range satisfying the (possibly panicking) predicate
            cl = args[0]
            if self.assigns_any(cl[2]): raise TErr(f'{self.f["where"]}: assignment inside a `find` closure')
            def kr(ts, env, ind):
                lp, env2 = self.bind_pat(cl[1][0], env, 'u32')
                body = self.tx(cl[2], env2, ind + 2, lambda t, e3, i3: self.ok(t))
                v = self.fresh('f')
                call = f'Rs.rangeFindM {paren_t(ts[0])} {paren_t(ts[1])} (fun {lp} =>\n{"  " * (ind + 2)}{body})'
                if self.eff:
                    return self.bind(call, v, lambda i2: k(v, env, i2), ind)
                return k(f'({call})', env, ind)
            return self.tx_list([recv[1], recv[2]], env, ind, kr)
        if m == 'contains' and len(args) == 1:
            def kr(r, env, ind):
                return self.tx(args[0], env, ind, lambda t, env, ind: k(f'(decide ({r}.1 ≤ {t}) && decide ({t} < {r}.2))', env, ind))
            return self.tx(recv, env, ind, kr)
        pl = self.as_place(recv, env)
        if pl is not None:
            return self.tx_place_call(pl, m, args, env, ind, k)
        if m == 'get' and len(args) == 0:         # NonZeroU32::get / U24::get
            return self.tx(recv, env, ind, k)
        if m == 'get' and len(args) == 1:         # slice::get
            def kr(r, env, ind):
                return self.tx(args[0], env, ind, lambda t, env, ind: k(f'{r}[{t}]?', env, ind))
            return self.tx(recv, env, ind, kr)
        if m == 'get_unchecked' and len(args) == 1:
            self.need_eff(m)
            if args[0][0] == 'range':
                if args[0][2] is not None: raise TErr(f'{self.f["where"]}: only `get_unchecked(pos..)` is supported')
                def kr(r, env, ind):
                    def ka(t, env, ind):
                        v = self.fresh('s')
                        return self.bind(f'Rs.strGetUncheckedFrom {paren_t(r)} {paren_t(t)}', v, lambda i2: k(v, env, i2), ind)
                    return self.tx(args[0][1], env, ind, ka)
                return self.tx(recv, env, ind, kr)
            fld = recv[2] if recv[0] == 'field' else None
            fault = self.cfg.field_fault.get(fld)
            if fault is None: raise TErr(f'{self.f["where"]}: get_unchecked on `{fld}`: no fault kind configured')
            def kr(r, env, ind):
                def ka(t, env, ind):
                    v = self.fresh('x')
                    return self.bind(f'Rs.getUnchecked {paren_t(r)} {paren_t(t)} .{fault}', v, lambda i2: k(v, env, i2), ind)
                return self.tx(args[0], env, ind, ka)
            return self.tx(recv, env, ind, kr)
        if m == 'unwrap_unchecked' and not args:
            self.need_eff(m)
            def kr(r, env, ind):
                v = self.fresh('u')
                return self.bind(f'Rs.unwrapUnchecked {paren_t(r)}', v, lambda i2: k(v, env, i2), ind)
            return self.tx(recv, env, ind, kr)
        if m == 'chars' and not args:
            self.need_eff(m)
            def kr(r, env, ind):
                v = self.fresh('cs')
                return self.bind(f'Rs.chars {paren_t(r)}', v, lambda i2: k(v, env, i2), ind)
            return self.tx(recv, env, ind, kr)
        if m == 'replace' and len(args) == 1:
            # Option::replace used as a statement: assignment of Some(arg); the old value is returned
            def ka(t, env, ind):
                old = self.fresh('old')
                pad = '  ' * ind
                cur = self.place_read(recv, env)
                return f'let {old} := {cur}\n{pad}' + self.place_write(recv, f'(some {t})', env, ind) + k(old, env, ind)
            return self.tx(args[0], env, ind, ka)
        if m == 'next' and not args and h in self.cfg.types and (h, 'next') not in self.u.fns:
            # prelude iterator (Enumerate): pure, returns (item?, iterator')
            def kr(r, env, ind):
                v, s2 = self.fresh('r'), self.fresh('s')
                pad = '  ' * ind
                return (f'match Rs.{h}.next {r} with\n{pad}| ({v}, {s2}) =>\n{pad}  ' +
                        self.place_write_expr(recv, s2, env, ind + 1) + k(v, env, ind + 1))
            return self.tx(recv, env, ind, kr)
        raise TErr(f'{self.f["where"]}: method `.{m}()` on `{recv_ty}` is not in the supported subset')

    def as_place(self, e, env):
        """`base.get_ref(E)` / `base.get_mut(E)` denote the element base.items[base.offset(E)]
        (the bodies of these two accessors are verified to have exactly that shape)."""
        if e[0] == 'mcall' and e[2] in self.cfg.places and len(e[3]) == 1:
            h = type_head(self.type_of(e[1], env))
            if (h, e[2]) in self.u.place_fns:
                return (e[1], e[3][0], h, e[2] == self.cfg.places.get('__mut__'))
        return None

    def with_place(self, pl, env, ind, k):
        """evaluates the offset of a place and reads the element: k(base, off, item)"""
        base, idx_e, h, _ = pl
        def kb(b, env, ind):
            def ki(t, env, ind):
                o, it = self.fresh('o'), self.fresh('it')
                off_fn = self.u.lean_fn_name(self.u.fns[(h, 'offset')])
                return self.bind(f'{off_fn} {b} {paren_t(t)}', o, lambda i2:
                                 self.bind(f'Rs.index {b}.items {o}', it, lambda i3: k(b, o, it, env, i3), i2), ind)
            return self.tx(idx_e, env, ind, ki)
        self.need_eff('place')
        return self.tx(base, env, ind, kb)

    def tx_place_call(self, pl, m, args, env, ind, k):
        base, idx_e, h, is_mut = pl
        elem = self.u.place_elem[h]
        key = (elem, m)
        if key not in self.u.selected: raise TErr(f'{self.f["where"]}: method `.{m}()` of `{elem}` is not translated')
        callee = self.u.fns[key]; cname = self.u.lean_fn_name(callee)
        if self.u.effectful[key]: raise TErr(f'{self.f["where"]}: effectful element method `{m}`')
        def kp(b, o, it, env, ind):
            def ka(ts, env, ind):
                call = f'{cname} {it} {" ".join(paren_t(t) for t in ts)}'.rstrip()
                if callee['selfkind'] == 'mut':
                    if base != ('path', ['self']) or not self.self_mut:
                        raise TErr(f'{self.f["where"]}: `&mut` element method through an immutable base')
                    pad = '  ' * ind
                    v, it2 = self.fresh('r'), self.fresh('it')
                    return (f'match {call} with\n{pad}| ({v}, {it2}) =>\n{pad}  let self := {{ self with items := self.items.setIfInBounds {o} {it2} }}\n{pad}  '
                            + k(v, env, ind + 1))
                return k(f'({call})', env, ind)
            return self.tx_list(args, env, ind, ka)
        return self.with_place(pl, env, ind, kp)

    def assigns_any(self, e):
        if isinstance(e, tuple):
            if e and e[0] == 'assign': return True
            return any(self.assigns_any(x) for x in e[1:])
        if isinstance(e, list): return any(self.assigns_any(x) for x in e)
        return False

    def place_write_expr(self, place, t, env, ind):
        """writes back the new value of a place that was the receiver of a `&mut self` call"""
        pad = '  ' * ind
        if place[0] == 'field' and place[1] == ('path', ['self']):
            return self.place_write(place, t, env, ind)
        if place[0] == 'path' and len(place[1]) == 1 and place[1][0] in env['muts']:
            return self.place_write(place, t, env, ind)
        raise TErr(f'{self.f["where"]}: `&mut self` call on an unsupported place')

    def check_result_positions(self, e, tail):
        """`Ok(..)` / `Err(..)` are translated as "the value of the function": they may only occur as the
        operand of `return` or in tail position."""
        if isinstance(e, list):
            for x in e: self.check_result_positions(x, False)
            return
        if not isinstance(e, tuple) or not e: return
        k = e[0]
        if k == 'call' and e[1][0] == 'path' and e[1][1][-1] in ('Ok', 'Err'):
            if not tail: raise TErr(f'{self.f["where"]}: `{e[1][1][-1]}(..)` outside result position')
            self.check_result_positions(e[2], False); return
        if k == 'block':
            self.check_result_positions(e[1], False)
            if e[2] is not None: self.check_result_positions(e[2], tail)
            return
        if k == 'if':
            self.check_result_positions(e[1], False); self.check_result_positions(e[2], tail)
            if e[3] is not None: self.check_result_positions(e[3], tail)
            return
        if k == 'iflet':
            self.check_result_positions(e[2], False); self.check_result_positions(e[3], tail)
            if e[4] is not None: self.check_result_positions(e[4], tail)
            return
        if k == 'return':
            if e[1] is not None: self.check_result_positions(e[1], True)
            return
        if k == 'expr':
            self.check_result_positions(e[1], False); return
        for x in e[1:]: self.check_result_positions(x, False)

    # ---- the whole function
    def run(self):
        f = self.f
        p = P(f['body_toks'], f['where'])
        body = p.block()
        self.check_result_positions(body, True)
        env = dict(vars=[], muts=[], types={}, loop=None)
        sig = []
        if f['selfkind']:
            sig.append(f'(self : {self.self_ty})')
            if self.self_mut: env['muts'].append('self')
        for (n, ty, mut) in f['params']:
            env['vars'].append(n); env['types'][n] = ty
            if mut or n in self.mutrefs: env['muts'].append(n)
            sig.append(f'({lname(n)} : {map_type(ty, self.cfg, f["item_ty"])})')
        R = self.ret_lean_type()
        rt = f'Except {self.cfg.err} {paren(R)}' if self.eff else R
        text = self.tx(body, env, 1, lambda t, env, ind: self.exit_return(t, env))
        out = ''.join(l + '\n' for l in self.loops)
        out += f'/-- `{f["target"]}::{f["name"]}` ({f["where"].split(":")[0]}) -/\n'
        vb = '{V : Type} ' if re.search(r'\bV\b', ' '.join(sig) + rt) else ''
        out += f'def {self.lean_name} {vb}{" ".join(sig)} : {rt} :=\n  {text}\n'
        return out

def lean_str(t):
    return '"' + t.replace('\\', '').replace('"', "'") + '"'

def paren_t(t):
    t = t.strip()
    if re.fullmatch(r'[A-Za-z0-9_.\'?\[\]]+', t) or (t.startswith('(') and balanced_outer(t)) or (t.startswith('{') and t.endswith('}')):
        return t
    return f'({t})'

def balanced_outer(t):
    depth = 0
    for i, ch in enumerate(t):
        if ch == '(': depth += 1
        elif ch == ')':
            depth -= 1
            if depth == 0 and i != len(t) - 1: return False
    return depth == 0

EFFECT_METHODS = {'get_unchecked', 'unwrap_unchecked', 'chars'}
EFFECT_CALLS = {'from_u32_unchecked'}

# method name -> (arity, Lean format)   [{r} receiver, {a[i]} arguments]
SIMPLE_METHODS = {
    'next_power_of_two': (0, '(Nat.nextPowerOfTwo {r})'), 'max': (1, '(max {r} {a[0]})'),
    'is_empty': (0, '{r}.isEmpty'),
    'checked_mul': (1, '(Rs.checkedMulU32 {r} {a[0]})'), 'saturating_sub': (1, '({r} - {a[0]})'),
    'wrapping_sub': (1, '(Rs.wrappingSubU32 {r} {a[0]})'), 'len': (0, '{r}.size'),
    'base': (0, '(Rs.St.base {r})'), 'check': (0, '{r}.check'), 'fail': (0, '{r}.fail'),
    'output_pos': (0, '(Rs.St.outputPos {r})'),
    'length': (0, '{r}.length'), 'value': (0, '{r}.value'), 'parent': (0, '(Rs.Out.parent {r})'),
    'copied': (0, '{r}'), 'as_ref': (0, '{r}'), 'as_bytes': (0, '{r}'), 'iter': (0, '{r}'), 'by_ref': (0, '{r}'),
    'enumerate': (0, '(Rs.enumerate {r})'), 'skip': (1, '(List.drop {a[0]} {r})'),
    'len_utf8': (0, '(Rs.lenUtf8 {r})'),
}

class Unit:
    """One variant (byte-wise or char-wise): its source files, selected functions, configuration."""
    def __init__(self, repo, files, selected, cfg, struct_types, iter_structs=()):
        self.cfg, self.selected, self.iter_structs = cfg, selected, list(iter_structs)
        self.structs, self.fns = {}, {}
        for path in files:
            s, f = parse_items(open(os.path.join(repo, path), encoding='utf-8').read(), path)
            self.structs.update(s)
            for key, val in f.items():
                if key in self.fns and key in selected:
                    raise TErr(f'{path}: duplicate definition of {key}')
                self.fns[key] = val
        for key in selected:
            if key not in self.fns: raise TErr(f'function {key[0]}::{key[1]} not found in {files}')
        self.struct_types = struct_types
        self.defs = {}
        self.default_structs, self.place_fns, self.place_elem, self.field_lens = [], set(), {}, {}
        self.rename_clashes = False
        self.has_v = True
        # effect analysis: fixpoint over the selected functions
        self.bodies = {}
        for key in selected:
            f = self.fns[key]
            self.bodies[key] = P(f['body_toks'], f['where']).block()
        self.recompute_effects()

    def recompute_effects(self):
        selected, cfg = self.selected, self.cfg
        self.effectful = {key: False for key in selected}
        self.panics = {key: (self.has_assert(self.bodies[key]) and cfg.assert_mode == 'option') for key in selected}
        changed = True
        while changed:
            changed = False
            for key in selected:
                if self.effectful[key]: continue
                if self.body_effect(self.bodies[key]):
                    self.effectful[key] = True; changed = True

    def body_effect(self, e):
        if isinstance(e, tuple):
            if e and e[0] in ('loop', 'for', 'while', 'whilelet'): return True
            if self.cfg.assert_mode == 'panic':
                if e and e[0] in ('assert', 'index'): return True
                if e and e[0] == 'mcall' and (e[2] in ('unwrap', 'ok_or_else') or e[2] in self.cfg.places): return True
                if e and e[0] == 'call' and e[1][0] == 'path' and e[1][1][-1] == 'Err': return True
                if e and e[0] == 'assign' and e[1][0] in ('index', 'un'): return True
            if e and e[0] == 'mcall':
                if e[2] in EFFECT_METHODS: return True
                for key, val in self.effectful.items():
                    if key[1] == e[2] and val: return True
            if e and e[0] == 'call' and e[1][0] == 'path' and e[1][1][-1] in EFFECT_CALLS: return True
            return any(self.body_effect(x) for x in e[1:])
        if isinstance(e, list): return any(self.body_effect(x) for x in e)
        return False

    def has_assert(self, e):
        if isinstance(e, tuple):
            if e and e[0] == 'assert': return True
            return any(self.has_assert(x) for x in e[1:])
        if isinstance(e, list): return any(self.has_assert(x) for x in e)
        return False

    def fld(self, struct, field):
        return lname(field) + ('_' if self.rename_clashes and struct and (struct, field) in self.selected else '')

    def lean_fn_name(self, f):
        return f'{self.struct_short(f["target"])}.{lname(f["name"])}'
    def struct_short(self, name):
        return self.struct_types.get(name, (name, None))[0]
    def struct_lean_type(self, name):
        st = self.struct_types.get(name)
        if st is None: raise TErr(f'no Lean type configured for struct `{name}`')
        return st[1]
    def struct_ctor(self, name):
        if name in self.struct_types: return self.struct_types[name][1]
        if name in self.cfg.types: return self.cfg.types[name]
        raise TErr(f'struct literal of `{name}` is not in the supported subset')

    def verify_accessor(self, target, name, expected, what):
        f = self.fns.get((target, name))
        got = ' '.join(t[1] for t in f['body_toks']) if f else None
        if got != expected:
            raise TErr(f'{target}::{name} no longer has the shape the translator relies on ({what}): `{got}`')

    def declare_places(self, container, elem, ref_fn, mut_fn, lenses, defaults):
        """`container.ref_fn(i)` / `container.mut_fn(i)` are the element container.items[container.offset(i)];
        `elem.<lens>()` is `&mut self.<field>`; `elem::default()` is the derived all-zero value."""
        self.verify_accessor(container, ref_fn, '{ & self . items [ self . offset ( idx ) ] }', 'element read accessor')
        self.verify_accessor(container, mut_fn, '{ let offset = self . offset ( idx ) ; & mut self . items [ offset ] }', 'element write accessor')
        self.place_fns |= {(container, ref_fn), (container, mut_fn)}
        self.place_elem[container] = elem
        for lens, fld in lenses.items():
            self.verify_accessor(elem, lens, '{ & mut self . ' + fld + ' }', 'field accessor')
            self.field_lens[(elem, lens)] = fld
        self.default_structs += defaults

    def gen_default(self, n, src):
        """`#[derive(Default)]`: every field zero / false / None"""
        if not re.search(r'#\[derive\([^)]*\bDefault\b[^)]*\)\]\s*pub struct ' + n + r'\b', src):
            raise TErr(f'struct {n} no longer derives Default')
        vals = []
        for fld, ty in self.structs[n].items():
            lt = map_type(ty, self.cfg)
            vals.append(f'{self.fld(n, fld)} := ' + {'Nat': '0', 'Bool': 'false'}.get(lt, 'none' if lt.startswith('Option') else '?'))
        if any(v.endswith('?') for v in vals): raise TErr(f'struct {n}: no default value for a field type')
        text = f'/-- `{n}::default()` (derived) -/\ndef {self.struct_short(n)}.default : {self.struct_lean_type(n)} := {{ {", ".join(vals)} }}\n\n'
        self.defs[f'{self.cfg.ns}.{self.struct_short(n)}.default'] = text
        return text

    def gen_structs(self, names, with_v=True):
        out = ''
        for n in names:
            start = len(out)
            self.defs[f'{self.cfg.ns}.struct.{self.struct_short(n)}'] = None
            fields = self.structs.get(n)
            if fields is None: raise TErr(f'struct {n} not found')
            out += f'/-- `struct {n}` -/\nstructure {self.struct_short(n)}{" (V : Type)" if with_v else ""} where\n'
            for fld, ty in fields.items():
                out += f'  {self.fld(n, fld)} : {map_type(ty, self.cfg)}\n'
            out += '\n'
            if n in self.iter_structs:
                if list(fields) != ['inner', 'pos']: raise TErr(f'struct {n}: a slice iterator is expected to have the fields inner, pos')
                out += (f'/-- The bytes a `{n}` will still yield (see `{self.struct_short(n)}.next` and the theorem that it walks `inner.drop pos`). -/\n'
                        f'def {self.struct_short(n)}.toIter {{V : Type}} (it : {self.struct_short(n)} V) : List Nat := it.inner.drop it.pos\n\n')
            self.defs[f'{self.cfg.ns}.struct.{self.struct_short(n)}'] = out[start:]
        return out

    def gen(self, order):
        out = ''
        for key in order:
            text = FnT(self, self.fns[key]).run()
            self.defs[f'{self.cfg.ns}.{self.lean_fn_name(self.fns[key])}'] = text
            out += text + '\n'
        return out

HEADER = '''/- GENERATED by /verif/tools/rs2lean.py from /repo's current source ({files}). Do not edit.
   Translation rules and their trusted base: see the header of tools/rs2lean.py and Daac/Gen/Prelude.lean. -/
import {prelude}
set_option linter.unusedVariables false
namespace Daac.Gen.{ns}
open Daac{opens}

'''

def main():
    repo = sys.argv[1] if len(sys.argv) > 1 else '/repo'
    outdir = sys.argv[2] if len(sys.argv) > 2 else os.path.join(os.path.dirname(os.path.abspath(__file__)), '..', 'lean', 'Daac', 'Gen')
    common_types = {'Enumerate': 'Src', 'Match': 'Rs.Match V', 'Output': 'Out V', 'State': 'St', 'MatchKind': 'Nat'}
    kinds = dict(re.findall(r'\("(\w+)", (\d+)\)', re.search(r'def kindBytes.*', open(os.path.join(outdir, 'Consts.lean')).read()).group(0)))
    if set(kinds) != {'Standard', 'LeftmostLongest', 'LeftmostFirst'}: raise TErr('MatchKind variants changed')
    consts = {'ROOT_STATE_IDX': 'Gen.rootStateIdx', 'DEAD_STATE_IDX': 'Gen.deadStateIdx', 'INVALID_CODE': 'Gen.invalidCode',
              'Self::Standard': kinds['Standard'], 'Self::LeftmostLongest': kinds['LeftmostLongest'], 'Self::LeftmostFirst': kinds['LeftmostFirst']}
    mk_sel = [('MatchKind', 'is_standard'), ('MatchKind', 'is_leftmost')]
    entry = ['find_iter', 'find_iter_from_iter', 'find_overlapping_iter', 'find_overlapping_iter_from_iter',
             'find_overlapping_no_suffix_iter', 'find_overlapping_no_suffix_iter_from_iter', 'leftmost_find_iter']
    results = {}
    # ---------------- byte-wise
    b_structs = {
        'DoubleArrayAhoCorasick': ('DA', 'DA V'),
        'FindIterator': ('FindIterator', 'FindIterator V'),
        'FindOverlappingIterator': ('FindOverlappingIterator', 'FindOverlappingIterator V'),
        'FindOverlappingNoSuffixIterator': ('FindOverlappingNoSuffixIterator', 'FindOverlappingNoSuffixIterator V'),
        'LestmostFindIterator': ('LestmostFindIterator', 'LestmostFindIterator V'),
        'U8SliceIterator': ('U8SliceIterator', 'U8SliceIterator V'),
        'MatchKind': ('MatchKind', 'Nat'),
        'Match': ('Match', 'Rs.Match V'),
    }
    b_types = dict(common_types, **{k: v[1] for k, v in b_structs.items()})
    b_sel = mk_sel + [('Match', 'start'), ('Match', 'end'), ('Match', 'value')] + [('U8SliceIterator', 'new'), ('DoubleArrayAhoCorasick', 'child_index_unchecked'), ('DoubleArrayAhoCorasick', 'next_state_id_unchecked'),
             ('DoubleArrayAhoCorasick', 'next_state_id_leftmost_unchecked'),
             ('U8SliceIterator', 'next'),
             ('FindIterator', 'next'), ('FindOverlappingIterator', 'next'),
             ('FindOverlappingNoSuffixIterator', 'next'), ('LestmostFindIterator', 'next')] + [('DoubleArrayAhoCorasick', e) for e in entry]
    b_fuel = {'DA.next_state_id_unchecked.loop0': 'self.states.size + 1',
              'DA.next_state_id_leftmost_unchecked.loop0': 'self.states.size + 1',
              'FindIterator.next.loop0': 'self.haystack.rest.length + 1',
              'FindOverlappingIterator.next.loop0': 'self.haystack.rest.length + 1',
              'FindOverlappingNoSuffixIterator.next.loop0': 'self.haystack.rest.length + 1'}
    cfgb = Cfg('B', 'DA V', consts, b_fuel, b_types, {'states': 'oobStates', 'outputs': 'oobOutputs'},
               {('DoubleArrayAhoCorasick', 'match_kind'): 'kind'})
    ub = Unit(repo, ['src/lib.rs', 'src/bytewise.rs', 'src/bytewise/iter.rs'], b_sel, cfgb, b_structs, ['U8SliceIterator'])
    textb = HEADER.format(files='src/bytewise.rs, src/bytewise/iter.rs', ns='B', prelude='Daac.Gen.Prelude', opens='')
    textb += ub.gen_structs(['U8SliceIterator', 'FindIterator', 'FindOverlappingIterator', 'FindOverlappingNoSuffixIterator', 'LestmostFindIterator'])
    textb += ub.gen(b_sel)
    textb += 'end Daac.Gen.B\n'
    results['SearchB.lean'] = textb
    # ---------------- char-wise
    c_structs = {
        'CharwiseDoubleArrayAhoCorasick': ('DA', 'DA V'),
        'CodeMapper': ('CodeMapper', 'DA V'),
        'CharWithEndOffsetIterator': ('CharWithEndOffsetIterator', 'CharWithEndOffsetIterator V'),
        'StrIterator': ('StrIterator', 'StrIterator V'),
        'FindIterator': ('FindIterator', 'FindIterator V'),
        'FindOverlappingIterator': ('FindOverlappingIterator', 'FindOverlappingIterator V'),
        'FindOverlappingNoSuffixIterator': ('FindOverlappingNoSuffixIterator', 'FindOverlappingNoSuffixIterator V'),
        'LestmostFindIterator': ('LestmostFindIterator', 'LestmostFindIterator V'),
        'MatchKind': ('MatchKind', 'Nat'),
    }
    c_types = dict(common_types, **{k: v[1] for k, v in c_structs.items()})
    c_sel = mk_sel + [('StrIterator', 'new'), ('CharWithEndOffsetIterator', 'new'), ('CodeMapper', 'get'),
             ('CharwiseDoubleArrayAhoCorasick', 'child_index_unchecked'), ('CharwiseDoubleArrayAhoCorasick', 'next_state_id_unchecked'),
             ('CharwiseDoubleArrayAhoCorasick', 'next_state_id_leftmost_unchecked'),
             ('StrIterator', 'next'), ('CharWithEndOffsetIterator', 'next'),
             ('FindOverlappingIterator', 'next'), ('FindIterator', 'next'),
             ('FindOverlappingNoSuffixIterator', 'next'), ('LestmostFindIterator', 'next')] + [('CharwiseDoubleArrayAhoCorasick', e) for e in entry]
    c_fuel = {'DA.next_state_id_unchecked.loop0': 'self.states.size + 1',
              'DA.next_state_id_leftmost_unchecked.loop0': 'self.states.size + 1',
              'FindIterator.next.loop0': 'self.haystack.inner.rest.length + 1',
              'FindOverlappingIterator.next.loop0': 'self.haystack.inner.rest.length + 1',
              'FindOverlappingNoSuffixIterator.next.loop0': 'self.haystack.inner.rest.length + 1'}
    cfgc = Cfg('C', 'DA V', consts, c_fuel, c_types, {'states': 'oobStates', 'outputs': 'oobOutputs'},
               {('CharwiseDoubleArrayAhoCorasick', 'mapper'): '', ('CodeMapper', 'table'): 'mapTable',
                ('CharwiseDoubleArrayAhoCorasick', 'match_kind'): 'kind'})
    uc = Unit(repo, ['src/lib.rs', 'src/charwise.rs', 'src/charwise/mapper.rs', 'src/charwise/iter.rs'], c_sel, cfgc, c_structs, ['StrIterator'])
    textc = HEADER.format(files='src/charwise.rs, src/charwise/mapper.rs, src/charwise/iter.rs', ns='C', prelude='Daac.Gen.Prelude', opens='')
    textc += uc.gen_structs(['StrIterator', 'CharWithEndOffsetIterator', 'FindIterator', 'FindOverlappingIterator', 'FindOverlappingNoSuffixIterator', 'LestmostFindIterator'])
    textc += uc.gen(c_sel)
    textc += 'end Daac.Gen.C\n'
    results['SearchC.lean'] = textc
    # ---------------- construction side: the free-slot bookkeeping (src/build_helper.rs)
    h_structs = {'BuildHelper': ('BuildHelper', 'BuildHelper'), 'ListItem': ('ListItem', 'ListItem'), 'VacantIter': ('VacantIter', 'VacantIter')}
    h_types = {'BuildHelper': 'BuildHelper', 'ListItem': 'ListItem', 'VacantIter': 'VacantIter', 'Range': 'Nat × Nat', 'Vec': 'Array ListItem'}
    h_sel = [('ListItem', m) for m in ('next', 'prev', 'is_used_base', 'is_used_index', 'use_base', 'use_index')] + \
            [('BuildHelper', m) for m in ('new', 'num_elements', 'active_block_range', 'active_index_range', 'capacity', 'offset',
                                          'is_used_base', 'is_used_index', 'unused_base_in_block', 'use_base', 'use_index',
                                          'dropped_block', 'reset', 'push_block', 'vacant_iter')] + [('VacantIter', 'next')]
    h_consts = {'u32::MAX': '4294967295'}
    cfgh = Cfg('H', 'BuildHelper', h_consts, {'BuildHelper.push_block.loop0': 'self.block_len + 1'}, h_types, {}, 
               {('Range', 'start'): '1', ('Range', 'end'): '2'},
               err='BuildErr', fuel_err='(.panic "closing a block does not terminate")', assert_mode='panic',
               err_ctors={'DaachorseError::automaton_scale': '.automatonScale'},
               places={'get_ref': True, 'get_mut': True, '__mut__': 'get_mut'})
    uh = Unit(repo, ['src/build_helper.rs'], h_sel, cfgh, h_structs)
    src_h = open(os.path.join(repo, 'src/build_helper.rs'), encoding='utf-8').read()
    uh.rename_clashes = True
    uh.declare_places('BuildHelper', 'ListItem', 'get_ref', 'get_mut', {'next_mut': 'next', 'prev_mut': 'prev'}, ['ListItem'])
    uh.recompute_effects()
    texth = HEADER.format(files='src/build_helper.rs', ns='H', prelude='Daac.Gen.PreludeBuild', opens='')
    texth += uh.gen_structs(['ListItem', 'BuildHelper', 'VacantIter'], with_v=False)
    texth += uh.gen_default('ListItem', src_h)
    texth += uh.gen(h_sel)
    texth += 'end Daac.Gen.H\n'
    results['Helper.lean'] = texth
    # ---------------- construction side: array growth, BASE search, CHECK sanitising (both builders)
    def layout_unit(ns, files, builder, extra_structs, extra_types, extra_sel, own_sel, consts_x, renames, src_check):
        structs = dict(h_structs, **{builder: ('Builder', 'Builder')}, **extra_structs)
        types = dict(h_types, State='St', MatchKind='Nat', **{builder: 'Builder'}, **extra_types)
        types['Vec'] = 'Array St'
        sel = h_sel + extra_sel + [(builder, m) for m in own_sel]
        cfgl = Cfg(ns, 'Builder', dict(consts, **h_consts, **consts_x), {'Builder.find_base.loop0': 'helper.items.size + 1'}, types, {},
                   {**{('Range', 'start'): '1', ('Range', 'end'): '2'}, **renames},
                   err='BuildErr', fuel_err='(.panic "vacant list does not terminate")', assert_mode='panic',
                   err_ctors={'DaachorseError::automaton_scale': '.automatonScale'},
                   places={'get_ref': True, 'get_mut': True, '__mut__': 'get_mut'})
        cfgl.elem_setters = {'set_check': 'check'}
        u = Unit(repo, files, sel, cfgl, structs)
        u.rename_clashes = True; u.has_v = False
        u.declare_places('BuildHelper', 'ListItem', 'get_ref', 'get_mut', {'next_mut': 'next', 'prev_mut': 'prev'}, ['ListItem'])
        u.recompute_effects()
        src_check(u)
        text = HEADER.format(files=', '.join(files[1:]), ns=ns, prelude='Daac.Gen.Helper\nimport Daac.Gen.Prelude\nimport Daac.Model.Build', opens=' Daac.Gen.H')
        text += u.gen_structs([builder], with_v=False)
        text += u.gen(extra_sel + [(builder, m) for m in own_sel])
        text += f'end Daac.Gen.{ns}\n'
        return u, text
    def check_b(u):
        srcb = open(os.path.join(repo, 'src/bytewise.rs'), encoding='utf-8').read()
        if not re.search(r'#\[derive\([^)]*\bDefault\b[^)]*\)\]\s*struct State\b', srcb):
            raise TErr('byte-wise State no longer derives Default (all-zero element)')
    ulb, textlb = layout_unit('LB', ['src/build_helper.rs', 'src/bytewise/builder.rs'], 'DoubleArrayAhoCorasickBuilder', {}, {}, [],
                              ['init_array', 'check_valid_base', 'find_base', 'remove_invalid_checks', 'extend_array'],
                              {'BLOCK_LEN': 'Gen.blockLen', 'State::default': 'stDefaultB', 'u8::MIN': '0', 'u8::MAX': '255'}, {}, check_b)
    results['LayoutB.lean'] = textlb
    ulc, textlc = layout_unit('LC', ['src/build_helper.rs', 'src/charwise/mapper.rs', 'src/charwise/builder.rs'], 'CharwiseDoubleArrayAhoCorasickBuilder',
                              {'CodeMapper': ('CodeMapper', 'Mapper')}, {'CodeMapper': 'Mapper'}, [('CodeMapper', 'alphabet_size')],
                              ['init_array', 'verify_base', 'find_base', 'extend_array'],
                              {'State::default': 'stDefaultC'}, {('CodeMapper', 'alphabet_size'): 'alphaSize', ('CodeMapper', 'table'): 'table'}, lambda u: None)
    results['LayoutC.lean'] = textlc
    import hashlib, json
    manifest = {k: hashlib.sha1(v.encode()).hexdigest()[:16] for u in (ub, uc, uh, ulb, ulc) for k, v in u.defs.items() if not (u in (ulb, ulc) and k.split('.')[1] in ('ListItem', 'BuildHelper', 'VacantIter'))}
    results['search_defs.json'] = json.dumps(manifest, indent=1, sort_keys=True) + '\n'
    for name, text in results.items():
        path = os.path.join(outdir, name)
        old = open(path).read() if os.path.exists(path) else None
        if old != text:
            open(path, 'w').write(text)
    print('rs2lean: ok')

if __name__ == '__main__':
    try:
        main()
    except TErr as ex:
        print(f'rs2lean: {ex}')
        sys.exit(2)

#!/bin/bash
# confirm_seed.sh <seed-dir>: in a scratch worktree of /repo (outside /repo and /verif) confirm that
# the patch applies, the pinned suite (--lib --bins --tests) still passes with it, the demo fails
# with it and passes without it. Prints one summary line; removes the worktree afterwards.
S=$(realpath "$1"); N=$(basename "$S"); W=/tmp/confirm_$N
git -C /repo worktree remove --force $W 2>/dev/null; rm -rf $W
git -C /repo worktree add -q --detach $W HEAD || exit 2
cd $W
demo=none
if [ -f $S/seed_demo.rs ]; then cp $S/seed_demo.rs tests/seed_demo.rs; demo=rs; fi
if [ -f $S/seed_demo.sh ]; then cp $S/seed_demo.sh seed_demo.sh; chmod +x seed_demo.sh; demo=sh; fi
rundemo() {
  if [ $demo = rs ]; then cargo test --offline --test seed_demo >/tmp/confirm_$N.demo 2>&1; echo $?;
  elif [ $demo = sh ]; then ./seed_demo.sh $W >/tmp/confirm_$N.demo 2>&1; echo $?; else echo na; fi
}
clean_demo=$(rundemo)
git apply $S/patch.diff || { echo "$N: PATCH DOES NOT APPLY"; exit 2; }
[ $demo = rs ] && mv tests/seed_demo.rs /tmp/confirm_$N.rs
suite=$(cargo test --workspace --no-fail-fast --offline --lib --bins --tests 2>&1 | grep -E "^test result" | awk '{p+=$4; f+=$6} END{print p"/"f}')
[ $demo = rs ] && mv /tmp/confirm_$N.rs tests/seed_demo.rs
mut_demo=$(rundemo)
echo "$N: suite(pass/fail)=$suite demo_clean_rc=$clean_demo demo_mutant_rc=$mut_demo"
cd /; git -C /repo worktree remove --force $W; rm -rf $W

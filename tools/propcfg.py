"""Per-property configuration of ./check: which generator profiles feed it, which verdict lines
of the driver concern it, which Lean module holds its theorems, which source scans it needs."""

TRUSTED_BASE = [
    "Lean 4.33.0 kernel (theorems are checked by `lake build`; axioms allowed: propext, Classical.choice, Quot.sound; no sorry/admit/native_decide/own axioms — audited on every run)",
    "Lean compiler + runtime for *evaluating* the model, the specification oracles and the decidable invariants on the implementation's dumped tables (compiled driver, not the kernel)",
    "the tie: tools/gen_consts.py (constants translator), tools/srcscan.py, the Rust harness (/verif/harness) and the cfg(daachorse_verif) hooks in /repo, the line protocol and the driver's parser/comparison (Daac/Driver/*.lean), the shrinker in ./check",
    "modelled, not verified: rustc/LLVM code generation, Vec/BTreeMap/sort of std (modelled as arrays / label-sorted children / a sort by the given order), the real memory model (covered only by runs with std's unsafe-precondition checks armed)",
    "the English-to-Lean restatement of the property in lean/Daac/Spec.lean and lean/Daac/Props/*.lean",
]

STD_TIES = {'K-search': None, 'K-trans': None, 'K-build': None}

PROPS = {
    'C01': dict(module='Daac.Props.C01', prop_ids=['C01'], kinds=[0], methods=['ov'],
                profiles=[('std', 480, 8), ('utf8', 120, 4), ('nfb', 8, 8), ('vacant', 1024, 4)],
                suites={'K-search': ['ov'], 'K-trans': None, 'K-build': None}, invs=['TableInv', 'SizeInv', 'BoundsInv']),
    'C02': dict(module='Daac.Props.C02', prop_ids=['C02'], kinds=[0], methods=['find'],
                profiles=[('std', 480, 8), ('utf8', 120, 4), ('nfb', 8, 8), ('vacant', 1024, 4)],
                suites={'K-search': ['find'], 'K-trans': None, 'K-build': None}, invs=['TableInv', 'SizeInv', 'BoundsInv']),
    'C03': dict(module='Daac.Props.C03', prop_ids=['C03'], kinds=[1], methods=['lm'],
                profiles=[('lm', 640, 8), ('utf8', 120, 4), ('nfb', 8, 8), ('vacant', 1024, 4)],
                suites={'K-search': ['lm'], 'K-trans': None, 'K-build': None}, invs=['LeftmostInv', 'SizeInv', 'BoundsInv']),
    'C04': dict(module='Daac.Props.C04', prop_ids=['C04'], kinds=[2], methods=['lm'],
                profiles=[('lm', 640, 8), ('utf8', 120, 4), ('nfb', 8, 8), ('vacant', 1024, 4)],
                suites={'K-search': ['lm'], 'K-trans': None, 'K-build': None}, invs=['LeftmostInv', 'SizeInv', 'BoundsInv']),
    'C05': dict(module='Daac.Props.C05', prop_ids=['C05'], kinds=[0], methods=['ns'],
                profiles=[('std', 480, 8), ('utf8', 120, 4), ('nfb', 8, 8), ('vacant', 1024, 4)],
                suites={'K-search': ['ns'], 'K-trans': None, 'K-build': None}, invs=['TableInv', 'SizeInv', 'BoundsInv']),
    'C06': dict(module='Daac.Props.C06', prop_ids=['C06'], methods=['ov', 'find', 'ns', 'lm'],
                profiles=[('values', 480, 8), ('serial', 160, 4), ('std', 160, 4), ('vacant', 512, 2), ('nfb', 8, 8)],
                suites={'K-search': None, 'K-build': None, 'K-serial': None}, invs=['TableInv', 'LeftmostInv']),
    'C07': dict(module='Daac.Props.C07', prop_ids=['C07'], abort_is_violation=True,
                profiles=[('mixed', 400, 8), ('utf8', 160, 4), ('nfb', 8, 8), ('serial', 80, 2), ('wide', 32, 8)],
                suites={'K-trans': None, 'K-search': None}, invs=['BoundsInv'], scans=['unsafe'], tcap=12000),
    'C08': dict(module='Daac.Props.C08', prop_ids=['C08'], grouped=True, methods=['ov', 'find', 'ns', 'lm'],
                profiles=[('utf8', 640, 16), ('wide', 32, 8)],
                suites={'K-search': None, 'K-build': None}, invs=['TableInv', 'LeftmostInv'], variants=['C']),
    'C09': dict(module='Daac.Props.C09', prop_ids=['C09'],
                profiles=[('serial', 640, 12), ('values', 160, 4), ('synth', 4000, 4)],
                suites={'K-serial': None}, invs=[]),
    'C10': dict(module='Daac.Props.C10', prop_ids=['C10'], methods=['build'],
                profiles=[('invalid', 800, 8), ('mixed', 200, 4), ('nfb', 8, 8)],
                suites={'K-build': None}, invs=[]),
    'C11': dict(module='Daac.Props.C11', prop_ids=['C11'], grouped=True, methods=['ov', 'find', 'ns', 'lm', 'build'],
                profiles=[('nfb', 16, 16), ('vacant', 512, 2)],
                suites={'K-build': None}, invs=['TableInv', 'LeftmostInv', 'SizeInv', 'BoundsInv', 'CountInv'], thorough_scale=6),
    'C12': dict(module='Daac.Props.C12', prop_ids=['C12'], kinds=[0], methods=['ov', 'find', 'ns'], entry='iter',
                profiles=[('std', 480, 8), ('utf8', 240, 8)],
                suites={'K-search': ['ov', 'find', 'ns']}, invs=[]),
    'C13': dict(module='Daac.Props.C13', prop_ids=['C13'], hang_is_violation=True,
                profiles=[('mixed', 400, 8), ('std', 240, 4), ('nfb', 8, 8)],
                suites={'K-steps': None, 'K-trans': None}, invs=['TableInv', 'LeftmostInv', 'SizeInv', 'BoundsInv']),
    'C14': dict(module='Daac.Props.C14', prop_ids=['C14'],
                profiles=[('perm', 640, 12), ('mixed', 160, 4)],
                suites={'K-build': None}, invs=[], scans=['purity']),
    'C15': dict(module='Daac.Props.C15', prop_ids=['C15'],
                profiles=[('mixed', 400, 8), ('lm', 240, 4), ('nfb', 8, 8)],
                suites={'K-build': None, 'K-trans': None, 'K-stats': None}, invs=['CountInv']),
    'C16': dict(module='Daac.Props.C16', prop_ids=['C16'], custom='cli_check', profiles=[],
                suites={'K-cli': None}, invs=[]),
}

# what the theorems of each property state, what is left to the correspondence / runtime
_NOTES = {
 'C01': ('for every valid collection and num_free_blocks: model build ok => overlapping search of every haystack = specOverlapping = exactly the occurrences, no repeats, end-ascending then longest first (byte-wise: bytes; char-wise: valid UTF-8); plus the same from the evaluated invariants of the real tables',
         'totality of the post-insertion phases; model builder tied to the code by K-build (sampling)'),
 'C02': ('model build ok => find_iter on every haystack = specFind = the unique FindSpec sequence', 'as C01'),
 'C03': ('model build ok (leftmost-longest) => leftmost_find_iter on every haystack = specLL = the unique greedy tiling; (F),(G1),(G3) of the non-textbook automaton proved', 'as C01'),
 'C04': ('model build ok (leftmost-first, all patterns incl. shadowed) => results = specLF; specLF = specLL o retained; shadowed patterns never reported and irrelevant', 'as C01'),
 'C05': ('model build ok => no-suffix search on every haystack = specNoSuffix = longest occurrence per end position', 'as C01'),
 'C06': ('every element of every specification result is an occurrence carrying the registered value, for all value types', 'values after a round trip rest on C09 + K-serial'),
 'C07': ('model build ok => boundsInv => no out-of-range table access in any search on any haystack; UTF-8 decoder never faults on valid UTF-8; leftmost re-slicing always on a boundary', 'real memory behaviour of compiled code: only exercised with std UB checks armed'),
 'C08': ('byte-wise and char-wise model builds from the same UTF-8 patterns return identical matches on every valid UTF-8 haystack (all four standard/leftmost methods incl. leftmost-first)', 'as C01'),
 'C09': ('deserialize(serialize a ++ rest) = (a, rest) for every well-formed automaton value, lawful value types; kind byte and width tables generated from the source', 'K-serial ties the byte format to the code (built automata and synthetic images)'),
 'C10': ('both entry points, every kind/variant/num_free_blocks >= 1: model build never panics (build_total); within the size limits it succeeds iff the collection is valid (build_ok_iff) and, for `build`, every position converts (build_positions_ok_iff); invalid => documented error naming a present defect; InvalidConversion iff some position does not convert', 'outcome (Ok / error kind / panic) compared with the code on every generated collection (K-build); memory exhaustion and the u32/2^24 size limits are outside the statement'),
 'C11': ('for any two num_free_blocks values with successful model builds every search method returns identical results; num_states independent of it', 'as C01'),
 'C12': ('match end = bytes pulled, monotone single pass, exhaustion pulls |h|, for arbitrary tables', 'slice adapters are the same source in the model; compared on both entry points incl. an exact-size_hint source'),
 'C13': ('model build ok (standard) => at most 2 transitions per item, scans terminate; fail links strictly shorten; leftmost iterators return', 'real loop counter compared with the model on every scan; watchdog'),
 'C14': ('model build deterministic and permutation-invariant for kinds 0/1 (both variants); counter-example for kind 2', 'thread schedules not modelled: purity scan + 4-thread runs'),
 'C15': ('numStates = 1 + number of distinct non-empty prefixes of reportable patterns; every state reachable at distinct in-range indices; num_elements >= num_states', 'heap_bytes formula uses measured size_of constants'),
 'C16': ('printed iff an occurrence exists; text unchanged; highlighted bytes = bytes covered by an occurrence', 'clap, I/O, termcolor exercised via both binaries, not modelled'),
}
for _k in ('C01', 'C02', 'C03', 'C04', 'C05', 'C07', 'C11', 'C13', 'C15'):
    PROPS[_k]['extra_modules'] = ['Daac.Props.Alarms']   # evaluated invariants never false-alarm on model-built tables
# Translation tie (tools/rs2lean.py + Daac/Props/Tie.lean): which generated definitions each property
# is about (regexes over the names in lean/Daac/Gen/search_defs.json). A broken equality is
# attributed to a property only if one of these definitions changed.
_T_COMMON = [r'\.DA\.child_index_unchecked$', r'\.CodeMapper\.get$', r'\.CharWithEndOffsetIterator\.', r'\.struct\.CharWithEndOffsetIterator$',
             r'\.U8SliceIterator\.', r'\.StrIterator\.', r'\.struct\.(U8Slice|Str)Iterator$']
_T_STD = _T_COMMON + [r'\.DA\.next_state_id_unchecked$', r'\.MatchKind\.is_standard$']
_T_LM = _T_COMMON + [r'\.DA\.next_state_id_leftmost_unchecked$', r'\.MatchKind\.is_leftmost$',
                     r'\.LestmostFindIterator\.', r'\.struct\.LestmostFindIterator$', r'\.DA\.leftmost_find_iter$']
_T_OV = [r'\.FindOverlappingIterator\.', r'\.struct\.FindOverlappingIterator$', r'\.DA\.find_overlapping_iter(_from_iter)?$']
_T_FIND = [r'^[BC]\.FindIterator\.', r'\.struct\.FindIterator$', r'\.DA\.find_iter(_from_iter)?$']
_T_NS = [r'\.FindOverlappingNoSuffixIterator\.', r'\.struct\.FindOverlappingNoSuffixIterator$', r'\.DA\.find_overlapping_no_suffix_iter(_from_iter)?$']
_T_ALL = _T_STD + _T_LM + _T_OV + _T_FIND + _T_NS
_TIE = {'C01': _T_STD + _T_OV, 'C02': _T_STD + _T_FIND, 'C05': _T_STD + _T_NS, 'C03': _T_LM, 'C04': _T_LM,
        'C06': _T_ALL, 'C07': _T_ALL, 'C08': [r'^C\.'], 'C12': _T_STD + _T_OV + _T_FIND + _T_NS, 'C13': _T_ALL}
for _k, _v in _TIE.items():
    PROPS[_k]['tie_defs'] = _v
    PROPS[_k]['extra_modules'] = PROPS[_k].get('extra_modules', []) + ['Daac.Props.Tie']
    PROPS[_k]['trusted_extra'] = ['the Rust-to-Lean translator tools/rs2lean.py and its prelude lean/Daac/Gen/Prelude.lean (meaning of the std items; fuel for `loop`); the equalities generated = model are theorems (Daac/Props/Tie.lean)']
# construction side: the helper and the layout primitives of both builders (generated H.*, LB.*, LC.*)
for _k in ('C01', 'C02', 'C03', 'C04', 'C05', 'C07', 'C10', 'C11', 'C13', 'C14', 'C15'):
    PROPS[_k]['tie_defs'] = PROPS[_k].get('tie_defs', []) + [r'^(H|LB|LC)\.']
    PROPS[_k]['extra_modules'] = PROPS[_k].get('extra_modules', []) + ['Daac.Props.TieBuild']
    PROPS[_k].setdefault('trusted_extra', ['the Rust-to-Lean translator tools/rs2lean.py and its preludes lean/Daac/Gen/Prelude.lean, PreludeBuild.lean (meaning of the std items; fuel for loops); the equalities generated = model are theorems (Daac/Props/Tie.lean, TieBuild.lean)'])
# serialisation side: every Serializable impl and both entry points (generated S.*; tools/ser2lean.py)
PROPS['C09']['tie_defs'] = PROPS['C09'].get('tie_defs', []) + [r'^S\.']
PROPS['C09']['extra_modules'] = PROPS['C09'].get('extra_modules', []) + ['Daac.Props.TieSer']
PROPS['C09']['trusted_extra'] = ['the Rust-to-Lean translator for the serialisation code tools/ser2lean.py and its prelude lean/Daac/Gen/PreludeSer.lean (meaning of to_le_bytes / from_le_bytes / slicing / NonZeroU32::new; a value type is a `Ser V` record); the equalities generated = model are theorems (Daac/Proofs/TieS.lean, Daac/Props/TieSer.lean)']
# accessors of State / Output and the U24nU8 packing (generated A.*; tools/acc2lean.py): what the search-side and
# layout translation units read through the model's fields
for _k in sorted(set(_TIE) | {'C10', 'C11', 'C14', 'C15'}):
    PROPS[_k]['tie_defs'] = PROPS[_k].get('tie_defs', []) + [r'^A\.']
    PROPS[_k]['extra_modules'] = PROPS[_k].get('extra_modules', []) + ['Daac.Props.TieAcc']
# pattern insertion: NfaBuilder::{new, add, is_registered, child_id} (generated N.*; tools/nfa2lean.py), refinement to the model trie
# ... and the fail-link / output passes build_fails, build_fails_leftmost, build_outputs (Proofs/TieF*)
for _k in ('C01', 'C02', 'C03', 'C04', 'C05', 'C10', 'C13', 'C15'):
    PROPS[_k]['tie_defs'] = PROPS[_k].get('tie_defs', []) + [r'^N\.']
    PROPS[_k]['extra_modules'] = PROPS[_k].get('extra_modules', []) + ['Daac.Props.TieNfa']
# the byte-wise DFS layout loop build_double_array (generated DB.*; tools/dbl2lean.py), simulation to the model's layoutLoop
for _k in ('C01', 'C02', 'C03', 'C04', 'C05', 'C07', 'C10', 'C11', 'C13', 'C14', 'C15'):
    PROPS[_k]['tie_defs'] = PROPS[_k].get('tie_defs', []) + [r'^DB\.']
    PROPS[_k]['extra_modules'] = PROPS[_k].get('extra_modules', []) + ['Daac.Props.TieLayout', 'Daac.Props.TiePipeline']
# the char-wise DFS layout loop build_double_array (generated DC.*; tools/dbl2lean.py -> Gen/BuildC.lean), simulation to the
# model's layoutLoop .charwise + agreement of sort_by with the model's insertByCodeP (Proofs/TieDC.lean, TieDCFail.lean)
for _k in ('C01', 'C02', 'C03', 'C04', 'C05', 'C07', 'C10', 'C11', 'C13', 'C14', 'C15'):
    PROPS[_k]['tie_defs'] = PROPS[_k].get('tie_defs', []) + [r'^DC\.']
    PROPS[_k]['extra_modules'] = PROPS[_k].get('extra_modules', []) + ['Daac.Props.TieLayoutC']
# code-mapper construction: CodeMapper::new and the frequency-counting loop (generated M.*; tools/map2lean.py)
for _k in ('C08', 'C14'):
    PROPS[_k]['tie_defs'] = PROPS[_k].get('tie_defs', []) + [r'^M\.']
    PROPS[_k]['extra_modules'] = PROPS[_k].get('extra_modules', []) + ['Daac.Props.TieMapper']
# end-to-end compositions: char-wise pipeline (Props/TiePipelineC) and the translated byte-wise glue (generated TB.*; tools/top2lean.py)
for _k in ('C01', 'C02', 'C03', 'C04', 'C05', 'C07', 'C08', 'C10', 'C11', 'C13', 'C14', 'C15'):
    PROPS[_k]['tie_defs'] = PROPS[_k].get('tie_defs', []) + [r'^TB\.']
    PROPS[_k]['extra_modules'] = PROPS[_k].get('extra_modules', []) + ['Daac.Props.TiePipelineC', 'Daac.Props.TieTop']
# the translated char-wise glue build_original_nfa_and_mapper / build_with_values (generated TC.*; tools/top2lean.py, profile charwise)
for _k in ('C01', 'C02', 'C03', 'C04', 'C05', 'C07', 'C08', 'C10', 'C11', 'C13', 'C14', 'C15'):
    PROPS[_k]['tie_defs'] = PROPS[_k].get('tie_defs', []) + [r'^TC\.']
    PROPS[_k]['extra_modules'] = PROPS[_k].get('extra_modules', []) + ['Daac.Props.TieTopC']
# the `build` entry points (position conversion; generated T[BC].Builder.build, T[BC].enumTryCollect): C06 / C10
for _k in ('C06', 'C10'):
    PROPS[_k]['tie_defs'] = PROPS[_k].get('tie_defs', []) + [r'^T[BC]\.(Builder\.build$|enumTryCollect$)']
    PROPS[_k]['extra_modules'] = PROPS[_k].get('extra_modules', []) + ['Daac.Props.TieTopBuild']
for _k, (_s, _r) in _NOTES.items():
    PROPS[_k]['statement'] = _s
    PROPS[_k]['residue'] = _r
    PROPS[_k].setdefault('assumptions', ['haystack bytes are < 256 (byte-wise) / valid UTF-8 (char-wise)',
                                         'pattern collections within the documented size limits (u32 / 2^24-1 patterns)',
                                         'model = code is established by the correspondence suites on generated inputs, not by proof'])

"""(G3'): deltaL(u,c) = t := lsuf N (u+[c]); root if best(u) exists and start(t) > start(best(u)); else t.
Also checks the scan-level claim: until it emits, the leftmost scan's state is lsuf N (text so far)."""
import os, random
src = open(os.path.join(os.path.dirname(os.path.abspath(__file__)), 'leftmost_lemmas_bruteforce.py')).read()
exec(src.split("random.seed")[0])
def lsuf(h, N):
    for k in range(len(h) + 1):
        if h[k:] in N: return h[k:]
random.seed(11)
bad = n = scans = 0
for it in range(20000):
    A = random.choice([2, 2, 3])
    pats = []
    for _ in range(random.randint(1, 6)):
        p = tuple(random.randrange(A) for _ in range(random.randint(1, 6)))
        if p not in pats: pats.append(p)
    edges, out, fail, opos, q = build(pats, 'LL')
    P = set(out); N = set(edges)
    for u in N:
        b = best(u, P)
        for c in range(A + 1):
            t = lsuf(u + (c,), N)
            exp = () if (b is not None and len(u) + 1 - len(t) > b[0]) else t
            if deltaL(edges, fail, u, c) != exp:
                bad += 1
                if bad < 5: print("G3'", pats, u, c, deltaL(edges, fail, u, c), exp)
            n += 1
    # scan-level invariant
    h = tuple(random.randrange(A + 1) for _ in range(random.randint(0, 12)))
    st = (); cand = None
    for k, c in enumerate(h):
        st = deltaL(edges, fail, st, c)
        if st == ():
            if cand is not None: break
        elif opos[st] is not None:
            cand = (k + 1 - len(opos[st]), k + 1)
        if st != lsuf(h[:k + 1], N):
            bad += 1; print("scan", pats, h, k)
        scans += 1
print("transitions", n, "scan steps", scans, "bad", bad)

#!/usr/bin/env python3
"""Reference port of daachorse's construction pipeline (design-phase research, not framework).

Mirrors src/nfa_builder.rs, src/build_helper.rs, src/bytewise/builder.rs,
src/charwise/builder.rs, src/charwise/mapper.rs and the serializers, with trie nodes keyed
by their *path* instead of a u32 id (the representation the Lean model will use).
`python3 builder_port.py builds.txt` compares its serialised image with the bytes the real
crate produced (lines `B|C kind nfb hexpat:val,... heximage`).
"""
import sys, struct

ROOT = ()
DEAD = 'DEAD'
STD, LL, LF = 0, 1, 2


class DupError(Exception): pass
class ArgError(Exception): pass


# ----------------------------------------------------------------------------- nfa_builder.rs
class Nfa:
    def __init__(self, kind):
        self.kind = kind
        self.order = [ROOT]                  # creation order (== state ids, minus the dead state)
        self.edges = {ROOT: {}}              # path -> {label: child path}
        self.output = {}                     # path -> (value, bytelen)
        self.fail = {ROOT: ROOT}
        self.output_pos = {ROOT: 0, DEAD: 0}  # 0 == None
        self.outputs = []                    # (value, length, parent)
        self.len = 0

    def add(self, pattern, value, nbytes):
        plen = sum(nbytes(c) for c in pattern)
        if plen == 0:
            raise ArgError()
        u = ROOT
        for c in pattern:
            if self.kind == LF and u in self.output:
                return
            if c in self.edges[u]:
                u = self.edges[u][c]
            else:
                t = u + (c,)
                self.edges[u][c] = t
                self.edges[t] = {}
                self.fail[t] = ROOT
                self.order.append(t)
                u = t
        if u in self.output:
            raise DupError()
        self.output[u] = (value, plen)
        self.len += 1

    def build_fails(self):
        q = [self.edges[ROOT][c] for c in sorted(self.edges[ROOT])]
        qi = 0
        while qi < len(q):
            s = q[qi]; qi += 1
            for c in sorted(self.edges[s]):
                t = self.edges[s][c]
                f = self.fail[s]
                while True:
                    if c in self.edges[f]:
                        nf = self.edges[f][c]; break
                    nx = self.fail[f]
                    if f == ROOT and nx == ROOT:
                        nf = ROOT; break
                    f = nx
                self.fail[t] = nf
                q.append(t)
        return q

    def build_fails_leftmost(self):
        q = [self.edges[ROOT][c] for c in sorted(self.edges[ROOT])]
        qi = 0
        while qi < len(q):
            s = q[qi]; qi += 1
            if s in self.output:
                self.fail[s] = DEAD
            for c in sorted(self.edges[s]):
                t = self.edges[s][c]
                f = self.fail[s]
                if f == DEAD:
                    nf = DEAD
                else:
                    while True:
                        if c in self.edges[f]:
                            nf = self.edges[f][c]; break
                        nx = self.fail[f]
                        if nx == DEAD:
                            nf = DEAD; break
                        if f == ROOT and nx == ROOT:
                            nf = ROOT; break
                        f = nx
                self.fail[t] = nf
                q.append(t)
        return q

    def build_outputs(self, q):
        for s in q:
            if s in self.output:
                self.output_pos[s] = len(self.outputs) + 1
                parent = self.output_pos[self.fail[s]]
                v, l = self.output[s]
                self.outputs.append((v, l, parent))
            else:
                self.output_pos[s] = self.output_pos[self.fail[s]]


# ---------------------------------------------------------------------------- build_helper.rs
class Helper:
    def __init__(self, block_len, nfb):
        self.cap = block_len * nfb
        self.items = [[0, 0, False, False] for _ in range(self.cap)]  # next, prev, used_base, used_index
        self.block_len = block_len
        self.nfb = nfb
        self.num_blocks = 0
        self.head = None

    def num_elements(self): return self.num_blocks * self.block_len
    def active_block_range(self): return range(max(0, self.num_blocks - self.nfb), self.num_blocks)
    def active_index_range(self):
        r = self.active_block_range()
        return range(r.start * self.block_len, r.stop * self.block_len)
    def off(self, idx):
        assert idx in self.active_index_range(), "offset assert"
        return idx % self.cap
    def vacant_iter(self):
        idx = self.head
        while idx is not None:
            nxt = self.items[self.off(idx)][0]
            yield idx
            idx = nxt if nxt != self.head else None
    def unused_base_in_block(self, b):
        for base in range(b * self.block_len, (b + 1) * self.block_len):
            if not self.is_used_base(base): return base
        return None
    def is_used_base(self, b): return self.items[self.off(b)][2]
    def is_used_index(self, i): return self.items[self.off(i)][3]
    def use_base(self, b): self.items[self.off(b)][2] = True
    def use_index(self, idx):
        it = self.items[self.off(idx)]
        assert not it[3], "debug_assert use_index"
        it[3] = True
        nxt, prv = it[0], it[1]
        self.items[self.off(prv)][0] = nxt
        self.items[self.off(nxt)][1] = prv
        assert self.head is not None
        if self.head == idx:
            self.head = nxt if nxt != idx else None
    def dropped_block(self):
        return self.active_block_range().start if self.cap <= self.num_elements() else None
    def push_block(self):
        cb = self.dropped_block()
        if cb is not None:
            end = (cb + 1) * self.block_len
            while self.head is not None:
                if end <= self.head: break
                self.use_index(self.head)
        old = self.num_elements(); new = old + self.block_len
        self.num_blocks += 1
        for idx in range(old, new):
            self.items[self.off(idx)] = [idx + 1, (idx - 1) & 0xFFFFFFFF, False, False]
        if self.head is not None:
            tail = self.items[self.off(self.head)][1]
            self.items[self.off(old)][1] = tail
            self.items[self.off(tail)][0] = old
            self.items[self.off(new - 1)][0] = self.head
            self.items[self.off(self.head)][1] = new - 1
        else:
            self.items[self.off(old)][1] = new - 1
            self.items[self.off(new - 1)][0] = old
            self.head = old


# ------------------------------------------------------------------------ bytewise/builder.rs
def build_bytewise(patvals, kind, nfb):
    nfa = Nfa(kind)
    for p, v in patvals:
        nfa.add(tuple(p), v, lambda c: 1)
    if nfa.len == 0: raise ArgError()
    q = nfa.build_fails() if kind == STD else nfa.build_fails_leftmost()
    nfa.build_outputs(q)
    BL = 256
    states = [[0, 0, 0, 0] for _ in range(BL)]   # base(0=None), check, fail, opos
    h = Helper(BL, nfb); h.push_block(); h.use_index(0); h.use_index(1)
    idmap = {ROOT: 0}

    def remove_invalid_checks(b):
        ub = h.unused_base_in_block(b)
        if ub is not None:
            for c in range(256):
                idx = ub ^ c
                if idx == 0 or idx == 1 or not h.is_used_index(idx):
                    states[idx][1] = c

    stack = [ROOT]
    while stack:
        s = stack.pop()
        sidx = idmap[s]
        if not nfa.edges[s]: continue
        labels = sorted(nfa.edges[s])
        base = None
        for idx in h.vacant_iter():
            b = idx ^ labels[0]
            if h.is_used_base(b): continue
            if any(h.is_used_index(b ^ c) for c in labels): continue
            if b == 0: continue
            base = b; break
        if base is None: base = len(states)
        if base >= len(states):
            cb = h.dropped_block()
            if cb is not None: remove_invalid_checks(cb)
            h.push_block()
            states.extend([0, 0, 0, 0] for _ in range(BL))
        for c in labels:
            ci = base ^ c
            h.use_index(ci)
            states[ci][1] = c
            idmap[nfa.edges[s][c]] = ci
            stack.append(nfa.edges[s][c])
        states[sidx][0] = base
        h.use_base(base)
    for s in nfa.order:
        idx = idmap[s]
        states[idx][3] = nfa.output_pos[s]
        f = nfa.fail[s]
        states[idx][2] = 1 if f == DEAD else idmap[f]
    for b in h.active_block_range():
        remove_invalid_checks(b)
    img = struct.pack('<I', len(states))
    for b, ch, f, op in states:
        img += struct.pack('<III', b, f, (op << 8) | ch)
    img += struct.pack('<I', len(nfa.outputs))
    for v, l, par in nfa.outputs:
        img += struct.pack('<III', v, l, par)
    img += bytes([kind]) + struct.pack('<I', len(nfa.order))
    return img


# ------------------------------------------------------- charwise/builder.rs, charwise/mapper.rs
def npot(x):
    p = 1
    while p < x: p *= 2
    return p

def build_charwise(patvals, kind, nfb):
    nfa = Nfa(kind)
    freqs = {}
    maxc = -1
    for p, v in patvals:
        chars = tuple(ord(ch) for ch in p)
        nfa.add(chars, v, lambda c: len(chr(c).encode('utf-8')))
        for c in chars:
            freqs[c] = freqs.get(c, 0) + 1
            maxc = max(maxc, c)
    srt = sorted(freqs.items(), key=lambda cf: (-cf[1], cf[0]))
    table = [0xFFFFFFFF] * (maxc + 1)
    for i, (c, _) in enumerate(srt): table[c] = i
    asize = len(srt)
    if nfa.len == 0: raise ArgError()
    q = nfa.build_fails() if kind == STD else nfa.build_fails_leftmost()
    nfa.build_outputs(q)
    BL = max(npot(asize), 2)
    default = lambda: [0, 1, 1, 0]   # base None, check DEAD, fail DEAD, opos None
    states = [default() for _ in range(BL)]
    h = Helper(BL, nfb); h.push_block(); h.use_index(0); h.use_index(1)
    idmap = {ROOT: 0}
    stack = [ROOT]
    while stack:
        s = stack.pop()
        sidx = idmap[s]
        if not nfa.edges[s]: continue
        mapped = sorted((table[c], t) for c, t in nfa.edges[s].items())
        base = None
        for idx in h.vacant_iter():
            b = idx ^ mapped[0][0]
            if any(h.is_used_index(b ^ c) for c, _ in mapped): continue
            if b == 0: continue
            base = b; break
        if base is None: base = len(states) ^ mapped[0][0]
        if len(states) <= base:
            h.push_block()
            states.extend(default() for _ in range(BL))
        for c, t in mapped:
            ci = base ^ c
            h.use_index(ci)
            states[ci][1] = sidx
            idmap[t] = ci
            stack.append(t)
        states[sidx][0] = base
    for s in nfa.order:
        idx = idmap[s]
        states[idx][3] = nfa.output_pos[s]
        f = nfa.fail[s]
        states[idx][2] = 1 if f == DEAD else idmap[f]
    img = struct.pack('<I', len(states))
    for b, ch, f, op in states:
        img += struct.pack('<IIII', b, ch, f, op)
    img += struct.pack('<I', len(table)) + b''.join(struct.pack('<I', x) for x in table)
    img += struct.pack('<I', asize)
    img += struct.pack('<I', len(nfa.outputs))
    for v, l, par in nfa.outputs:
        img += struct.pack('<III', v, l, par)
    img += bytes([kind]) + struct.pack('<I', len(nfa.order))
    return img


if __name__ == '__main__':
    n = bad = multi = evict = 0
    for line in open(sys.argv[1]):
        tag, kind, nfb, pats, image = line.split()
        kind = int(kind); nfb = int(nfb)
        pv = []
        for e in pats.split(','):
            hx, v = e.split(':')
            pv.append((bytes.fromhex(hx), int(v)))
        if tag == 'B':
            got = build_bytewise(pv, kind, nfb)
            nblocks = struct.unpack('<I', got[:4])[0] // 256
        else:
            got = build_charwise([(p.decode('utf-8'), v) for p, v in pv], kind, nfb)
            nblocks = 0
        n += 1
        if nblocks > 1: multi += 1
        if nblocks > nfb: evict += 1
        if got.hex() != image:
            bad += 1
            print('MISMATCH', tag, kind, nfb, len(pv), file=sys.stderr)
    print(f'compared={n} mismatches={bad} bytewise_multiblock={multi} bytewise_with_evicted_blocks={evict}')

import random, itertools, sys
DEAD='DEAD'
def build(pats, kind):
    # path-keyed mirror of nfa_builder.rs ; returns nodes(set), out(dict path->idx), fail, opos(dict path-> pattern tuple or None) , retained
    out={}; nodes={():None}; order=[()]
    edges={():{}}
    for i,p in enumerate(pats):
        u=(); skip=False
        for c in p:
            if kind=='LF' and u in out: skip=True;break
            if c not in edges[u]:
                edges[u][c]=u+(c,); edges[u+(c,)]={}; order.append(u+(c,))
            u=u+(c,)
        if skip: continue
        assert u not in out
        out[u]=i
    fail={u:() for u in edges}
    q=[edges[()][c] for c in sorted(edges[()])]
    qi=0
    while qi<len(q):
        s=q[qi]; qi+=1
        if kind!='STD' and s in out: fail[s]=DEAD
        for c in sorted(edges[s]):
            t=edges[s][c]
            f=fail[s]
            if kind!='STD' and f==DEAD: nf=DEAD
            else:
                while True:
                    if c in edges[f]: nf=edges[f][c];break
                    nx=fail[f]
                    if kind!='STD' and nx==DEAD: nf=DEAD;break
                    if f==() and nx==(): nf=();break
                    f=nx
            fail[t]=nf; q.append(t)
    opos={():None, DEAD:None}
    for s in q:
        if s in out: opos[s]=s
        else: opos[s]=opos[fail[s]]
    return edges,out,fail,opos,q
def occ_in(u,P):
    r=[]
    for p in P:
        for s in range(0,len(u)-len(p)+1):
            if u[s:s+len(p)]==p: r.append((s,s+len(p)))
    return r
def best(u,P):
    o=occ_in(u,P)
    if not o: return None
    s=min(x[0] for x in o); e=max(x[1] for x in o if x[0]==s); return (s,e)
def lps(u,N):
    for k in range(1,len(u)+1):
        if u[k:] in N: return u[k:]
def deltaL(edges,fail,q,c):
    while True:
        if c in edges[q]: return edges[q][c]
        if q==(): return ()
        f=fail[q]
        if f==DEAD: return ()
        q=f
random.seed(int(sys.argv[1]) if len(sys.argv)>1 else 1)
badF=badG1=badG3=0; n=0
for it in range(30000):
    A=random.choice([2,2,3])
    pats=[]
    for _ in range(random.randint(1,6)):
        p=tuple(random.randrange(A) for _ in range(random.randint(1,6)))
        if p not in pats: pats.append(p)
    edges,out,fail,opos,q=build(pats,'LL')
    P=set(out.keys()); N=set(edges.keys())
    for u in N:
        if u==(): continue
        b=best(u,P); l=lps(u,N)
        # (F)
        expDead = b is not None and (b[0]==0 or (len(u)-len(l))>b[0])
        exp = DEAD if expDead else l
        if fail[u]!=exp: badF+=1; 
        if fail[u]!=exp and badF<5: print("F",pats,u,fail[u],exp,b)
        # (G1)
        expo = u[b[0]:] if (b is not None and b[1]==len(u)) else None
        if opos[u]!=expo: 
            badG1+=1
            if badG1<5: print("G1",pats,u,opos[u],expo)
        # (G3)
        for c in range(A+1):
            got=deltaL(edges,fail,u,c)
            if u+(c,) in N: exp3=u+(c,)
            else:
                exp3=()
                for k in range(0,len(u)+1):
                    w=u[k:]
                    if b is not None and k>b[0]: break
                    if w+(c,) in N: exp3=w+(c,);break
            if got!=exp3:
                badG3+=1
                if badG3<5: print("G3",pats,u,c,got,exp3,b)
        n+=1
print("nodes checked",n,"badF",badF,"badG1",badG1,"badG3",badG3)

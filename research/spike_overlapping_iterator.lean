
import Spike.Basic
namespace AC

structure Match (V : Type) where
  start : Nat
  stop : Nat
  value : V
deriving DecidableEq, Repr

structure Out (V : Type) where
  value : V
  length : Nat
  parent : Nat

structure Tab (V : Type) where
  next : Nat → Nat → Nat
  opos : Nat → Nat
  out  : Nat → Out V

structure OvIt (V : Type) where
  state : Nat
  pos : Nat
  opos : Nat
  consumed : Nat
  rest : List Nat

variable {V : Type}

def mkMatch (o : Out V) (e : Nat) : Match V := ⟨e - o.length, e, o.value⟩

def OvIt.scan (T : Tab V) (state consumed : Nat) : List Nat → Option (Match V × OvIt V)
  | [] => none
  | c :: rest =>
    if T.opos (T.next state c) ≠ 0 then
      some (mkMatch (T.out (T.opos (T.next state c))) (consumed + 1),
        ⟨T.next state c, consumed + 1, (T.out (T.opos (T.next state c))).parent, consumed + 1, rest⟩)
    else OvIt.scan T (T.next state c) (consumed + 1) rest

def OvIt.next (T : Tab V) (it : OvIt V) : Option (Match V × OvIt V) :=
  if it.opos ≠ 0 then
    some (mkMatch (T.out it.opos) it.pos, { it with opos := (T.out it.opos).parent })
  else OvIt.scan T it.state it.consumed it.rest

def OvIt.collect (T : Tab V) : Nat → OvIt V → List (Match V)
  | 0, _ => []
  | fuel + 1, it =>
    match it.next T with
    | none => []
    | some (m, it') => m :: OvIt.collect T fuel it'

def drain (T : Tab V) : Nat → Nat → Nat → List (Match V)
  | 0, _, _ => []
  | fuel + 1, op, e =>
    if op = 0 then [] else mkMatch (T.out op) e :: drain T fuel (T.out op).parent e

def runOv (T : Tab V) (cf : Nat) (state consumed : Nat) : List Nat → List (Match V)
  | [] => []
  | c :: rest =>
    drain T cf (T.opos (T.next state c)) (consumed + 1) ++
      runOv T cf (T.next state c) (consumed + 1) rest

theorem drain_length_le (T : Tab V) (f op e : Nat) : (drain T f op e).length ≤ f := by
  induction f generalizing op with
  | zero => simp [drain]
  | succ f ih =>
    unfold drain
    split
    · simp
    · simp only [List.length_cons]; have := ih (T.out op).parent; omega

/-- `Stable T k op e`: the chain from `op` ends within `k` steps. -/
def Stable (T : Tab V) (k op e : Nat) : Prop := ∀ f, k ≤ f → drain T f op e = drain T k op e

theorem stable_step {T : Tab V} {k op e : Nat} (hop : op ≠ 0) (h : Stable T (k+1) op e) :
    Stable T k (T.out op).parent e := by
  intro f hf
  have a := h (f + 1) (by omega)
  simp only [drain, hop, if_false] at a
  exact (List.cons.inj a).2

theorem collect_pending (T : Tab V) (k : Nat) :
    ∀ (fuel : Nat) (it : OvIt V), Stable T k it.opos it.pos →
      (drain T k it.opos it.pos).length ≤ fuel →
      OvIt.collect T fuel it =
        drain T k it.opos it.pos ++
          OvIt.collect T (fuel - (drain T k it.opos it.pos).length) { it with opos := 0 } := by
  induction k with
  | zero =>
    intro fuel it hst _
    have h1 := hst 1 (by omega)
    by_cases hop : it.opos = 0
    · have : ({ it with opos := 0 } : OvIt V) = it := by cases it; simp_all
      simp [drain, this]
    · simp [drain, hop] at h1
  | succ k ih =>
    intro fuel it hst hf
    by_cases hop : it.opos = 0
    · have : ({ it with opos := 0 } : OvIt V) = it := by cases it; simp_all
      simp [drain, hop, this]
    · simp only [drain, hop, if_false, List.length_cons] at hf ⊢
      obtain ⟨fuel', rfl⟩ : ∃ f', fuel = f' + 1 := ⟨fuel - 1, by omega⟩
      have hstep : it.next T = some (mkMatch (T.out it.opos) it.pos,
          { it with opos := (T.out it.opos).parent }) := by
        simp [OvIt.next, hop]
      simp only [OvIt.collect, hstep, List.cons_append, List.cons.injEq, true_and]
      have := ih fuel' { it with opos := (T.out it.opos).parent } (stable_step hop hst) (by simpa using by omega)
      simpa [Nat.add_sub_add_right] using this

/-- scanning from a state with nothing pending -/
theorem collect_scan (T : Tab V) (cf : Nat) (hcf : ∀ op e, Stable T cf op e) :
    ∀ (rest : List Nat) (fuel state pos consumed : Nat),
      (runOv T cf state consumed rest).length + rest.length + 1 ≤ fuel →
      OvIt.collect T fuel ⟨state, pos, 0, consumed, rest⟩ = runOv T cf state consumed rest := by
  intro rest
  induction rest with
  | nil =>
    intro fuel state pos consumed hf
    obtain ⟨f', rfl⟩ : ∃ f', fuel = f' + 1 := ⟨fuel - 1, by simp at hf; omega⟩
    simp [OvIt.collect, OvIt.next, OvIt.scan, runOv]
  | cons c rest ih =>
    intro fuel state pos consumed hf
    obtain ⟨f', rfl⟩ : ∃ f', fuel = f' + 1 := ⟨fuel - 1, by omega⟩
    simp only [runOv, List.length_append, List.length_cons] at hf
    by_cases hop : T.opos (T.next state c) = 0
    · -- no output here: the scan continues inside the same `next` call
      have e1 : OvIt.next T ⟨state, pos, 0, consumed, c :: rest⟩ =
          OvIt.next T ⟨T.next state c, pos, 0, consumed + 1, rest⟩ := by
        simp [OvIt.next, OvIt.scan, hop]
      have hd : drain T cf 0 (consumed + 1) = [] := by cases cf <;> simp [drain]
      have := ih (f' + 1) (T.next state c) pos (consumed + 1) (by rw [hop, hd] at hf; simp at hf; omega)
      simp only [runOv, hop, hd, List.nil_append]
      rw [← this]
      simp only [OvIt.collect, e1]
    · have hstep : OvIt.next T ⟨state, pos, 0, consumed, c :: rest⟩ =
          some (mkMatch (T.out (T.opos (T.next state c))) (consumed + 1),
            ⟨T.next state c, consumed + 1, (T.out (T.opos (T.next state c))).parent, consumed + 1, rest⟩) := by
        simp [OvIt.next, OvIt.scan, hop]
      obtain ⟨cf', rfl⟩ : ∃ c', cf = c' + 1 := by
        cases cf with
        | zero => have := hcf (T.opos (T.next state c)) 0 1 (by omega); simp [drain, hop] at this
        | succ n => exact ⟨n, rfl⟩
      have hdr : drain T (cf' + 1) (T.opos (T.next state c)) (consumed + 1) =
          mkMatch (T.out (T.opos (T.next state c))) (consumed + 1) ::
            drain T cf' (T.out (T.opos (T.next state c))).parent (consumed + 1) := by
        simp [drain, hop]
      rw [hdr] at hf
      simp only [List.length_cons] at hf
      simp only [OvIt.collect, hstep, runOv, hdr, List.cons_append, List.cons.injEq, true_and]
      have hst := stable_step hop (hcf (T.opos (T.next state c)) (consumed + 1))
      have hp := collect_pending T cf' f'
        ⟨T.next state c, consumed + 1, (T.out (T.opos (T.next state c))).parent, consumed + 1, rest⟩ hst
        (by simp only; omega)
      rw [hp]
      congr 1
      simp only
      apply ih
      omega
#print axioms collect_scan
end AC

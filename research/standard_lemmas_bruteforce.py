import random,sys
sys.argv=[sys.argv[0]]
exec(open(__import__('os').path.join(__import__('os').path.dirname(__import__('os').path.abspath(__file__)),'leftmost_lemmas_bruteforce.py')).read().split("random.seed")[0])
random.seed(7)
bad=0;n=0
def lsuf(h,N):
    for k in range(0,len(h)+1):
        if h[k:] in N: return h[k:]
for it in range(20000):
    A=random.choice([2,3])
    pats=[]
    for _ in range(random.randint(1,6)):
        p=tuple(random.randrange(A) for _ in range(random.randint(1,5)))
        if p not in pats: pats.append(p)
    edges,out,fail,opos,q=build(pats,'STD')
    N=set(edges)
    for u in N:
        if u==():continue
        if fail[u]!=lps(u,N): bad+=1
        # chain
        ch=[];x=u
        # output chain: own then via fail's opos
        cur=opos[u]
        while cur is not None:
            ch.append(cur); cur=opos[fail[cur]] if fail[cur]!=() else None
        exp=[u[k:] for k in range(len(u)) if u[k:] in out]
        if ch!=exp: bad+=1; print("chain",pats,u,ch,exp)
        n+=1
    # LF retained == filter
    edges,out,fail,opos,q=build(pats,'LF')
    R={p for i,p in enumerate(pats) if not any(len(pats[j])<len(p) and p[:len(pats[j])]==pats[j] for j in range(i))}
    if set(out)!=R: bad+=1; print("R",pats)
    if set(edges)!={p[:k] for p in R for k in range(len(p)+1)}: bad+=1; print("N",pats)
print("checked",n,"bad",bad)

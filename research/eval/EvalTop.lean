import Daac.Gen.BuildTopB
import Daac.Proofs.TieP
open Daac Daac.Gen

def errKind : BuildErr → String
  | .invalidArgument => "invalidArgument" | .duplicatePattern => "duplicatePattern"
  | .invalidConversion => "invalidConversion" | .automatonScale => "automatonScale" | .panic _ => "panic"

def toL (pv : List (List Nat × Nat)) : List (LPat Nat) := pv.map fun p => ⟨p.1, p.1.length, p.2⟩
def stEq (a b : Array St) : Bool := a.size == b.size && (List.range a.size).all fun i =>
  let x := a[i]!; let y := b[i]!; x.base == y.base && x.check == y.check && x.fail == y.fail && x.opos == y.opos

def s (x : String) : List Nat := x.toUTF8.toList.map (·.toNat)
def cases : List (List (List Nat × Nat)) := [
  [], [([], 0)], [(s "a", 0), ([], 1)], [(s "ab", 0), (s "ab", 1)], [(s "a", 0)],
  [(s "bcd", 0), (s "ab", 1), (s "a", 2), (s "e", 1)],
  [(s "ab", 0), (s "abcd", 1), (s "abc", 2)],            -- leftmost-first shadowing
  [(s "ab", 0), (s "abcd", 1), (s "abcd", 2)],           -- shadowed duplicate
  [(s "abcd", 0), (s "ab", 1), (s "bc", 2), (s "c", 3), (s "bcde", 4)],
  [(s "he", 0), (s "she", 1), (s "his", 2), (s "hers", 3)],
  [(s "\xff\x00x", 5), (s "\xff", 6), (s "x\xff", 7)],
  [(s "aaaa", 0), (s "aa", 1), (s "a", 2), (s "aaa", 3)],
  [(s "abc", 0), (s "b", 1), (s "bca", 2), (s "cab", 3), (s "abcabc", 4), (s "a", 5), (s "a", 6)]]

def main : IO Unit := do
  let mut bad := 0
  let mut n := 0
  for pv in cases do
    for kind in [0, 1, 2] do
      for nfb in [1, 16] do
        n := n + 1
        let r := TB.Builder.build_with_values (⟨#[], kind, nfb⟩ : LB.Builder) pv
        let m := buildDA .bytewise ⟨kind, nfb⟩ (toL pv)
        let ok := match r, m with
          | .error e, .error e' => errKind e == errKind e'
          | .ok a, .ok d => stEq a.states d.states && a.num_states == d.numStates && a.match_kind == d.kind && a.outputs.size == d.outputs.size
          | _, _ => false
        let desc := match r with | .error e => "err " ++ errKind e | .ok a => s!"ok states={a.states.size} num_states={a.num_states}"
        unless ok do
          bad := bad + 1
          IO.println s!"MISMATCH pv#{pv.length} kind={kind} nfb={nfb}: {desc}"
        if nfb == 1 && kind == 2 then IO.println s!"  [{pv.length} patterns, kind 2] {desc}"
  IO.println s!"evaluated {n} combinations, {bad} mismatches"

import Daac.Proofs.TieN
import Daac.Model.Nfa
open Daac Daac.Gen Daac.Gen.N Daac.Tie.N

instance : Inhabited (NfaBuilderState Nat) := ⟨NfaBuilderState.default⟩

def mkPats (ps : List (List Nat)) : List (LPat Nat) :=
  (List.range ps.length).zip ps |>.map (fun (i, k) => ⟨k, k.length, i⟩)

partial def collect (st : Array (NfaBuilderState Nat)) (id : Nat) (pre : List Nat) : List (Nat × List Nat) :=
  match st[id]? with
  | none => []
  | some s => (id, pre) :: s.edges.flatMap (fun (c, cid) => collect st cid (pre ++ [c]))

def check (ps : List (List Nat)) (kind : Nat) : String :=
  let pats := mkPats ps
  match addAllGen (fun _ => 1) (NfaBuilder.new kind) pats, NfaAcc.init.addAll (kind == 2) pats with
  | .ok g, .ok a =>
    let lm := kind != 0
    let r := if lm then g.build_fails_leftmost else g.build_fails
    match r with
    | .error _ => "ERR fails"
    | .ok (q, g1) =>
      match g1.build_outputs q with
      | .error _ => "ERR outputs"
      | .ok (_, g2) =>
        let nfa := buildNfa a.trie lm
        let m := collect g2.states 0 []
        let idOf := fun (u : List Nat) => (m.find? (·.2 == u)).map (·.1)
        let okq := q.toList.map (fun i => (m.find? (·.1 == i)).map (·.2)) == a.trie.queue.map some
        let okf := m.all fun (i, u) => g2.states[i]!.fail == (match nfa.fail.get u with | .dead => Gen.deadStateId | .node w => (idOf w).getD 999999)
        let oko := m.all fun (i, u) => g2.states[i]!.output_pos == (let p := nfa.out.opos.getD u 0; if p == 0 then none else some p)
        let okouts := g2.outputs.toList.map (fun o => (o.value, o.length, o.parent.getD 0)) == nfa.out.outs.toList.map (fun o => (o.value, o.length, o.parent))
        let oke := m.all fun (i, _) => g2.states[i]!.edges == g.states[i]!.edges && g2.states[i]!.output == g.states[i]!.output
        s!"nodes={m.length} q={okq} fail={okf} opos={oko} outs={okouts} frame={oke} nouts={g2.outputs.size}"
  | .error _, .error _ => "both-err"
  | _, _ => "MISMATCH add"


def tests : List (List (List Nat)) := [
  [[1]], [[1,2,3]], [[1,2],[2,3],[3]], [[1,1,1],[1,1],[1]], [[1,2,3,4],[2,3],[3,4,5],[4]],
  [[5,4,3],[4,3],[3],[5,4,3,2,1]], [[1,2,1,2],[2,1,2],[1,2]], [[7],[8],[9],[7,8],[8,9],[9,7]],
  [[1,2,3],[1,2,4],[2,4],[4,1,2]], [[0,0,0,0],[0,0,1],[0,1]], [[3,1,4,1,5],[1,4,1],[4,1,5,9],[1,5],[5,9,2]],
  [[2,2],[2,2,2,2],[2,2,2]], [[10,20,30],[20,30,40],[30,40,50],[40,50],[50]] ]

#eval do
  for ps in tests do
    for kind in [0, 1, 2] do
      IO.println s!"{ps} kind={kind}: {check ps kind}"

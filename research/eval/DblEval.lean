import Daac.Gen.BuildB
import Daac.Model.Build
open Daac Daac.Gen Daac.Gen.N

/-- The model NFA as an `NfaBuilder`: ids in `t.paths []` order (root 0, dead 1, then 2, 3, ..). -/
def toGenNfa (nfa : Nfa Nat) (kind : Nat) : NfaBuilder Nat := Id.run do
  let t := nfa.trie
  let ps := t.paths []
  let mut ids : Std.HashMap (List Nat) Nat := {}
  let mut k := 0
  for u in ps do
    ids := ids.insert u (if k = 0 then 0 else k + 1)
    k := k + 1
  let mkSt (u : List Nat) : NfaBuilderState Nat :=
    let n := (t.walk u).getD Trie.empty
    let op := nfa.out.opos.getD u 0
    { edges := n.kids.labelList.map (fun c => (c, ids.getD (u ++ [c]) 1)),
      fail := match nfa.fail.get u with
        | .dead => 1
        | .node w => ids.getD w 1,
      output := n.out,
      output_pos := if op = 0 then none else some op }
  let mut sts : Array (NfaBuilderState Nat) := #[]
  let mut j := 0
  for u in ps do
    sts := sts.push (mkSt u)
    if j = 0 then sts := sts.push NfaBuilderState.default
    j := j + 1
  return { states := sts, outputs := #[], len := 0, match_kind := kind, shadowed := [] }

def normE {α} (x : Except BuildErr α) : Except BuildErr α :=
  match x with
  | .error (.panic _) => .error (.panic "")
  | y => y

def check (pats : List (List Nat)) (kind nfb : Nat) : Bool × Nat × Bool :=
  let P : List (LPat Nat) := (pats.zipIdx).map (fun (p, i) => ⟨p, p.length, i⟩)
  match NfaAcc.init.addAll (kind == 2) P with
  | .error _ => (false, 0, false)
  | .ok acc =>
    let nfa := buildNfa acc.trie (kind != 0)
    let g := toGenNfa nfa kind
    let b : LB.Builder := ⟨#[], kind, nfb⟩
    let r1 := normE ((DB.Builder.build_double_array b g).map (·.2.states))
    let r2 := normE (buildLayout .bytewise ⟨kind, nfb⟩ ⟨#[], 0⟩ acc.trie nfa)
    match r1, r2 with
    | .ok a, .ok c => (a == c, a.size, true)
    | .error e1, .error e2 => (e1 == e2, 0, false)
    | _, _ => (false, 1, false)

def s (x : String) : List Nat := x.toUTF8.toList.map (·.toNat)

def cases : List (List (List Nat)) := [
  [s "a"], [s "abc", s "bcd", s "ab", s "b"], [s "he", s "she", s "his", s "hers"],
  [s "a", s "aa", s "aaa", s "aaaa"], [s "ab", s "abcd", s "bc", s "cd", s "d"],
  [[0], [255], [0,255], [255,0], [1,2,3]], [s "xyz", s "xy", s "x", s "yz", s "z"],
  [s "abcdefghijklmnopqrstuvwxyz"], (List.range 256).map (fun c => [c]),
  (List.range 200).map (fun c => [c, 255 - c, c]), [s "aaa", s "aab", s "aba", s "abb", s "baa", s "bab", s "bba", s "bbb"],
  [s "foo", s "foobar", s "bar", s "barfoo", s "oba"],
  (List.range 3).flatMap (fun a => (List.range 120).map (fun b => [a, b])),
  (List.range 5).flatMap (fun a => (List.range 250).map (fun b => [a * 50, b, (a + b) % 256])) ]

def main : IO Unit := do
  let mut bad := 0
  let mut n := 0
  for c in cases do
    for kind in [0, 1, 2] do
      for nfb in [1, 2, 16] do
        let (okk, sz, isok) := check c kind nfb
        n := n + 1
        if !okk then
          bad := bad + 1
          IO.println s!"MISMATCH pats={c.length} kind={kind} nfb={nfb} sz={sz}"
        else if kind == 0 then IO.println s!"ok pats={c.length} nfb={nfb} states={sz} built={isok}"
  IO.println s!"{n} runs, {bad} mismatches"

#eval main

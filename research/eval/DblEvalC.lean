import Daac.Gen.BuildC
import Daac.Model.Build
open Daac Daac.Gen Daac.Gen.N

/-- The model NFA as an `NfaBuilder`: ids in `t.paths []` order (root 0, dead 1, then 2, 3, ..). -/
def toGenNfa (nfa : Nfa Nat) (kind : Nat) : NfaBuilder Nat := Id.run do
  let t := nfa.trie
  let ps := t.paths []
  let mut ids : Std.HashMap (List Nat) Nat := {}
  let mut k := 0
  for u in ps do
    ids := ids.insert u (if k = 0 then 0 else k + 1)
    k := k + 1
  let mkSt (u : List Nat) : NfaBuilderState Nat :=
    let n := (t.walk u).getD Trie.empty
    let op := nfa.out.opos.getD u 0
    { edges := n.kids.labelList.map (fun c => (c, ids.getD (u ++ [c]) 1)),
      fail := match nfa.fail.get u with
        | .dead => 1
        | .node w => ids.getD w 1,
      output := n.out,
      output_pos := if op = 0 then none else some op }
  let mut sts : Array (NfaBuilderState Nat) := #[]
  let mut j := 0
  for u in ps do
    sts := sts.push (mkSt u)
    if j = 0 then sts := sts.push NfaBuilderState.default
    j := j + 1
  return { states := sts, outputs := #[], len := 0, match_kind := kind, shadowed := [] }

def normE {α} (x : Except BuildErr α) : Except BuildErr α :=
  match x with
  | .error (.panic _) => .error (.panic "")
  | y => y

/-- (equal, table size, both `.ok`, block length, number of NFA states) -/
def check (pats : List (List Nat)) (kind nfb : Nat) : Bool × Nat × Bool × Nat × Nat :=
  let P : List (LPat Nat) := (pats.zipIdx).map (fun (p, i) => ⟨p, p.length, i⟩)
  match NfaAcc.init.addAll (kind == 2) P with
  | .error _ => (false, 0, false, 0, 0)
  | .ok acc =>
    let nfa := buildNfa acc.trie (kind != 0)
    let g := toGenNfa nfa kind
    let m := Mapper.build P
    let bl := max 2 (Nat.nextPowerOfTwo m.alphaSize)
    let b : LC.Builder := ⟨#[], m, kind, 0, nfb⟩
    let r1 := normE ((DC.Builder.build_double_array b g).map (·.2.states))
    let r2 := normE (buildLayout .charwise ⟨kind, nfb⟩ m acc.trie nfa)
    match r1, r2 with
    | .ok a, .ok c => (a == c, a.size, true, bl, g.states.size)
    | .error e1, .error e2 => (e1 == e2, 0, false, bl, g.states.size)
    | .ok a, .error _ => (false, a.size, false, bl, g.states.size)
    | .error _, .ok c => (false, c.size, false, bl, g.states.size)

def s (x : String) : List Nat := x.toList.map (·.toNat)

/-- all strings of length `n` over the alphabet `al` -/
def allStr (al : List Nat) : Nat → List (List Nat)
  | 0 => [[]]
  | n + 1 => (allStr al n).flatMap (fun w => al.map (fun c => c :: w))

def cases : List (String × List (List Nat)) := [
  ("single-ascii", [s "a"]),
  ("single-emoji", [[0x1F600]]),
  ("hiragana", [[0x3042, 0x3044], [0x3044, 0x3046], [0x3042, 0x3044, 0x3046, 0x3048], [0x3046], [0x3048, 0x304A, 0x3042]]),
  ("emoji", [[0x1F600, 0x1F601], [0x1F601, 0x1F602, 0x1F603], [0x1F600], [0x1F603, 0x1F600, 0x1F601], [0x1F64F, 0x1F600]]),
  ("classic-ascii", [s "he", s "she", s "his", s "hers"]),
  ("nested", [s "a", s "aa", s "aaa", s "aaaa", s "ab", s "abcd", s "bc", s "bcd", s "cd", s "d"]),
  ("nested-cjk", [s "全世界", s "世界", s "界", s "世界中に", s "全世", s "中に", s "に"]),
  ("mixed-ascii-cjk", [s "abc東京", s "東京都", s "京都", s "bc東", s "c", s "東京abc", s "都a", s "xyz", s "京"]),
  ("single-chars-40", (List.range 40).map (fun c => [0x3042 + c])),
  ("single-chars-300 (>256 distinct)", (List.range 300).map (fun c => [0x4E00 + c])),
  ("600-distinct, 2-char pats", (List.range 300).map (fun c => [0x4E00 + c, 0x5E00 + (c * 7) % 300])),
  ("260-distinct, overlapping 3-char", (List.range 260).map (fun c => [0x100 + c, 0x100 + (c + 1) % 260, 0x100 + (c + 2) % 260])),
  ("multi-block: {a,b,c,d}^4", allStr [97, 98, 99, 100] 4),
  ("multi-block: 3 hiragana ^5 + suffixes", allStr [0x3042, 0x3044, 0x3046] 5 ++ allStr [0x3042, 0x3044, 0x3046] 2),
  ("multi-block: 6 mixed ^3 + prefixes", allStr [0x61, 0x62, 0x3042, 0x4E00, 0x1F600, 0x7A] 3 ++ allStr [0x61, 0x62, 0x3042, 0x4E00, 0x1F600, 0x7A] 1),
  ("wide fan-out two levels", (List.range 5).flatMap (fun a => (List.range 120).map (fun b => [0x3000 + a, 0x4000 + b, 0x3000 + (a + b) % 5]))),
  ("foo/bar", [s "foo", s "foobar", s "bar", s "barfoo", s "oba", s "o", s "rf"]),
  ("code point 0 and max", [[0], [0x10FFFF], [0, 0x10FFFF], [0x10FFFF, 0], [1, 2, 3]]) ]

def main : IO Unit := do
  let mut bad := 0
  let mut n := 0
  let mut nok := 0
  for (name, c) in cases do
    for kind in [0, 1, 2] do
      for nfb in [1, 2, 16] do
        let (okk, sz, isok, bl, ns) := check c kind nfb
        n := n + 1
        if isok then nok := nok + 1
        if !okk then
          bad := bad + 1
          IO.println s!"MISMATCH [{name}] pats={c.length} kind={kind} nfb={nfb} sz={sz} built={isok}"
        else IO.println s!"ok [{name}] pats={c.length} kind={kind} nfb={nfb} nfaStates={ns} blockLen={bl} states={sz} blocks={sz / bl} built={isok}"
  IO.println s!"{n} runs, {bad} mismatches, {nok} with both sides .ok"

#eval main

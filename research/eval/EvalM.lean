import Daac.Gen.MapperNew
import Daac.Model.Build
open Daac Daac.Gen Daac.Gen.M

def pipeline (P : List (LPat Nat)) : Except BuildErr CodeMapper :=
  match P.foldl (fun (acc : Except BuildErr (Array Nat)) p =>
      match acc with | .error e => .error e | .ok fr => count_chars fr p.key) (.ok #[]) with
  | .error e => .error e
  | .ok fr => CodeMapper.new fr

def mk (ks : List (List Nat)) : List (LPat Nat) := ks.zipIdx.map (fun (k, i) => ⟨k, k.length, i⟩)

def check (ks : List (List Nat)) : Bool :=
  let P := mk ks
  match pipeline P with
  | .ok m => m.table == (Mapper.build P).table && m.alphabet_size == (Mapper.build P).alphaSize
  | .error _ => false

def tests : List (List (List Nat)) := [
  [],
  [[]],
  [[97]],
  [[97, 98, 99]],
  [[97, 98], [98, 99], [99, 97]],                 -- all ties
  [[5,5,5,3,3,1],[1,3,5]],
  [[0x10FFFF]],
  [[0x10FFFF, 0, 0x10FFFF], [0x1F600, 0]],
  [[0,0,0]],
  [[3,1,4,1,5,9,2,6,5,3,5],[8,9,7,9,3,2,3,8,4,6]],
  [(List.range 300)],                               -- 300 distinct chars, all ties
  [(List.range 300), (List.range 150).map (· * 2), [299, 299, 7]],
  [[0x3042, 0x3044], [0x3044, 0x3046], [0x3046], [0x4e16, 0x754c, 0x3044]],
  [[2,2],[1,1],[0,0],[3]],
  [[], [1], []]
]

#eval tests.map check
#eval tests.all check
#eval (pipeline (mk [[3,1,4,1,5]])).toOption.map (fun m => (m.table, m.alphabet_size))
#eval ((Mapper.build (mk [[3,1,4,1,5]])).table, (Mapper.build (mk [[3,1,4,1,5]])).alphaSize)
-- test from the Rust unit test: freqs = [3,6,0,2,3,0,3] → codes 1,0,-,4,2,-,3
#eval (CodeMapper.new #[3,6,0,2,3,0,3]).toOption.map (fun m => (m.table, m.alphabet_size))

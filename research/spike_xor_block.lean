theorem xor_block (b c k : Nat) (hc : c < 256) (hb : b < 256 * k) : b ^^^ c < 256 * k := by
  have h1 : (b ^^^ c) / 256 = b / 256 := by
    have : (b ^^^ c) >>> 8 = (b >>> 8) ^^^ (c >>> 8) := Nat.shiftRight_xor_distrib
    simp only [Nat.shiftRight_eq_div_pow] at this
    have hc0 : c / 2 ^ 8 = 0 := by omega
    rw [hc0, Nat.xor_zero] at this
    simpa using this
  omega

/-- generic power-of-two block -/
theorem xor_block_pow (b c k n : Nat) (hc : c < 2 ^ n) (hb : b < 2 ^ n * k) : b ^^^ c < 2 ^ n * k := by
  have h1 : (b ^^^ c) / 2 ^ n = b / 2 ^ n := by
    have : (b ^^^ c) >>> n = (b >>> n) ^^^ (c >>> n) := Nat.shiftRight_xor_distrib
    simp only [Nat.shiftRight_eq_div_pow] at this
    have hc0 : c / 2 ^ n = 0 := Nat.div_eq_of_lt hc
    rw [hc0, Nat.xor_zero] at this
    exact this
  have hpos : 0 < 2 ^ n := Nat.two_pow_pos n
  have : b / 2 ^ n < k := by
    apply Nat.div_lt_of_lt_mul; exact hb
  have h2 : (b ^^^ c) / 2 ^ n < k := by omega
  exact (Nat.div_lt_iff_lt_mul hpos).1 h2 |> fun x => by rw [Nat.mul_comm]; exact x

theorem xor_cancel (a b : Nat) : (a ^^^ b) ^^^ b = a := by
  rw [Nat.xor_assoc, Nat.xor_self, Nat.xor_zero]
#print axioms xor_block_pow

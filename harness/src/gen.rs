//! Case generators.  Patterns and haystacks are built as sequences of *symbols* (a byte for
//! byte alphabets, a code point for char pools) and encoded at the end, so near-misses, splices
//! and permutations work on whole symbols and the UTF-8 of char-wise cases is always valid.

use crate::{Case, Rng};

pub const VTYPES: [&str; 14] = [
    "u8", "u16", "u32", "u64", "u128", "usize", "i8", "i16", "i32", "i64", "i128", "isize", "empty", "w3",
];
pub const PROFILES: [&str; 13] =
    ["std", "lm", "values", "utf8", "serial", "invalid", "nfb", "perm", "mixed", "vacant", "exh", "big", "wide"];
const NFBS: [u32; 7] = [1, 2, 3, 4, 16, 64, 256];

type Sym = u32;
type Word = Vec<Sym>;

/// Char pool mixing 1-, 2-, 3- and 4-byte code points.
const UPOOL: [Sym; 13] =
    [0x61, 0x62, 0x63, 0x7F, 0x80, 0xE9, 0x7FF, 0x800, 0x3042, 0xFFFF, 0x1_0000, 0x1_F600, 0x10_FFFF];

fn enc(w: &[Sym], utf8: bool) -> Vec<u8> {
    if utf8 {
        w.iter().map(|&c| char::from_u32(c).expect("scalar value")).collect::<String>().into_bytes()
    } else {
        w.iter().map(|&c| c as u8).collect()
    }
}

fn word(r: &mut Rng, a: &[Sym], lo: usize, hi: usize) -> Word {
    (0..r.range(lo, hi)).map(|_| r.pick(a)).collect()
}

fn dedup(set: Vec<Word>) -> Vec<Word> {
    let mut seen = std::collections::BTreeSet::new();
    set.into_iter().filter(|w| !w.is_empty() && seen.insert(w.clone())).collect()
}

// ----- alphabets -------------------------------------------------------------------------------

/// Highest code point allowed in a char pool.  The char-wise mapper table (and so the `SZ`
/// image) is as long as the largest pattern code point, so the 4-byte tier is kept rare:
/// `tiers` = percentages for ceilings U+07FF / U+31FF / U+FFFF, the rest is U+10FFFF.
fn ceiling(r: &mut Rng, tiers: [usize; 3]) -> Sym {
    let x = r.below(100);
    if x < tiers[0] {
        0x7FF
    } else if x < tiers[0] + tiers[1] {
        0x31FF
    } else if x < tiers[0] + tiers[1] + tiers[2] {
        0xFFFF
    } else {
        0x10_FFFF
    }
}
const TIERS: [usize; 3] = [50, 43, 5];
const TIERS_UTF8: [usize; 3] = [35, 40, 17];

fn char_pool(r: &mut Rng, tiers: [usize; 3], with_nul: bool) -> Vec<Sym> {
    let top = ceiling(r, tiers);
    let mut p: Vec<Sym> = UPOOL.iter().copied().filter(|&c| c <= top).collect();
    if with_nul {
        p.push(0);
    }
    p
}

fn small_alpha(r: &mut Rng, utf8: bool, tiers: [usize; 3]) -> Vec<Sym> {
    const SMALL: [&[Sym]; 5] = [&[0, 1], &[0, 1, 2], &[0, 1, 0xFE, 0xFF], &[0x61, 0x62], &[0x61, 0x62, 0x63]];
    if !utf8 {
        return r.pick(&SMALL).to_vec();
    }
    if r.pct(25) {
        return r.pick(&[SMALL[0], SMALL[1], SMALL[3], SMALL[4]]).to_vec();
    }
    let nul = r.pct(30);
    let mut p = char_pool(r, tiers, nul);
    r.shuffle(&mut p);
    p.truncate(r.range(2, 4));
    p
}

fn medium_alpha(r: &mut Rng, utf8: bool, tiers: [usize; 3]) -> Vec<Sym> {
    if !utf8 {
        return match r.below(3) {
            0 => (0x61..=0x7A).collect(),
            1 => (0x20..=0x7E).collect(),
            _ => (0..=255).collect(),
        };
    }
    let nul = r.pct(30);
    let mut p = char_pool(r, tiers, nul);
    match r.below(3) {
        0 => p.extend(0x64..=0x7A),
        1 if p.contains(&0x3042) => p.extend(0x3043..=0x3060),
        _ => p.extend(0xE0..=0xFF),
    }
    p
}

// ----- pattern sets ----------------------------------------------------------------------------

fn set_tiny(r: &mut Rng, a: &[Sym]) -> Vec<Word> {
    loop {
        let s = dedup((0..r.range(1, 6)).map(|_| word(r, a, 1, 6)).collect());
        if !s.is_empty() {
            return s;
        }
    }
}

/// Every pattern is a prefix, suffix or factor of one base word.
fn set_nested(r: &mut Rng, a: &[Sym]) -> Vec<Word> {
    let w = word(r, a, 3, 7);
    let mut cands = vec![w.clone()];
    for i in 1..w.len() {
        cands.push(w[..i].to_vec());
        cands.push(w[i..].to_vec());
    }
    if w.len() > 3 && r.pct(40) {
        cands.push(w[1..w.len() - 1].to_vec());
    }
    r.shuffle(&mut cands);
    cands.truncate(r.range(2, 6));
    dedup(cands)
}

fn set_medium(r: &mut Rng, a: &[Sym]) -> Vec<Word> {
    dedup((0..r.range(10, 60)).map(|_| word(r, a, 1, 10)).collect())
}

/// tiny_pct / nested_pct / rest medium; returns (alphabet, set).
fn any_set(r: &mut Rng, utf8: bool, tiers: [usize; 3], tiny: usize, nested: usize) -> (Vec<Sym>, Vec<Word>) {
    let x = r.below(100);
    if x < tiny {
        let a = small_alpha(r, utf8, tiers);
        let s = set_tiny(r, &a);
        (a, s)
    } else if x < tiny + nested {
        let a = small_alpha(r, utf8, tiers);
        let s = set_nested(r, &a);
        (a, s)
    } else {
        let a = medium_alpha(r, utf8, tiers);
        let s = set_medium(r, &a);
        (a, s)
    }
}

// ----- haystacks -------------------------------------------------------------------------------

/// Symbols that occur in no pattern (for char pools also one above every pattern char).
fn outside(r: &mut Rng, a: &[Sym], utf8: bool) -> Vec<Sym> {
    let mut v: Vec<Sym> = if utf8 {
        let top = a.iter().copied().max().unwrap_or(0);
        let above = if (0xD7FF..0xE000).contains(&top) { 0xE000 } else { top + 1 };
        vec![above.min(0x10_FFFF), 0x10_FFFF, 0x7A, 0, 0x80, 0xFFFD, 0x1_0400]
    } else {
        (0..3).map(|_| r.below(256) as Sym).chain([0xFF, 0x00, 0x80, 0x7A]).collect()
    };
    v.retain(|c| !a.contains(c));
    if v.is_empty() {
        v.push(a[0]);
    }
    v
}

fn near_miss(r: &mut Rng, p: &[Sym], a: &[Sym]) -> Word {
    let mut w = p.to_vec();
    if !w.is_empty() {
        let i = r.below(w.len());
        w[i] = r.pick(a);
    }
    w
}

fn splice(r: &mut Rng, set: &[Word], a: &[Sym], extra: &[Sym]) -> Word {
    let mut h = vec![];
    for _ in 0..r.range(1, 5) {
        let p = &set[r.below(set.len())];
        match r.below(6) {
            0 | 1 | 2 => h.extend_from_slice(p),
            3 => h.extend(near_miss(r, p, a)),
            4 => h.extend_from_slice(&p[..r.below(p.len() + 1)]),
            _ => h.push(r.pick(if extra.is_empty() { a } else { extra })),
        }
        if h.len() > 60 {
            break;
        }
    }
    h
}

fn haystacks(r: &mut Rng, set: &[Word], a: &[Sym], utf8: bool) -> Vec<Word> {
    let out = outside(r, a, utf8);
    let mut hs: Vec<Word> = vec![];
    let n = r.range(4, 10);
    let empty_at = r.below(n);
    let outside_at = (empty_at + 1 + r.below(n - 1)) % n;
    for i in 0..n {
        let h = if i == empty_at {
            vec![]
        } else if i == outside_at || set.is_empty() {
            let mut h = if set.is_empty() { word(r, a, 0, 10) } else { splice(r, set, a, &out) };
            h.insert(r.below(h.len() + 1), r.pick(&out));
            h.push(r.pick(&out));
            h
        } else if r.pct(45) {
            word(r, a, 0, 40)
        } else {
            splice(r, set, a, &[])
        };
        hs.push(h);
    }
    hs
}

// ----- values ----------------------------------------------------------------------------------

fn vt_bits(vt: &str) -> (u32, bool) {
    match vt {
        "empty" => (0, false),
        "w3" => (24, false),
        "usize" => (usize::BITS, false),
        "isize" => (usize::BITS, true),
        _ => (vt[1..].parse().expect("vtype"), vt.starts_with('i')),
    }
}

fn show(raw: u128, bits: u32, signed: bool) -> String {
    if signed {
        let sh = 128 - bits;
        (((raw << sh) as i128) >> sh).to_string()
    } else {
        raw.to_string()
    }
}

/// 0, 1, MAX, MIN, -1, MAX-1, small and random values of the type.
fn adversarial(r: &mut Rng, vt: &str) -> String {
    let (bits, signed) = vt_bits(vt);
    if bits == 0 {
        return "0".into();
    }
    let umax = if bits == 128 { u128::MAX } else { (1u128 << bits) - 1 };
    let raw = match r.below(9) {
        0 => 0,
        1 => 1,
        2 => umax,            // unsigned MAX / signed -1
        3 => umax >> 1,       // signed MAX
        4 => (umax >> 1) + 1, // signed MIN
        5 => umax - 1,
        6 => r.below(8) as u128,
        7 => (umax >> 1) - 1,
        _ => (u128::from(r.next()) << 64) | u128::from(r.next()),
    };
    show(raw & umax, bits, signed)
}

fn values(r: &mut Rng, vt: &str, n: usize) -> Vec<String> {
    let (bits, signed) = vt_bits(vt);
    if bits == 0 {
        return vec!["0".into(); n];
    }
    let smax = if bits == 128 { u128::MAX } else { (1u128 << bits) - 1 } >> u32::from(signed);
    let wrap = |x: usize| smax.checked_add(1).map_or(x as u128, |m| x as u128 % m).to_string();
    match r.below(5) {
        0 => (0..n).map(wrap).collect(), // positions
        1 => {
            let v = adversarial(r, vt);
            vec![v; n]
        }
        2 => {
            let pal: Vec<String> = (0..r.range(2, 3)).map(|_| adversarial(r, vt)).collect();
            (0..n).map(|_| pal[r.below(pal.len())].clone()).collect()
        }
        3 => (0..n).map(|i| wrap((n - 1 - i) * 3)).collect(),
        _ => (0..n).map(|_| adversarial(r, vt)).collect(),
    }
}

// ----- case assembly ---------------------------------------------------------------------------

struct Spec<'a> {
    id: String,
    variant: char,
    kind: u8,
    nfb: u32,
    entry: char,
    vt: &'a str,
}

/// `vals = None` means positions (always the case for entry `P`).
fn mk(s: Spec, utf8: bool, set: &[Word], vals: Option<&[String]>, hs: &[Word]) -> Case {
    let (entry, vt) = if s.vt == "w3" { ('V', s.vt) } else { (s.entry, s.vt) };
    Case {
        id: s.id,
        variant: s.variant,
        kind: s.kind,
        nfb: s.nfb,
        entry,
        vtype: vt.to_string(),
        pats: set
            .iter()
            .enumerate()
            .map(|(i, w)| {
                let v = match (entry, vals) {
                    ('V', Some(v)) => v[i].clone(),
                    ('V', None) if vt == "empty" => "0".into(),
                    _ => i.to_string(),
                };
                (enc(w, utf8), v)
            })
            .collect(),
        hays: hs.iter().map(|h| enc(h, utf8)).collect(),
    }
}

fn pick_nfb(r: &mut Rng) -> u32 {
    if r.pct(2) {
        // far more free blocks than the array will ever have
        return r.pick(&[255u32, 256, 257, 1000]);
    }
    if r.pct(60) {
        16
    } else if r.pct(70) {
        r.pick(&NFBS)
    } else {
        r.range(1, 64) as u32
    }
}

fn pick_vt(r: &mut Rng, u32_pct: usize) -> &'static str {
    if r.pct(u32_pct) {
        "u32"
    } else {
        r.pick(&VTYPES)
    }
}

/// Entry `V` values that fit the type for `n` patterns (entry `P` with positions must stay
/// convertible in *valid* cases, so small types fall back to `V` when there are too many).
fn entry_for(r: &mut Rng, vt: &str, n: usize, p_pct: usize) -> char {
    let (bits, signed) = vt_bits(vt);
    let fits = bits == 0 || bits >= 16 || n <= (if signed { 128 } else { 256 });
    if vt != "w3" && fits && r.pct(p_pct) {
        'P'
    } else {
        'V'
    }
}

fn simple(r: &mut Rng, id: String, variant: char, kind: u8, vt: &'static str, p_pct: usize, tiny: usize, nested: usize) -> Case {
    let utf8 = variant == 'C';
    let (a, mut set) = any_set(r, utf8, TIERS, tiny, nested);
    let mut hs = haystacks(r, &set, &a, utf8);
    if r.pct(2) && !a.is_empty() {
        // a pattern longer than 255 (and sometimes 65 535 bytes would be next: not generated) items:
        // lengths stored in narrow integers would show here
        let len = r.range(256, 400);
        let mut long: Word = word(r, &a, len, len);
        long.push(r.pick(&a));
        let tail: Word = long[long.len() - r.range(1, 3)..].to_vec();
        let mut h: Word = word(r, &a, 0, 4);
        h.extend_from_slice(&long);
        h.extend(word(r, &a, 0, 4));
        set.push(long);
        set.push(tail);
        set = dedup(set);
        hs.push(h);
    }
    let entry = entry_for(r, vt, set.len(), p_pct);
    let vals = values(r, vt, set.len());
    let nfb = pick_nfb(r);
    mk(Spec { id, variant, kind, nfb, entry, vt }, utf8, &set, Some(&vals), &hs)
}

// ----- profiles --------------------------------------------------------------------------------

fn p_std(r: &mut Rng, n: usize) -> Vec<Case> {
    let variant = if n % 2 == 0 { 'B' } else { 'C' };
    let vt = pick_vt(r, 80);
    vec![simple(r, format!("s{}", n), variant, 0, vt, 50, 50, 20)]
}

fn p_lm(r: &mut Rng, n: usize) -> Vec<Case> {
    let variant = r.pick(&['B', 'C']);
    let kind = r.range(1, 2) as u8;
    let vt = pick_vt(r, 70);
    let base = simple(r, format!("l{}", n), variant, kind, vt, 50, 50, 38);
    let mut out = vec![base.clone()];
    let m = base.pats.len();
    if (2..=4).contains(&m) {
        let mut seen = vec![(0..m).collect::<Vec<usize>>()];
        for k in 1..=3 {
            let mut p: Vec<usize> = (0..m).collect();
            r.shuffle(&mut p);
            if seen.contains(&p) {
                continue;
            }
            seen.push(p.clone());
            let mut c = base.clone();
            c.id = format!("l{}p{}", n, k);
            c.pats = p.iter().map(|&i| base.pats[i].clone()).collect();
            if c.entry == 'P' {
                for (i, pv) in c.pats.iter_mut().enumerate() {
                    pv.1 = i.to_string();
                }
            }
            out.push(c);
        }
    }
    out
}

fn p_values(r: &mut Rng, n: usize) -> Vec<Case> {
    let vt = VTYPES[(n + r.below(2) * 7) % 14];
    let variant = r.pick(&['B', 'C']);
    let kind = r.below(3) as u8;
    vec![simple(r, format!("v{}", n), variant, kind, vt, 30, 45, 25)]
}

fn p_utf8(r: &mut Rng, n: usize) -> Vec<Case> {
    let x = r.below(100);
    let (a, set) = if x < 45 {
        let a = small_alpha(r, true, TIERS_UTF8);
        let s = set_tiny(r, &a);
        (a, s)
    } else if x < 70 {
        let a = small_alpha(r, true, TIERS_UTF8);
        let s = set_nested(r, &a);
        (a, s)
    } else {
        let a = char_pool(r, TIERS_UTF8, false);
        let s = set_medium(r, &a);
        (a, s)
    };
    let hs = haystacks(r, &set, &a, true);
    let kind = r.below(3) as u8;
    let vt = pick_vt(r, 70);
    let entry = entry_for(r, vt, set.len(), 50);
    let vals = values(r, vt, set.len());
    let nfb = pick_nfb(r);
    ['B', 'C']
        .iter()
        .map(|&variant| {
            let id = format!("x{}{}", n, variant.to_ascii_lowercase());
            mk(Spec { id, variant, kind, nfb, entry, vt }, true, &set, Some(&vals), &hs)
        })
        .collect()
}

fn p_serial(r: &mut Rng, n: usize) -> Vec<Case> {
    let variant = if n % 2 == 0 { 'B' } else { 'C' };
    let kind = ((n / 2) % 3) as u8;
    let vt = VTYPES[(n / 6) % 14];
    vec![simple(r, format!("z{}", n), variant, kind, vt, 30, 40, 20)]
}

/// Scale case for order independence: one symbol occurs more than 2^16 times across the patterns
/// (a counter narrower than 32 bits would saturate or be rescaled mid-way), with a few short
/// patterns over rare symbols — whose frequency ranks are close — placed before, inside and after
/// the heavy block, so that the harness's reversed / shuffled registrations move them across it.
fn p_heavy(r: &mut Rng, n: usize) -> Vec<Case> {
    let variant = if r.pct(75) { 'C' } else { 'B' };
    let utf8 = variant == 'C';
    let heavy: Sym = if utf8 { r.pick(&[0x61, 0xe9, 0x3042]) } else { r.pick(&[0x00, 0x61, 0xff]) };
    let rare: Vec<Sym> = if utf8 { vec![0x62, 0x63, 0x64, 0xe8, 0x3044] } else { vec![0x62, 0x63, 0x64, 0x01, 0xfe] };
    let lo = r.range(560, 620);
    let mut total = 0usize;
    let mut block: Vec<Word> = vec![];
    let mut k = lo;
    let goal = if r.pct(25) { 135_000 } else { 67_000 };
    while total < goal {
        block.push(vec![heavy; k]);
        total += k;
        k += 1;
    }
    let mut extras: Vec<Word> = vec![];
    for _ in 0..r.range(3, 6) {
        let c = r.pick(&rare);
        let mut w = vec![c; r.range(1, 4)];
        if r.pct(30) {
            w.push(r.pick(&rare));
        }
        extras.push(w);
    }
    let extras = dedup(extras);
    let mut set: Vec<Word> = vec![];
    let cut = r.below(block.len());
    for (i, w) in extras.iter().enumerate() {
        if i % 3 == 0 {
            set.push(w.clone());
        }
    }
    set.extend_from_slice(&block[..cut]);
    for (i, w) in extras.iter().enumerate() {
        if i % 3 == 1 {
            set.push(w.clone());
        }
    }
    set.extend_from_slice(&block[cut..]);
    for (i, w) in extras.iter().enumerate() {
        if i % 3 == 2 {
            set.push(w.clone());
        }
    }
    // short haystacks only: the specification oracles are brute force (quadratic in the haystack,
    // linear in the total pattern length) and this case is about construction, not searching
    let mut hs: Vec<Word> = vec![vec![heavy; 8], extras.concat()];
    let mut h = vec![heavy; 5];
    h.extend_from_slice(&extras[0]);
    hs.push(h);
    let _ = lo;
    let kind = r.below(2) as u8;
    let vals = values(r, "u32", set.len());
    vec![mk(Spec { id: format!("hv{}", n), variant, kind, nfb: pick_nfb(r), entry: 'V', vt: "u32" }, utf8, &set, Some(&vals), &hs)]
}

fn p_perm(r: &mut Rng, n: usize) -> Vec<Case> {
    if n % 96 == 17 {
        return p_heavy(r, n);
    }
    let variant = r.pick(&['B', 'C']);
    let utf8 = variant == 'C';
    let a = small_alpha(r, utf8, TIERS);
    let set = loop {
        let mut s = if r.pct(50) { set_tiny(r, &a) } else { set_nested(r, &a) };
        while s.len() < 2 {
            s.push(word(r, &a, 1, 6));
            s = dedup(s);
        }
        if s.len() <= 6 {
            break s;
        }
    };
    let vt = pick_vt(r, 50);
    let vals = values(r, vt, set.len());
    let hs = haystacks(r, &set, &a, utf8);
    let (kind, nfb) = (r.below(2) as u8, pick_nfb(r));
    vec![mk(Spec { id: format!("r{}", n), variant, kind, nfb, entry: 'V', vt }, utf8, &set, Some(&vals), &hs)]
}

fn p_invalid(r: &mut Rng, n: usize) -> Vec<Case> {
    let variant = r.pick(&['B', 'C']);
    let utf8 = variant == 'C';
    let mut kind = r.below(3) as u8;
    let mut vt = pick_vt(r, 60);
    let (a, mut set) = any_set(r, utf8, TIERS, 50, 30);
    let mut entry = entry_for(r, vt, set.len() + 1, 50);
    let x = r.below(100);
    if x < 5 {
        set.clear(); // empty collection
    } else if x < 25 {
        set.insert(r.below(set.len() + 1), vec![]); // empty pattern at any position
        if r.pct(15) {
            set.insert(r.below(set.len() + 1), vec![]);
        }
    } else if x < 48 {
        let w = set[r.below(set.len())].clone(); // duplicate at any position
        set.insert(r.below(set.len() + 1), w);
    } else if x < 62 {
        // duplicates whose later copy is shadowed by a (shorter) prefix pattern under kind 2
        if r.pct(75) {
            kind = 2;
        }
        let p = word(r, &a, 1, 2);
        let cat = |x: &[Sym], y: &[Sym]| [x, y].concat();
        let px = cat(&p, &word(r, &a, 1, 2));
        let mut core = match r.below(4) {
            0 => vec![p.clone(), px.clone(), px.clone()],
            1 => vec![px.clone(), p.clone(), px.clone()],
            2 => {
                let other = near_miss(r, &px, &a);
                vec![p.clone(), px.clone(), other, px.clone()]
            }
            _ => vec![px.clone(), px.clone(), p.clone()],
        };
        for _ in 0..r.below(3) {
            let w = word(r, &a, 1, 4);
            core.insert(r.below(core.len() + 1), w); // unrelated extras keep the relative order
        }
        set = core;
    } else if x < 72 {
        // more patterns than a small index type can hold (entry P)
        vt = r.pick(&["u8", "i8", "u8", "i8", "u16"]);
        entry = 'P';
        let big: Vec<Sym> = if utf8 { (0x61..=0x7A).chain(0xE0..=0xFF).collect() } else { (0..=255).collect() };
        let want = r.range(130, 300);
        let mut s: Vec<Word> = vec![];
        while s.len() < want {
            s.push(word(r, &big, 1, 3));
            s = dedup(s);
        }
        if r.pct(40) {
            s.truncate(r.pick(&[127, 128, 129, 255, 256, 257]));
        }
        set = s;
    } // else: a valid collection
    let nonempty: Vec<Word> = set.iter().filter(|w| !w.is_empty()).cloned().collect();
    let hs = haystacks(r, &nonempty, &a, utf8);
    let vals = values(r, vt, set.len());
    let nfb = pick_nfb(r);
    vec![mk(Spec { id: format!("i{}", n), variant, kind, nfb, entry, vt }, utf8, &set, Some(&vals), &hs)]
}

/// Multi-block sets, one case per `num_free_blocks` value.
fn p_nfb(r: &mut Rng, n: usize) -> Vec<Case> {
    let variant = r.pick(&['B', 'C']);
    let utf8 = variant == 'C';
    let a: Vec<Sym> = if !utf8 {
        if r.pct(35) { vec![0, 1, 2, 254, 255] } else { (0..=255).collect() }
    } else {
        let k = r.range(300, 420) as Sym;
        let start = if r.pct(75) { 0x100 } else { 0x3041 };
        let mut p: Vec<Sym> = (start..start + k).collect();
        p.extend([0x61, 0x62, 0x7F, 0x80]);
        p
    };
    let set = if a.len() > 5 && r.pct(50) {
        // generalised test_n_blocks_*: wide fan-out at the root and under a few children
        let subset = |r: &mut Rng, lo: usize| -> Vec<Sym> {
            let mut s = a.clone();
            match r.below(3) {
                0 => r.shuffle(&mut s),
                1 => s.reverse(),
                _ => {}
            }
            s.truncate(r.range(lo.min(a.len()), a.len()));
            if r.pct(30) && s.len() > 4 {
                s.remove(1); // holes as in test_n_blocks_1_2
                s.remove(2);
            }
            s
        };
        let lo = if utf8 { a.len() / 2 } else { 126 };
        let root = subset(r, lo);
        let mut s: Vec<Word> = root.iter().map(|&c| vec![c]).collect();
        for _ in 0..r.range(1, 3) {
            let mut prefix = vec![r.pick(&root)];
            if r.pct(30) {
                prefix.push(r.pick(&a));
            }
            for c in subset(r, lo * 3 / 4) {
                s.push([&prefix[..], &[c]].concat());
            }
        }
        r.shuffle(&mut s);
        dedup(s)
    } else {
        let count = r.range(300, 2200);
        let hi = if a.len() <= 5 { 8 } else { 4 };
        dedup((0..count).map(|_| word(r, &a, 1, hi)).collect())
    };
    let mut set = set;
    if !utf8 && r.pct(40) {
        // a chain of wide nodes: every node on the chain needs (almost) a block of its own, so
        // blocks are opened by the `find_base` fallback one after the other
        let depth = r.range(3, 14);
        let width = r.range(129, 200);
        let mut path: Word = vec![];
        let mut s: Vec<Word> = vec![];
        for _ in 0..depth {
            let lo = r.range(1, 256 - width) as Sym;
            for c in lo..lo + width as Sym {
                s.push([&path[..], &[c]].concat());
            }
            path.push(lo + r.below(width) as Sym);
        }
        set = dedup(s);
    }
    let mut extra_hs: Vec<Word> = vec![];
    if !utf8 && r.pct(25) {
        // two wide nodes with DISJOINT label sets at very different depths (a deep one at the end of
        // a chain z^d, a shallow one below the root): if the layout ever lets two states share a BASE,
        // the shallow state reaches the deep state's children in one step, and the fail chain back
        // costs ~d transitions per 3 bytes — the shape on which the 2n bound is observable
        let d = r.range(3, 41);
        let z = r.below(256) as Sym;
        let mut sq = r.below(256) as Sym;
        if sq == z {
            sq = (sq + 1) % 256;
        }
        let low_deep = r.pct(50);
        let (deep, shallow): (Vec<Sym>, Vec<Sym>) = if low_deep {
            ((0x00..=0x7f).collect(), (0x80..=0xff).collect())
        } else {
            ((0x80..=0xff).collect(), (0x00..=0x7f).collect())
        };
        let mut s: Vec<Word> = vec![];
        let roots = r.range(100, 200);
        let mut all: Vec<Sym> = (0..=255).collect();
        r.shuffle(&mut all);
        for &b in &all[..roots] {
            s.push(vec![b]);
        }
        s.push(vec![z]);
        s.push(vec![sq]);
        let c = r.below(256) as Sym;
        for j in 1..d {
            let mut w = vec![z; j];
            if c != z {
                w.push(c);
                s.push(w);
            }
        }
        let drop_deep = r.below(6);
        for (i, &b) in deep.iter().enumerate() {
            if i >= drop_deep {
                let mut w = vec![z; d];
                w.push(b);
                s.push(w);
            }
        }
        let qpath: Word = if r.pct(70) { vec![sq] } else { vec![sq, r.below(256) as Sym] };
        let drop_sh = r.below(6);
        for (i, &b) in shallow.iter().enumerate() {
            if i >= drop_sh {
                s.push([&qpath[..], &[b]].concat());
            }
        }
        set = dedup(s);
        for _ in 0..4 {
            let x = r.pick(&deep);
            let y = r.below(256) as Sym;
            let mut h: Word = vec![];
            for _ in 0..16 {
                h.extend_from_slice(&qpath);
                h.push(x);
                h.push(y);
            }
            extra_hs.push(h);
        }
    }
    if !utf8 && r.pct(70) {
        // one-byte patterns 0x00 / 0x01 make a wrong transition on the bytes vacant slots default
        // to observable
        for z in [0, 1] {
            if r.pct(70) && !set.contains(&vec![z]) {
                set.push(vec![z]);
            }
        }
    }
    let mut hs = haystacks(r, &set, &a, utf8);
    hs.extend(extra_hs);
    if !utf8 {
        // path(u) ++ [0|1] ++ tail for nodes u of the trie
        for _ in 0..14 {
            let p = set[r.below(set.len())].clone();
            let k = r.range(1, p.len());
            let mut h: Word = p[..k].to_vec();
            h.push(r.below(2) as Sym);
            if r.pct(40) {
                h.push(r.below(2) as Sym);
            }
            hs.push(h);
        }
    }
    let kind = r.below(3) as u8;
    let vt = pick_vt(r, 70);
    let entry = entry_for(r, vt, set.len(), 50);
    let vals = values(r, vt, set.len());
    NFBS.iter()
        .map(|&nfb| {
            let id = format!("g{}_{}", n, nfb);
            mk(Spec { id, variant, kind, nfb, entry, vt }, utf8, &set, Some(&vals), &hs)
        })
        .collect()
}

/// Systematic sweep aimed at vacant-slot CHECK collisions of the byte-wise layout: vacant slots
/// default to CHECK 0 (and the final sanitising writes small values), so a state whose BASE equals
/// the index of a vacant slot accepts byte 0x00/0x01 by mistake. The second byte `y` of a two-byte
/// pattern runs through all 256 values (it steers the BASE of the first state), while one-byte
/// patterns 0x00 / 0x01 make the wrong transition observable.
fn p_vacant(r: &mut Rng, n: usize) -> Vec<Case> {
    let y = (n % 256) as Sym;
    let kind = r.below(3) as u8;
    let x = 0x61 + r.below(20) as Sym;
    let z = r.below(256) as Sym;
    let mut set: Vec<Word> = vec![vec![0], vec![x, y]];
    if r.pct(50) {
        set.push(vec![1]);
    }
    if r.pct(40) {
        set.push(vec![x + 1, z]);
    }
    if r.pct(30) {
        set.push(vec![x, y, z]);
    }
    let set = dedup(set);
    let hs: Vec<Word> = vec![
        vec![x, 0],
        vec![x, 1],
        vec![x, y, 0],
        vec![x, y, 1, 0],
        vec![0, x, y],
        vec![x + 1, 0, 1],
        vec![x, y, z, 0],
    ];
    let nfb = pick_nfb(r);
    vec![mk(Spec { id: format!("k{}", n), variant: 'B', kind, nfb, entry: 'P', vt: "u32" }, false, &set, None, &hs)]
}

/// Large automata: more than 2^16 elements (indices that do not fit 16 bits, hundreds of blocks,
/// many evictions from the builder's ring of free blocks). Random patterns of length 4-9 sharing
/// random prefixes; haystacks glue patterns, prefixes and noise.
fn p_big(r: &mut Rng, n: usize) -> Vec<Case> {
    let variant = if n % 3 == 2 { 'C' } else { 'B' };
    let kind = r.below(3) as u8;
    let utf8 = variant == 'C';
    let alpha: Vec<Sym> = if utf8 {
        let mut a: Vec<Sym> = (0..200).map(|_| 0x61 + r.below(0x3000) as Sym).collect();
        a.extend((0..40).map(|_| 0x1_0000 + r.below(0x2_0000) as Sym));
        a.retain(|c| char::from_u32(*c).is_some());
        a
    } else {
        (0..256).map(|c| c as Sym).collect()
    };
    // every fourth item: more than 2^16 short patterns (output positions and values beyond 16 bits)
    let many = n % 4 == 3;
    let kind = if many { 0 } else { kind };
    let npat = if many { r.range(90000, 100000) } else { r.range(13500, 17000) };
    let mut set: Vec<Word> = Vec::with_capacity(npat);
    for i in 0..npat {
        let len = if many { r.range(3, 4) } else { r.range(4, 9) };
        let mut w: Word = if i > 0 && r.pct(35) {
            let q = &set[r.below(i)];
            q[..r.range(1, q.len())].to_vec()
        } else {
            vec![]
        };
        while w.len() < len {
            w.push(alpha[r.below(alpha.len())]);
        }
        set.push(w);
    }
    let set = dedup(set);
    let mut hs: Vec<Word> = vec![];
    for _ in 0..6 {
        let mut h: Word = vec![];
        for _ in 0..r.range(3, 12) {
            let q = &set[r.below(set.len())];
            match r.below(4) {
                0 => h.extend_from_slice(&q[..r.range(1, q.len())]),
                1 => h.push(alpha[r.below(alpha.len())]),
                _ => h.extend_from_slice(q),
            }
        }
        hs.push(h);
    }
    let nfb = pick_nfb(r);
    vec![mk(Spec { id: format!("G{}", n), variant, kind, nfb, entry: 'P', vt: "u32" }, utf8, &set, None, &hs)]
}

/// Wide alphabets: more than 256 distinct pattern characters, so that the char-wise block length
/// (`alphabet_size.next_power_of_two()`) is 512, 1024 or 2048 and mapped codes exceed 255. A few
/// long "carrier" patterns cover the alphabet once (rare characters get the high codes), short
/// patterns make some characters frequent; haystacks walk pattern prefixes and then feed rare,
/// frequent and foreign characters. Generated as a B/C pair (ids `xw<n>b` / `xw<n>c`).
fn p_wide(r: &mut Rng, n: usize) -> Vec<Case> {
    // the driver evaluates the invariants on all nodes x all mapped codes: keep the product small
    let nchars = match r.below(20) {
        0..=12 => r.range(257, 290),
        13..=18 => r.range(513, 540),
        _ => r.range(1025, 1040),
    };
    let step = r.range(1, 3) as Sym;
    let mut a: Vec<Sym> = (0..nchars as Sym).map(|i| 0x4E00 + i * step).collect();
    for i in 0..r.below(6) as Sym {
        a.push(0x1_F600 + i);
    }
    if r.pct(30) {
        a.push(0x10_FFFF);
    }
    r.shuffle(&mut a);
    let mut set: Vec<Word> = vec![];
    // carriers
    let mut i = 0;
    while i < a.len() {
        let len = r.range(8, 40).min(a.len() - i);
        set.push(a[i..i + len].to_vec());
        i += len;
    }
    // short patterns over a frequent subset and over everything
    let hot: Vec<Sym> = (0..r.range(2, 12)).map(|_| r.pick(&a)).collect();
    for _ in 0..r.range(3, 40) {
        let w = if r.pct(60) { word(r, &hot, 1, 4) } else { word(r, &a, 1, 4) };
        set.push(w);
    }
    let set = dedup(set);
    let foreign: Vec<Sym> = vec![0x61, 0x3042, 0x4DFF, 0x4E00 + nchars as Sym * step + 7, 0x2_0000];
    let mut hs: Vec<Word> = vec![vec![]];
    for _ in 0..r.range(6, 12) {
        let mut h: Word = vec![];
        for _ in 0..r.range(1, 6) {
            let q = &set[r.below(set.len())];
            h.extend_from_slice(&q[..r.range(1, q.len())]);
            match r.below(4) {
                0 => h.push(r.pick(&a)),
                1 => h.push(r.pick(&hot)),
                2 => h.push(r.pick(&foreign)),
                _ => {}
            }
        }
        hs.push(h);
    }
    let kind = r.below(3) as u8;
    let nfb = pick_nfb(r);
    ['B', 'C']
        .iter()
        .map(|&variant| {
            let id = format!("xw{}{}", n, variant.to_ascii_lowercase());
            mk(Spec { id, variant, kind, nfb, entry: 'P', vt: "u32" }, true, &set, None, &hs)
        })
        .collect()
}

/// Exhaustive small scope: item `n` enumerates (variant, kind, ordered list of 1-3 distinct
/// patterns of length 1-3 over a two-symbol alphabet); every case gets ALL haystacks of length
/// <= 6 over that alphabet. 2 * 3 * 2380 = 14280 items in total (`EXH_ITEMS`). Validation of the
/// model against the code on a complete small space -- never a substitute for the theorems.
pub const EXH_ITEMS: usize = 2 * 3 * 2380;

fn all_words(a: &[Sym], max: usize) -> Vec<Word> {
    let mut out: Vec<Word> = vec![vec![]];
    let mut level: Vec<Word> = vec![vec![]];
    for _ in 0..max {
        let mut next = vec![];
        for w in &level {
            for &c in a {
                let mut x = w.clone();
                x.push(c);
                next.push(x);
            }
        }
        out.extend(next.iter().cloned());
        level = next;
    }
    out
}

fn p_exh(n: usize) -> Vec<Case> {
    let n = n % EXH_ITEMS;
    let variant = if n % 2 == 0 { 'B' } else { 'C' };
    let kind = ((n / 2) % 3) as u8;
    let mut k = n / 6; // 0..2380
    let a: Vec<Sym> = if variant == 'B' { vec![0, 1] } else { vec![0x61, 0xE9] };
    let univ: Vec<Word> = all_words(&a, 3).into_iter().filter(|w| !w.is_empty()).collect(); // 14
    let m = univ.len();
    let set: Vec<Word> = if k < m {
        vec![univ[k].clone()]
    } else if k < m + m * (m - 1) {
        k -= m;
        let i = k / (m - 1);
        let mut j = k % (m - 1);
        if j >= i { j += 1; }
        vec![univ[i].clone(), univ[j].clone()]
    } else {
        k -= m + m * (m - 1);
        let i = k / ((m - 1) * (m - 2));
        let r = k % ((m - 1) * (m - 2));
        let mut j = r / (m - 2);
        let mut l = r % (m - 2);
        if j >= i { j += 1; }
        let (lo, hi) = if i < j { (i, j) } else { (j, i) };
        if l >= lo { l += 1; }
        if l >= hi { l += 1; }
        vec![univ[i].clone(), univ[j].clone(), univ[l].clone()]
    };
    let hs = all_words(&a, 6);
    let utf8 = variant == 'C';
    vec![mk(Spec { id: format!("e{}", n), variant, kind, nfb: 16, entry: 'P', vt: "u32" }, utf8, &set, None, &hs)]
}

/// One generation step: a case or a group of related cases.  `n` is the item counter (ids).
pub fn item(profile: &str, r: &mut Rng, n: usize) -> Vec<Case> {
    match profile {
        "std" => p_std(r, n),
        "lm" => p_lm(r, n),
        "values" => p_values(r, n),
        "utf8" => p_utf8(r, n),
        "serial" => p_serial(r, n),
        "invalid" => p_invalid(r, n),
        "nfb" => p_nfb(r, n),
        "perm" => p_perm(r, n),
        "vacant" => p_vacant(r, n),
        "exh" => p_exh(n),
        "big" => p_big(r, n),
        "wide" => p_wide(r, n),
        _ => {
            let x = r.below(100);
            let sub = match x {
                0..=19 => "std",
                20..=39 => "lm",
                40..=54 => "values",
                55..=60 => "utf8",
                61..=63 => "wide",
                64..=73 => "serial",
                74..=85 => "invalid",
                86..=96 => "perm",
                _ => "nfb",
            };
            item(sub, r, n)
        }
    }
}

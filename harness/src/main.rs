//! Test harness: drives the real `daachorse` crate and prints the line protocol of
//! /verif/PROTOCOL.md.  Build with RUSTFLAGS="--cfg daachorse_verif -C debug-assertions=on".

mod gen;

use std::cell::Cell;
use std::io::Write;
use std::panic::{catch_unwind, AssertUnwindSafe};
use std::rc::Rc;
use std::sync::atomic::Ordering::Relaxed;

use daachorse::errors::DaachorseError;
use daachorse::verif::{RawAutomaton, STEPS};
use daachorse::{
    CharwiseDoubleArrayAhoCorasick as CAuto, CharwiseDoubleArrayAhoCorasickBuilder as CBuilder,
    DoubleArrayAhoCorasick as BAuto, DoubleArrayAhoCorasickBuilder as BBuilder, Empty, Match,
    MatchKind, Serializable,
};

// ---------------------------------------------------------------------------------------------
// PRNG (xorshift64*), case record, output
// ---------------------------------------------------------------------------------------------

pub struct Rng(u64);

impl Rng {
    pub fn new(seed: u64) -> Self {
        // splitmix64 finaliser so that small seeds (incl. 0) give a good non-zero state
        let mut z = seed.wrapping_add(0x9E37_79B9_7F4A_7C15);
        z = (z ^ (z >> 30)).wrapping_mul(0xBF58_476D_1CE4_E5B9);
        z = (z ^ (z >> 27)).wrapping_mul(0x94D0_49BB_1331_11EB);
        z ^= z >> 31;
        Rng(if z == 0 { 0x2545_F491_4F6C_DD1D } else { z })
    }
    pub fn next(&mut self) -> u64 {
        let mut x = self.0;
        x ^= x >> 12;
        x ^= x << 25;
        x ^= x >> 27;
        self.0 = x;
        x.wrapping_mul(0x2545_F491_4F6C_DD1D)
    }
    /// Uniform-ish in `0..n` (0 for n = 0).
    pub fn below(&mut self, n: usize) -> usize {
        if n == 0 {
            0
        } else {
            ((self.next() >> 11) % n as u64) as usize
        }
    }
    /// Inclusive range.
    pub fn range(&mut self, lo: usize, hi: usize) -> usize {
        lo + self.below(hi - lo + 1)
    }
    pub fn pct(&mut self, p: usize) -> bool {
        self.below(100) < p
    }
    pub fn pick<T: Copy>(&mut self, xs: &[T]) -> T {
        xs[self.below(xs.len())]
    }
    pub fn shuffle<T>(&mut self, xs: &mut [T]) {
        for i in (1..xs.len()).rev() {
            xs.swap(i, self.below(i + 1));
        }
    }
}

#[derive(Clone, Debug)]
pub struct Case {
    pub id: String,
    pub variant: char, // 'B' | 'C'
    pub kind: u8,
    pub nfb: u32,
    pub entry: char, // 'P' | 'V'
    pub vtype: String,
    pub pats: Vec<(Vec<u8>, String)>,
    pub hays: Vec<Vec<u8>>,
}

struct Out {
    w: std::io::BufWriter<std::io::Stdout>,
}

impl Out {
    /// Writes a line and flushes it.
    fn line(&mut self, s: &str) {
        self.buf(s);
        self.flush();
    }
    /// Writes a line without flushing (only used for the bulk `T` rows).
    fn buf(&mut self, s: &str) {
        let ok = self.w.write_all(s.as_bytes()).is_ok() && self.w.write_all(b"\n").is_ok();
        if !ok {
            std::process::exit(3); // stdout closed
        }
    }
    fn flush(&mut self) {
        if self.w.flush().is_err() {
            std::process::exit(3);
        }
    }
}

fn hex(b: &[u8]) -> String {
    if b.is_empty() {
        return "-".into();
    }
    const D: &[u8; 16] = b"0123456789abcdef";
    let mut s = String::with_capacity(b.len() * 2);
    for &x in b {
        s.push(D[(x >> 4) as usize] as char);
        s.push(D[(x & 15) as usize] as char);
    }
    s
}

fn unhex(s: &str) -> Option<Vec<u8>> {
    if s == "-" {
        return Some(vec![]);
    }
    if s.len() % 2 != 0 || !s.is_ascii() {
        return None;
    }
    (0..s.len() / 2).map(|i| u8::from_str_radix(&s[2 * i..2 * i + 2], 16).ok()).collect()
}

// ---------------------------------------------------------------------------------------------
// Value types
// ---------------------------------------------------------------------------------------------

pub trait Val:
    Copy + Send + Sync + std::fmt::Debug + Serializable + TryFrom<usize> + 'static
{
    fn from_dec(s: &str) -> Option<Self>;
    fn to_dec(&self) -> String;
    /// Injective image used for equality (`Empty` has no `PartialEq`).
    fn key(&self) -> u128;
    fn eq_b(a: &BAuto<Self>, b: &BAuto<Self>) -> bool;
    fn eq_c(a: &CAuto<Self>, b: &CAuto<Self>) -> bool;
}

macro_rules! int_val {
    ($($t:ty),*) => {$(
        impl Val for $t {
            fn from_dec(s: &str) -> Option<Self> { s.parse().ok() }
            fn to_dec(&self) -> String { self.to_string() }
            fn key(&self) -> u128 { *self as u128 }
            fn eq_b(a: &BAuto<Self>, b: &BAuto<Self>) -> bool { a == b }
            fn eq_c(a: &CAuto<Self>, b: &CAuto<Self>) -> bool { a == b }
        }
    )*};
}
int_val!(u8, u16, u32, u64, u128, usize, i8, i16, i32, i64, i128, isize);

impl Val for Empty {
    fn from_dec(s: &str) -> Option<Self> {
        (s == "0").then_some(Empty)
    }
    fn to_dec(&self) -> String {
        "0".into()
    }
    fn key(&self) -> u128 {
        0
    }
    fn eq_b(a: &BAuto<Self>, b: &BAuto<Self>) -> bool {
        raw_eq(&a.verif_raw(), &b.verif_raw())
    }
    fn eq_c(a: &CAuto<Self>, b: &CAuto<Self>) -> bool {
        raw_eq(&a.verif_raw(), &b.verif_raw())
    }
}

/// User-defined 3-byte serialisable value (24 bits, little endian).
#[derive(Clone, Copy, PartialEq, Debug)]
pub struct W3(u32);

impl Serializable for W3 {
    fn serialize_to_vec(&self, dst: &mut Vec<u8>) {
        dst.extend_from_slice(&self.0.to_le_bytes()[..3]);
    }
    fn deserialize_from_slice(src: &[u8]) -> (Self, &[u8]) {
        (W3(u32::from_le_bytes([src[0], src[1], src[2], 0])), &src[3..])
    }
    fn serialized_bytes() -> usize {
        3
    }
}

impl TryFrom<usize> for W3 {
    type Error = ();
    fn try_from(x: usize) -> Result<Self, ()> {
        // only to satisfy the trait bound; `w3` with entry `P` is rejected before any build
        u32::try_from(x).ok().filter(|&x| x <= 0xFF_FFFF).map(W3).ok_or(())
    }
}

impl Val for W3 {
    fn from_dec(s: &str) -> Option<Self> {
        s.parse::<u32>().ok().filter(|&x| x <= 0xFF_FFFF).map(W3)
    }
    fn to_dec(&self) -> String {
        self.0.to_string()
    }
    fn key(&self) -> u128 {
        u128::from(self.0)
    }
    fn eq_b(a: &BAuto<Self>, b: &BAuto<Self>) -> bool {
        a == b
    }
    fn eq_c(a: &CAuto<Self>, b: &CAuto<Self>) -> bool {
        a == b
    }
}

fn raw_eq<V: Val>(a: &RawAutomaton<V>, b: &RawAutomaton<V>) -> bool {
    a.states == b.states
        && a.outputs.len() == b.outputs.len()
        && a.outputs.iter().zip(&b.outputs).all(|(x, y)| {
            x.value.key() == y.value.key() && x.length == y.length && x.parent == y.parent
        })
        && a.mapper_table == b.mapper_table
        && a.alphabet_size == b.alphabet_size
        && a.match_kind == b.match_kind
        && a.num_states == b.num_states
}

// ---------------------------------------------------------------------------------------------
// The two automaton variants behind one interface
// ---------------------------------------------------------------------------------------------

type Hit<V> = (usize, usize, V);
type HitI<V> = (usize, usize, V, usize);
const METHODS: [&str; 4] = ["ov", "find", "ns", "lm"];

struct CountingIter {
    bytes: Vec<u8>,
    pos: usize,
    pulled: Rc<Cell<usize>>,
}

/// When set, the counting source also reports an exact `size_hint` (like `slice.iter().copied()`
/// or `str::bytes()`); otherwise it keeps the default `(0, None)` (like a stream).
static EXACT_HINT: std::sync::atomic::AtomicBool = std::sync::atomic::AtomicBool::new(false);

impl Iterator for CountingIter {
    type Item = u8;
    fn next(&mut self) -> Option<u8> {
        let b = self.bytes.get(self.pos).copied()?;
        self.pos += 1;
        self.pulled.set(self.pulled.get() + 1);
        Some(b)
    }
    fn size_hint(&self) -> (usize, Option<usize>) {
        if EXACT_HINT.load(Relaxed) {
            let rem = self.bytes.len() - self.pos;
            (rem, Some(rem))
        } else {
            (0, None)
        }
    }
}

fn drain_counted<V: Val, I: Iterator<Item = Match<V>>>(
    mut it: I,
    n: &Rc<Cell<usize>>,
) -> (Vec<HitI<V>>, usize) {
    let mut v = vec![];
    while let Some(m) = it.next() {
        v.push((m.start(), m.end(), m.value(), n.get()));
    }
    (v, n.get())
}

trait Auto<V: Val>: Sized + Sync {
    const STATE_SIZE: usize;
    fn build(kind: u8, nfb: u32, entry_p: bool, pats: &[Vec<u8>], vals: &[V]) -> Result<Self, DaachorseError>;
    fn raw(&self) -> RawAutomaton<V>;
    fn ser(&self) -> Vec<u8>;
    fn deser(src: &[u8]) -> (Self, &[u8]);
    fn heap(&self) -> usize;
    /// the public `num_states()` accessor
    fn nstates(&self) -> usize;
    /// the public `num_elements()` accessor where the crate has one (char-wise), else the dump
    fn nelems(&self, raw: &RawAutomaton<V>) -> usize;
    fn same(&self, o: &Self) -> bool;
    /// Slice / str entry points; `m` indexes `METHODS`.
    fn search(&self, m: usize, h: &[u8]) -> Vec<Hit<V>>;
    /// `*_from_iter` entry points (m in 0..3) with a counting source.
    fn search_it(&self, m: usize, h: &[u8]) -> (Vec<HitI<V>>, usize);
    /// `verif_child`; `None` also when the label is not mapped (C).
    fn child(&self, raw: &RawAutomaton<V>, s: u32, label: u32) -> Option<u32>;
    /// Is the label in the automaton's alphabet (always for B)?  Unmapped labels never loop.
    fn mapped(raw: &RawAutomaton<V>, label: u32) -> bool;
    fn next(&self, s: u32, label: u32, leftmost: bool) -> u32;
}

fn as_bytes(p: &[u8]) -> &[u8] {
    p
}
fn as_str(p: &[u8]) -> &str {
    std::str::from_utf8(p).expect("validated before")
}

macro_rules! impl_auto {
    ($A:ident, $B:ident, $ss:expr, $conv:ident, $eq:ident) => {
        fn build(kind: u8, nfb: u32, entry_p: bool, pats: &[Vec<u8>], vals: &[V]) -> Result<Self, DaachorseError> {
            if kind == 0 && nfb == 16 {
                // the convenience constructors `new` / `with_values` (default builder: standard
                // kind, 16 free blocks) are entry points of the crate too
                return if entry_p {
                    $A::new(pats.iter().map(|p| $conv(p)))
                } else {
                    $A::with_values(pats.iter().zip(vals).map(|(p, &v)| ($conv(p), v)))
                };
            }
            let b = $B::new().match_kind(MatchKind::from(kind)).num_free_blocks(nfb);
            if entry_p {
                b.build(pats.iter().map(|p| $conv(p)))
            } else {
                b.build_with_values(pats.iter().zip(vals).map(|(p, &v)| ($conv(p), v)))
            }
        }
        const STATE_SIZE: usize = $ss;
        fn raw(&self) -> RawAutomaton<V> {
            self.verif_raw()
        }
        fn ser(&self) -> Vec<u8> {
            self.serialize()
        }
        fn deser(src: &[u8]) -> (Self, &[u8]) {
            unsafe { $A::<V>::deserialize_unchecked(src) }
        }
        fn heap(&self) -> usize {
            self.heap_bytes()
        }
        fn nstates(&self) -> usize {
            self.num_states()
        }
        fn same(&self, o: &Self) -> bool {
            V::$eq(self, o)
        }
        fn search(&self, m: usize, h: &[u8]) -> Vec<Hit<V>> {
            let h = $conv(h);
            let f = |x: Match<V>| (x.start(), x.end(), x.value());
            match m {
                0 => self.find_overlapping_iter(h).map(f).collect(),
                1 => self.find_iter(h).map(f).collect(),
                2 => self.find_overlapping_no_suffix_iter(h).map(f).collect(),
                _ => self.leftmost_find_iter(h).map(f).collect(),
            }
        }
        #[allow(unused_unsafe)]
        fn search_it(&self, m: usize, h: &[u8]) -> (Vec<HitI<V>>, usize) {
            let n = Rc::new(Cell::new(0));
            let src = CountingIter { bytes: h.to_vec(), pos: 0, pulled: n.clone() };
            // (for C the caller has checked that `h` is valid UTF-8)
            unsafe {
                match m {
                    0 => drain_counted(self.find_overlapping_iter_from_iter(src), &n),
                    1 => drain_counted(self.find_iter_from_iter(src), &n),
                    _ => drain_counted(self.find_overlapping_no_suffix_iter_from_iter(src), &n),
                }
            }
        }
    };
}

impl<V: Val> Auto<V> for BAuto<V> {
    impl_auto!(BAuto, BBuilder, 12, as_bytes, eq_b);
    fn nelems(&self, raw: &RawAutomaton<V>) -> usize {
        raw.states.len()
    }
    fn child(&self, _raw: &RawAutomaton<V>, s: u32, label: u32) -> Option<u32> {
        self.verif_child(s, label as u8)
    }
    fn mapped(_raw: &RawAutomaton<V>, _label: u32) -> bool {
        true
    }
    fn next(&self, s: u32, label: u32, leftmost: bool) -> u32 {
        if leftmost {
            self.verif_next_state_leftmost(s, label as u8)
        } else {
            self.verif_next_state(s, label as u8)
        }
    }
}

impl<V: Val> Auto<V> for CAuto<V> {
    impl_auto!(CAuto, CBuilder, 16, as_str, eq_c);
    fn nelems(&self, _raw: &RawAutomaton<V>) -> usize {
        self.num_elements()
    }
    fn child(&self, raw: &RawAutomaton<V>, s: u32, label: u32) -> Option<u32> {
        let code = raw.mapper_table.get(label as usize).copied().filter(|&c| c != u32::MAX)?;
        self.verif_child(s, code)
    }
    fn mapped(raw: &RawAutomaton<V>, label: u32) -> bool {
        raw.mapper_table.get(label as usize).is_some_and(|&c| c != u32::MAX)
    }
    fn next(&self, s: u32, label: u32, leftmost: bool) -> u32 {
        let c = char::from_u32(label).expect("labels are scalar values");
        if leftmost {
            self.verif_next_state_leftmost(s, c)
        } else {
            self.verif_next_state(s, c)
        }
    }
}

fn err_name(e: &DaachorseError) -> &'static str {
    match e {
        DaachorseError::InvalidArgument(_) => "invalid_argument",
        DaachorseError::DuplicatePattern(_) => "duplicate_pattern",
        DaachorseError::InvalidConversion(_) => "invalid_conversion",
        DaachorseError::AutomatonScale(_) => "automaton_scale",
    }
}

fn guard<T>(f: impl FnOnce() -> T) -> Option<T> {
    catch_unwind(AssertUnwindSafe(f)).ok()
}

fn hits_eq<V: Val>(a: &Option<Vec<Hit<V>>>, b: &Option<Vec<Hit<V>>>) -> bool {
    match (a, b) {
        (Some(a), Some(b)) => {
            a.len() == b.len()
                && a.iter().zip(b).all(|(x, y)| x.0 == y.0 && x.1 == y.1 && x.2.key() == y.2.key())
        }
        (None, None) => true,
        _ => false,
    }
}

fn hits_i_eq<V: Val>(a: &Option<(Vec<HitI<V>>, usize)>, b: &Option<(Vec<HitI<V>>, usize)>) -> bool {
    match (a, b) {
        (Some(a), Some(b)) => {
            a.1 == b.1
                && a.0.len() == b.0.len()
                && a.0.iter().zip(&b.0).all(|(x, y)| {
                    x.0 == y.0 && x.1 == y.1 && x.2.key() == y.2.key() && x.3 == y.3
                })
        }
        (None, None) => true,
        _ => false,
    }
}

// ---------------------------------------------------------------------------------------------
// Execution of one case
// ---------------------------------------------------------------------------------------------

/// Upper bound on the number of `T` rows per case (`--tcap` lowers or raises it).
static T_CAP_SETTING: std::sync::atomic::AtomicUsize = std::sync::atomic::AtomicUsize::new(40_000);

/// Would the real goto/fail loop started at (s, label) terminate?  (Walks the dumped fail links
/// with the real `verif_child`; the char-wise dead slot fails to itself, so the standard loop
/// never ends from a slot whose fail chain enters it.)
fn loop_terminates<V: Val, A: Auto<V>>(a: &A, raw: &RawAutomaton<V>, mut s: u32, label: u32, leftmost: bool) -> bool {
    if !A::mapped(raw, label) {
        return true;
    }
    for _ in 0..=raw.states.len() {
        if a.child(raw, s, label).is_some() || s == 0 {
            return true;
        }
        let f = raw.states[s as usize].fail;
        if leftmost && f == 1 {
            return true;
        }
        if f as usize >= raw.states.len() {
            return true; // leave it to the real code (armed precondition checks will abort)
        }
        s = f;
    }
    false
}

fn emit_t<V: Val, A: Auto<V>>(c: &Case, a: &A, raw: &RawAutomaton<V>, rng: &mut Rng, out: &mut Out) {
    let n = raw.states.len();
    let small = n <= 512;
    let bytewise = c.variant == 'B';
    #[allow(non_snake_case)]
    let T_CAP = T_CAP_SETTING.load(Relaxed);
    // slots to probe: all of a small table; the first 256, 64 random and the last 64 otherwise
    let mut probe: Vec<u32> = (0..n.min(if small { 512 } else { 256 }) as u32).collect();
    if !small {
        probe.extend((0..64).map(|_| rng.below(n) as u32));
        probe.extend((n - 64..n).map(|i| i as u32));
        probe.sort_unstable();
        probe.dedup();
    }
    // the automaton's alphabet, and the slots reachable from the root through `verif_child`
    let alphabet: Vec<u32> = if bytewise {
        (0..256).collect()
    } else {
        (0..raw.mapper_table.len() as u32).filter(|&cp| A::mapped(raw, cp)).collect()
    };
    out.flush();
    let mut reach = vec![false; n];
    reach[0] = true;
    let mut stack = vec![0u32];
    while let Some(s) = stack.pop() {
        for &l in &alphabet {
            if let Some(t) = a.child(raw, s, l) {
                if (t as usize) < n && !reach[t as usize] {
                    reach[t as usize] = true;
                    stack.push(t);
                }
            }
        }
    }
    // labels in priority order; a slot gets a prefix of this list
    let mut labels: Vec<u32> = vec![];
    let push = |v: &mut Vec<u32>, x: u32| {
        if !v.contains(&x) {
            v.push(x);
        }
    };
    let (k_reach, k_other);
    if bytewise {
        for x in [0, 1, 255] {
            push(&mut labels, x);
        }
        for (p, _) in &c.pats {
            for &b in p {
                if labels.len() < 20 {
                    push(&mut labels, u32::from(b));
                }
            }
        }
        while labels.len() < 24 {
            push(&mut labels, rng.below(256) as u32);
        }
        for x in 0..256 {
            push(&mut labels, x);
        }
        k_reach = if small { 256 } else { 24 };
        k_other = 6;
    } else {
        for x in [0, 0x61, 0x80, 0x7FF, 0xFFFF, 0x10_FFFF] {
            push(&mut labels, x);
        }
        loop {
            if let Some(ch) = char::from_u32(rng.below(0x11_0000) as u32) {
                push(&mut labels, ch as u32);
                break;
            }
        }
        let mut cps = alphabet.clone(); // = the code points that occur in patterns
        if !small || cps.len() > 64 {
            rng.shuffle(&mut cps);
        }
        for x in cps {
            push(&mut labels, x);
        }
        k_reach = if small { labels.len() } else { 32 };
        k_other = 10;
    }
    let nr = probe.iter().filter(|&&s| reach[s as usize]).count();
    let other_rows = (probe.len() - nr) * k_other.min(labels.len());
    let k_reach = k_reach.min(T_CAP.saturating_sub(other_rows) / nr.max(1)).max(k_other).min(labels.len());
    let k_other = k_other.min(labels.len());
    let mut count = 0;
    for &s in &probe {
        for &l in &labels[..if reach[s as usize] { k_reach } else { k_other }] {
            if count >= T_CAP {
                break;
            }
            count += 1;
            let ch = a.child(raw, s, l).map_or(-1, i64::from);
            let nx = |lm: bool| -> i64 {
                if loop_terminates(a, raw, s, l, lm) {
                    i64::from(a.next(s, l, lm))
                } else {
                    -2
                }
            };
            out.buf(&format!("T {} {} {} {} {}", s, l, ch, nx(false), nx(true)));
        }
    }
    out.flush();
}

fn fmt_hits<V: Val>(tag: &str, m: usize, r: &Option<Vec<Hit<V>>>) -> String {
    let mut s = format!("{} {}", tag, METHODS[m]);
    match r {
        None => s.push_str(" PANIC"),
        Some(v) => {
            for h in v {
                s.push_str(&format!(" {},{},{}", h.0, h.1, h.2.to_dec()));
            }
        }
    }
    s
}

fn all_searches<V: Val, A: Auto<V>>(
    a: &A,
    methods: &[usize],
    h: &[u8],
) -> Vec<(Option<Vec<Hit<V>>>, Option<(Vec<HitI<V>>, usize)>)> {
    methods
        .iter()
        .map(|&m| {
            let r = guard(|| a.search(m, h));
            let ri = if m < 3 { guard(|| a.search_it(m, h)) } else { None };
            (r, ri)
        })
        .collect()
}

fn exec<V: Val, A: Auto<V>>(c: &Case, vals: &[V], rng: &mut Rng, out: &mut Out) {
    let entry_p = c.entry == 'P';
    let pats: Vec<Vec<u8>> = c.pats.iter().map(|p| p.0.clone()).collect();
    let echo_hays = |out: &mut Out| {
        for h in &c.hays {
            out.line(&format!("H {}", hex(h)));
        }
    };
    let pma: A = match guard(|| A::build(c.kind, c.nfb, entry_p, &pats, vals)) {
        None => {
            out.line("B panic");
            return echo_hays(out);
        }
        Some(Err(e)) => {
            out.line(&format!("B err {}", err_name(&e)));
            return echo_hays(out);
        }
        Some(Ok(p)) => p,
    };
    out.line("B ok");
    let raw = pma.raw();
    out.line(&format!("K {}", raw.match_kind));
    // NS is what the public accessor `num_states()` reports
    out.line(&format!("NS {}", pma.nstates()));
    let mut s = format!("ST {}", raw.states.len());
    for x in &raw.states {
        s.push_str(&format!(" {},{},{},{}", x.base, x.check, x.fail, x.output_pos));
    }
    out.line(&s);
    let mut s = format!("OU {}", raw.outputs.len());
    for x in &raw.outputs {
        s.push_str(&format!(" {},{},{}", x.value.to_dec(), x.length, x.parent));
    }
    out.line(&s);
    if c.variant == 'C' {
        let mut s = format!("MP {} {}", raw.mapper_table.len(), raw.alphabet_size);
        for (cp, &code) in raw.mapper_table.iter().enumerate() {
            if code != u32::MAX {
                s.push_str(&format!(" {}:{}", cp, code));
            }
        }
        out.line(&s);
    }
    out.line(&format!(
        "HB {} {} {} {}",
        pma.heap(),
        pma.nelems(&raw),
        A::STATE_SIZE,
        std::mem::size_of::<(V, u32, u32)>()
    ));
    let img = pma.ser();
    out.line(&format!("SZ {}", hex(&img)));

    // DET: second build from the same input
    let det = guard(|| A::build(c.kind, c.nfb, entry_p, &pats, vals)).and_then(Result::ok);
    let det = det.map_or((0, 0), |q| (u8::from(pma.same(&q)), u8::from(q.ser() == img)));
    out.line(&format!("DET {} {}", det.0, det.1));

    // PERM: order independence for kinds 0 and 1 (entry-V semantics with the original values)
    let n = pats.len();
    let orig_vals: Option<Vec<V>> = if entry_p {
        (0..n).map(|i| V::try_from(i).ok()).collect()
    } else {
        Some(vals.to_vec())
    };
    if let (true, Some(ov)) = (c.kind <= 1 && n >= 2, orig_vals) {
        let mut perms: Vec<Vec<usize>> = vec![];
        if n <= 3 {
            let mut idx: Vec<usize> = (0..n).collect();
            permutations(&mut idx, 0, &mut perms);
            perms.retain(|p| p.iter().enumerate().any(|(i, &j)| i != j));
        } else {
            perms.push((0..n).rev().collect());
            for _ in 0..(if n > 64 { 1 } else { 5 }) {
                let mut p: Vec<usize> = (0..n).collect();
                rng.shuffle(&mut p);
                perms.push(p);
            }
        }
        let reference: Option<A> = if entry_p {
            guard(|| A::build(c.kind, c.nfb, false, &pats, &ov)).and_then(Result::ok)
        } else {
            None
        };
        let (ref_a, ref_img) = match &reference {
            Some(r) => (r, r.ser()),
            None => (&pma, img.clone()),
        };
        for p in perms {
            let pp: Vec<Vec<u8>> = p.iter().map(|&i| pats[i].clone()).collect();
            let pv: Vec<V> = p.iter().map(|&i| ov[i]).collect();
            let q = guard(|| A::build(c.kind, c.nfb, false, &pp, &pv)).and_then(Result::ok);
            let r = q.map_or((0, 0), |q| (u8::from(ref_a.same(&q)), u8::from(q.ser() == ref_img)));
            let list: Vec<String> = p.iter().map(|i| i.to_string()).collect();
            out.line(&format!("PERM {} {} {}", list.join(","), r.0, r.1));
        }
    }

    emit_t(c, &pma, &raw, rng, out);

    // haystacks
    let methods: &[usize] = if c.kind == 0 { &[0, 1, 2] } else { &[3] };
    let mut all = vec![];
    for h in &c.hays {
        out.line(&format!("H {}", hex(h)));
        let mut rs = vec![];
        for &m in methods {
            let s0 = STEPS.load(Relaxed);
            let r = guard(|| pma.search(m, h));
            let delta = STEPS.load(Relaxed).wrapping_sub(s0);
            out.line(&fmt_hits("R", m, &r));
            if r.is_some() {
                out.line(&format!("SP {} {}", METHODS[m], delta));
            }
            let mut ri = None;
            if m < 3 {
                // twice: a source with the default size_hint, then one with an exact size_hint
                for exact in [false, true] {
                    EXACT_HINT.store(exact, Relaxed);
                    ri = guard(|| pma.search_it(m, h));
                    EXACT_HINT.store(false, Relaxed);
                    let mut s = format!("RI {}", METHODS[m]);
                    match &ri {
                        None => s.push_str(" PANIC"),
                        Some((v, e)) => {
                            for x in v {
                                s.push_str(&format!(" {},{},{},{}", x.0, x.1, x.2.to_dec(), x.3));
                            }
                            s.push_str(&format!(" E {}", e));
                        }
                    }
                    out.line(&s);
                }
            }
            rs.push((r, ri));
        }
        // MT: the same searches from 4 threads sharing the automaton
        let expect: Vec<&Option<Vec<Hit<V>>>> = rs.iter().map(|x| &x.0).collect();
        let ok = std::thread::scope(|sc| {
            let hs: Vec<_> = (0..4usize)
                .map(|t| {
                    let (pma, expect) = (&pma, &expect);
                    sc.spawn(move || {
                        let mut ok = true;
                        for round in 0..2 {
                            for j in 0..methods.len() {
                                let k = (j * (1 + t % 2) + t + round) % methods.len();
                                let r = guard(|| pma.search(methods[k], h));
                                ok &= hits_eq(&r, expect[k]);
                            }
                        }
                        ok
                    })
                })
                .collect();
            hs.into_iter().all(|h| h.join().unwrap_or(false))
        });
        out.line(&format!("MT {}", u8::from(ok)));
        all.push(rs);
    }

    // MM: the entry points that do not fit the automaton's match kind are documented to panic;
    // whatever they do, they have to return (a hang is caught by the watchdog of ./check)
    let other: &[usize] = if c.kind == 0 { &[3] } else { &[0, 1, 2] };
    for h in c.hays.iter().filter(|h| !h.is_empty()).take(2) {
        out.line(&format!("MMH {}", hex(h)));
        for &m in other {
            let r = guard(|| pma.search(m, h));
            out.line(&format!("MM {} slice {}", METHODS[m], if r.is_some() { "returned" } else { "panic" }));
            if m < 3 {
                let ri = guard(|| pma.search_it(m, h));
                out.line(&format!("MM {} iter {}", METHODS[m], if ri.is_some() { "returned" } else { "panic" }));
            }
        }
    }

    // DS: serialisation round trip with trailing bytes
    let trail: Vec<u8> = (0..rng.below(6)).map(|_| rng.next() as u8).collect();
    let mut buf = img.clone();
    buf.extend_from_slice(&trail);
    let flags = match guard(|| {
        let (q, rest) = A::deser(&buf);
        (q, rest.to_vec())
    }) {
        None => [0, 0, 0, 0],
        Some((q, rest)) => {
            let eq = guard(|| pma.same(&q) && raw_eq(&raw, &q.raw())).unwrap_or(false);
            let reser = guard(|| q.ser() == img).unwrap_or(false);
            let search_eq = c.hays.iter().zip(&all).all(|(h, rs)| {
                let qs = all_searches(&q, methods, h);
                qs.iter().zip(rs).all(|(x, y)| hits_eq(&x.0, &y.0) && hits_i_eq(&x.1, &y.1))
            });
            [u8::from(eq), u8::from(rest == trail), u8::from(reser), u8::from(search_eq)]
        }
    };
    out.line(&format!("DS {} {} {} {} {}", flags[0], flags[1], flags[2], flags[3], hex(&trail)));
}


// ---------------------------------------------------------------------------------------------
// Synthetic images: `deserialize_unchecked` / `serialize` on arbitrary well-formed automaton
// values (not only built ones).  Nothing is searched; only the codec is exercised.
// ---------------------------------------------------------------------------------------------

macro_rules! synth_dispatch {
    ($vt:expr, $f:ident, $($name:literal => $t:ty),*) => {
        match $vt { $($name => $f::<$t>,)* _ => $f::<u32> }
    };
}

fn le32(v: &mut Vec<u8>, x: u32) {
    v.extend_from_slice(&x.to_le_bytes());
}

/// A field value biased towards the extremes of its width.
fn field(r: &mut Rng, bits: u32) -> u32 {
    let max = if bits >= 32 { u32::MAX } else { (1u32 << bits) - 1 };
    match r.below(8) {
        0 => 0,
        1 => max,
        2 => max - (r.below(3) as u32).min(max),
        3 => 1u32 << r.below(bits as usize),
        4 => (1u32 << r.below(bits as usize)).wrapping_sub(1),
        _ => (r.next() as u32) & max,
    }
}

fn synth<V: Val, A: Auto<V>>(id: &str, variant: char, vt: &str, r: &mut Rng, out: &mut Out) {
    let width = V::serialized_bytes();
    let ns = r.below(7);
    let no = r.below(6);
    let mut img = Vec::new();
    le32(&mut img, ns as u32);
    for _ in 0..ns {
        if variant == 'B' {
            le32(&mut img, field(r, 32));
            le32(&mut img, field(r, 32));
            le32(&mut img, (field(r, 24) << 8) | field(r, 8));
        } else {
            for _ in 0..4 {
                le32(&mut img, field(r, 32));
            }
        }
    }
    if variant == 'C' {
        let nt = r.below(6);
        le32(&mut img, nt as u32);
        for _ in 0..nt {
            le32(&mut img, field(r, 32));
        }
        le32(&mut img, field(r, 32));
    }
    le32(&mut img, no as u32);
    for _ in 0..no {
        for _ in 0..width {
            img.push(match r.below(4) { 0 => 0, 1 => 0xFF, 2 => 0x80, _ => r.below(256) as u8 });
        }
        le32(&mut img, field(r, 32));
        le32(&mut img, field(r, 32));
    }
    img.push(r.below(3) as u8);
    le32(&mut img, field(r, 32));
    let trail: Vec<u8> = (0..r.below(5)).map(|_| r.below(256) as u8).collect();
    synth_exec::<V, A>(id, variant, vt, &img, &trail, out);
}

fn synth_exec<V: Val, A: Auto<V>>(id: &str, variant: char, vt: &str, img: &[u8], trail: &[u8], out: &mut Out) {
    out.line(&format!("SYC {} {} {}", id, variant, vt));
    out.line(&format!("SYI {}", hex(img)));
    out.line(&format!("SYT {}", hex(trail)));
    let mut full = img.to_vec();
    full.extend_from_slice(trail);
    let res = guard(|| {
        let (a, rest) = A::deser(&full);
        let rest_ok = rest == trail;
        let raw = a.raw();
        let reser = a.ser() == img;
        (raw, rest_ok, reser)
    });
    match res {
        None => out.line("SYR PANIC"),
        Some((raw, rest_ok, reser)) => {
            out.line(&format!("SYK {} {}", raw.match_kind, raw.num_states));
            let st: Vec<String> = raw.states.iter().map(|s| format!("{},{},{},{}", s.base, s.check, s.fail, s.output_pos)).collect();
            out.line(&format!("SYST {} {}", st.len(), st.join(" ")).trim_end().to_string());
            let ou: Vec<String> = raw.outputs.iter().map(|o| format!("{},{},{}", o.value.to_dec(), o.length, o.parent)).collect();
            out.line(&format!("SYOU {} {}", ou.len(), ou.join(" ")).trim_end().to_string());
            if variant == 'C' {
                let mp: Vec<String> = raw.mapper_table.iter().map(|x| x.to_string()).collect();
                out.line(&format!("SYMP {} {}", raw.alphabet_size, mp.join(" ")).trim_end().to_string());
            }
            out.line(&format!("SYR {} {}", rest_ok as u8, reser as u8));
        }
    }
    out.line("SYEND");
}

fn synth_exec_typed<V: Val>(id: &str, variant: char, vt: &str, img: &[u8], trail: &[u8], out: &mut Out) {
    if variant == 'B' {
        synth_exec::<V, BAuto<V>>(id, variant, vt, img, trail, out)
    } else {
        synth_exec::<V, CAuto<V>>(id, variant, vt, img, trail, out)
    }
}

/// Replays one synthetic image (records `SYC` / `SYI` / `SYT` of a replay file).
fn synth_replay(id: &str, variant: char, vt: &str, img: &[u8], trail: &[u8], out: &mut Out) {
    let f = synth_dispatch!(vt, synth_exec_typed,
        "u8" => u8, "u16" => u16, "u32" => u32, "u64" => u64, "u128" => u128, "usize" => usize,
        "i8" => i8, "i16" => i16, "i32" => i32, "i64" => i64, "i128" => i128, "isize" => isize,
        "empty" => Empty, "w3" => W3);
    f(id, variant, vt, img, trail, out);
}


fn synth_typed<V: Val>(id: &str, variant: char, vt: &str, r: &mut Rng, out: &mut Out) {
    if variant == 'B' {
        synth::<V, BAuto<V>>(id, variant, vt, r, out)
    } else {
        synth::<V, CAuto<V>>(id, variant, vt, r, out)
    }
}

fn synth_case(n: usize, r: &mut Rng, out: &mut Out) {
    let vt = gen::VTYPES[n % gen::VTYPES.len()];
    let variant = if (n / gen::VTYPES.len()) % 2 == 0 { 'B' } else { 'C' };
    let f = synth_dispatch!(vt, synth_typed,
        "u8" => u8, "u16" => u16, "u32" => u32, "u64" => u64, "u128" => u128, "usize" => usize,
        "i8" => i8, "i16" => i16, "i32" => i32, "i64" => i64, "i128" => i128, "isize" => isize,
        "empty" => Empty, "w3" => W3);
    f(&format!("y{}", n), variant, vt, r, out);
}

fn permutations(idx: &mut Vec<usize>, k: usize, acc: &mut Vec<Vec<usize>>) {
    if k == idx.len() {
        acc.push(idx.clone());
        return;
    }
    for i in k..idx.len() {
        idx.swap(k, i);
        permutations(idx, k + 1, acc);
        idx.swap(k, i);
    }
}

fn run_typed<V: Val>(c: &Case, seed: u64, out: &mut Out) {
    let vals: Vec<V> = if c.entry == 'V' {
        c.pats.iter().map(|p| V::from_dec(&p.1).expect("validated before")).collect()
    } else {
        vec![]
    };
    let mut rng = Rng::new(seed);
    if c.variant == 'B' {
        exec::<V, BAuto<V>>(c, &vals, &mut rng, out);
    } else {
        exec::<V, CAuto<V>>(c, &vals, &mut rng, out);
    }
}

macro_rules! dispatch {
    ($vt:expr, $f:ident, $($arg:expr),*) => {
        match $vt {
            "u8" => $f::<u8>($($arg),*), "u16" => $f::<u16>($($arg),*),
            "u32" => $f::<u32>($($arg),*), "u64" => $f::<u64>($($arg),*),
            "u128" => $f::<u128>($($arg),*), "usize" => $f::<usize>($($arg),*),
            "i8" => $f::<i8>($($arg),*), "i16" => $f::<i16>($($arg),*),
            "i32" => $f::<i32>($($arg),*), "i64" => $f::<i64>($($arg),*),
            "i128" => $f::<i128>($($arg),*), "isize" => $f::<isize>($($arg),*),
            "empty" => $f::<Empty>($($arg),*), "w3" => $f::<W3>($($arg),*),
            _ => unreachable!("vtype validated before"),
        }
    };
}

fn values_ok<V: Val>(c: &Case) -> bool {
    c.pats.iter().all(|p| V::from_dec(&p.1).is_some())
}

/// Validates a case; returns the `ERR` text if it cannot be executed.
fn validate(c: &Case) -> Option<String> {
    if !gen::VTYPES.contains(&c.vtype.as_str())
        || !matches!(c.variant, 'B' | 'C')
        || !matches!(c.entry, 'P' | 'V')
        || c.kind > 2
        || c.nfb == 0
    {
        return Some(format!("bad-case {}", c.id));
    }
    if c.vtype == "w3" && c.entry == 'P' {
        return Some(format!("bad-case {} w3-needs-entry-V", c.id));
    }
    if c.variant == 'C' {
        let bad = |b: &[u8]| std::str::from_utf8(b).is_err();
        if c.pats.iter().any(|p| bad(&p.0)) || c.hays.iter().any(|h| bad(h)) {
            return Some(format!("bad-utf8 {}", c.id));
        }
    }
    if c.entry == 'V' && !dispatch!(c.vtype.as_str(), values_ok, c) {
        return Some(format!("bad-value {}", c.id));
    }
    None
}

fn run_case(c: &Case, out: &mut Out) {
    if let Some(e) = validate(c) {
        return out.line(&format!("ERR {}", e));
    }
    // echo the input; the seed of the execution-time randomness (PERM shuffles, sampled T rows,
    // DS trailing bytes) is a hash of the input records, so `replay` reproduces `gen` exactly
    let mut seed: u64 = 0xcbf2_9ce4_8422_2325;
    let mut emit = |s: String, out: &mut Out, print: bool| {
        for &b in s.as_bytes() {
            seed = (seed ^ u64::from(b)).wrapping_mul(0x0100_0000_01b3);
        }
        seed = (seed ^ 10).wrapping_mul(0x0100_0000_01b3);
        if print {
            out.line(&s);
        }
    };
    emit(format!("CASE {} {} {} {} {} {}", c.id, c.variant, c.kind, c.nfb, c.entry, c.vtype), out, true);
    for (p, v) in &c.pats {
        emit(format!("P {} {}", hex(p), v), out, true);
    }
    for h in &c.hays {
        emit(format!("H {}", hex(h)), out, false);
    }
    dispatch!(c.vtype.as_str(), run_typed, c, seed, out);
    out.line("END");
}

// ---------------------------------------------------------------------------------------------
// Replay parser and main
// ---------------------------------------------------------------------------------------------

fn replay(path: &str, out: &mut Out) -> Result<(), String> {
    let text = std::fs::read_to_string(path).map_err(|e| format!("cannot read {}: {}", path, e))?;
    let mut cur: Option<Case> = None;
    let mut syn: Option<(String, char, String, Vec<u8>)> = None;
    for (ln, line) in text.lines().enumerate() {
        let line = line.trim_end_matches('\r');
        let t: Vec<&str> = line.split(' ').collect();
        let bad = |out: &mut Out| out.line(&format!("ERR bad-line {}", ln + 1));
        match t[0] {
            "CASE" => {
                if cur.is_some() {
                    out.line(&format!("ERR missing-END-before-line {}", ln + 1));
                }
                cur = None;
                let parsed = (t.len() == 7)
                    .then(|| {
                        Some(Case {
                            id: t[1].to_string(),
                            variant: t[2].chars().next().filter(|_| t[2].len() == 1)?,
                            kind: t[3].parse().ok()?,
                            nfb: t[4].parse().ok()?,
                            entry: t[5].chars().next().filter(|_| t[5].len() == 1)?,
                            vtype: t[6].to_string(),
                            pats: vec![],
                            hays: vec![],
                        })
                    })
                    .flatten();
                match parsed {
                    Some(c) => cur = Some(c),
                    None => bad(out),
                }
            }
            "P" => match (&mut cur, t.len() == 3, t.get(1).and_then(|h| unhex(h))) {
                (Some(c), true, Some(b)) => c.pats.push((b, t[2].to_string())),
                (None, _, _) => {} // P outside a case (e.g. after a rejected CASE line)
                _ => {
                    bad(out);
                    cur = None;
                }
            },
            "H" => match (&mut cur, t.len() == 2, t.get(1).and_then(|h| unhex(h))) {
                (Some(c), true, Some(b)) => c.hays.push(b),
                (None, _, _) => {}
                _ => {
                    bad(out);
                    cur = None;
                }
            },
            "END" => {
                if let Some(c) = cur.take() {
                    run_case(&c, out);
                }
            }
            "SYC" if t.len() == 4 => {
                syn = Some((t[1].to_string(), t[2].chars().next().unwrap_or('B'), t[3].to_string(), vec![]));
            }
            "SYI" if t.len() == 2 => {
                if let (Some(x), Some(b)) = (&mut syn, unhex(t[1])) {
                    x.3 = b;
                }
            }
            "SYT" if t.len() == 2 => {
                if let (Some((id, v, vt, img)), Some(trail)) = (syn.take(), unhex(t[1])) {
                    if gen::VTYPES.contains(&vt.as_str()) {
                        synth_replay(&id, v, &vt, &img, &trail, out);
                    } else {
                        bad(out);
                    }
                }
            }
            _ => {} // blank lines, comments, output records
        }
    }
    if cur.is_some() {
        out.line("ERR missing-END-at-eof");
    }
    Ok(())
}

fn usage() -> ! {
    eprintln!(
        "usage: harness gen --profile <{}> --seed <u64> --cases <n> [--tcap <rows>]\n       harness replay <file> [--tcap <rows>]",
        gen::PROFILES.join("|")
    );
    std::process::exit(2);
}

fn main() {
    std::panic::set_hook(Box::new(|_| {}));
    let args: Vec<String> = std::env::args().skip(1).collect();
    let mut out = Out { w: std::io::BufWriter::with_capacity(1 << 16, std::io::stdout()) };
    match args.first().map(String::as_str) {
        Some("gen") => {
            let (mut profile, mut seed, mut cases) = ("mixed".to_string(), 0u64, 100usize);
            let mut start = 0usize;
            let mut i = 1;
            while i + 1 < args.len() {
                match args[i].as_str() {
                    "--profile" => profile = args[i + 1].clone(),
                    "--seed" => seed = args[i + 1].parse().unwrap_or_else(|_| usage()),
                    "--cases" => cases = args[i + 1].parse().unwrap_or_else(|_| usage()),
                    "--start" => start = args[i + 1].parse().unwrap_or_else(|_| usage()),
                    "--tcap" => T_CAP_SETTING.store(args[i + 1].parse().unwrap_or_else(|_| usage()), Relaxed),
                    _ => usage(),
                }
                i += 2;
            }
            if i != args.len() || !(gen::PROFILES.contains(&profile.as_str()) || profile == "synth") {
                usage();
            }
            let mut rng = Rng::new(seed);
            if profile == "synth" {
                for n in 0..cases {
                    synth_case(n, &mut rng, &mut out);
                }
                out.flush();
                return;
            }
            let (mut emitted, mut item) = (0, start);
            while emitted < cases {
                let cs = gen::item(&profile, &mut rng, item);
                item += 1;
                for c in &cs {
                    run_case(c, &mut out);
                }
                // `nfb`: --cases counts pattern sets; elsewhere it counts cases (a group of
                // related cases is always completed)
                emitted += if profile == "nfb" { 1 } else { cs.len() };
            }
        }
        Some("replay") if args.len() == 2 || (args.len() == 4 && args[2] == "--tcap") => {
            if args.len() == 4 {
                T_CAP_SETTING.store(args[3].parse().unwrap_or_else(|_| usage()), Relaxed);
            }
            if let Err(e) = replay(&args[1], &mut out) {
                out.line(&format!("ERR {}", e));
                std::process::exit(2);
            }
        }
        _ => usage(),
    }
    out.flush();
}

/-
Model of the construction pipeline after the sparse NFA exists: the free-slot bookkeeping
(src/build_helper.rs), the code mapper (src/charwise/mapper.rs) and both double-array layout
passes (src/bytewise/builder.rs, src/charwise/builder.rs). Everything is a function of the trie
built by `Daac.buildTrie`, the NFA of `Daac.buildNfa` and the configuration, which is what makes
construction order-independent in the model.

Loops are structural or fuel-bounded recursions; asserts, `unwrap`s and out-of-range `Vec`
indexing are `BuildErr.panic`. Trie nodes are named by their path (`idx : path ↦ array index`
replaces `state_id_map`). Tied to the implementation by suite K-build (identical tables).
-/
import Daac.Model.Trie
import Daac.Model.Nfa
namespace Daac
variable {V : Type}

def rootId : Nat := Gen.rootStateId
def deadId : Nat := Gen.deadStateId

/-! ### `BuildHelper` -/

structure Helper where
  next : Array Nat
  prev : Array Nat
  usedBase : Array Bool
  usedIndex : Array Bool
  blockLen : Nat
  nfb : Nat
  numBlocks : Nat
  head : Option Nat

def u32Max : Nat := 4294967295

def Helper.new (blockLen nfb : Nat) : Except BuildErr Helper :=
  let cap := blockLen * nfb
  if cap > u32Max then .error .automatonScale
  else if cap = 0 then .error (.panic "assert_ne!(capacity, 0)")
  else .ok ⟨Array.replicate cap 0, Array.replicate cap 0, Array.replicate cap false,
            Array.replicate cap false, blockLen, nfb, 0, none⟩

def Helper.cap (h : Helper) : Nat := h.next.size
def Helper.numElements (h : Helper) : Nat := h.numBlocks * h.blockLen
def Helper.activeStart (h : Helper) : Nat := h.numBlocks - h.nfb
def Helper.droppedBlock (h : Helper) : Option Nat :=
  if h.cap ≤ h.numElements then some h.activeStart else none

/-- `offset`: asserts that `idx` is in the active index range. -/
def Helper.off (h : Helper) (idx : Nat) : Except BuildErr Nat :=
  if h.activeStart * h.blockLen ≤ idx && idx < h.numBlocks * h.blockLen then .ok (idx % h.cap)
  else .error (.panic "assert!(active_index_range().contains(&idx))")

def Helper.isUsedBase (h : Helper) (b : Nat) : Except BuildErr Bool :=
  match h.off b with
  | .error e => .error e
  | .ok o => .ok (h.usedBase.getD o false)

def Helper.isUsedIndex (h : Helper) (i : Nat) : Except BuildErr Bool :=
  match h.off i with
  | .error e => .error e
  | .ok o => .ok (h.usedIndex.getD o false)

def Helper.useBase (h : Helper) (b : Nat) : Except BuildErr Helper :=
  match h.off b with
  | .error e => .error e
  | .ok o => .ok { h with usedBase := h.usedBase.setIfInBounds o true }

/-- `use_index`: mark used, unlink from the circular vacant list, advance the head if needed. -/
def Helper.useIndex (h : Helper) (idx : Nat) : Except BuildErr Helper :=
  match h.off idx with
  | .error e => .error e
  | .ok o =>
    if h.usedIndex.getD o false then .error (.panic "debug_assert!(!is_used_index(idx))") else
    let nx := h.next.getD o 0
    let pv := h.prev.getD o 0
    match h.off pv with
    | .error e => .error e
    | .ok po =>
      match h.off nx with
      | .error e => .error e
      | .ok no =>
        match h.head with
        | none => .error (.panic "head_idx.unwrap()")
        | some hd =>
          .ok { h with usedIndex := h.usedIndex.setIfInBounds o true,
                       next := h.next.setIfInBounds po nx,
                       prev := h.prev.setIfInBounds no pv,
                       head := if hd = idx then (if nx ≠ idx then some nx else none) else some hd }

/-- The `while let Some(head_idx)` loop of `push_block`: mark the leftovers of the closed block
(vacant indices below `endIdx`) used. -/
def Helper.closeLoop : Nat → Nat → Helper → Except BuildErr Helper
  | 0, _, _ => .error (.panic "closing a block does not terminate")
  | fuel + 1, endIdx, h =>
    match h.head with
    | none => .ok h
    | some hd =>
      if endIdx ≤ hd then .ok h else
      match h.useIndex hd with
      | .error e => .error e
      | .ok h' => h'.closeLoop fuel endIdx

/-- The `for idx in old_len..new_len` loop of `push_block`: reset the items of the new block and
chain them `idx-1 ← idx → idx+1`. -/
def Helper.resetLoop : Nat → Nat → Helper → Except BuildErr Helper
  | 0, _, h => .ok h
  | n + 1, idx, h =>
    match h.off idx with
    | .error e => .error e
    | .ok o =>
      Helper.resetLoop n (idx + 1)
        { h with next := h.next.setIfInBounds o (idx + 1),
                 prev := h.prev.setIfInBounds o (if idx = 0 then u32Max else idx - 1),
                 usedBase := h.usedBase.setIfInBounds o false,
                 usedIndex := h.usedIndex.setIfInBounds o false }

/-- `push_block`. -/
def Helper.pushBlock (h0 : Helper) : Except BuildErr Helper :=
  if h0.numElements > u32Max - h0.blockLen then .error .automatonScale else
  let closed : Except BuildErr Helper :=
    match h0.droppedBlock with
    | some cb => h0.closeLoop (h0.blockLen + 1) ((cb + 1) * h0.blockLen)
    | none => .ok h0
  match closed with
  | .error e => .error e
  | .ok h1 =>
    let oldLen := h1.numElements
    let newLen := oldLen + h1.blockLen
    match Helper.resetLoop h1.blockLen oldLen { h1 with numBlocks := h1.numBlocks + 1 } with
    | .error e => .error e
    | .ok h2 =>
      match h2.head with
      | some hd =>
        match h2.off hd, h2.off oldLen, h2.off (newLen - 1) with
        | .ok ho, .ok oo, .ok no =>
          let tail := h2.prev.getD ho 0
          match h2.off tail with
          | .error e => .error e
          | .ok to =>
            let prev1 := h2.prev.setIfInBounds oo tail
            let next1 := h2.next.setIfInBounds to oldLen
            let next2 := next1.setIfInBounds no hd
            let prev2 := prev1.setIfInBounds ho (newLen - 1)
            .ok { h2 with next := next2, prev := prev2 }
        | .error e, _, _ => .error e
        | _, .error e, _ => .error e
        | _, _, .error e => .error e
      | none =>
        match h2.off oldLen, h2.off (newLen - 1) with
        | .ok oo, .ok no =>
          .ok { h2 with prev := h2.prev.setIfInBounds oo (newLen - 1),
                        next := h2.next.setIfInBounds no oldLen,
                        head := some oldLen }
        | .error e, _ => .error e
        | _, .error e => .error e

/-- The indices `vacant_iter()` yields, in order (fuel = capacity + 1). -/
def Helper.vacantFrom (h : Helper) (hd : Nat) : Nat → Nat → Except BuildErr (List Nat)
  | 0, _ => .ok []
  | fuel + 1, cur =>
    match h.off cur with
    | .error e => .error e
    | .ok o =>
      let nx := h.next.getD o 0
      if nx = hd then .ok [cur] else
      match h.vacantFrom hd fuel nx with
      | .error e => .error e
      | .ok l => .ok (cur :: l)

def Helper.vacant (h : Helper) : Except BuildErr (List Nat) :=
  match h.head with
  | none => .ok []
  | some hd => h.vacantFrom hd (h.cap + 1) hd

/-- `unused_base_in_block`: the first BASE value of the block that no state uses. -/
def Helper.unusedBaseFrom (h : Helper) : Nat → Nat → Except BuildErr (Option Nat)
  | 0, _ => .ok none
  | n + 1, base =>
    match h.isUsedBase base with
    | .error e => .error e
    | .ok false => .ok (some base)
    | .ok true => h.unusedBaseFrom n (base + 1)

def Helper.unusedBaseInBlock (h : Helper) (b : Nat) : Except BuildErr (Option Nat) :=
  h.unusedBaseFrom h.blockLen (b * h.blockLen)

/-! ### Code mapper -/

structure Mapper where
  table : Array Nat
  alphaSize : Nat

/-- Insertion into a list sorted by (frequency descending, code point ascending). -/
def insertFreq (x : Nat × Nat) : List (Nat × Nat) → List (Nat × Nat)
  | [] => [x]
  | y :: r => if x.2 > y.2 || (x.2 == y.2 && x.1 < y.1) then x :: y :: r else y :: insertFreq x r

/-- `CodeMapper::new(freqs)` where `freqs[c]` = number of occurrences of `c` in the patterns. -/
def Mapper.build (P : List (LPat V)) : Mapper := Id.run do
  let maxc := P.foldl (fun m p => p.key.foldl max m) 0
  let anyChar := P.any (fun p => !p.key.isEmpty)
  let len := if anyChar then maxc + 1 else 0
  let mut freqs : Array Nat := Array.replicate len 0
  for p in P do
    for c in p.key do
      freqs := freqs.modify c (· + 1)
  let mut sorted : List (Nat × Nat) := []
  for c in [0:len] do
    if freqs[c]! != 0 then sorted := insertFreq (c, freqs[c]!) sorted
  let mut table : Array Nat := Array.replicate len invalidCode
  let mut i := 0
  for x in sorted do
    table := table.set! x.1 i
    i := i + 1
  return ⟨table, sorted.length⟩

def Mapper.get (m : Mapper) (c : Nat) : Option Nat :=
  match m.table[c]? with
  | some code => if code = invalidCode then none else some code
  | none => none

def insertByCode (x : Nat × Nat) : List (Nat × Nat) → List (Nat × Nat)
  | [] => [x]
  | y :: r => if x.1 < y.1 then x :: y :: r else y :: insertByCode x r

/-! ### Layout (both variants) -/

structure Cfg where
  kind : Nat
  nfb : Nat

def u24Max : Nat := Gen.u24Max
def bytewiseBlockLen : Nat := Gen.blockLen

def stDefaultB : St := ⟨0, 0, 0, 0⟩
/-- `State::default()` of the char-wise automaton: CHECK and FAIL are the dead index. -/
def stDefaultC : St :=
  ⟨Gen.charStateDefault.1, Gen.charStateDefault.2.1, Gen.charStateDefault.2.2.1, Gen.charStateDefault.2.2.2⟩

def stDefault (v : Variant) : St :=
  match v with
  | .bytewise => stDefaultB
  | .charwise => stDefaultC

/-- State of the layout pass: the array, the helper, and `state_id_map` (by path). -/
structure Lay where
  states : Array St
  h : Helper
  idx : Std.HashMap (List Nat) Nat

/-- `self.states[i].f(..)` with Rust's bounds-checked indexing. -/
def setSt (states : Array St) (i : Nat) (f : St → St) : Except BuildErr (Array St) :=
  if i < states.size then .ok (states.modify i f) else .error (.panic "states[i]: index out of bounds")

/-- The loop body of `remove_invalid_checks` for the labels `c, c+1, …`. -/
def sanitiseLoop (h : Helper) (ub : Nat) : Nat → Nat → Array St → Except BuildErr (Array St)
  | 0, _, states => .ok states
  | n + 1, c, states =>
    let i := ub ^^^ c
    let vacant : Except BuildErr Bool :=
      if i = rootIdx ∨ i = deadIdx then .ok true else
      match h.isUsedIndex i with
      | .error e => .error e
      | .ok u => .ok (!u)
    match vacant with
    | .error e => .error e
    | .ok false => sanitiseLoop h ub n (c + 1) states
    | .ok true =>
      match setSt states i (fun s => { s with check := c }) with
      | .error e => .error e
      | .ok states' => sanitiseLoop h ub n (c + 1) states'

/-- `remove_invalid_checks(block_idx)`. -/
def removeInvalidChecks (states : Array St) (h : Helper) (b : Nat) : Except BuildErr (Array St) :=
  match h.unusedBaseInBlock b with
  | .error e => .error e
  | .ok none => .ok states
  | .ok (some ub) => sanitiseLoop h ub 256 0 states

/-- `check_valid_base` (byte-wise: the BASE must be unused) / `verify_base` (char-wise). -/
def allUnused (h : Helper) (b : Nat) : List Nat → Except BuildErr Bool
  | [] => .ok true
  | c :: cs =>
    match h.isUsedIndex (b ^^^ c) with
    | .error e => .error e
    | .ok true => .ok false
    | .ok false => allUnused h b cs

def baseOk (v : Variant) (h : Helper) (b : Nat) (codes : List Nat) : Except BuildErr Bool :=
  match v with
  | .bytewise =>
    match h.isUsedBase b with
    | .error e => .error e
    | .ok true => .ok false
    | .ok false =>
      match allUnused h b codes with
      | .error e => .error e
      | .ok r => .ok (r && b != 0)
  | .charwise =>
    match allUnused h b codes with
    | .error e => .error e
    | .ok r => .ok (r && b != 0)

/-- The `for idx in helper.vacant_iter()` loop of `find_base`. -/
def findBaseIn (v : Variant) (h : Helper) (c0 : Nat) (codes : List Nat) : List Nat → Except BuildErr (Option Nat)
  | [] => .ok none
  | i :: r =>
    match baseOk v h (i ^^^ c0) codes with
    | .error e => .error e
    | .ok true => .ok (some (i ^^^ c0))
    | .ok false => findBaseIn v h c0 codes r

/-- `find_base`: a valid BASE among the vacant indices, else the fallback just past the array. -/
def findBase (v : Variant) (lay : Lay) (codes : List Nat) : Except BuildErr Nat :=
  let c0 := codes.headD 0
  match lay.h.vacant with
  | .error e => .error e
  | .ok vac =>
    match findBaseIn v lay.h c0 codes vac with
    | .error e => .error e
    | .ok (some b) => .ok b
    | .ok none =>
      match v with
      | .bytewise => .ok lay.states.size
      | .charwise => .ok (lay.states.size ^^^ c0)

/-- `extend_array`. -/
def extendArray (v : Variant) (lay : Lay) : Except BuildErr Lay :=
  if lay.states.size > u32Max - lay.h.blockLen then .error .automatonScale else
  let sanitised : Except BuildErr (Array St) :=
    match v, lay.h.droppedBlock with
    | .bytewise, some cb => removeInvalidChecks lay.states lay.h cb
    | _, _ => .ok lay.states
  match sanitised with
  | .error e => .error e
  | .ok states =>
    match lay.h.pushBlock with
    | .error e => .error e
    | .ok h' => .ok { lay with states := states ++ Array.replicate lay.h.blockLen (stDefault v), h := h' }

/-- The `for (c, child) in edges` loop: claim the child's slot, write its CHECK, record its index. -/
def placeChildren (v : Variant) (sidx base : Nat) : List (Nat × List Nat) → Lay → Except BuildErr Lay
  | [], lay => .ok lay
  | (c, child) :: rest, lay =>
    let ci := base ^^^ c
    match lay.h.useIndex ci with
    | .error e => .error e
    | .ok h' =>
      let chk := match v with
        | .bytewise => c
        | .charwise => sidx
      match setSt lay.states ci (fun st => { st with check := chk }) with
      | .error e => .error e
      | .ok states' => placeChildren v sidx base rest ⟨states', h', lay.idx.insert child ci⟩

/-- The labels of the edges of `u` with their codes, in the order the builder visits them:
label order for the byte-wise builder, `mapped.sort_by(code)` for the char-wise one. -/
def insertByCodeP (x : Nat × List Nat) : List (Nat × List Nat) → List (Nat × List Nat)
  | [] => [x]
  | y :: r => if x.1 < y.1 then x :: y :: r else y :: insertByCodeP x r

def edgeCodes (v : Variant) (m : Mapper) (t : Trie V) (u : List Nat) : Except BuildErr (List (Nat × List Nat)) :=
  match v with
  | .bytewise => .ok ((t.childPaths u).map fun w => (w.getLastD 0, w))
  | .charwise =>
    (t.childPaths u).reverse.foldl (fun (acc : Except BuildErr (List (Nat × List Nat))) (w : List Nat) =>
      match acc, m.get (w.getLastD 0) with
      | .error e, _ => .error e
      | .ok l, some code => .ok (insertByCodeP (code, w) l)
      | .ok _, none => .error (.panic "mapper.get(label).unwrap()")) (.ok [])

/-- One iteration of `while let Some(state_id) = stack.pop()`. -/
def layoutStep (v : Variant) (m : Mapper) (t : Trie V) (u : List Nat) (stack : List (List Nat)) (lay : Lay) :
    Except BuildErr (List (List Nat) × Lay) :=
  match edgeCodes v m t u with
  | .error e => .error e
  | .ok [] => .ok (stack, lay)
  | .ok edges =>
    let sidx := lay.idx.getD u deadIdx
    let codes := edges.map (·.1)
    match findBase v lay codes with
    | .error e => .error e
    | .ok base =>
      let extended : Except BuildErr Lay :=
        if lay.states.size ≤ base then extendArray v lay else .ok lay
      match extended with
      | .error e => .error e
      | .ok lay1 =>
        match placeChildren v sidx base edges lay1 with
        | .error e => .error e
        | .ok lay2 =>
          match setSt lay2.states sidx (fun st => { st with base := base }) with
          | .error e => .error e
          | .ok states' =>
            let helper : Except BuildErr Helper :=
              match v with
              | .bytewise => lay2.h.useBase base
              | .charwise => .ok lay2.h
            match helper with
            | .error e => .error e
            | .ok h' => .ok ((edges.map (·.2)).reverse ++ stack, { lay2 with states := states', h := h' })

/-- The DFS loop over the stack of state ids. -/
def layoutLoop (v : Variant) (m : Mapper) (t : Trie V) : Nat → List (List Nat) → Lay → Except BuildErr Lay
  | _, [], lay => .ok lay
  | 0, _ :: _, _ => .error (.panic "layout loop does not terminate")
  | fuel + 1, u :: stack, lay =>
    match layoutStep v m t u stack lay with
    | .error e => .error e
    | .ok (stack', lay') => layoutLoop v m t fuel stack' lay'

/-- "Sets fail & output_pos values": one write per trie node. -/
def setFailOut (v : Variant) (nfa : Nfa V) : List (List Nat) → Lay → Except BuildErr Lay
  | [], lay => .ok lay
  | u :: rest, lay =>
    let i := lay.idx.getD u deadIdx
    let op := nfa.out.opos.getD u 0
    if v = .bytewise ∧ op > u24Max then .error .automatonScale else
    let f := match nfa.fail.get u with
      | .dead => deadIdx
      | .node w => lay.idx.getD w deadIdx
    match setSt lay.states i (fun s => { s with opos := op, fail := f }) with
    | .error e => .error e
    | .ok states' => setFailOut v nfa rest { lay with states := states' }

/-- The final `for closed_block_idx in helper.active_block_range()` loop (byte-wise only). -/
def sanitiseBlocks (h : Helper) : Nat → Nat → Array St → Except BuildErr (Array St)
  | 0, _, states => .ok states
  | n + 1, b, states =>
    match removeInvalidChecks states h b with
    | .error e => .error e
    | .ok states' => sanitiseBlocks h n (b + 1) states'

/-- `init_array` + `build_double_array`. -/
def buildLayout (v : Variant) (cfg : Cfg) (m : Mapper) (t : Trie V) (nfa : Nfa V) : Except BuildErr (Array St) :=
  let blockLen := match v with
    | .bytewise => bytewiseBlockLen
    | .charwise => max 2 (Nat.nextPowerOfTwo m.alphaSize)
  match Helper.new blockLen cfg.nfb with
  | .error e => .error e
  | .ok h0 =>
    match h0.pushBlock with
    | .error _ => .error (.panic "push_block().unwrap()")
    | .ok h1 =>
      match h1.useIndex rootIdx with
      | .error e => .error e
      | .ok h2 =>
        match h2.useIndex deadIdx with
        | .error e => .error e
        | .ok h3 =>
          let lay0 : Lay := ⟨Array.replicate blockLen (stDefault v), h3, ({} : Std.HashMap (List Nat) Nat).insert [] rootIdx⟩
          match layoutLoop v m t (t.size + 1) [[]] lay0 with
          | .error e => .error e
          | .ok lay1 =>
            match setFailOut v nfa (t.paths []) lay1 with
            | .error e => .error e
            | .ok lay2 =>
              match v with
              | .charwise => .ok lay2.states
              | .bytewise =>
                sanitiseBlocks lay2.h (lay2.h.numBlocks - lay2.h.activeStart) lay2.h.activeStart lay2.states

/-! ### The whole pipeline -/

/-- `build_with_values` of either builder, from label-level patterns. -/
def buildDA (variant : Variant) (cfg : Cfg) (P : List (LPat V)) : Except BuildErr (DA V) :=
  if cfg.nfb = 0 then .error (.panic "assert!(n >= 1)") else
  -- char-wise: an insertion error returns before the mapper exists; otherwise the mapper is
  -- built from *all* patterns (shadowed ones included), then the emptiness test runs
  match NfaAcc.init.addAll (cfg.kind == 2) P with
  | .error e => .error e
  | .ok acc =>
    let mapper := match variant with
      | .bytewise => (⟨#[], 0⟩ : Mapper)
      | .charwise => Mapper.build P
    if acc.len = 0 then .error .invalidArgument else
    if variant = .bytewise ∧ acc.len > u24Max then .error .automatonScale else
    let nfa := buildNfa acc.trie (cfg.kind != 0)
    match buildLayout variant cfg mapper acc.trie nfa with
    | .error e => .error e
    | .ok states =>
      .ok { variant := variant, states := states, outputs := nfa.out.outs, mapTable := mapper.table,
            alphaSize := mapper.alphaSize, kind := cfg.kind, numStates := acc.trie.size }

/-! ### The entry point `build` (values are the input positions) -/

/-- `patterns.enumerate().map(|(i, p)| V::try_from(i).map(|i| (p, i))).collect::<Result<_,_>>()`:
`conv i` is `V::try_from(i)`; the first failing position aborts the collection. An input is a
pattern's labels and its byte length. -/
def convAll (conv : Nat → Option V) : Nat → List (List Nat × Nat) → Option (List (LPat V))
  | _, [] => some []
  | i, (k, b) :: r =>
    match conv i with
    | none => none
    | some v =>
      match convAll conv (i + 1) r with
      | none => none
      | some P => some (⟨k, b, v⟩ :: P)

/-- `build` of either builder: convert the positions, then `build_with_values`. -/
def buildPositions (conv : Nat → Option V) (variant : Variant) (cfg : Cfg)
    (K : List (List Nat × Nat)) : Except BuildErr (DA V) :=
  match convAll conv 0 K with
  | none => .error .invalidConversion
  | some P => buildDA variant cfg P

end Daac

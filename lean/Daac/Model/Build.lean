/-
Model of the construction pipeline after pattern insertion: fail links and output lists
(src/nfa_builder.rs:123-225), the free-slot bookkeeping (src/build_helper.rs), the code mapper
(src/charwise/mapper.rs) and both double-array layout passes (src/bytewise/builder.rs,
src/charwise/builder.rs). All of it is a function of the trie built by `Daac.buildTrie` (and of
the configuration), which is what makes construction order-independent in the model.

This file is an executable transcription (loops with explicit fuel, asserts and `unwrap`s as
`BuildErr.panic`); it is tied to the implementation by suite K-build (identical tables).
-/
import Daac.Model.Trie
import Daac.Model.Nfa
namespace Daac
variable {V : Type}

/-- Flattened trie node: children `(label, id)` in label order and the registered output. -/
structure FNode (V : Type) where
  edges : Array (Nat × Nat)
  out : Option (V × Nat)

instance {V : Type} : Inhabited (FNode V) := ⟨⟨#[], none⟩⟩

def rootId : Nat := Gen.rootStateId
def deadId : Nat := Gen.deadStateId

mutual
def Trie.flattenInto : Trie V → Array (FNode V) → Nat × Array (FNode V)
  | .node out kids, arr =>
    let id := arr.size
    let arr := arr.push ⟨#[], out⟩
    let r := kids.flattenInto arr #[]
    (id, r.2.set! id ⟨r.1, out⟩)
def Kids.flattenInto : Kids V → Array (FNode V) → Array (Nat × Nat) →
    Array (Nat × Nat) × Array (FNode V)
  | .nil, arr, es => (es, arr)
  | .cons l t r, arr, es =>
    let p := t.flattenInto arr
    r.flattenInto p.2 (es.push (l, p.1))
end

/-- Nodes in pre-order with the root at id 0 and the (childless) dead state at id 1. -/
def Trie.flatten (t : Trie V) : Array (FNode V) :=
  let arr : Array (FNode V) := #[⟨#[], t.out⟩, ⟨#[], none⟩]
  let r := t.kids.flattenInto arr #[]
  r.2.set! 0 ⟨r.1, t.out⟩

def childId (ns : Array (FNode V)) (s c : Nat) : Option Nat :=
  match ns[s]? with
  | some n => (n.edges.find? (fun e => e.1 == c)).map (·.2)
  | none => none

/-- The fail links and output positions of `buildNfa`, re-indexed by the ids of `Trie.flatten`
(pre-order, dead state at id 1): what the layout passes read. -/
def nfaArrays (t : Trie V) (nfa : Nfa V) : Array Nat × Array Nat := Id.run do
  let paths := (t.paths []).toArray
  let n := paths.size + 1
  let mut idOf : Std.HashMap (List Nat) Nat := {}
  for k in [0:paths.size] do
    idOf := idOf.insert paths[k]! (if k = 0 then rootId else k + 1)
  let mut fail : Array Nat := Array.replicate n rootId
  let mut opos : Array Nat := Array.replicate n 0
  for k in [0:paths.size] do
    let p := paths[k]!
    let i := if k = 0 then rootId else k + 1
    let f := match nfa.fail.get p with
      | .dead => deadId
      | .node u => idOf.getD u rootId
    fail := fail.set! i f
    opos := opos.set! i (nfa.out.opos.getD p 0)
  return (fail, opos)

/-! ### `BuildHelper` -/

structure Helper where
  next : Array Nat
  prev : Array Nat
  usedBase : Array Bool
  usedIndex : Array Bool
  blockLen : Nat
  nfb : Nat
  numBlocks : Nat
  head : Option Nat

def u32Max : Nat := 4294967295

def Helper.new (blockLen nfb : Nat) : Except BuildErr Helper :=
  let cap := blockLen * nfb
  if cap > u32Max then .error .automatonScale
  else if cap = 0 then .error (.panic "assert_ne!(capacity, 0)")
  else .ok ⟨Array.replicate cap 0, Array.replicate cap 0, Array.replicate cap false,
            Array.replicate cap false, blockLen, nfb, 0, none⟩

def Helper.cap (h : Helper) : Nat := h.next.size
def Helper.numElements (h : Helper) : Nat := h.numBlocks * h.blockLen
def Helper.activeStart (h : Helper) : Nat := h.numBlocks - h.nfb
def Helper.droppedBlock (h : Helper) : Option Nat :=
  if h.cap ≤ h.numElements then some h.activeStart else none

/-- `offset`: asserts that `idx` is in the active index range. -/
def Helper.off (h : Helper) (idx : Nat) : Except BuildErr Nat :=
  if h.activeStart * h.blockLen ≤ idx && idx < h.numBlocks * h.blockLen then .ok (idx % h.cap)
  else .error (.panic "assert!(active_index_range().contains(&idx))")

def Helper.isUsedBase (h : Helper) (b : Nat) : Except BuildErr Bool := do
  return h.usedBase[← h.off b]!
def Helper.isUsedIndex (h : Helper) (i : Nat) : Except BuildErr Bool := do
  return h.usedIndex[← h.off i]!
def Helper.useBase (h : Helper) (b : Nat) : Except BuildErr Helper := do
  return { h with usedBase := h.usedBase.set! (← h.off b) true }

def Helper.useIndex (h : Helper) (idx : Nat) : Except BuildErr Helper := do
  let o ← h.off idx
  if h.usedIndex[o]! then throw (.panic "debug_assert!(!is_used_index(idx))")
  let nx := h.next[o]!
  let pv := h.prev[o]!
  let h := { h with usedIndex := h.usedIndex.set! o true }
  let po ← h.off pv
  let h := { h with next := h.next.set! po nx }
  let no ← h.off nx
  let h := { h with prev := h.prev.set! no pv }
  match h.head with
  | none => throw (.panic "head_idx.unwrap()")
  | some hd => return if hd == idx then { h with head := if nx != idx then some nx else none } else h

def Helper.pushBlock (h0 : Helper) : Except BuildErr Helper := do
  let mut h := h0
  if h.numElements > u32Max - h.blockLen then throw .automatonScale
  match h.droppedBlock with
  | some cb =>
    let endIdx := (cb + 1) * h.blockLen
    for _ in [0:h.blockLen + 1] do
      match h.head with
      | none => break
      | some hd =>
        if endIdx ≤ hd then break
        h ← h.useIndex hd
  | none => pure ()
  let oldLen := h.numElements
  let newLen := oldLen + h.blockLen
  h := { h with numBlocks := h.numBlocks + 1 }
  for idx in [oldLen:newLen] do
    let o ← h.off idx
    h := { h with next := h.next.set! o (idx + 1),
                  prev := h.prev.set! o (if idx = 0 then u32Max else idx - 1),
                  usedBase := h.usedBase.set! o false, usedIndex := h.usedIndex.set! o false }
  match h.head with
  | some hd =>
    let tail := h.prev[← h.off hd]!
    h := { h with prev := h.prev.set! (← h.off oldLen) tail }
    h := { h with next := h.next.set! (← h.off tail) oldLen }
    h := { h with next := h.next.set! (← h.off (newLen - 1)) hd }
    h := { h with prev := h.prev.set! (← h.off hd) (newLen - 1) }
  | none =>
    h := { h with prev := h.prev.set! (← h.off oldLen) (newLen - 1) }
    h := { h with next := h.next.set! (← h.off (newLen - 1)) oldLen }
    h := { h with head := some oldLen }
  return h

/-- The indices `vacant_iter()` yields, in order. -/
def Helper.vacant (h : Helper) : Except BuildErr (Array Nat) := do
  let mut res : Array Nat := #[]
  match h.head with
  | none => return res
  | some hd =>
    let mut cur := hd
    for _ in [0:h.cap + 1] do
      res := res.push cur
      let nx := h.next[← h.off cur]!
      if nx == hd then break
      cur := nx
    return res

def Helper.unusedBaseInBlock (h : Helper) (b : Nat) : Except BuildErr (Option Nat) := do
  for base in [b * h.blockLen:(b + 1) * h.blockLen] do
    if !(← h.isUsedBase base) then return some base
  return none

/-! ### Byte-wise layout -/

structure Cfg where
  kind : Nat
  nfb : Nat

def u24Max : Nat := Gen.u24Max
def bytewiseBlockLen : Nat := Gen.blockLen

def stDefaultB : St := ⟨0, 0, 0, 0⟩
/-- `State::default()` of the char-wise automaton: CHECK and FAIL are the dead index. -/
def stDefaultC : St :=
  ⟨Gen.charStateDefault.1, Gen.charStateDefault.2.1, Gen.charStateDefault.2.2.1, Gen.charStateDefault.2.2.2⟩

def removeInvalidChecks (states : Array St) (h : Helper) (b : Nat) : Except BuildErr (Array St) := do
  let mut states := states
  match ← h.unusedBaseInBlock b with
  | none => return states
  | some ub =>
    for c in [0:256] do
      let idx := ub ^^^ c
      let vacant ← if idx == rootIdx || idx == deadIdx then pure true else do pure (!(← h.isUsedIndex idx))
      if vacant then
        if idx < states.size then states := states.modify idx fun s => { s with check := c }
        else throw (.panic "states[idx] out of range")
    return states

/-- Final pass shared by both variants: fail and output position of every state. -/
def setFailsAndOutputs (states : Array St) (idMap fail opos : Array Nat) (limitOpos : Bool) :
    Except BuildErr (Array St) := do
  let mut states := states
  for i in [0:idMap.size] do
    if i == deadId then continue
    let idx := idMap[i]!
    let op := opos[i]!
    if limitOpos && op > u24Max then throw .automatonScale
    let f := fail[i]!
    let fidx := if f == deadId then deadIdx else idMap[f]!
    if idx < states.size then states := states.modify idx fun s => { s with opos := op, fail := fidx }
    else throw (.panic "states[idx] out of range")
  return states

def buildBytewise (cfg : Cfg) (ns : Array (FNode V)) (fail opos : Array Nat) :
    Except BuildErr (Array St) := do
  let mut states : Array St := Array.replicate bytewiseBlockLen stDefaultB
  let mut h ← Helper.new bytewiseBlockLen cfg.nfb
  h ← h.pushBlock
  h ← h.useIndex rootIdx
  h ← h.useIndex deadIdx
  let mut idMap : Array Nat := Array.replicate ns.size deadIdx
  idMap := idMap.set! rootId rootIdx
  let mut stack : Array Nat := #[rootId]
  for _ in [0:ns.size + 1] do
    if stack.isEmpty then break
    let s := stack.back!
    stack := stack.pop
    let sidx := idMap[s]!
    let edges := ns[s]!.edges
    if edges.isEmpty then continue
    let l0 := edges[0]!.1
    -- find_base
    let mut base := states.size
    for idx in ← h.vacant do
      let b := idx ^^^ l0
      if ← h.isUsedBase b then continue
      let mut ok := true
      for e in edges do
        if ← h.isUsedIndex (b ^^^ e.1) then ok := false; break
      if ok && b != 0 then base := b; break
    if base ≥ states.size then
      -- extend_array
      if states.size > u32Max - bytewiseBlockLen then throw .automatonScale
      match h.droppedBlock with
      | some cb => states ← removeInvalidChecks states h cb
      | none => pure ()
      h ← h.pushBlock
      states := states ++ Array.replicate bytewiseBlockLen stDefaultB
    for e in edges do
      let ci := base ^^^ e.1
      h ← h.useIndex ci
      if ci < states.size then states := states.modify ci fun st => { st with check := e.1 }
      else throw (.panic "states[child_idx] out of range")
      idMap := idMap.set! e.2 ci
      stack := stack.push e.2
    states := states.modify sidx fun st => { st with base := base }
    h ← h.useBase base
  states ← setFailsAndOutputs states idMap fail opos true
  for b in [h.activeStart:h.numBlocks] do
    states ← removeInvalidChecks states h b
  return states

/-! ### Code mapper and char-wise layout -/

structure Mapper where
  table : Array Nat
  alphaSize : Nat

/-- Insertion into a list sorted by (frequency descending, code point ascending). -/
def insertFreq (x : Nat × Nat) : List (Nat × Nat) → List (Nat × Nat)
  | [] => [x]
  | y :: r => if x.2 > y.2 || (x.2 == y.2 && x.1 < y.1) then x :: y :: r else y :: insertFreq x r

/-- `CodeMapper::new(freqs)` where `freqs[c]` = number of occurrences of `c` in the patterns. -/
def Mapper.build (P : List (LPat V)) : Mapper := Id.run do
  let maxc := P.foldl (fun m p => p.key.foldl max m) 0
  let anyChar := P.any (fun p => !p.key.isEmpty)
  let len := if anyChar then maxc + 1 else 0
  let mut freqs : Array Nat := Array.replicate len 0
  for p in P do
    for c in p.key do
      freqs := freqs.modify c (· + 1)
  let mut sorted : List (Nat × Nat) := []
  for c in [0:len] do
    if freqs[c]! != 0 then sorted := insertFreq (c, freqs[c]!) sorted
  let mut table : Array Nat := Array.replicate len invalidCode
  let mut i := 0
  for x in sorted do
    table := table.set! x.1 i
    i := i + 1
  return ⟨table, sorted.length⟩

def Mapper.get (m : Mapper) (c : Nat) : Option Nat :=
  match m.table[c]? with
  | some code => if code = invalidCode then none else some code
  | none => none

def insertByCode (x : Nat × Nat) : List (Nat × Nat) → List (Nat × Nat)
  | [] => [x]
  | y :: r => if x.1 < y.1 then x :: y :: r else y :: insertByCode x r

def buildCharwise (cfg : Cfg) (m : Mapper) (ns : Array (FNode V)) (fail opos : Array Nat) :
    Except BuildErr (Array St) := do
  let blockLen := max 2 (Nat.nextPowerOfTwo m.alphaSize)
  let mut states : Array St := Array.replicate blockLen stDefaultC
  let mut h ← Helper.new blockLen cfg.nfb
  h ← h.pushBlock
  h ← h.useIndex rootIdx
  h ← h.useIndex deadIdx
  let mut idMap : Array Nat := Array.replicate ns.size deadIdx
  idMap := idMap.set! rootId rootIdx
  let mut stack : Array Nat := #[rootId]
  for _ in [0:ns.size + 1] do
    if stack.isEmpty then break
    let s := stack.back!
    stack := stack.pop
    let sidx := idMap[s]!
    let edges := ns[s]!.edges
    if edges.isEmpty then continue
    let mut mapped : List (Nat × Nat) := []
    for e in edges.reverse do
      match m.get e.1 with
      | some code => mapped := insertByCode (code, e.2) mapped
      | none => throw (.panic "mapper.get(label).unwrap()")
    let c0 := (mapped.head?.map (·.1)).getD 0
    let mut base := states.size ^^^ c0
    for idx in ← h.vacant do
      let b := idx ^^^ c0
      let mut ok := true
      for e in mapped do
        if ← h.isUsedIndex (b ^^^ e.1) then ok := false; break
      if ok && b != 0 then base := b; break
    if states.size ≤ base then
      if states.size > u32Max - blockLen then throw .automatonScale
      h ← h.pushBlock
      states := states ++ Array.replicate blockLen stDefaultC
    for e in mapped do
      let ci := base ^^^ e.1
      h ← h.useIndex ci
      if ci < states.size then states := states.modify ci fun st => { st with check := sidx }
      else throw (.panic "states[child_idx] out of range")
      idMap := idMap.set! e.2 ci
      stack := stack.push e.2
    states := states.modify sidx fun st => { st with base := base }
  setFailsAndOutputs states idMap fail opos false

/-! ### The whole pipeline -/

/-- `build_with_values` of either builder, from label-level patterns. -/
def buildDA (variant : Variant) (cfg : Cfg) (P : List (LPat V)) : Except BuildErr (DA V) := do
  if cfg.nfb = 0 then throw (.panic "assert!(n >= 1)")
  -- char-wise: an insertion error returns before the mapper exists; otherwise the mapper is
  -- built from *all* patterns (shadowed ones included), then the emptiness test runs
  let acc ← NfaAcc.init.addAll (cfg.kind == 2) P
  let mapper := match variant with
    | .bytewise => (⟨#[], 0⟩ : Mapper)
    | .charwise => Mapper.build P
  if acc.len = 0 then throw .invalidArgument
  if variant == .bytewise && acc.len > u24Max then throw .automatonScale
  let ns := acc.trie.flatten
  let nfa := buildNfa acc.trie (cfg.kind != 0)
  let (fail, opos) := nfaArrays acc.trie nfa
  let outs := nfa.out.outs
  let states ← match variant with
    | .bytewise => buildBytewise cfg ns fail opos
    | .charwise => buildCharwise cfg mapper ns fail opos
  return { variant := variant, states := states, outputs := outs, mapTable := mapper.table,
           alphaSize := mapper.alphaSize, kind := cfg.kind, numStates := ns.size - 1 }

end Daac

/-
Model of the fail-link and output passes of `NfaBuilder` (src/nfa_builder.rs:123-225) over the
tree-structured trie of Model/Trie.lean, with nodes named by their path.

`build_fails` / `build_fails_leftmost` are breadth-first dynamic programs: the queue is filled in
level order (children in label order), and the fail link of a child is found by walking the fail
links of strictly shallower nodes, which are final by then. The model keeps exactly that shape: a
fold over the queue order with a table of the links assigned so far. `build_outputs` is a fold
over the same queue.
-/
import Std.Data.HashMap
import Daac.Model.Trie
namespace Daac
variable {V : Type}

/-- A fail target: a node (by path) or the dead state. -/
inductive FailTo where
  | node (u : List Nat)
  | dead
deriving DecidableEq, Repr, Inhabited

def Kids.labelList : Kids V → List Nat
  | .nil => []
  | .cons l _ r => l :: r.labelList

/-- The child paths of node `u` in label order (`edges.values()` of a `BTreeMap`). -/
def Trie.childPaths (t : Trie V) (u : List Nat) : List (List Nat) :=
  match t.walk u with
  | some n => n.kids.labelList.map (fun c => u ++ [c])
  | none => []

def Trie.hasNode (t : Trie V) (u : List Nat) : Bool := (t.walk u).isSome

def Trie.hasOutput (t : Trie V) (u : List Nat) : Bool :=
  match t.walk u with
  | some n => n.out.isSome
  | none => false

mutual
/-- Length of the longest root-to-leaf path. -/
def Trie.depth : Trie V → Nat
  | .node _ kids => kids.depth
def Kids.depth : Kids V → Nat
  | .nil => 0
  | .cons _ t r => max (t.depth + 1) r.depth
end

/-- Nodes of depth `d` in queue order. -/
def Trie.level (t : Trie V) : Nat → List (List Nat)
  | 0 => [[]]
  | d + 1 => (t.level d).flatMap t.childPaths

/-- The BFS queue of `build_fails`: all non-root nodes, level by level, children in label order. -/
def Trie.queue (t : Trie V) : List (List Nat) :=
  (List.range t.depth).flatMap (fun d => t.level (d + 1))

/-- Fail links assigned so far; a node without an entry still has the default `ROOT_STATE_ID`. -/
abbrev FailMap := Std.HashMap (List Nat) FailTo

def FailMap.get (m : FailMap) (u : List Nat) : FailTo := m.getD u (.node [])

/-- The inner `loop` of `build_fails`: from `f`, find the fail target of a child with label `c`. -/
def failWalkStd (t : Trie V) (m : FailMap) : Nat → List Nat → Nat → FailTo
  | 0, _, _ => .node []
  | fuel + 1, f, c =>
    if t.hasNode (f ++ [c]) then .node (f ++ [c]) else
    match m.get f with
    | .dead => .dead          -- cannot happen for the standard kind
    | .node nx => if f = [] ∧ nx = [] then .node [] else failWalkStd t m fuel nx c

/-- The inner `loop` of `build_fails_leftmost`. -/
def failWalkLm (t : Trie V) (m : FailMap) : Nat → List Nat → Nat → FailTo
  | 0, _, _ => .node []
  | fuel + 1, f, c =>
    if t.hasNode (f ++ [c]) then .node (f ++ [c]) else
    match m.get f with
    | .dead => .dead
    | .node nx => if f = [] ∧ nx = [] then .node [] else failWalkLm t m fuel nx c

/-- Processing one queue entry `s` in `build_fails`: assign the fail link of each child. -/
def failStepStd (t : Trie V) (m : FailMap) (s : List Nat) : FailMap :=
  (t.childPaths s).foldl (fun m child =>
    match m.get s, child.getLast? with
    | .node f, some c => m.insert child (failWalkStd t m (s.length + 2) f c)
    | _, _ => m) m

/-- Processing one queue entry in `build_fails_leftmost`: a pattern end fails to the dead state;
children of a dead-failing node fail to the dead state; otherwise walk. -/
def failStepLm (t : Trie V) (m : FailMap) (s : List Nat) : FailMap :=
  let m := if t.hasOutput s then m.insert s .dead else m
  (t.childPaths s).foldl (fun m child =>
    match m.get s, child.getLast? with
    | .dead, _ => m.insert child .dead
    | .node f, some c => m.insert child (failWalkLm t m (s.length + 2) f c)
    | _, none => m) m

/-- `build_fails` / `build_fails_leftmost`: the table of fail links after the whole queue. -/
def buildFailMap (t : Trie V) (leftmost : Bool) : FailMap :=
  t.queue.foldl (fun m s => if leftmost then failStepLm t m s else failStepStd t m s) {}

/-- State of `build_outputs`: output position per node and the output records so far. -/
structure OutAcc (V : Type) where
  opos : Std.HashMap (List Nat) Nat
  outs : Array (Out V)

def OutAcc.oposOf (a : OutAcc V) (f : FailTo) : Nat :=
  match f with
  | .dead => 0
  | .node u => a.opos.getD u 0

/-- One iteration of the loop of `build_outputs`. -/
def outStep (t : Trie V) (fm : FailMap) (a : OutAcc V) (s : List Nat) : OutAcc V :=
  match (t.walk s).bind Trie.out with
  | some (v, len) =>
    { opos := a.opos.insert s (a.outs.size + 1),
      outs := a.outs.push ⟨v, len, a.oposOf (fm.get s)⟩ }
  | none => { a with opos := a.opos.insert s (a.oposOf (fm.get s)) }

def buildOutAcc (t : Trie V) (fm : FailMap) : OutAcc V :=
  t.queue.foldl (outStep t fm) ⟨{}, #[]⟩

/-- The sparse NFA after `build_fails*` and `build_outputs`. -/
structure Nfa (V : Type) where
  trie : Trie V
  fail : FailMap
  out : OutAcc V

def buildNfa (t : Trie V) (leftmost : Bool) : Nfa V :=
  let fm := buildFailMap t leftmost
  ⟨t, fm, buildOutAcc t fm⟩

end Daac

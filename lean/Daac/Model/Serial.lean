/-
Model of serialisation (src/serializer.rs, src/intpack.rs, and the `Serializable` impls in
src/lib.rs, src/bytewise.rs, src/charwise.rs, src/charwise/mapper.rs).

Little endian, length-prefixed vectors, fixed widths. A value type is described by a `Ser V`
record (what the trait `Serializable` requires of a user-defined type).
-/
import Daac.Model.Search
namespace Daac
variable {V : Type}

/-- `w` bytes of `x`, little endian (`to_le_bytes`). -/
def leBytes : Nat → Nat → List Nat
  | 0, _ => []
  | w + 1, x => (x % 256) :: leBytes w (x / 256)

/-- `from_le_bytes` of the given bytes. -/
def leNat : List Nat → Nat
  | [] => 0
  | b :: r => b + 256 * leNat r

/-- A fixed-width serialisable value type. `dec` reads the first `width` bytes. -/
structure Ser (V : Type) where
  width : Nat
  enc : V → List Nat
  dec : List Nat → V

/-- The law an implementation of the trait must satisfy (what C09 assumes of user types). -/
structure Ser.Lawful (S : Ser V) : Prop where
  len : ∀ v, (S.enc v).length = S.width
  dec_enc : ∀ v r, S.dec (S.enc v ++ r) = v

def serU32 (x : Nat) : List Nat := leBytes 4 x

def serVec {α : Type} (f : α → List Nat) (xs : List α) : List Nat :=
  serU32 xs.length ++ xs.flatMap f

/-- `State::serialize_to_vec` for either variant. Byte-wise: base, fail, `U24nU8` packing the
output position (high 24 bits) and CHECK (low 8 bits). Char-wise: base, check, fail, output_pos. -/
def serSt (v : Variant) (s : St) : List Nat :=
  match v with
  | .bytewise => serU32 s.base ++ serU32 s.fail ++ serU32 ((s.opos <<< 8) ||| s.check)
  | .charwise => serU32 s.base ++ serU32 s.check ++ serU32 s.fail ++ serU32 s.opos

def stWidth (v : Variant) : Nat :=
  match v with
  | .bytewise => 12
  | .charwise => 16

def serOut (S : Ser V) (o : Out V) : List Nat :=
  S.enc o.value ++ serU32 o.length ++ serU32 o.parent

/-- `serialize()`. -/
def serialize (S : Ser V) (da : DA V) : List Nat :=
  serVec (serSt da.variant) da.states.toList ++
  (match da.variant with
   | .bytewise => []
   | .charwise => serVec serU32 da.mapTable.toList ++ serU32 da.alphaSize) ++
  serVec (serOut S) da.outputs.toList ++
  [da.kind] ++ serU32 da.numStates

/-- `MatchKind::from(u8)`: unknown bytes decode to Standard. -/
def kindByteOf (name : String) : Nat := ((Gen.kindBytes.find? (·.1 == name)).map (·.2)).getD 0

/-- `MatchKind::from(u8)` followed by `u8::from(MatchKind)` (kinds are identified with their byte). -/
def decodeKind (b : Nat) : Nat :=
  match Gen.kindFromU8.find? (·.1 == b) with
  | some (_, name) => kindByteOf name
  | none => kindByteOf Gen.kindFromU8Default

def deU32 (bs : List Nat) : Option (Nat × List Nat) :=
  match bs with
  | a :: b :: c :: d :: r => some (leNat [a, b, c, d], r)
  | _ => none

def deSt (v : Variant) (bs : List Nat) : Option (St × List Nat) :=
  match v with
  | .bytewise =>
    match deU32 bs with
    | none => none
    | some (base, r1) =>
      match deU32 r1 with
      | none => none
      | some (fail, r2) =>
        match deU32 r2 with
        | none => none
        | some (oc, r3) => some (⟨base, oc &&& 255, fail, oc >>> 8⟩, r3)
  | .charwise =>
    match deU32 bs with
    | none => none
    | some (base, r1) =>
      match deU32 r1 with
      | none => none
      | some (check, r2) =>
        match deU32 r2 with
        | none => none
        | some (fail, r3) =>
          match deU32 r3 with
          | none => none
          | some (opos, r4) => some (⟨base, check, fail, opos⟩, r4)

def deOut (S : Ser V) (bs : List Nat) : Option (Out V × List Nat) :=
  if (bs.take S.width).length < S.width then none else
  match deU32 (bs.drop S.width) with
  | none => none
  | some (len, r1) =>
    match deU32 r1 with
    | none => none
    | some (parent, r2) => some (⟨S.dec bs, len, parent⟩, r2)

/-- Reads `n` elements. -/
def deMany {α : Type} (f : List Nat → Option (α × List Nat)) : Nat → List Nat → Option (List α × List Nat)
  | 0, bs => some ([], bs)
  | n + 1, bs =>
    match f bs with
    | none => none
    | some (x, r) =>
      match deMany f n r with
      | none => none
      | some (xs, r') => some (x :: xs, r')

def deVec {α : Type} (f : List Nat → Option (α × List Nat)) (bs : List Nat) : Option (List α × List Nat) :=
  match deU32 bs with
  | none => none
  | some (n, r) => deMany f n r

/-- `deserialize_unchecked(source)`: the automaton and the unread remainder. `none` where the
implementation would panic on a too-short slice (never on the output of `serialize`). -/
def deserialize (S : Ser V) (v : Variant) (bs : List Nat) : Option (DA V × List Nat) :=
  match deVec (deSt v) bs with
  | none => none
  | some (states, r1) =>
    let mp : Option ((List Nat × Nat) × List Nat) :=
      match v with
      | .bytewise => some (([], 0), r1)
      | .charwise =>
        match deVec deU32 r1 with
        | none => none
        | some (table, r) =>
          match deU32 r with
          | none => none
          | some (alpha, r') => some ((table, alpha), r')
    match mp with
    | none => none
    | some ((table, alpha), r2) =>
      match deVec (deOut S) r2 with
      | none => none
      | some (outs, r3) =>
        match r3 with
        | [] => none
        | k :: r4 =>
          match deU32 r4 with
          | none => none
          | some (ns, r5) =>
            some ({ variant := v, states := states.toArray, outputs := outs.toArray,
                    mapTable := table.toArray, alphaSize := alpha, kind := decodeKind k,
                    numStates := ns }, r5)

/-! ### Built-in value types, as instances over `Int` (used by the driver) -/

/-- Unsigned integer of `w` bytes. -/
def serUnsigned (w : Nat) : Ser Int :=
  ⟨w, fun v => leBytes w v.toNat, fun bs => Int.ofNat (leNat (bs.take w))⟩

/-- Signed (two's complement) integer of `w` bytes. -/
def serSigned (w : Nat) : Ser Int :=
  ⟨w, fun v => leBytes w (v % (2 ^ (8 * w) : Nat)).toNat,
      fun bs => let n := leNat (bs.take w)
                if n < 2 ^ (8 * w - 1) then Int.ofNat n else Int.ofNat n - Int.ofNat (2 ^ (8 * w))⟩

/-- `Empty`: zero bytes. -/
def serEmpty : Ser Int := ⟨0, fun _ => [], fun _ => 0⟩

end Daac

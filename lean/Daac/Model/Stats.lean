/-
Model of the statistics accessors (src/bytewise.rs, src/charwise.rs: `num_states`, `num_elements`,
`heap_bytes`; src/charwise/mapper.rs `heap_bytes`). `szSt` / `szOut` are `size_of::<State>()` and
`size_of::<Output<V>>()` of the running binary (reported by the harness).
-/
import Daac.Model.Search
namespace Daac
variable {V : Type}

def DA.numElements (da : DA V) : Nat := da.states.size

def DA.heapBytes (da : DA V) (szSt szOut : Nat) : Nat :=
  match da.variant with
  | .bytewise => da.states.size * szSt + da.outputs.size * szOut
  | .charwise => da.states.size * szSt + da.mapTable.size * 4 + da.outputs.size * szOut

end Daac

/-
Model of src/intpack.rs `U24nU8`: a 24-bit and an 8-bit field packed into one `u32` (byte-wise
`State`: output position and CHECK). The shift and the mask are regenerated from the source
(`Gen.packShift`, `Gen.packMask`).
-/
import Daac.Gen.Consts
namespace Daac.U24nU8

def a (x : Nat) : Nat := x >>> Gen.packShift
def b (x : Nat) : Nat := x &&& Gen.packMask
def setA (x a' : Nat) : Nat := (a' <<< Gen.packShift) ||| b x
def setB (x b' : Nat) : Nat := (a x <<< Gen.packShift) ||| b'
/-- the packed word holding `(a', b')` -/
def pack (a' b' : Nat) : Nat := (a' <<< Gen.packShift) ||| b'

end Daac.U24nU8

/-
Model of `NfaBuilder::add` (src/nfa_builder.rs:80-121) and of the loop that feeds it
(`build_sparse_nfa` / `build_original_nfa_and_mapper`).

The trie is a tree whose children are kept in label order (the `BTreeMap` of the code); a node
is identified by its path. State ids of the implementation do not appear: they never reach the
built automaton (only label order does), see DESIGN.md §3.1.
-/
import Daac.Basic
import Daac.Inv
namespace Daac

mutual
/-- A trie node: the output registered at it (value, byte length) and its children. -/
inductive Trie (V : Type) where
  | node (out : Option (V × Nat)) (kids : Kids V)
/-- Children in strictly increasing label order. -/
inductive Kids (V : Type) where
  | nil
  | cons (label : Nat) (child : Trie V) (rest : Kids V)
end

variable {V : Type}

def Trie.empty : Trie V := .node none .nil

def Trie.out : Trie V → Option (V × Nat)
  | .node o _ => o

def Trie.kids : Trie V → Kids V
  | .node _ k => k

/-- `edges.get(&c)` -/
def Kids.find? : Kids V → Nat → Option (Trie V)
  | .nil, _ => none
  | .cons l t r, c => if l = c then some t else r.find? c

/-- `edges.insert(c, t)` for a label that may or may not be present, keeping label order. -/
def Kids.set : Kids V → Nat → Trie V → Kids V
  | .nil, c, t => .cons c t .nil
  | .cons l t' r, c, t =>
    if c < l then .cons c t (.cons l t' r)
    else if c = l then .cons l t r
    else .cons l t' (r.set c t)

/-- Outcome of the insertion loop of `add`. -/
inductive AddRes (V : Type) where
  | ok (t : Trie V)   -- pattern registered (nodes created as needed)
  | shadowed          -- leftmost-first: the path crossed an already registered pattern end
  | dup               -- the terminal node already has an output

/-- The `for &c in pattern` loop of `add` from the node `t` with the remaining labels `cs`,
followed by the registration at the terminal node. `lf` = `match_kind.is_leftmost_first()`. -/
def Trie.insert (lf : Bool) (o : V × Nat) : Trie V → List Nat → AddRes V
  | .node out kids, [] =>
    if out.isSome then .dup else .ok (.node (some o) kids)
  | .node out kids, c :: cs =>
    if lf && out.isSome then .shadowed else
    match Trie.insert lf o ((kids.find? c).getD Trie.empty) cs with
    | .ok t' => .ok (.node out (kids.set c t'))
    | .shadowed => .shadowed
    | .dup => .dup

/-- Node reached by following `u` from `t`. -/
def Trie.walk : Trie V → List Nat → Option (Trie V)
  | t, [] => some t
  | .node _ kids, c :: cs =>
    match kids.find? c with
    | some t' => t'.walk cs
    | none => none

/-- `is_registered` (added by the fix for the shadowed-duplicate defect). -/
def Trie.isRegistered (t : Trie V) (u : List Nat) : Bool :=
  match t.walk u with
  | some n => n.out.isSome
  | none => false

inductive BuildErr where
  | invalidArgument
  | duplicatePattern
  | invalidConversion
  | automatonScale
  | panic (site : String)
deriving DecidableEq, Repr

/-- State of `NfaBuilder` while patterns are being added. -/
structure NfaAcc (V : Type) where
  trie : Trie V
  len : Nat                       -- number of registered patterns
  shadowed : List (List Nat)      -- the `BTreeSet` of skipped patterns

/-- `NfaBuilder::add`. Sizes beyond `u32` are outside the model (hypothesis `sizesOk`). -/
def NfaAcc.add (lf : Bool) (a : NfaAcc V) (p : LPat V) : Except BuildErr (NfaAcc V) :=
  if p.blen = 0 then .error .invalidArgument else
  match a.trie.insert lf (p.value, p.blen) p.key with
  | .ok t => .ok { a with trie := t, len := a.len + 1 }
  | .dup => .error .duplicatePattern
  | .shadowed =>
    if a.trie.isRegistered p.key || a.shadowed.contains p.key then .error .duplicatePattern
    else .ok { a with shadowed := p.key :: a.shadowed }

def NfaAcc.addAll (lf : Bool) : NfaAcc V → List (LPat V) → Except BuildErr (NfaAcc V)
  | a, [] => .ok a
  | a, p :: ps =>
    match a.add lf p with
    | .error e => .error e
    | .ok a' => a'.addAll lf ps

def NfaAcc.init : NfaAcc V := ⟨Trie.empty, 0, []⟩

/-- The pattern-insertion phase of construction, including the emptiness test that follows it. -/
def buildTrie (kind : Nat) (P : List (LPat V)) : Except BuildErr (Trie V) :=
  match NfaAcc.init.addAll (kind == 2) P with
  | .error e => .error e
  | .ok a => if a.len = 0 then .error .invalidArgument else .ok a.trie

mutual
/-- Number of nodes of the trie (root included). -/
def Trie.size : Trie V → Nat
  | .node _ kids => 1 + kids.size
def Kids.size : Kids V → Nat
  | .nil => 0
  | .cons _ t r => t.size + r.size
end

mutual
/-- All node paths below (and including) this node, prefixed by `pre`. -/
def Trie.paths : Trie V → List Nat → List (List Nat)
  | .node _ kids, pre => pre :: kids.paths pre
def Kids.paths : Kids V → List Nat → List (List Nat)
  | .nil, _ => []
  | .cons l t r, pre => t.paths (pre ++ [l]) ++ r.paths pre
end

end Daac

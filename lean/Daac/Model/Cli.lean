/-
Model of `daacfind` (daacfind/src/main.rs): pattern list assembly, the per-line filter and
highlighting of `find_and_output`, and the loop over input lines. The two searches the tool
performs are parameters (`find`, `nosuf`); the executable instance uses the specification
functions, which properties C02/C05 show the library's iterators to equal.

Not modelled (exercised by suite K-cli only): clap's argument parsing, file/stdin I/O,
termcolor — whose ANSI output is represented by the two byte strings `ansiReset` / `ansiRed`.
-/
import Daac.Basic
import Daac.Spec
namespace Daac.Cli
open Daac

/-- termcolor `reset()` on an ANSI stream. -/
def ansiReset : List Nat := [0x1b, 0x5b, 0x30, 0x6d]
/-- termcolor `set_color(ColorSpec::new().set_fg(Some(Color::Red)))`: reset, then red foreground. -/
def ansiRed : List Nat := [0x1b, 0x5b, 0x30, 0x6d, 0x1b, 0x5b, 0x33, 0x31, 0x6d]

/-- Splits on `\n` (`str::split('\n')` / `BufRead::lines` without the CR handling). -/
def splitLines (bs : List Nat) : List (List Nat) :=
  let r := bs.foldr (fun b (acc : List Nat × List (List Nat)) =>
    if b = 10 then ([], acc.1 :: acc.2) else (b :: acc.1, acc.2)) ([], [])
  r.1 :: r.2

/-- `BufRead::lines()`: like `split('\n')` but a trailing newline does not produce a final
empty line, and a trailing `\r` of a line is dropped. -/
def bufLines (bs : List Nat) : List (List Nat) :=
  let ls := splitLines bs
  let ls := if ls.getLast? = some [] then ls.dropLast else ls
  ls.map fun l => if l.getLast? = some 13 then l.dropLast else l

/-- The pattern list: non-empty lines of the `-f` file, then non-empty pieces of `-p`. -/
def patterns (fileContent : Option (List Nat)) (pArg : Option (List Nat)) : List (List Nat) :=
  ((fileContent.map bufLines).getD []).filter (· ≠ []) ++
  ((pArg.map splitLines).getD []).filter (· ≠ [])

def decimal (n : Nat) : List Nat := (toString n).toList.map Char.toNat

/-- The `filename:` / `line_no:` prefixes. -/
def linePrefix (filename : Option (List Nat)) (lineNo : Option Nat) : List Nat :=
  (match filename with | some f => f ++ [58] | none => []) ++
  (match lineNo with | some n => decimal n ++ [58] | none => [])

/-- `color_counts`: +1 at each match start, -1 at each match end. -/
def colorCounts {V : Type} (len : Nat) (ms : List (Match V)) : List Int :=
  (List.range (len + 1)).map fun pos =>
    (ms.filter (·.start = pos)).length - (ms.filter (·.stop = pos)).length

/-- The rendering loop over `color_counts`: emits `reset + plain segment` when the depth leaves
zero and `red + highlighted segment` when it returns to zero. State: current depth, start of
the pending segment. Returns the bytes written and the final `prev_pos`. -/
def renderLoop (line : List Nat) : List (Nat × Int) → Int → Nat → List Nat → List Nat × Nat
  | [], _, prev, out => (out, prev)
  | (pos, c) :: rest, depth, prev, out =>
    let nd := depth + c
    if depth = 0 ∧ nd ≠ 0 then
      renderLoop line rest nd pos (out ++ ansiReset ++ (line.take pos).drop prev)
    else if depth ≠ 0 ∧ nd = 0 then
      renderLoop line rest nd pos (out ++ ansiRed ++ (line.take pos).drop prev)
    else renderLoop line rest nd prev out

/-- `find_and_output` for one line. `find` = results of `find_iter`, `nosuf` = results of
`find_overlapping_no_suffix_iter`. -/
def findAndOutput {V : Type} (find nosuf : List Nat → List (Match V)) (color : Bool)
    (filename : Option (List Nat)) (lineNo : Option Nat) (line : List Nat) : List Nat :=
  if !color then
    if (find line).isEmpty then [] else linePrefix filename lineNo ++ line ++ [10]
  else
    let ms := nosuf line
    if ms.isEmpty then [] else
      let counts := colorCounts line.length ms
      let r := renderLoop line ((List.range (line.length + 1)).zip counts) 0 0 []
      linePrefix filename lineNo ++ r.1 ++ ansiReset ++ line.drop r.2 ++ [10]

/-- Output for one input stream (stdin or a file). -/
def outputFor {V : Type} (find nosuf : List Nat → List (Match V)) (color lineNumbers : Bool)
    (filename : Option (List Nat)) (content : List Nat) : List Nat :=
  ((bufLines content).zipIdx.map fun (line, i) =>
    findAndOutput find nosuf color filename (if lineNumbers then some i else none) line).flatten

/-- The executable instance: searches given by the specification (patterns carry `Empty`). -/
def run (pats : List (List Nat)) (color lineNumbers : Bool)
    (inputs : List (Option (List Nat) × List Nat)) : List Nat :=
  let P : List (Pat Unit) := pats.map fun k => ⟨k, ()⟩
  (inputs.map fun (fname, content) =>
    outputFor (specFind P) (specNoSuffix P) color lineNumbers fname content).flatten

end Daac.Cli

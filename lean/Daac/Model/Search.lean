/-
Executable model of the search side of daachorse (src/bytewise.rs, src/charwise.rs,
src/bytewise/iter.rs, src/charwise/iter.rs, src/charwise/mapper.rs `get`).

Both automaton variants share one table type; they differ in how CHECK is interpreted
(`Variant`), in the code mapper (identity for the byte-wise automaton) and in how the haystack
is cut into items (one byte / one UTF-8 character). Every `get_unchecked` of the implementation
is a checked access returning `Except Fault`.
-/
import Daac.Basic
import Daac.Gen.Consts
namespace Daac

/-- One double-array element. `base = 0` and `opos = 0` encode `None` (as in the serialised form). -/
structure St where
  base : Nat
  check : Nat
  fail : Nat
  opos : Nat
deriving DecidableEq, Repr, Inhabited

/-- One output record. `parent = 0` encodes `None`; positions are 1-based as in the code. -/
structure Out (V : Type) where
  value : V
  length : Nat
  parent : Nat
deriving DecidableEq, Repr

inductive Variant where
  | bytewise
  | charwise
deriving DecidableEq, Repr

/-- `INVALID_CODE` of src/charwise/mapper.rs. -/
def invalidCode : Nat := Gen.invalidCode

/-- The automaton: plain immutable data, as in the implementation. -/
structure DA (V : Type) where
  variant : Variant
  states : Array St
  outputs : Array (Out V)
  mapTable : Array Nat      -- char-wise only (code point ↦ code or `invalidCode`)
  alphaSize : Nat           -- char-wise only
  kind : Nat                -- 0 standard, 1 leftmost-longest, 2 leftmost-first
  numStates : Nat

variable {V : Type}

def rootIdx : Nat := Gen.rootStateIdx
def deadIdx : Nat := Gen.deadStateIdx

/-- `states.get_unchecked(i)`. -/
def DA.st (da : DA V) (i : Nat) : Except Fault St :=
  match da.states[i]? with
  | some s => .ok s
  | none => .error .oobStates

/-- `outputs.get_unchecked(p - 1)` for a `NonZeroU32` position `p`. -/
def DA.out (da : DA V) (p : Nat) : Except Fault (Out V) :=
  if p = 0 then .error .oobOutputs else
  match da.outputs[p - 1]? with
  | some o => .ok o
  | none => .error .oobOutputs

/-- `CodeMapper::get` (char-wise) / identity (byte-wise). -/
def DA.code (da : DA V) (label : Nat) : Option Nat :=
  match da.variant with
  | .bytewise => some label
  | .charwise =>
    match da.mapTable[label]? with
    | some c => if c = invalidCode then none else some c
    | none => none

/-- `child_index_unchecked(state_id, c)` (`c` already mapped for the char-wise automaton). -/
def DA.child (da : DA V) (s c : Nat) : Except Fault (Option Nat) :=
  match da.st s with
  | .error e => .error e
  | .ok st =>
    if st.base = 0 then .ok none else
    match da.st (st.base ^^^ c) with
    | .error e => .error e
    | .ok ch =>
      match da.variant with
      | .bytewise => .ok (if ch.check = c then some (st.base ^^^ c) else none)
      | .charwise => .ok (if ch.check = s then some (st.base ^^^ c) else none)

/-- The loop of `next_state_id_unchecked`; returns the new state and the number of loop
iterations (= automaton transitions taken). -/
def DA.nextLoop (da : DA V) : Nat → Nat → Nat → Nat → Except Fault (Nat × Nat)
  | 0, _, _, _ => .error .fuel
  | fuel + 1, s, c, n =>
    match da.child s c with
    | .error e => .error e
    | .ok (some t) => .ok (t, n + 1)
    | .ok none =>
      if s = rootIdx then .ok (rootIdx, n + 1) else
      match da.st s with
      | .error e => .error e
      | .ok st => da.nextLoop fuel st.fail c (n + 1)

/-- The loop of `next_state_id_leftmost_unchecked`. -/
def DA.nextLoopLm (da : DA V) : Nat → Nat → Nat → Nat → Except Fault (Nat × Nat)
  | 0, _, _, _ => .error .fuel
  | fuel + 1, s, c, n =>
    match da.child s c with
    | .error e => .error e
    | .ok (some t) => .ok (t, n + 1)
    | .ok none =>
      if s = rootIdx then .ok (rootIdx, n + 1) else
      match da.st s with
      | .error e => .error e
      | .ok st => if st.fail = deadIdx then .ok (rootIdx, n + 1) else da.nextLoopLm fuel st.fail c (n + 1)

/-- Fuel supplied to the transition loops: one more than the number of elements. -/
def DA.fuel (da : DA V) : Nat := da.states.size + 1

/-- `next_state_id_unchecked(state, label)`; result = (state, transitions). -/
def DA.nextS (da : DA V) (s label : Nat) : Except Fault (Nat × Nat) :=
  match da.code label with
  | none => .ok (rootIdx, 0)
  | some c => da.nextLoop da.fuel s c 0

def DA.nextLmS (da : DA V) (s label : Nat) : Except Fault (Nat × Nat) :=
  match da.code label with
  | none => .ok (rootIdx, 0)
  | some c => da.nextLoopLm da.fuel s c 0

def DA.next (da : DA V) (s label : Nat) : Except Fault Nat := (da.nextS s label).map (·.1)
def DA.nextLm (da : DA V) (s label : Nat) : Except Fault Nat := (da.nextLmS s label).map (·.1)

/-! ### The byte source and its decoding into items -/

/-- A byte source with a counter of the bytes pulled so far (`Enumerate<P>` over the source). -/
structure Src where
  rest : List Nat
  pulled : Nat
deriving Repr

/-- One haystack item as the iterators see it: the label (byte / code point) and the byte
offset just after it. -/
structure Item where
  label : Nat
  stop : Nat
deriving DecidableEq, Repr

def Src.pull (s : Src) : Option (Nat × Src) :=
  match s.rest with
  | [] => none
  | b :: r => some (b, ⟨r, s.pulled + 1⟩)

/-- `char::from_u32_unchecked` precondition. -/
def isScalar (c : Nat) : Bool := c < 0xD800 || (0xE000 ≤ c && c < 0x110000)

/-- `CharWithEndOffsetIterator::next` (src/charwise/iter.rs:72-98), literally. -/
def decodeNext (s : Src) : Except Fault (Option (Item × Src)) :=
  match s.pull with
  | none => .ok none
  | some (first, s1) =>
    if first < 0x80 then .ok (some (⟨first, s1.pulled⟩, s1)) else
    match s1.pull with
    | none => .error .truncatedUtf8
    | some (r1, s2) =>
      let c := r1 &&& 0x3f
      if first < 0xe0 then
        let cp := ((first &&& 0x1f) <<< 6) ||| c
        if isScalar cp then .ok (some (⟨cp, s2.pulled⟩, s2)) else .error .invalidScalar
      else
      match s2.pull with
      | none => .error .truncatedUtf8
      | some (r2, s3) =>
        let c := (c <<< 6) ||| (r2 &&& 0x3f)
        if first < 0xf0 then
          let cp := ((first &&& 0x0f) <<< 12) ||| c
          if isScalar cp then .ok (some (⟨cp, s3.pulled⟩, s3)) else .error .invalidScalar
        else
        match s3.pull with
        | none => .error .truncatedUtf8
        | some (r3, s4) =>
          let c := (c <<< 6) ||| (r3 &&& 0x3f)
          let cp := ((first &&& 0x07) <<< 18) ||| c
          if isScalar cp then .ok (some (⟨cp, s4.pulled⟩, s4)) else .error .invalidScalar

/-- One step of the haystack iterator of the standard-kind iterators:
`Enumerate<P>` (byte-wise, item = `(pos + 1, byte)`) or `CharWithEndOffsetIterator<P>`. -/
def nextItem (v : Variant) (s : Src) : Except Fault (Option (Item × Src)) :=
  match v with
  | .bytewise =>
    match s.pull with
    | none => .ok none
    | some (b, s1) => .ok (some (⟨b, s1.pulled⟩, s1))
  | .charwise => decodeNext s

/-! ### Iterators -/

def mkMatch (o : Out V) (e : Nat) : Match V := ⟨e - o.length, e, o.value⟩

/-- Result of one `next()` call: the match (if any) and the iterator afterwards. -/
structure Step (σ V : Type) where
  result : Option (Match V)
  it : σ

/-- `FindIterator` (both variants): the only state is the source. -/
structure FindIt where
  src : Src

/-- The `for (pos, c) in self.haystack.by_ref()` loop of `FindIterator::next`, also used (with a
persistent state) by `FindOverlappingNoSuffixIterator::next`. Returns the match, the state
reached and the source. Structural recursion on the fuel `src.rest.length + 1`. -/
def scanFirst (da : DA V) : Nat → Nat → Src → Except Fault (Option (Match V) × Nat × Src)
  | 0, _, _ => .error .fuel
  | fuel + 1, state, src =>
    match nextItem da.variant src with
    | .error e => .error e
    | .ok none => .ok (none, state, src)
    | .ok (some (item, src')) =>
      match da.next state item.label with
      | .error e => .error e
      | .ok state' =>
        match da.st state' with
        | .error e => .error e
        | .ok st =>
          if st.opos ≠ 0 then
            match da.out st.opos with
            | .error e => .error e
            | .ok o => .ok (some (mkMatch o item.stop), state', src')
          else scanFirst da fuel state' src'

def FindIt.next (da : DA V) (it : FindIt) : Except Fault (Step FindIt V) :=
  match scanFirst da (it.src.rest.length + 1) rootIdx it.src with
  | .error e => .error e
  | .ok (r, _, src') => .ok ⟨r, ⟨src'⟩⟩

/-- `FindOverlappingNoSuffixIterator`. -/
structure NoSufIt where
  src : Src
  state : Nat

def NoSufIt.next (da : DA V) (it : NoSufIt) : Except Fault (Step NoSufIt V) :=
  match scanFirst da (it.src.rest.length + 1) it.state it.src with
  | .error e => .error e
  | .ok (r, state', src') => .ok ⟨r, ⟨src', state'⟩⟩

/-- `FindOverlappingIterator`. -/
structure OvIt where
  src : Src
  state : Nat
  pos : Nat
  opos : Nat

/-- The scanning loop of `FindOverlappingIterator::next`. The char-wise version stores
`self.pos = pos` at every item, the byte-wise one only when an output is found; `pos` is
threaded accordingly. -/
def scanOv (da : DA V) : Nat → OvIt → Except Fault (Step OvIt V)
  | 0, _ => .error .fuel
  | fuel + 1, it =>
    match nextItem da.variant it.src with
    | .error e => .error e
    | .ok none => .ok ⟨none, it⟩
    | .ok (some (item, src')) =>
      let pos1 := match da.variant with
        | .bytewise => it.pos
        | .charwise => item.stop
      match da.next it.state item.label with
      | .error e => .error e
      | .ok state' =>
        match da.st state' with
        | .error e => .error e
        | .ok st =>
          if st.opos ≠ 0 then
            match da.out st.opos with
            | .error e => .error e
            | .ok o => .ok ⟨some (mkMatch o item.stop), ⟨src', state', item.stop, o.parent⟩⟩
          else scanOv da fuel ⟨src', state', pos1, it.opos⟩

def OvIt.next (da : DA V) (it : OvIt) : Except Fault (Step OvIt V) :=
  if it.opos ≠ 0 then
    match da.out it.opos with
    | .error e => .error e
    | .ok o => .ok ⟨some (mkMatch o it.pos), { it with opos := o.parent }⟩
  else scanOv da (it.src.rest.length + 1) it

/-- `LestmostFindIterator`: owns the whole haystack and a resume offset. -/
structure LmIt where
  hay : List Nat
  pos : Nat

/-- An item of the leftmost iterators: label, UTF-8 width, and byte offset after it. -/
structure WItem where
  label : Nat
  width : Nat
  stop : Nat
deriving DecidableEq, Repr

/-- Decodes a whole source into items (`.chars()` of std for the char-wise leftmost iterator;
modelled by the same decoder). -/
def allItems (v : Variant) : Nat → Src → Except Fault (List WItem)
  | 0, _ => .error .fuel
  | fuel + 1, s =>
    match nextItem v s with
    | .error e => .error e
    | .ok none => .ok []
    | .ok (some (item, s')) =>
      match allItems v fuel s' with
      | .error e => .error e
      | .ok l => .ok (⟨item.label, s'.pulled - s.pulled, item.stop⟩ :: l)

/-- Is `pos` a character boundary of the UTF-8 text `h`? (`str::get_unchecked(pos..)`) -/
def isBoundary (h : List Nat) (pos : Nat) : Bool :=
  pos == h.length || (match h[pos]? with
    | some b => !(0x80 ≤ b && b < 0xC0)
    | none => false)

/-- The items the leftmost loop iterates over:
byte-wise `haystack.iter().enumerate().skip(self.pos)`,
char-wise `haystack.get_unchecked(self.pos..).chars()`. -/
def lmItems (v : Variant) (h : List Nat) (pos : Nat) : Except Fault (List WItem) :=
  match v with
  | .bytewise => allItems v ((h.drop pos).length + 1) ⟨h.drop pos, pos⟩
  | .charwise =>
    if isBoundary h pos then allItems v ((h.drop pos).length + 1) ⟨h.drop pos, pos⟩
    else .error .badSlice

/-- The loop body of `LestmostFindIterator::next`. `cand` = `last_output_pos` (0 = none),
`pos` = `self.pos`, `skips` = the char-wise `skips` counter. -/
def lmLoop (da : DA V) : List WItem → Nat → Nat → Nat → Nat →
    Except Fault (Option (Match V) × Nat)
  | [], _, cand, pos, _ =>
    if cand = 0 then .ok (none, pos) else
    match da.out cand with
    | .error e => .error e
    | .ok o => .ok (some (mkMatch o pos), pos)
  | item :: rest, state, cand, pos, skips =>
    match da.nextLm state item.label with
    | .error e => .error e
    | .ok state' =>
      if state' = rootIdx then
        if cand ≠ 0 then
          match da.out cand with
          | .error e => .error e
          | .ok o => .ok (some (mkMatch o pos), pos)
        else lmLoop da rest state' cand pos (skips + item.width)
      else
        match da.st state' with
        | .error e => .error e
        | .ok st =>
          if st.opos ≠ 0 then
            let pos' := match da.variant with
              | .bytewise => item.stop                 -- `self.pos = pos + 1`
              | .charwise => pos + (skips + item.width) -- `self.pos += skips`
            lmLoop da rest state' st.opos pos' 0
          else lmLoop da rest state' cand pos (skips + item.width)

def LmIt.next (da : DA V) (it : LmIt) : Except Fault (Step LmIt V) :=
  match lmItems da.variant it.hay it.pos with
  | .error e => .error e
  | .ok items =>
    match lmLoop da items rootIdx 0 it.pos 0 with
    | .error e => .error e
    | .ok (r, pos') => .ok ⟨r, ⟨it.hay, pos'⟩⟩

/-- Repeated `next()` until `None`, with fuel (`collect` of the Rust iterator). Also records the
number of bytes pulled from the source when each match was returned (property C12). -/
def collectWith {σ : Type} (next : σ → Except Fault (Step σ V)) (pulled : σ → Nat) :
    Nat → σ → Except Fault (List (Match V × Nat) × Nat)
  | 0, _ => .error .fuel
  | fuel + 1, it =>
    match next it with
    | .error e => .error e
    | .ok ⟨none, it'⟩ => .ok ([], pulled it')
    | .ok ⟨some m, it'⟩ =>
      match collectWith next pulled fuel it' with
      | .error e => .error e
      | .ok (ms, fin) => .ok ((m, pulled it') :: ms, fin)

def startSrc (h : List Nat) : Src := ⟨h, 0⟩

/-- Upper bound on the number of `next()` calls: every call either consumes input or drains one
output record; `(|h| + 1) * (|outputs| + 1) + 1` is always enough. -/
def collectFuel (da : DA V) (h : List Nat) : Nat := (h.length + 1) * (da.outputs.size + 1) + 1

def findAll (da : DA V) (h : List Nat) :=
  collectWith (FindIt.next da) (·.src.pulled) (collectFuel da h) ⟨startSrc h⟩
def noSufAll (da : DA V) (h : List Nat) :=
  collectWith (NoSufIt.next da) (·.src.pulled) (collectFuel da h) ⟨startSrc h, rootIdx⟩
def ovAll (da : DA V) (h : List Nat) :=
  collectWith (OvIt.next da) (·.src.pulled) (collectFuel da h) ⟨startSrc h, rootIdx, 0, 0⟩
def lmAll (da : DA V) (h : List Nat) :=
  collectWith (LmIt.next da) (fun _ => 0) (collectFuel da h) ⟨h, 0⟩

/-! ### Transition counting for a whole standard scan (property C13) -/

/-- Total number of transition-loop iterations while feeding all items of `src`. -/
def scanSteps (da : DA V) : Nat → Nat → Src → Nat → Except Fault Nat
  | 0, _, _, _ => .error .fuel
  | fuel + 1, state, src, n =>
    match nextItem da.variant src with
    | .error e => .error e
    | .ok none => .ok n
    | .ok (some (item, src')) =>
      match da.nextS state item.label with
      | .error e => .error e
      | .ok (state', k) => scanSteps da fuel state' src' (n + k)

end Daac

/-
Basic vocabulary shared by the specification and the model.

Conventions (see DESIGN.md §3.1): bytes, code points, indices and offsets are `Nat`; byte strings,
patterns and haystacks are `List Nat`; values are an arbitrary type `V` (only copied).
-/
namespace Daac

/-- A reported match: byte offsets `start`/`stop` (end exclusive) and the value of the pattern. -/
structure Match (V : Type) where
  start : Nat
  stop : Nat
  value : V
deriving DecidableEq, Repr

/-- A pattern: its key (a byte string; for the char-wise automaton valid UTF-8) and its value. -/
structure Pat (V : Type) where
  key : List Nat
  value : V
deriving DecidableEq, Repr

/-- What an unchecked access of the implementation would be if its precondition failed. -/
inductive Fault where
  | oobStates      -- `states.get_unchecked(i)` with `i ≥ states.len()`
  | oobOutputs     -- `outputs.get_unchecked(p - 1)` with `p = 0` or `p > outputs.len()`
  | truncatedUtf8  -- `unwrap_unchecked` on an exhausted byte source inside a character
  | invalidScalar  -- `char::from_u32_unchecked` on a surrogate or a value above 0x10FFFF
  | badSlice       -- `str::get_unchecked(pos..)` with `pos` beyond the end or inside a character
  | fuel           -- a loop of the model ran out of fuel (termination is a proof obligation)
deriving DecidableEq, Repr

/-- All suffixes of `l`, longest first (the last one is `[]`). -/
def sufs {α : Type} : List α → List (List α)
  | [] => [[]]
  | a :: l => (a :: l) :: sufs l

/-- All non-empty prefixes of `l`, shortest first. -/
def nprefixes {α : Type} : List α → List (List α)
  | [] => []
  | a :: l => [a] :: (nprefixes l).map (a :: ·)

/-- Longest suffix of `h` that belongs to `N`; `[]` if none. -/
def lsuf {α : Type} [DecidableEq α] (N : List (List α)) (h : List α) : List α :=
  ((sufs h).find? (fun s => decide (s ∈ N))).getD []

/-- Longest *proper* suffix of `u` in `N` (`[]` if none, also for `u = []`). -/
def lps {α : Type} [DecidableEq α] (N : List (List α)) (u : List α) : List α :=
  lsuf N u.tail

end Daac

/-
Specification layer: what each search method must return, as small executable functions over
byte strings. Nothing here knows about automata. `Daac/Proofs/SpecProps.lean` proves that these
functions satisfy the declarative restatements of the properties (`OvSpec`, `FindSpec`, ...).
-/
import Daac.Basic
namespace Daac
variable {V : Type}

/-- `IsOcc P h m`: `m` is an occurrence of a registered pattern: `h[m.start..m.stop]` equals
the key of a pattern of `P` carrying `m.value`. -/
def IsOcc (P : List (Pat V)) (h : List Nat) (m : Match V) : Prop :=
  ∃ p ∈ P, p.value = m.value ∧ m.start + p.key.length = m.stop ∧ m.stop ≤ h.length ∧
    (h.take m.stop).drop m.start = p.key

/-- Patterns of `P` (with multiplicity, in registration order) whose key is `s`. -/
def patsWithKey (P : List (Pat V)) (s : List Nat) : List (Pat V) :=
  P.filter (fun p => p.key = s)

/-- The patterns that are suffixes of `x`, longest first; the empty suffix is not a pattern
occurrence (the empty pattern is never registered). -/
def sufPats (P : List (Pat V)) (x : List Nat) : List (Pat V) :=
  (sufs x).flatMap (fun s => if s = [] then [] else patsWithKey P s)

/-- The match for pattern `p` ending at byte offset `e`. -/
def matchAt (p : Pat V) (e : Nat) : Match V := ⟨e - p.key.length, e, p.value⟩

/-- Overlapping search: for every end position `e = 1..|h|` in increasing order, all
occurrences ending at `e`, longest first. -/
def specOverlappingFrom (P : List (Pat V)) (pre : List Nat) : List Nat → List (Match V)
  | [] => []
  | c :: rest =>
    (sufPats P (pre ++ [c])).map (fun p => matchAt p (pre.length + 1)) ++
      specOverlappingFrom P (pre ++ [c]) rest

def specOverlapping (P : List (Pat V)) (h : List Nat) : List (Match V) :=
  specOverlappingFrom P [] h

/-- No-suffix overlapping search: per end position the longest occurrence ending there. -/
def specNoSuffixFrom (P : List (Pat V)) (pre : List Nat) : List Nat → List (Match V)
  | [] => []
  | c :: rest =>
    ((sufPats P (pre ++ [c])).head?.map (fun p => matchAt p (pre.length + 1))).toList ++
      specNoSuffixFrom P (pre ++ [c]) rest

def specNoSuffix (P : List (Pat V)) (h : List Nat) : List (Match V) :=
  specNoSuffixFrom P [] h

/-- Standard non-overlapping search. `pos` = end of the previous match, `seen` = the text
consumed since `pos` (so the absolute offset is `pos + seen.length`). An occurrence counts only
if it lies entirely inside `seen`. -/
def specFindFrom (P : List (Pat V)) (pos : Nat) (seen : List Nat) : List Nat → List (Match V)
  | [] => []
  | c :: rest =>
    match (sufPats P (seen ++ [c])).head? with
    | some p => matchAt p (pos + seen.length + 1) :: specFindFrom P (pos + seen.length + 1) [] rest
    | none => specFindFrom P pos (seen ++ [c]) rest

def specFind (P : List (Pat V)) (h : List Nat) : List (Match V) :=
  specFindFrom P 0 [] h

/-- The patterns that are prefixes of `x` (non-empty keys only), in registration order. -/
def prefPats (P : List (Pat V)) (x : List Nat) : List (Pat V) :=
  P.filter (fun p => p.key ≠ [] ∧ p.key <+: x)

/-- The longest element (first among equals) of a list of patterns. -/
def longestPat : List (Pat V) → Option (Pat V)
  | [] => none
  | p :: ps =>
    match longestPat ps with
    | none => some p
    | some q => if q.key.length > p.key.length then some q else some p

/-- Leftmost search with a chooser `pick` among the patterns occurring at the leftmost start.
`s` = absolute offset of the head of the remaining text, `skip` = bytes still covered by the
previous match. -/
def specLeftmostGo (pick : List (Pat V) → Option (Pat V)) (P : List (Pat V)) :
    List Nat → Nat → Nat → List (Match V)
  | [], _, _ => []
  | _ :: r, s, skip + 1 => specLeftmostGo pick P r (s + 1) skip
  | c :: r, s, 0 =>
    match pick (prefPats P (c :: r)) with
    | none => specLeftmostGo pick P r (s + 1) 0
    | some p => ⟨s, s + p.key.length, p.value⟩ :: specLeftmostGo pick P r (s + 1) (p.key.length - 1)

/-- Leftmost-longest search. -/
def specLL (P : List (Pat V)) (h : List Nat) : List (Match V) :=
  specLeftmostGo longestPat P h 0 0

/-- Leftmost-first search (earliest registered among those occurring at the leftmost start). -/
def specLF (P : List (Pat V)) (h : List Nat) : List (Match V) :=
  specLeftmostGo List.head? P h 0 0

/-- Patterns that can ever be reported under leftmost-first semantics: those without an
earlier-registered proper prefix (registration order preserved). -/
def retainedGo : List (Pat V) → List (Pat V) → List (Pat V)
  | _, [] => []
  | earlier, p :: ps =>
    if earlier.any (fun q => q.key <+: p.key ∧ q.key ≠ p.key) then retainedGo (earlier ++ [p]) ps
    else p :: retainedGo (earlier ++ [p]) ps

def retained (P : List (Pat V)) : List (Pat V) := retainedGo [] P

/-- Validity of a pattern collection (property C10). -/
def ValidPats (P : List (Pat V)) : Prop :=
  P ≠ [] ∧ (∀ p ∈ P, p.key ≠ []) ∧ (P.map (·.key)).Nodup

instance (P : List (Pat V)) : Decidable (ValidPats P) := by unfold ValidPats; infer_instance

end Daac

/-
Prelude of the Rust-to-Lean translator for `DoubleArrayAhoCorasickBuilder::build_double_array`
(src/bytewise/builder.rs) and `CharwiseDoubleArrayAhoCorasickBuilder::build_double_array`
(src/charwise/builder.rs; see the section "Char-wise builder" below), translated by tools/dbl2lean.py.  Hand-written; trusted base of the tie
together with the translation rules in the header of tools/dbl2lean.py.

 * The byte-wise `State` is the model record `St`; its setters write the fields
   `check / base / fail / opos` (`set_output_pos` refuses values above `U24::MAX`).  This reading of the
   packed representation (`opos_ch : U24nU8`) is justified separately by Daac/Proofs/TieA.lean.
 * `iter().enumerate()` over a `Vec` is the list of (position, element) pairs.
-/
import Daac.Gen.PreludeNfa
import Daac.Gen.Prelude
import Daac.Model.Build
namespace Daac.Gen
namespace Rs

/-- `State::set_check(x)` (byte-wise) -/
def St.set_check (s : St) (x : Nat) : St := { s with check := x }

/-- `State::set_base(x)` (byte-wise; `x : NonZeroU32`, `None` is `0`) -/
def St.set_base (s : St) (x : Nat) : St := { s with base := x }

/-- `State::set_fail(x)` (byte-wise) -/
def St.set_fail (s : St) (x : Nat) : St := { s with fail := x }

/-- `State::set_output_pos(x)` (byte-wise): `x.map_or(0, NonZeroU32::get)` must fit `U24`. -/
def St.set_output_pos (s : St) (x : Option Nat) : Except BuildErr St :=
  if x.getD 0 ≤ Gen.u24Max then .ok { s with opos := x.getD 0 } else .error .automatonScale

/-! ### Char-wise builder (`CharwiseDoubleArrayAhoCorasickBuilder::build_double_array`, src/charwise/builder.rs)

 * The char-wise `State` is the same model record `St` (`base : Option<NonZeroU32>` with `None = 0`,
   `output_pos : Option<NonZeroU32>` with `None = 0`); its setters write the fields and none of them fails.
 * `CodeMapper` is the model record `Mapper` (`table`, `alphaSize`); `CodeMapper.get` below is, textually,
   the definition tools/rs2lean.py generates from src/charwise/mapper.rs into Gen/SearchC.lean with
   `self.table` for `self.mapTable` (tools/dbl2lean.py compares the two texts on every run).
 * `slice::sort_by(|(c1, _), (c2, _)| c1.cmp(c2))` is a STABLE sort by the first component: `sortByFst`
   is the stable insertion sort (each element is inserted, from the last to the first, in front of the
   first element whose key is not smaller).  The model (`edgeCodes .charwise`, `insertByCodeP`) inserts
   behind equal keys instead; the two agree on lists with pairwise distinct keys, which is what
   Proofs/TieDC.lean proves (`sortByFst_map_eq`) and uses. -/

/-- `State::set_check(x)` (char-wise) -/
def StC.set_check (s : St) (x : Nat) : St := { s with check := x }

/-- `State::set_base(x)` (char-wise; `Some(x)`, `x : NonZeroU32`) -/
def StC.set_base (s : St) (x : Nat) : St := { s with base := x }

/-- `State::set_fail(x)` (char-wise) -/
def StC.set_fail (s : St) (x : Nat) : St := { s with fail := x }

/-- `State::set_output_pos(x)` (char-wise): stores the `Option<NonZeroU32>`, `None` is `0`. -/
def StC.set_output_pos (s : St) (x : Option Nat) : St := { s with opos := x.getD 0 }

/-- `CodeMapper::get` (src/charwise/mapper.rs), on the model's `Mapper`. -/
def CodeMapper.get (self : Mapper) (c : Nat) : Option Nat :=
  match self.table[c]? with
  | none =>
    none
  | some code =>
    if (decide (code ≠ Gen.invalidCode)) then
      (some code)
    else
      none

/-- Insertion in front of the first element whose first component is not smaller. -/
def insertByFst (x : Nat × Nat) : List (Nat × Nat) → List (Nat × Nat)
  | [] => [x]
  | y :: r => if x.1 ≤ y.1 then x :: y :: r else y :: insertByFst x r

/-- `v.sort_by(|(c1, _), (c2, _)| c1.cmp(c2))`: stable insertion sort by the first component. -/
def sortByFst (l : List (Nat × Nat)) : List (Nat × Nat) := l.foldr insertByFst []

/-- `vec.iter().enumerate()` -/
def enumerateA {α : Type} (a : Array α) : List (Nat × α) := Rs.enumerate a.toList

end Rs
end Daac.Gen

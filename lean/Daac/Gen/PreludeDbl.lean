/-
Prelude of the Rust-to-Lean translator for `DoubleArrayAhoCorasickBuilder::build_double_array`
(src/bytewise/builder.rs, translated by tools/dbl2lean.py).  Hand-written; trusted base of the tie
together with the translation rules in the header of tools/dbl2lean.py.

 * The byte-wise `State` is the model record `St`; its setters write the fields
   `check / base / fail / opos` (`set_output_pos` refuses values above `U24::MAX`).  This reading of the
   packed representation (`opos_ch : U24nU8`) is justified separately by Daac/Proofs/TieA.lean.
 * `iter().enumerate()` over a `Vec` is the list of (position, element) pairs.
-/
import Daac.Gen.PreludeNfa
import Daac.Gen.Prelude
import Daac.Model.Build
namespace Daac.Gen
namespace Rs

/-- `State::set_check(x)` (byte-wise) -/
def St.set_check (s : St) (x : Nat) : St := { s with check := x }

/-- `State::set_base(x)` (byte-wise; `x : NonZeroU32`, `None` is `0`) -/
def St.set_base (s : St) (x : Nat) : St := { s with base := x }

/-- `State::set_fail(x)` (byte-wise) -/
def St.set_fail (s : St) (x : Nat) : St := { s with fail := x }

/-- `State::set_output_pos(x)` (byte-wise): `x.map_or(0, NonZeroU32::get)` must fit `U24`. -/
def St.set_output_pos (s : St) (x : Option Nat) : Except BuildErr St :=
  if x.getD 0 ≤ Gen.u24Max then .ok { s with opos := x.getD 0 } else .error .automatonScale

/-- `vec.iter().enumerate()` -/
def enumerateA {α : Type} (a : Array α) : List (Nat × α) := Rs.enumerate a.toList

end Rs
end Daac.Gen

/-
Prelude of the Rust-to-Lean translator for the construction of the char-wise code mapper
(`CodeMapper::new`, src/charwise/mapper.rs, and the frequency-counting loop of
`CharwiseDoubleArrayAhoCorasickBuilder::build_original_nfa_and_mapper`, src/charwise/builder.rs;
translated by tools/map2lean.py).  Hand-written; trusted base of the tie together with the translation
rules in the header of tools/map2lean.py and with Gen/PreludeBuild.lean (`Rs.index`, `Rs.indexSet`,
`Rs.resize`, `Rs.u32TryFromUnwrap`) and Gen/Prelude.lean (`Rs.enumerate`).

Meanings fixed here
 * `a.cmp(&b)` on integers is `compare a b` (`Rs.cmpNat`); `Ordering` is Lean's `Ordering`
   (`Less` = `.lt`, `Equal` = `.eq`, `Greater` = `.gt`);
 * `o.then_with(f)` is `o` unless `o` is `Equal`, in which case it is `f()` (`Rs.thenWith`);
 * `v.sort_unstable_by(cmp)` is INSERTION SORT with `cmp` (`Rs.sortUnstableBy`): the elements are
   inserted one by one, in the order of `v`, each before the first element it is strictly `Less` than.
   This is the meaning of the Rust method (pattern-defeating quicksort, not stable) exactly when `cmp` is
   a total order under which the elements of `v` are PAIRWISE DISTINCT (no two compare `Equal`): then the
   sorted permutation is unique and every correct sorting algorithm returns it.  In `CodeMapper::new`
   the elements are `(c, f)` with distinct `c`, and the closure `f2.cmp(f1).then_with(|| c1.cmp(c2))`
   is the lexicographic total order (frequency descending, code point ascending), so the side
   condition holds.  If the tie-break `then_with(..)` is dropped, two distinct elements with the same
   frequency compare `Equal`, the result of `sort_unstable_by` is unspecified (any order of the ties),
   this definition no longer describes it, and the equality proofs of Daac/Proofs/TieM.lean fail (as
   they should: the code assignment would then depend on the sorting algorithm);
 * `vec![x; n]` is `Array.replicate n x`; `iter().enumerate()` pairs every element with its position
   from 0; `filter(p)` keeps the elements satisfying `p`, in order (`List.filter`);
 * `u32::try_from(i).unwrap()` is `i` when `i ≤ u32::MAX` and a panic above (`Rs.u32TryFromUnwrap`);
 * `INVALID_CODE` is `Gen.invalidCode` (Gen/Consts.lean, generated from the source).
-/
import Daac.Gen.PreludeDbl
namespace Daac.Gen
namespace Rs

/-- `a.cmp(&b)` for integers. -/
def cmpNat (a b : Nat) : Ordering := compare a b

/-- `o.then_with(f)` -/
def thenWith (o : Ordering) (f : Unit → Ordering) : Ordering :=
  match o with
  | .eq => f ()
  | o => o

/-- Insert `x` before the first element it is strictly less than. -/
def insertBy {α : Type} (cmp : α → α → Ordering) (x : α) : List α → List α
  | [] => [x]
  | y :: r => if cmp x y = .lt then x :: y :: r else y :: insertBy cmp x r

/-- `v.sort_unstable_by(cmp)` for a comparator that is a total order under which the elements of `v`
are pairwise distinct (see the header of this file). -/
def sortUnstableBy {α : Type} (cmp : α → α → Ordering) (l : List α) : List α :=
  l.foldl (fun s x => insertBy cmp x s) []

end Rs
end Daac.Gen

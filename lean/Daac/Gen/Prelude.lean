/-
Prelude of the Rust-to-Lean translator (tools/rs2lean.py): the meaning given to the std / core
items the translated functions use.  Hand-written, small, and part of the trusted base of the
translation tie (DESIGN.md §7): each definition states what the Rust item does on the data
representation of the model (`Nat` integers, `List Nat` byte strings, `Option Nat` for
`Option<NonZeroU32>`, checked accesses in `Except Fault`).
-/
import Daac.Model.Search
namespace Daac.Gen

/-- Result of a loop body that may `return` from the enclosing function (`ret`) or leave the loop
normally with the loop-carried variables (`done`). -/
inductive Ctl (ρ σ : Type) where
  | ret (r : ρ)
  | done (s : σ)

namespace Rs

/-- `daachorse::Match` as the iterators construct it (`length`, `end`, `value`). -/
structure Match (V : Type) where
  length : Nat
  end_ : Nat
  value : V

/-- `Match::start()` / `end()` / `value()` of src/lib.rs in the model's vocabulary. -/
def Match.toModel {V : Type} (m : Match V) : Daac.Match V := ⟨m.end_ - m.length, m.end_, m.value⟩

/-- `NonZeroU32::new`. -/
def nonZero (x : Nat) : Option Nat := if x = 0 then none else some x

/-- `State::base()`: `Option<NonZeroU32>` stored as a number with 0 = `None`. -/
def St.base (s : St) : Option Nat := nonZero s.base
/-- `State::output_pos()`. -/
def St.outputPos (s : St) : Option Nat := nonZero s.opos
/-- `Output::parent()`. -/
def Out.parent {V : Type} (o : Out V) : Option Nat := nonZero o.parent

/-- `slice::get_unchecked(i)`: checked, the fault names the table. -/
def getUnchecked {α : Type} (a : Array α) (i : Nat) (f : Fault) : Except Fault α :=
  match a[i]? with
  | some x => .ok x
  | none => .error f

/-- `Option::unwrap_unchecked` (only used on the byte source inside a UTF-8 character). -/
def unwrapUnchecked {α : Type} (o : Option α) : Except Fault α :=
  match o with
  | some x => .ok x
  | none => .error .truncatedUtf8

/-- `char::from_u32_unchecked`. -/
def charFromU32Unchecked (c : Nat) : Except Fault Nat :=
  if isScalar c then .ok c else .error .invalidScalar

/-- `Enumerate<P>::next` over a byte source: yields `(index, byte)`. -/
def Enumerate.next (s : Src) : Option (Nat × Nat) × Src :=
  match s.rest with
  | [] => (none, s)
  | b :: r => (some (s.pulled, b), ⟨r, s.pulled + 1⟩)

/-- `iter().enumerate()` on a slice. -/
def enumerateFrom {α : Type} : Nat → List α → List (Nat × α)
  | _, [] => []
  | n, a :: l => (n, a) :: enumerateFrom (n + 1) l
def enumerate {α : Type} (l : List α) : List (Nat × α) := enumerateFrom 0 l

/-- `Iterator::enumerate` on a byte iterator, represented by the bytes it will yield. -/
def iterEnumerate (l : List Nat) : Src := ⟨l, 0⟩

/-- `str::get_unchecked(pos..)`: `pos` must be a character boundary of the UTF-8 text. -/
def strGetUncheckedFrom (h : List Nat) (pos : Nat) : Except Fault (List Nat) :=
  if isBoundary h pos then .ok (h.drop pos) else .error .badSlice

/-- `str::chars()`: the code points of a UTF-8 text (decoded by the reference decoder; a text that
is not valid UTF-8 violates the type invariant of `str` and is reported as a fault). -/
def chars (bytes : List Nat) : Except Fault (List Nat) :=
  match allItems .charwise (bytes.length + 1) ⟨bytes, 0⟩ with
  | .error e => .error e
  | .ok items => .ok (items.map (·.label))

/-- `char::len_utf8`. -/
def lenUtf8 (c : Nat) : Nat :=
  if c < 0x80 then 1 else if c < 0x800 then 2 else if c < 0x10000 then 3 else 4

end Rs
end Daac.Gen

/-
Meaning given to the std items that the translated serialisation code uses
(tools/ser2lean.py → Daac/Gen/Serial.lean). Hand-written, trusted; nothing here is generated.

`Vec<u8>` and `&[u8]` are `List Nat` (one byte per item); integers are `Nat`;
`Option<NonZeroU32>` is `Option Nat`; `none` as a result = the Rust code panics.
-/
import Daac.Model.Serial
namespace Daac.Gen.Rs
open Daac
variable {V : Type}

/-- `x.to_le_bytes()` for an integer type of `tw` bytes. -/
def to_le_bytes (tw x : Nat) : List Nat := leBytes tw x

/-- `T::from_le_bytes(src[..size].try_into().unwrap())` for an integer type `T` of `tw` bytes:
`src[..size]` panics on a shorter slice, `try_into::<[u8; tw]>().unwrap()` panics unless `size = tw`. -/
def from_le_bytes_of_prefix (tw size : Nat) (src : List Nat) : Option Nat :=
  if src.length < size then none
  else if size ≠ tw then none
  else some (leNat (src.take size))

/-- `&src[n..]` (panics when `n > src.len()`). -/
def slice_from (n : Nat) (src : List Nat) : Option (List Nat) :=
  if src.length < n then none else some (src.drop n)

/-- `src[i]` (panics when out of range). -/
def byte_at (src : List Nat) (i : Nat) : Option Nat := src[i]?

/-- `opt.map_or(0, NonZeroU32::get)`. -/
def map_or_0_get : Option Nat → Nat
  | none => 0
  | some x => x

/-- `NonZeroU32::new(x)`. -/
def NonZeroU32_new (x : Nat) : Option Nat := if x = 0 then none else some x

/-- `u32::try_from(n: usize).unwrap()` (`none` = the unwrap panics). -/
def u32_try_from_usize (n : Nat) : Option Nat := if n ≤ 4294967295 then some n else none

/-- `u8::try_from(x: u32).unwrap()` (`none` = the unwrap panics). -/
def u8_try_from (x : Nat) : Option Nat := if x ≤ 255 then some x else none

/-- `u8::from(kind)`: a match kind is identified with its byte throughout the model. -/
def kind_to_u8 (k : Nat) : Nat := k

/-- `MatchKind::from(byte)`: the table regenerated from src/lib.rs by gen_consts.py. -/
def kind_from_u8 (b : Nat) : Nat := decodeKind b

/-- `V::serialize_to_vec` of a value type described by a `Ser V` record: appends `enc v`. -/
def userSer (S : Ser V) (v : V) (dst : List Nat) : Option (List Nat) := some (dst ++ S.enc v)

/-- `V::deserialize_from_slice`: reads the first `width` bytes, hands back the rest
(panics on a shorter slice). -/
def userDe (S : Ser V) (src : List Nat) : Option (V × List Nat) :=
  if src.length < S.width then none else some (S.dec src, src.drop S.width)

end Daac.Gen.Rs

/-
Prelude of the Rust-to-Lean translator for the sparse-NFA builder (`src/nfa_builder.rs`:
`NfaBuilder::{new, add, is_registered, child_id, build_fails, build_fails_leftmost, build_outputs}`,
translated by tools/nfa2lean.py): the meaning
given to the std / core items those functions use.  This file is hand-written and is the trusted
base of the tie (together with the translation rules in the header of tools/nfa2lean.py).

Representation choices
 * integers (`u32`, `usize`, labels `L` = `u8`/`char`, `NonZeroU32`) are `Nat`; `usize` arithmetic
   (`self.len += 1`, the byte-length fold) is unbounded;
 * `Vec<RefCell<NfaBuilderState>>` is `Array NfaBuilderState`: `borrow()` / `borrow_mut()` are plain
   reads / writes of the element (`new` / `add` / `is_registered` / `child_id` never hold a `borrow_mut`
   across another borrow of the same cell; the fail / output passes do hold a borrow of the queue
   entry's cell while they touch OTHER cells — the dynamic borrow check is not modelled);
   `vec[i]` out of range is `BuildErr.panic` (`Rs.index`);
 * `Vec<u32>` / `&[u32]` (the BFS queue) is `Array Nat`; `edges.values()` / `&edges` iterate the
   association list in label order;
 * `BTreeMap<L, u32>` is a label-sorted association list (`EdgeMap`), `get` / `insert` below;
 * `BTreeSet<Vec<L>>` is a list of keys (`SetL`); `insert` returns (was-new, set');
 * `Option<(V, NonZeroU32)>` is `Option (V × Nat)`;
 * `Result<u32, TryFromIntError>` (of `try_into` / `u32::try_from`) is `Option Nat`: the error
   carries no information; `map_err(f)?` / `ok_or_else(f)?` turn `none` into the error *kind* of `f`
   (payloads built by `format!` and the argument names are dropped);
 * `MatchKind` is its byte (`Gen.kindBytes`).
-/
import Daac.Model.Trie
import Daac.Gen.Consts
import Daac.Gen.PreludeBuild
namespace Daac.Gen
namespace Rs

/-- `struct Output<V>` of src/lib.rs (only stored, never touched by the translated functions). -/
structure Output (V : Type) where
  value : V
  length : Nat
  parent : Option Nat

/-- `BTreeMap<L, u32>`: association list in strictly increasing label order. -/
abbrev EdgeMap := List (Nat × Nat)

/-- `EdgeMap::default()` -/
def EdgeMap.empty : EdgeMap := []

/-- `edges.get(&c).copied()` -/
def EdgeMap.get : EdgeMap → Nat → Option Nat
  | [], _ => none
  | (l, v) :: r, c => if l = c then some v else EdgeMap.get r c

/-- `edges.insert(c, v)`: sorted insert, the value is replaced on an equal key (the returned old
value is not used by the translated code). -/
def EdgeMap.insert : EdgeMap → Nat → Nat → EdgeMap
  | [], c, v => [(c, v)]
  | (l, w) :: r, c, v =>
    if c < l then (c, v) :: (l, w) :: r
    else if c = l then (l, v) :: r
    else (l, w) :: EdgeMap.insert r c v

/-- `edges.values()`: the child ids in label order. -/
def EdgeMap.values (m : EdgeMap) : List Nat := m.map (·.2)

/-- `Vec::with_capacity(n)`: the empty vector (capacity is not observable). -/
def vecWithCapacity {α : Type} (_n : Nat) : Array α := #[]

/-- `BTreeSet<Vec<L>>` (only membership is observable). -/
abbrev SetL := List (List Nat)

/-- `BTreeSet::new()` -/
def SetL.empty : SetL := []

/-- `set.insert(x)`: (`true` iff `x` was not yet a member, the new set). -/
def SetL.insert (s : SetL) (x : List Nat) : Bool × SetL :=
  if s.contains x then (false, s) else (true, x :: s)

/-- `u32::try_from(n)` / `n.try_into()` (target `u32`) for a `usize`; `none` = `Err(_)`. -/
def u32TryFrom (n : Nat) : Option Nat := if n ≤ u32Max then some n else none

/-- `NonZeroU32::new(n)` -/
def nonZeroU32New (n : Nat) : Option Nat := if n = 0 then none else some n

/-- `result.map_err(|_| e)` on a `Result` whose error carries no information. -/
def mapErr {α : Type} (r : Option α) (e : BuildErr) : Except BuildErr α :=
  match r with
  | some x => .ok x
  | none => .error e

/-- `option.ok_or_else(|| e)` -/
def okOrElse {α : Type} (o : Option α) (e : BuildErr) : Except BuildErr α :=
  match o with
  | some x => .ok x
  | none => .error e

/-- `option.replace(v)`: (old value, new content of the place). -/
def optReplace {α : Type} (o : Option α) (v : α) : Option α × Option α := (o, some v)

end Rs
end Daac.Gen

/-
Prelude of the Rust-to-Lean translator for the construction side (`src/build_helper.rs`): the
meaning given to the std / core items the translated functions use. Errors of `Result` and panics
(`assert!`, armed `debug_assert!`, `unwrap`, out-of-range `Vec` indexing) are values of the one
error type `BuildErr`, as in the hand-written model (Daac/Model/Build.lean).
-/
import Daac.Model.Trie
namespace Daac.Gen
namespace Rs

def u32Max : Nat := 4294967295

/-- `vec[i]` (panics when out of range). -/
def index {α : Type} (a : Array α) (i : Nat) : Except BuildErr α :=
  match a[i]? with
  | some x => .ok x
  | none => .error (.panic "index out of bounds")

/-- `vec[i] = v` (panics when out of range). -/
def indexSet {α : Type} (a : Array α) (i : Nat) (v : α) : Except BuildErr (Array α) :=
  if i < a.size then .ok (a.setIfInBounds i v) else .error (.panic "index out of bounds")

/-- `slice[i]` (panics when out of range). -/
def indexL {α : Type} (l : List α) (i : Nat) : Except BuildErr α :=
  match l[i]? with
  | some x => .ok x
  | none => .error (.panic "index out of bounds")

/-- `Vec::resize(n, v)`. -/
def resize {α : Type} (a : Array α) (n : Nat) (v : α) : Array α :=
  if a.size ≤ n then a ++ Array.replicate (n - a.size) v else a.extract 0 n

/-- `u32::try_from(n).unwrap()` for a `usize`. -/
def u32TryFromUnwrap (n : Nat) : Except BuildErr Nat :=
  if n ≤ u32Max then .ok n else .error (.panic "u32::try_from(..).unwrap()")

/-- `u32::checked_mul`. -/
def checkedMulU32 (a b : Nat) : Option Nat := if a * b ≤ u32Max then some (a * b) else none

/-- `u32::wrapping_sub`. -/
def wrappingSubU32 (a b : Nat) : Nat := if b ≤ a then a - b else a + (u32Max + 1) - b

/-- The values of `a..b` in order. -/
def rangeList (a b : Nat) : List Nat := List.range' a (b - a)

/-- `(a..b).find(pred)` with a predicate that may panic: predicates are evaluated in order and
evaluation stops at the first `true`. -/
def findM {ε : Type} (f : Nat → Except ε Bool) : List Nat → Except ε (Option Nat)
  | [] => .ok none
  | x :: l =>
    match f x with
    | .error e => .error e
    | .ok true => .ok (some x)
    | .ok false => findM f l

def rangeFindM {ε : Type} (a b : Nat) (f : Nat → Except ε Bool) : Except ε (Option Nat) :=
  findM f (rangeList a b)

end Rs
end Daac.Gen

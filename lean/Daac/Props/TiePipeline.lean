/-
Translation tie, end to end for the byte-wise builder — what Proofs/TieP buys.

Every step of `DoubleArrayAhoCorasickBuilder::build_with_values` is now a Lean definition
GENERATED from /repo's current Rust source on every run:
  `NfaBuilder::new` / `add` (insertion, validation)            tools/nfa2lean.py  → Gen/Nfa.lean
  `build_fails` / `build_fails_leftmost` / `build_outputs`     tools/nfa2lean.py  → Gen/Nfa.lean
  `build_double_array` (DFS layout, fail/output pass, sanitising)  tools/dbl2lean.py → Gen/BuildB.lean
  `BuildHelper`, `init_array`, `find_base`, `extend_array`, `remove_invalid_checks`  tools/rs2lean.py → Gen/Helper, LayoutB
  the `State` setters and the `U24nU8` packing                 tools/acc2lean.py  → Gen/Access.lean
and each is tied to the hand-written path-keyed model by a kernel-checked refinement
(Proofs/TieN, TieF*, TieD, TieH, TieL, TieA). Proofs/TieP composes them: `Tie.P.genBuildB` runs the
generated steps in the order of `build_with_values` / `build_sparse_nfa` (that sequencing — five
lines, with the `len == 0` and `len > U24::MAX` tests — is the only hand-written glue), and

    norm (genBuildB kind nfb P) = norm ((buildDA .bytewise ⟨kind, nfb⟩ P).map (·.states))

for EVERY collection of byte patterns within the `u32` scale, every match kind, every
`num_free_blocks ≥ 1`: the translated pipeline and the model builder fail with the same error kind or
return the same state table. Every Rung-2 theorem is about `buildDA`; composed with this equation
they are statements about the table the TRANSLATED Rust builder computes (first corollary below).

Outside: the translators and their preludes (meaning of `Vec`, `BTreeMap`, `RefCell`, integer
conversions), the sequencing glue `genBuildB` (itself tied to the TRANSLATED `build_sparse_nfa` /
`build_with_values` in Props/TieTop.lean), `build` (the position-conversion wrapper). The char-wise
builder has its own end-to-end theorem in Props/TiePipelineC.lean.
-/
import Daac.Proofs.TieP
import Daac.Props.C01
namespace Daac.Props.TiePipeline
open Daac Daac.Gen Daac.Tie.H Daac.Tie.P
variable {V : Type}

theorem mem_le_sum (l : List Nat) (x : Nat) (h : x ∈ l) : x ≤ l.sum := by
  induction l with
  | nil => cases h
  | cons a r ih =>
    simp only [List.sum_cons]
    rcases List.mem_cons.1 h with rfl | h'
    · omega
    · have := ih h'; omega

/-- **Translated byte-wise builder = model builder**, as one equation (errors included). -/
theorem generated_builder_eq_model (kind : Nat) (cfg : Cfg) (P : List (LPat V))
    (hkind : cfg.kind = kind) (hnfb : 1 ≤ cfg.nfb) (hbytes : ∀ p ∈ P, ∀ c ∈ p.key, c < 256)
    (hsz : 2 + (P.map (·.key.length)).sum ≤ 4294967295)
    (hlen : ∀ p ∈ P, (p.key.map (fun _ => 1)).sum = p.blen ∧ p.blen ≤ 4294967295) :
    norm (genBuildB kind cfg.nfb P) = norm ((buildDA .bytewise cfg P).map (·.states)) :=
  genBuildB_eq_buildDA kind cfg P hkind hnfb hbytes hsz hlen

/-- … hence whenever the model builder succeeds, the translated pipeline succeeds with exactly the
model's table (no panic, no fuel exhaustion anywhere in the translated code). -/
theorem generated_table_of_model_ok (kind : Nat) (cfg : Cfg) (P : List (LPat V)) (da : DA V)
    (hkind : cfg.kind = kind) (hnfb : 1 ≤ cfg.nfb) (hbytes : ∀ p ∈ P, ∀ c ∈ p.key, c < 256)
    (hsz : 2 + (P.map (·.key.length)).sum ≤ 4294967295)
    (hlen : ∀ p ∈ P, (p.key.map (fun _ => 1)).sum = p.blen ∧ p.blen ≤ 4294967295)
    (hb : buildDA .bytewise cfg P = .ok da) :
    genBuildB kind cfg.nfb P = .ok da.states := by
  have h := genBuildB_eq_buildDA kind cfg P hkind hnfb hbytes hsz hlen
  rw [hb] at h
  exact Daac.Props.TieBuild.ok_of_norm h

theorem sum_ones (l : List Nat) : (l.map (fun _ => 1)).sum = l.length := by
  induction l with
  | nil => rfl
  | cons a r ih => simp only [List.map_cons, List.sum_cons, List.length_cons, ih]; omega

/-- **C01 for the table the translated builder computes** (standard kind, byte-wise): for every
valid collection within the `u32` scale and every `num_free_blocks ≥ 1`, if the model builder
succeeds then the TRANSLATED pipeline returns exactly that table, and the overlapping search on it
returns `specOverlapping` on every haystack. -/
theorem generated_table_overlapping_correct [DecidableEq V] (nfb : Nat) (Ps : List (Pat V)) (hV : ValidPats Ps)
    (hbytes : ∀ p ∈ Ps, ∀ b ∈ p.key, b < 256) (hnfb : 1 ≤ nfb)
    (hsz : 2 + ((Ps.map lp).map (·.key.length)).sum ≤ 4294967295)
    (da : DA V) (hb : buildDA .bytewise ⟨0, nfb⟩ (Ps.map lp) = .ok da) :
    genBuildB 0 nfb (Ps.map lp) = .ok da.states ∧
    ∀ h : List Nat, (∀ b ∈ h, b < 256) →
      ∃ l fin, ovAll da h = .ok (l, fin) ∧ l.map (·.1) = specOverlapping Ps h := by
  have hlen : ∀ p ∈ Ps.map lp, (p.key.map (fun _ => 1)).sum = p.blen ∧ p.blen ≤ 4294967295 := by
    intro p hp
    obtain ⟨q, hq, rfl⟩ := List.mem_map.1 hp
    have hle : q.key.length ≤ ((Ps.map lp).map (·.key.length)).sum := by
      exact mem_le_sum _ _ (List.mem_map.2 ⟨lp q, List.mem_map.2 ⟨q, hq, rfl⟩, rfl⟩)
    refine ⟨by simp only [lp, sum_ones], ?_⟩
    simp only [lp]; omega
  have hby : ∀ p ∈ Ps.map lp, ∀ c ∈ p.key, c < 256 := by
    intro p hp c hc
    obtain ⟨q, hq, rfl⟩ := List.mem_map.1 hp
    exact hbytes q hq c hc
  refine ⟨generated_table_of_model_ok 0 ⟨0, nfb⟩ (Ps.map lp) da rfl hnfb hby hsz hlen hb, ?_⟩
  intro h hh
  exact C01.overlapping_correct_build_bytewise nfb Ps hV hbytes da hb h hh

end Daac.Props.TiePipeline

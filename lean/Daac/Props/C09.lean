/-
Property C09 — serialisation round trip. Theorems about `Daac.serialize` / `Daac.deserialize`
(Model/Serial.lean), which suite K-serial ties to the implementation byte for byte.
-/
import Daac.Model.Serial
namespace Daac.Props.C09
open Daac

/-- The match kind survives its one-byte encoding, for each of the three kinds. The decoding
table is generated from the current source (`From<u8> for MatchKind`), so this is re-proved
against what the code says now. -/
theorem kind_roundtrip : ∀ k ∈ [0, 1, 2], decodeKind k = k := by decide

/-- Kinds are encoded as the bytes 0, 1, 2 (`From<MatchKind> for u8`, generated). -/
theorem kind_bytes : Gen.kindBytes.map (·.2) = [0, 1, 2] := by decide

/-- Bytes without an explicit arm decode to the default kind (Standard) — which a round trip
never produces, by `kind_roundtrip`. -/
theorem kind_default (b : Nat) (h : b ∉ Gen.kindFromU8.map (·.1)) :
    decodeKind b = kindByteOf Gen.kindFromU8Default := by
  unfold decodeKind
  have : Gen.kindFromU8.find? (fun x => x.1 == b) = none := by
    apply List.find?_eq_none.2
    intro x hx
    have : x.1 ≠ b := fun e => h (e ▸ List.mem_map_of_mem hx)
    simpa using this
  rw [this]

theorem kind_default_is_standard : kindByteOf Gen.kindFromU8Default = 0 := by decide

end Daac.Props.C09

/-
Property C09 — serialisation round trip restores an equal, equally behaving automaton.

Model: `Daac.serialize` / `Daac.deserialize` (Model/Serial.lean), tied to the implementation byte
for byte by suite K-serial (image equality, restored tables, remainder) on every run; the width
table and the match-kind tables are generated from the current source (Gen/Consts.lean).
Proofs: Daac/Proofs/SerialRT.lean.
-/
import Daac.Proofs.SerialRT
import Daac.Proofs.WF2
import Daac.Proofs.Intpack
namespace Daac.Props.C09
open Daac
variable {V : Type}

/-- **Round trip, full strength in the model**: for *every* well-formed automaton value (not only
built ones), both variants, all three kinds, every lawful fixed-width value type, and arbitrary
trailing bytes: deserialising the image yields an automaton *equal* to the original, consumes
exactly the image and hands back the trailing bytes untouched. -/
theorem roundtrip (S : Ser V) (D : V → Prop) (hS : S.LawfulOn D) (da : DA V) (h : da.WF S D)
    (rest : List Nat) : deserialize S da.variant (serialize S da ++ rest) = some (da, rest) :=
  deserialize_serialize S D hS da h rest

/-- Serialising the restored automaton reproduces the same bytes. -/
theorem reserialize (S : Ser V) (D : V → Prop) (hS : S.LawfulOn D) (da : DA V) (h : da.WF S D)
    (rest : List Nat) (da' : DA V) (rest' : List Nat)
    (hd : deserialize S da.variant (serialize S da ++ rest) = some (da', rest')) :
    serialize S da' = serialize S da ∧ rest' = rest :=
  Daac.reserialize S D hS da h rest da' rest' hd

/-- The restored automaton answers every search identically: it *is* the same value, so any
function of it (every search method of the model) gives the same result. -/
theorem search_after_roundtrip {α : Type} (S : Ser V) (D : V → Prop) (hS : S.LawfulOn D) (da : DA V)
    (h : da.WF S D) (rest : List Nat) (search : DA V → α) :
    ∃ da', deserialize S da.variant (serialize S da ++ rest) = some (da', rest) ∧ search da' = search da :=
  ⟨da, deserialize_serialize S D hS da h rest, rfl⟩

/-- The built-in value types are lawful on their ranges (unsigned / signed of any width, `Empty`). -/
theorem unsigned_lawful (w : Nat) : (serUnsigned w).LawfulOn (fun v => 0 ≤ v ∧ v < 256 ^ w) :=
  serUnsigned_lawfulOn w
theorem signed_lawful (w : Nat) (hw : 1 ≤ w) :
    (serSigned w).LawfulOn (fun v => -(2 ^ (8 * w - 1)) ≤ v ∧ v < 2 ^ (8 * w - 1)) :=
  serSigned_lawfulOn w hw
theorem empty_lawful : serEmpty.LawfulOn (fun v => v = 0) := serEmpty_lawfulOn

/-- The match kind survives its one-byte encoding, for each of the three kinds. The decoding
table is generated from the current source (`From<u8> for MatchKind`), so this is re-proved
against what the code says now. -/
theorem kind_roundtrip : ∀ k ∈ [0, 1, 2], decodeKind k = k := by decide

/-- Kinds are encoded as the bytes 0, 1, 2 (`From<MatchKind> for u8`, generated). -/
theorem kind_bytes : Gen.kindBytes.map (·.2) = [0, 1, 2] := by decide

/-- Bytes without an explicit arm decode to the default kind (Standard) — which a round trip
never produces, by `kind_roundtrip`. -/
theorem kind_default (b : Nat) (h : b ∉ Gen.kindFromU8.map (·.1)) :
    decodeKind b = kindByteOf Gen.kindFromU8Default := by
  unfold decodeKind
  have : Gen.kindFromU8.find? (fun x => x.1 == b) = none := by
    apply List.find?_eq_none.2
    intro x hx
    have : x.1 ≠ b := fun e => h (e ▸ List.mem_map_of_mem hx)
    simpa using this
  rw [this]

theorem kind_default_is_standard : kindByteOf Gen.kindFromU8Default = 0 := by decide

/-- The widths of the built-in integer types as the source defines them (generated table):
a wrong width in `define_serializable_primitive!` breaks this obligation. -/
theorem prim_widths :
    Gen.primWidths.map (fun x => (x.1, x.2.1)) =
      [("u8", 1), ("u16", 2), ("u32", 4), ("u64", 8), ("u128", 16), ("usize", 8),
       ("i8", 1), ("i16", 2), ("i32", 4), ("i64", 8), ("i128", 16), ("isize", 8)] := by decide

/-- Non-vacuity: a concrete non-trivial char-wise automaton satisfies the hypotheses. -/
example : exampleDA.WF (serUnsigned 4) (fun v => 0 ≤ v ∧ v < 256 ^ 4) := exampleDA_wf


/-! ### Every BUILT automaton (model of the builder) round-trips -/

/-- For every collection, kind, variant and `num_free_blocks`: the automaton the model builder
returns is well-formed for serialisation (all fields within their widths — incl. the 24-bit output
position and the CHECK byte of the byte-wise state, for vacant elements too), within the
documented size limits (pattern lengths, node count and mapper table below 2^32). -/
theorem built_is_wellformed (S : Ser V) (D : V → Prop) (variant : Variant) (cfg : Cfg)
    (P : List (LPat V)) (da : DA V) (hb : buildDA variant cfg P = .ok da) (hk : keysOk P)
    (hbytes : variant = .bytewise → ∀ p ∈ P, ∀ c ∈ p.key, c < 256)
    (hkind : cfg.kind ∈ [0, 1, 2]) (hvals : ∀ p ∈ P, D p.value) (hlen : ∀ p ∈ P, p.blen < 2 ^ 32)
    (hcount : P.length < 2 ^ 32) (htab : variant = .charwise → tableLen P < 2 ^ 32)
    (hnodes : ∀ t, buildTrie cfg.kind P = .ok t → t.size < 2 ^ 32) : da.WF S D :=
  wf_of_build S D variant cfg P da hb hk hbytes hkind hvals hlen hcount htab hnodes

/-- … hence deserialising its image (plus arbitrary trailing bytes) restores an equal automaton
and hands back the trailing bytes. -/
theorem built_roundtrip (S : Ser V) (D : V → Prop) (variant : Variant) (cfg : Cfg)
    (P : List (LPat V)) (da : DA V) (hb : buildDA variant cfg P = .ok da) (hk : keysOk P)
    (hbytes : variant = .bytewise → ∀ p ∈ P, ∀ c ∈ p.key, c < 256)
    (hkind : cfg.kind ∈ [0, 1, 2]) (hvals : ∀ p ∈ P, D p.value) (hlen : ∀ p ∈ P, p.blen < 2 ^ 32)
    (hcount : P.length < 2 ^ 32) (htab : variant = .charwise → tableLen P < 2 ^ 32)
    (hnodes : ∀ t, buildTrie cfg.kind P = .ok t → t.size < 2 ^ 32)
    (hS : S.LawfulOn D) (rest : List Nat) :
    deserialize S da.variant (serialize S da ++ rest) = some (da, rest) :=
  roundtrip_of_build S D variant cfg P da hb hk hbytes hkind hvals hlen hcount htab hnodes hS rest

/-! ### The packed word of the byte-wise `State` (src/intpack.rs `U24nU8`) -/

/-- The third word of a serialised byte-wise state is the `U24nU8` holding (output position,
CHECK) with the shift regenerated from the source; its accessors recover both fields, and the
setters of the builder (`set_a` = `set_output_pos`, `set_b` = `set_check`) do not disturb each
other. -/
theorem bytewise_state_word (s : St) (hc : s.check < 256) :
    serSt .bytewise s = serU32 s.base ++ serU32 s.fail ++ serU32 (U24nU8.pack s.opos s.check) ∧
    U24nU8.a (U24nU8.pack s.opos s.check) = s.opos ∧
    U24nU8.b (U24nU8.pack s.opos s.check) = s.check :=
  ⟨rfl, U24nU8.a_pack _ _ hc, U24nU8.b_pack _ _ hc⟩

theorem packed_setters (x a' b' : Nat) (hb : b' < 256) :
    (U24nU8.a (U24nU8.setA x a') = a' ∧ U24nU8.b (U24nU8.setA x a') = U24nU8.b x) ∧
    (U24nU8.b (U24nU8.setB x b') = b' ∧ U24nU8.a (U24nU8.setB x b') = U24nU8.a x) :=
  ⟨U24nU8.setA_spec x a', U24nU8.setB_spec x b' hb⟩

end Daac.Props.C09

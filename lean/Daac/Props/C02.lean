/-
Property C02 — standard non-overlapping search: earliest-ending match, then restart after it.
Same structure as Props/C01 (Rung 1 proved for all haystacks; invariants evaluated per built
automaton; ties K-search(find), K-trans, K-build).
-/
import Daac.Proofs.Glue
import Daac.Proofs.SpecProps
import Daac.Proofs.Rung2
namespace Daac.Props.C02
open Daac
variable {V : Type} [DecidableEq V]

theorem find_correct_bytewise (da : DA V) (Ps : List (Pat V)) (hV : ValidPats Ps)
    (hv : da.variant = .bytewise)
    (hT : da.tableInv (Ps.map lp) = true) (hZ : da.sizeInv (Ps.map lp) = true)
    (h : List Nat) (hb : ∀ b ∈ h, b < 256) :
    ∃ l fin, findAll da h = .ok (l, fin) ∧ l.map (·.1) = specFind Ps h :=
  findAll_bytewise_eq_spec hv (stdSem_bytes da Ps hV hT hZ) hb

theorem find_correct_items (da : DA V) (P : List (LPat V))
    (hP : P ≠ []) (hkeys : (P.map (·.key)).Nodup) (hne : ∀ p ∈ P, p.key ≠ [])
    (hT : da.tableInv P = true) (hZ : da.sizeInv P = true)
    (h : List Nat) (items : List Item) (hI : itemsOfHay da.variant h = .ok items)
    (hL : ∀ it ∈ items, LabelOk da it.label) :
    ∃ l fin, findAll da h = .ok (l, fin) ∧ l.map (·.1) = specFindItems P [] items :=
  findAll_eq_spec (stdSem_of_tableInv da P hP hkeys hne hT (DA.sizeInv_depth hZ)) hI hL


/-! ### The specification function meets the declarative statement of the property -/

/-- `specFind` is the sequence the property describes (`FindSpec`: each step reports, among the
occurrences lying entirely at or after the end of the previous match, the one that ends first,
the longest if several end there; resumes at that end; stops when none remains) … -/
theorem spec_is_findspec (Ps : List (Pat V)) (hV : ValidPats Ps) (h : List Nat) :
    FindSpec Ps h 0 (specFind Ps h) := specFind_spec hV h
/-- … and the only such sequence. -/
theorem spec_unique (Ps : List (Pat V)) (hV : ValidPats Ps) (h : List Nat) (ms : List (Match V))
    (hms : FindSpec Ps h 0 ms) : ms = specFind Ps h := specFind_unique hV hms
/-- Reported matches never overlap, are strictly increasing, and every one is a true occurrence. -/
theorem spec_nonoverlapping (Ps : List (Pat V)) (hV : ValidPats Ps) (h : List Nat) :
    (specFind Ps h).Pairwise (fun a b => a.stop ≤ b.start) := specFind_nonoverlap hV h
theorem spec_increasing (Ps : List (Pat V)) (hV : ValidPats Ps) (h : List Nat) :
    (specFind Ps h).Pairwise (fun a b => a.start < b.start ∧ a.stop < b.stop) := specFind_increasing hV h
theorem spec_true_occurrences (Ps : List (Pat V)) (hV : ValidPats Ps) (h : List Nat) (m : Match V)
    (hm : m ∈ specFind Ps h) : IsOcc Ps h m := specFind_isOcc hV hm


/-! ### Rung 2 — every pattern collection, every `num_free_blocks`, in the model of the builder

`buildDA` is the model of `build_with_values` (Model/Trie.lean, Model/Nfa.lean, Model/Build.lean),
tied to the implementation by suite K-build (byte-identical tables). The chain of proofs:
insertion phase (Proofs/TrieFacts, NfaQueue) → fail links and outputs (Proofs/NfaStd, NfaLm, NfaG)
→ layout with the ring-buffer helper, BASE uniqueness and CHECK sanitising (Proofs/HelperFacts,
LayoutB, LayoutC, MapperFacts) → table semantics (Proofs/LayoutSem) → iterators (Rung 1). -/

theorem find_correct_build_bytewise (nfb : Nat) (Ps : List (Pat V)) (hV : ValidPats Ps)
    (hbytes : ∀ p ∈ Ps, ∀ b ∈ p.key, b < 256) (da : DA V)
    (hb : buildDA .bytewise ⟨0, nfb⟩ (Ps.map lp) = .ok da) (h : List Nat) (hh : ∀ b ∈ h, b < 256) :
    ∃ l fin, findAll da h = .ok (l, fin) ∧ l.map (·.1) = specFind Ps h :=
  bytewise_find_correct nfb Ps hV hbytes da hb h hh

theorem find_correct_build_charwise (nfb : Nat) (Q : List (List Nat × V)) (hQ : ScalarPats Q)
    (hQ0 : Q ≠ []) (hnd : (Q.map (·.1)).Nodup) (da : DA V)
    (hb : buildDA .charwise ⟨0, nfb⟩ (Q.map charPat) = .ok da) (t : List Nat) (ht : Scalars t) :
    ∃ l fin, findAll da (encAll t) = .ok (l, fin) ∧
      l.map (·.1) = specFind (Q.map bytePat) (encAll t) :=
  charwise_find_correct nfb Q hQ hQ0 hnd da hb t ht

end Daac.Props.C02

/-
Property C02 — standard non-overlapping search: earliest-ending match, then restart after it.
Same structure as Props/C01 (Rung 1 proved for all haystacks; invariants evaluated per built
automaton; ties K-search(find), K-trans, K-build).
-/
import Daac.Proofs.Glue
import Daac.Proofs.SpecProps
namespace Daac.Props.C02
open Daac
variable {V : Type} [DecidableEq V]

theorem find_correct_bytewise (da : DA V) (Ps : List (Pat V)) (hV : ValidPats Ps)
    (hv : da.variant = .bytewise)
    (hT : da.tableInv (Ps.map lp) = true) (hZ : da.sizeInv (Ps.map lp) = true)
    (h : List Nat) (hb : ∀ b ∈ h, b < 256) :
    ∃ l fin, findAll da h = .ok (l, fin) ∧ l.map (·.1) = specFind Ps h :=
  findAll_bytewise_eq_spec hv (stdSem_bytes da Ps hV hT hZ) hb

theorem find_correct_items (da : DA V) (P : List (LPat V))
    (hP : P ≠ []) (hkeys : (P.map (·.key)).Nodup) (hne : ∀ p ∈ P, p.key ≠ [])
    (hT : da.tableInv P = true) (hZ : da.sizeInv P = true)
    (h : List Nat) (items : List Item) (hI : itemsOfHay da.variant h = .ok items)
    (hL : ∀ it ∈ items, LabelOk da it.label) :
    ∃ l fin, findAll da h = .ok (l, fin) ∧ l.map (·.1) = specFindItems P [] items :=
  findAll_eq_spec (stdSem_of_tableInv da P hP hkeys hne hT (DA.sizeInv_depth hZ)) hI hL


/-! ### The specification function meets the declarative statement of the property -/

/-- `specFind` is the sequence the property describes (`FindSpec`: each step reports, among the
occurrences lying entirely at or after the end of the previous match, the one that ends first,
the longest if several end there; resumes at that end; stops when none remains) … -/
theorem spec_is_findspec (Ps : List (Pat V)) (hV : ValidPats Ps) (h : List Nat) :
    FindSpec Ps h 0 (specFind Ps h) := specFind_spec hV h
/-- … and the only such sequence. -/
theorem spec_unique (Ps : List (Pat V)) (hV : ValidPats Ps) (h : List Nat) (ms : List (Match V))
    (hms : FindSpec Ps h 0 ms) : ms = specFind Ps h := specFind_unique hV hms
/-- Reported matches never overlap, are strictly increasing, and every one is a true occurrence. -/
theorem spec_nonoverlapping (Ps : List (Pat V)) (hV : ValidPats Ps) (h : List Nat) :
    (specFind Ps h).Pairwise (fun a b => a.stop ≤ b.start) := specFind_nonoverlap hV h
theorem spec_increasing (Ps : List (Pat V)) (hV : ValidPats Ps) (h : List Nat) :
    (specFind Ps h).Pairwise (fun a b => a.start < b.start ∧ a.stop < b.stop) := specFind_increasing hV h
theorem spec_true_occurrences (Ps : List (Pat V)) (hV : ValidPats Ps) (h : List Nat) (m : Match V)
    (hm : m ∈ specFind Ps h) : IsOcc Ps h m := specFind_isOcc hV hm

end Daac.Props.C02

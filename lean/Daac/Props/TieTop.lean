/-
Translation tie, the TOP of the byte-wise builder — what Proofs/TieTop buys.

The sequencing of `DoubleArrayAhoCorasickBuilder::build_with_values` / `build_sparse_nfa`
(src/bytewise/builder.rs) — the `for (pattern, value) in patvals { nfa.add(..)? }` loop, the
`nfa.len == 0` and `nfa.len > U24::MAX` tests, the `match self.match_kind` choosing `build_fails` /
`build_fails_leftmost`, `build_outputs`, `build_double_array`, `num_states = u32::try_from(len - 1)`,
the struct literal — was the five-line HAND-WRITTEN glue `Tie.P.genBuildB`.  It is now a Lean
definition GENERATED from the repository's current Rust text on every run
(tools/top2lean.py → Gen/BuildTopB.lean: `TB.Builder.build_sparse_nfa`, `TB.Builder.build_with_values`,
`structure TB.DoubleArrayAhoCorasick`), calling the already generated `N.NfaBuilder.*` (Gen/Nfa.lean)
and `DB.Builder.build_double_array` (Gen/BuildB.lean).  Proofs/TieTop proves
  * `build_sparse_nfa_eq`: the translated `build_sparse_nfa` = the first part of the glue;
  * `build_with_values_states_eq`: the `states` of the translated `build_with_values` = `genBuildB`;
and composes with Proofs/TieP (`genBuildB_eq_buildDA`, `pipeline_refines`) into the statement below.

What is tied: on every list of byte patterns within the `u32` scale (`2 + Σ |pattern| ≤ u32::MAX`,
bytes `< 256`), every `MatchKind` byte `kind ≤ 2`, every `num_free_blocks ≥ 1`, the translated
`build_with_values` started from the empty builder and the model `buildDA .bytewise` fail with the same
error kind (panic texts ignored), or both succeed with EQUAL `states`, EQUAL `num_states`, and output
records related by `OutsRel`, and `match_kind = kind` = the model's kind
(`translated_build_with_values_eq_model_full`; the frame property `KindFrame` of the translated
`build_double_array` — it never writes `match_kind` — is proved in Proofs/TieTopFrame.lean).

Outside: the translators (tools/top2lean.py, nfa2lean.py, dbl2lean.py, rs2lean.py, acc2lean.py) and their
preludes (meaning of `Vec`, `BTreeMap`, `RefCell`, `IntoIterator` = list, `AsRef<[u8]>` = identity,
integer conversions, `MatchKind` = its byte).  `build` (the
position-conversion wrapper around `build_with_values`): Props/TieTopBuild.lean.  The char-wise counterpart: Props/TieTopC.lean.
-/
import Daac.Proofs.TieTop
import Daac.Proofs.TieTopFrame
namespace Daac.Props.TieTop
open Daac Daac.Gen Daac.Tie.H Daac.Tie.F Daac.Tie.Top
variable {V : Type}

/-- The translated byte-wise `build_with_values` (Gen/BuildTopB.lean) and the model `buildDA .bytewise`
agree on every collection of byte patterns within the `u32` scale: same error kind, or the same state
table, the same `num_states` and related output records. -/
theorem translated_build_with_values_eq_model (kind : Nat) (cfg : Cfg) (pv : List (List Nat × V))
    (hk : kind ≤ 2) (hkind : cfg.kind = kind) (hnfb : 1 ≤ cfg.nfb)
    (hbytes : ∀ p ∈ pv, ∀ c ∈ p.1, c < 256)
    (hsz : 2 + (pv.map (·.1.length)).sum ≤ 4294967295) :
    match TB.Builder.build_with_values ⟨#[], kind, cfg.nfb⟩ pv, buildDA .bytewise cfg (toLPats pv) with
    | .error e, .error e' => norm (.error e : Except BuildErr Unit) = norm (.error e')
    | .ok a, .ok da => a.states = da.states ∧ a.num_states = da.numStates ∧ OutsRel a.outputs da.outputs
    | _, _ => False :=
  generated_build_with_values_eq_buildDA kind cfg pv hk hkind hnfb hbytes hsz

/-- The translated `build_sparse_nfa` is the first part of the former glue. -/
theorem translated_build_sparse_nfa_eq_glue (b : LB.Builder) (pv : List (List Nat × V)) (hk : b.match_kind ≤ 2) :
    TB.Builder.build_sparse_nfa b pv = sparseGlue b.match_kind (toLPats pv) :=
  build_sparse_nfa_eq b pv hk

/-- The same, unconditional and with the `match_kind` field: the translated byte-wise `build_with_values`
and the model `buildDA .bytewise` fail with the same error kind, or succeed with the same state table, the
same `num_states`, `match_kind = kind` = the model's kind, and related output records. -/
theorem translated_build_with_values_eq_model_full (kind : Nat) (cfg : Cfg) (pv : List (List Nat × V))
    (hk : kind ≤ 2) (hkind : cfg.kind = kind) (hnfb : 1 ≤ cfg.nfb)
    (hbytes : ∀ p ∈ pv, ∀ c ∈ p.1, c < 256)
    (hsz : 2 + (pv.map (·.1.length)).sum ≤ 4294967295) :
    match TB.Builder.build_with_values ⟨#[], kind, cfg.nfb⟩ pv, buildDA .bytewise cfg (toLPats pv) with
    | .error e, .error e' => norm (.error e : Except BuildErr Unit) = norm (.error e')
    | .ok a, .ok da => a.states = da.states ∧ a.num_states = da.numStates ∧ a.match_kind = kind ∧
        a.match_kind = da.kind ∧ OutsRel a.outputs da.outputs
    | _, _ => False :=
  generated_build_with_values_eq_buildDA_full kind cfg pv hk hkind hnfb hbytes hsz

/-- The translated byte-wise `build_double_array` never writes `match_kind`. -/
theorem translated_build_double_array_keeps_kind : KindFrame V := kindFrame

end Daac.Props.TieTop

#print axioms Daac.Props.TieTop.translated_build_with_values_eq_model
#print axioms Daac.Props.TieTop.translated_build_sparse_nfa_eq_glue
#print axioms Daac.Props.TieTop.translated_build_with_values_eq_model_full
#print axioms Daac.Props.TieTop.translated_build_double_array_keeps_kind

/-
Property C16 — daacfind prints exactly the matching lines and highlights the matched text.

Model: `Daac.Cli` (Model/Cli.lean): pattern-list assembly, the per-line filter and the
depth-counter highlighting of `find_and_output`, with the two library searches as parameters
instantiated by the specification (justified by C02/C05). Tie K-cli: stdout and exit status of
the dev AND the release binary on generated invocations equal the model rendering byte for byte,
and the property is checked directly on the actual output. Not modelled (exercised only): clap's
parsing, file/stdin I/O, termcolor (its output = the two escape strings `ansiReset`, `ansiRed`).
"Starts without panicking" is observed on every invocation of the dev binary (defect D1, fixed).
-/
import Daac.Proofs.CliFacts
namespace Daac.Props.C16
open Daac Daac.Cli
variable {V : Type}

/-- A line is printed iff it contains at least one pattern occurrence — in both colour modes,
whatever the prefixes. -/
theorem prints_iff_occurs (P : List (Pat V)) (hv : ValidPats P) (color : Bool)
    (fn : Option (List Nat)) (ln : Option Nat) (line : List Nat) :
    findAndOutput (specFind P) (specNoSuffix P) color fn ln line ≠ [] ↔ ∃ m, IsOcc P line m :=
  Cli.prints_iff_occurs hv color fn ln line

/-- Without colouring the printed bytes are the prefixes, the unchanged line, a newline. -/
theorem plain_output (P : List (Pat V)) (hv : ValidPats P) (fn : Option (List Nat)) (ln : Option Nat)
    (line : List Nat) (hocc : ∃ m, IsOcc P line m) :
    findAndOutput (specFind P) (specNoSuffix P) false fn ln line = linePrefix fn ln ++ line ++ [10] :=
  Cli.plain_output hv fn ln line hocc

/-- With colouring the output is the prefixes followed by segments, each introduced by one of
the two escape strings, and the segments concatenate to the unchanged line. -/
theorem text_unchanged (P : List (Pat V)) (hv : ValidPats P) (fn : Option (List Nat)) (ln : Option Nat)
    (line : List Nat) (hocc : ∃ m, IsOcc P line m) :
    ∃ segs : List (Bool × List Nat),
      findAndOutput (specFind P) (specNoSuffix P) true fn ln line =
        linePrefix fn ln ++ (segs.flatMap fun s => (if s.1 then ansiRed else ansiReset) ++ s.2) ++ [10] ∧
      segs.flatMap (·.2) = line :=
  Cli.coloured_output hv fn ln line hocc

/-- **Highlight exactness**: byte `i` of a printed line is in a highlighted segment iff it is
covered by at least one occurrence of some pattern. -/
theorem highlight_exact (P : List (Pat V)) (hv : ValidPats P) (line : List Nat) (i : Nat)
    (hi : i < line.length) :
    (hlMask (colourSegs line (specNoSuffix P line)))[i]? = some true ↔
      ∃ m, IsOcc P line m ∧ m.start ≤ i ∧ i < m.stop :=
  Cli.highlighted_iff_covered hv line i hi

/-- The segments of `highlight_exact` are exactly the ones printed. -/
theorem highlight_segments_are_printed (P : List (Pat V)) (hv : ValidPats P) (fn : Option (List Nat))
    (ln : Option Nat) (line : List Nat) (hocc : ∃ m, IsOcc P line m) :
    findAndOutput (specFind P) (specNoSuffix P) true fn ln line =
      linePrefix fn ln ++ renderBytes (colourSegs line (specNoSuffix P line)) ++ [10] :=
  Cli.coloured_output_eq hv fn ln line hocc

/-- The longest-match-per-end search the tool uses covers every occurrence. -/
theorem nosuffix_covers_all (P : List (Pat V)) (hv : ValidPats P) (line : List Nat) (i : Nat) :
    (∃ m, IsOcc P line m ∧ m.start ≤ i ∧ i < m.stop) ↔
      ∃ m ∈ specNoSuffix P line, m.start ≤ i ∧ i < m.stop :=
  Cli.covered_iff_nosuf_covered hv line i

/-- The pattern list never contains an empty pattern (empty lines of `-f` / `-p` are dropped). -/
theorem patterns_nonempty (f a : Option (List Nat)) : ∀ p ∈ patterns f a, p ≠ [] :=
  Cli.patterns_ne_nil f a

end Daac.Props.C16

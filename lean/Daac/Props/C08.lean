/-
Property C08 — character-wise and byte-wise automata agree on UTF-8 input.

Both automata are shown equal to the *same* byte-level specification: the byte-wise one directly
(Props/C01, C02, C05, C03), the char-wise one by composing its item-level theorem with the
UTF-8 correspondence of Proofs/CharSpec.lean (self-synchronisation: an occurrence of an encoded
pattern in an encoded text starts and ends on character boundaries, and no pattern ends or
starts inside a character). `Q` is the pattern list as (code points, value) pairs;
`bytePat`/`charPat` are its byte-level / label-level views; `encAll` is the reference encoder and
the model decoder is proved to invert it (Proofs/Utf8.lean).
-/
import Daac.InvExtra
import Daac.Proofs.StdSem2
import Daac.Proofs.StdIter
import Daac.Proofs.Steps
import Daac.Proofs.CharSpec
import Daac.Proofs.LmSem
import Daac.Proofs.LmAbs
import Daac.Proofs.LmIter
import Daac.Proofs.Rung2
namespace Daac.Props.C08
open Daac
variable {V : Type} [DecidableEq V]

theorem charPat_keys (Q : List (List Nat × V)) : (Q.map charPat).map (·.key) = Q.map (·.1) := by
  simp [charPat, List.map_map, Function.comp_def]

/-- Char-wise overlapping search of valid UTF-8 equals the byte-level specification. -/
theorem charwise_overlapping (da : DA V) (Q : List (List Nat × V)) (hQ : ScalarPats Q)
    (hQ0 : Q ≠ []) (hnd : (Q.map (·.1)).Nodup) (hv : da.variant = .charwise)
    (hT : da.tableInv (Q.map charPat) = true) (hZ : da.sizeInv (Q.map charPat) = true)
    (t : List Nat) (ht : Scalars t) :
    ∃ l fin, ovAll da (encAll t) = .ok (l, fin) ∧
      l.map (·.1) = specOverlapping (Q.map bytePat) (encAll t) := by
  have hS := stdSem_of_tableInv da (Q.map charPat) (by simpa using hQ0)
    (by rw [charPat_keys]; exact hnd)
    (by intro p hp; obtain ⟨q, hq, rfl⟩ := List.mem_map.1 hp; exact (hQ q hq).1) hT (DA.sizeInv_depth hZ)
  have hI := itemsOfHay_charwise t ht
  rw [← hv] at hI
  obtain ⟨l, fin, h1, h2⟩ := ovAll_eq_spec hS hI (fun it _ => labelOk_of_charwise hv it.label)
    (DA.sizeInv_outputs hZ)
  exact ⟨l, fin, h1, by rw [h2, specOvItems_chars_eq hQ ht]⟩

theorem charwise_find (da : DA V) (Q : List (List Nat × V)) (hQ : ScalarPats Q)
    (hQ0 : Q ≠ []) (hnd : (Q.map (·.1)).Nodup) (hv : da.variant = .charwise)
    (hT : da.tableInv (Q.map charPat) = true) (hZ : da.sizeInv (Q.map charPat) = true)
    (t : List Nat) (ht : Scalars t) :
    ∃ l fin, findAll da (encAll t) = .ok (l, fin) ∧
      l.map (·.1) = specFind (Q.map bytePat) (encAll t) := by
  have hS := stdSem_of_tableInv da (Q.map charPat) (by simpa using hQ0)
    (by rw [charPat_keys]; exact hnd)
    (by intro p hp; obtain ⟨q, hq, rfl⟩ := List.mem_map.1 hp; exact (hQ q hq).1) hT (DA.sizeInv_depth hZ)
  have hI := itemsOfHay_charwise t ht
  rw [← hv] at hI
  obtain ⟨l, fin, h1, h2⟩ := findAll_eq_spec hS hI (fun it _ => labelOk_of_charwise hv it.label)
  exact ⟨l, fin, h1, by rw [h2, specFindItems_chars_eq hQ ht]⟩

theorem charwise_nosuffix (da : DA V) (Q : List (List Nat × V)) (hQ : ScalarPats Q)
    (hQ0 : Q ≠ []) (hnd : (Q.map (·.1)).Nodup) (hv : da.variant = .charwise)
    (hT : da.tableInv (Q.map charPat) = true) (hZ : da.sizeInv (Q.map charPat) = true)
    (t : List Nat) (ht : Scalars t) :
    ∃ l fin, noSufAll da (encAll t) = .ok (l, fin) ∧
      l.map (·.1) = specNoSuffix (Q.map bytePat) (encAll t) := by
  have hS := stdSem_of_tableInv da (Q.map charPat) (by simpa using hQ0)
    (by rw [charPat_keys]; exact hnd)
    (by intro p hp; obtain ⟨q, hq, rfl⟩ := List.mem_map.1 hp; exact (hQ q hq).1) hT (DA.sizeInv_depth hZ)
  have hI := itemsOfHay_charwise t ht
  rw [← hv] at hI
  obtain ⟨l, fin, h1, h2⟩ := noSufAll_eq_spec hS hI (fun it _ => labelOk_of_charwise hv it.label)
  exact ⟨l, fin, h1, by rw [h2, specNoSufItems_chars_eq hQ ht]⟩

/-- Char-wise leftmost-longest search of valid UTF-8 equals the byte-level specification. -/
theorem charwise_leftmost (da : DA V) (Q : List (List Nat × V)) (hQ : ScalarPats Q)
    (hnd : (Q.map (·.1)).Nodup) (hv : da.variant = .charwise)
    (hT : da.leftmostInv (Q.map charPat) = true) (t : List Nat) (ht : Scalars t) :
    ∃ l, lmAll da (encAll t) = .ok (l, 0) ∧ l.map (·.1) = specLL (Q.map bytePat) (encAll t) := by
  have hkeys : ((Q.map charPat).map (·.key)).Nodup := by rw [charPat_keys]; exact hnd
  have hne : ∀ p ∈ Q.map charPat, p.key ≠ [] := by
    intro p hp; obtain ⟨q, hq, rfl⟩ := List.mem_map.1 hp; exact (hQ q hq).1
  have hd := decodes_charwise t ht
  rw [← hv] at hd
  obtain ⟨l, h1, h2⟩ := lmAll_spec (lmSem_of_leftmostInv da (Q.map charPat) hkeys hne hT)
    (absLm_eq_bestIn (Q.map charPat) hne hkeys) hd (fun it _ => labelOk_of_charwise hv it.label)
  exact ⟨l, h1, by rw [h2, specLLItems_chars_eq hQ ht]⟩

/-- **Agreement** (overlapping search shown; the other methods are identical in shape): a
byte-wise and a char-wise automaton whose tables satisfy the invariants for the same UTF-8
patterns return the same matches — same byte offsets, same values — on every UTF-8 haystack. -/
theorem agree_overlapping (db dc : DA V) (Q : List (List Nat × V)) (hQ : ScalarPats Q)
    (hQ0 : Q ≠ []) (hnd : (Q.map (·.1)).Nodup) (hVb : ValidPats (Q.map bytePat))
    (hb : db.variant = .bytewise) (hc : dc.variant = .charwise)
    (hTb : db.tableInv ((Q.map bytePat).map lp) = true) (hZb : db.sizeInv ((Q.map bytePat).map lp) = true)
    (hTc : dc.tableInv (Q.map charPat) = true) (hZc : dc.sizeInv (Q.map charPat) = true)
    (t : List Nat) (ht : Scalars t) (hbytes : ∀ b ∈ encAll t, b < 256) :
    ∃ lb lc fb fc, ovAll db (encAll t) = .ok (lb, fb) ∧ ovAll dc (encAll t) = .ok (lc, fc) ∧
      lb.map (·.1) = lc.map (·.1) := by
  obtain ⟨lb, fb, h1, h2⟩ := ovAll_bytewise_eq_spec hb
    (stdSem_of_tableInv db _ (by simpa using hVb.1)
      (by simpa [lp, List.map_map, Function.comp_def] using hVb.2.2)
      (by intro p hp; obtain ⟨q, hq, rfl⟩ := List.mem_map.1 hp; exact hVb.2.1 q hq)
      hTb (DA.sizeInv_depth hZb)) hbytes (by simpa using DA.sizeInv_outputs hZb)
  obtain ⟨lc, fc, h3, h4⟩ := charwise_overlapping dc Q hQ hQ0 hnd hc hTc hZc t ht
  exact ⟨lb, lc, fb, fc, h1, h3, by rw [h2, h4]⟩

/-- All reported offsets fall on character boundaries: every end offset is the end of a decoded
character (`stop` of an item) — immediate from the item-level specification — and the decoder
yields exactly the characters of the text with their byte end offsets. -/
theorem decode_is_inverse (cs : List Nat) (h : ∀ c ∈ cs, isScalar c = true) (p fuel : Nat)
    (hf : (encAll cs).length + 1 ≤ fuel) :
    allItems .charwise fuel ⟨encAll cs, p⟩ = .ok (itemsOf cs p) := allItems_encAll cs h p fuel hf

/-- Self-synchronisation: an occurrence of an encoded pattern inside an encoded text starts on a
character boundary of the text. -/
theorem occurrences_on_boundaries (p t : List Nat) (hp : ∀ c ∈ p, isScalar c = true)
    (ht : ∀ c ∈ t, isScalar c = true) (hne : p ≠ []) (s : Nat)
    (h : encAll p <+: (encAll t).drop s) :
    ∃ t1 t2, t = t1 ++ t2 ∧ (encAll t1).length = s ∧ p <+: t2 := self_sync p t hp ht hne s h

/-- A haystack character that occurs in no pattern has no code and sends the automaton to the
root without any table access ("simply interrupts matching"). -/
theorem unmapped_to_root (da : DA V) (s label : Nat) (h : da.code label = none) :
    da.next s label = .ok rootIdx ∧ da.nextLm s label = .ok rootIdx := by
  simp [DA.next, DA.nextLm, DA.nextS, DA.nextLmS, h, Except.map]


/-! ### Rung 2 — agreement for every UTF-8 pattern collection, in the model of both builders -/

/-- The byte-wise automaton built from the UTF-8 bytes of the patterns and the char-wise
automaton built from the same patterns return the same overlapping matches (byte offsets and
values) on every valid UTF-8 haystack — for every collection and every `num_free_blocks`. -/
theorem agree_build_overlapping (nb nc : Nat) (Q : List (List Nat × V)) (hQ : ScalarPats Q)
    (hQ0 : Q ≠ []) (hnd : (Q.map (·.1)).Nodup) (hVb : ValidPats (Q.map bytePat))
    (hbytes : ∀ p ∈ Q.map bytePat, ∀ b ∈ p.key, b < 256) (db dc : DA V)
    (hb : buildDA .bytewise ⟨0, nb⟩ ((Q.map bytePat).map lp) = .ok db)
    (hc : buildDA .charwise ⟨0, nc⟩ (Q.map charPat) = .ok dc)
    (t : List Nat) (ht : Scalars t) (hbt : ∀ b ∈ encAll t, b < 256) :
    ∃ lb lc fb fc, ovAll db (encAll t) = .ok (lb, fb) ∧ ovAll dc (encAll t) = .ok (lc, fc) ∧
      lb.map (·.1) = lc.map (·.1) := by
  obtain ⟨lb, fb, a1, b1⟩ := bytewise_overlapping_correct nb (Q.map bytePat) hVb hbytes db hb (encAll t) hbt
  obtain ⟨lc, fc, a2, b2⟩ := charwise_overlapping_correct nc Q hQ hQ0 hnd dc hc t ht
  exact ⟨lb, lc, fb, fc, a1, a2, by rw [b1, b2]⟩

theorem agree_build_leftmost_longest (nb nc : Nat) (Q : List (List Nat × V)) (hQ : ScalarPats Q)
    (hQ0 : Q ≠ []) (hnd : (Q.map (·.1)).Nodup) (hVb : ValidPats (Q.map bytePat))
    (hbytes : ∀ p ∈ Q.map bytePat, ∀ b ∈ p.key, b < 256) (db dc : DA V)
    (hb : buildDA .bytewise ⟨1, nb⟩ ((Q.map bytePat).map lpOf) = .ok db)
    (hc : buildDA .charwise ⟨1, nc⟩ (Q.map charPat) = .ok dc)
    (t : List Nat) (ht : Scalars t) (hbt : ∀ b ∈ encAll t, b < 256) :
    ∃ lb lc, lmAll db (encAll t) = .ok (lb, 0) ∧ lmAll dc (encAll t) = .ok (lc, 0) ∧
      lb.map (·.1) = lc.map (·.1) := by
  obtain ⟨lb, a1, b1⟩ := bytewise_leftmost_longest_correct nb (Q.map bytePat) hVb hbytes db hb (encAll t) hbt
  obtain ⟨lc, a2, b2⟩ := charwise_leftmost_longest_correct nc Q hQ hQ0 hnd dc hc t ht
  exact ⟨lb, lc, a1, a2, by rw [b1, b2]⟩

end Daac.Props.C08

/-
Translation tie, serialisation side — what the equalities of Proofs/TieS buy for C09.

`Daac/Gen/Serial.lean` is the serialisation code of /repo (every `serialize_to_vec` /
`deserialize_from_slice` / `serialized_bytes`, the macro body of the primitive types, `serialize` and
`deserialize_unchecked` of both automata) as translated by tools/ser2lean.py on every run.
Proofs/TieS shows the translated entry points equal to the model's `serialize` / `deserialize`
(through `toDAB` / `toDAC`: the Rust representation with `Option<NonZeroU32>` fields and the packed
byte-wise state word). The C09 round-trip theorems therefore hold of the TRANSLATED code:

* for every well-formed automaton value — in particular for every automaton the model builder
  returns — `serialize` does not panic, `deserialize_unchecked` of its image followed by arbitrary
  trailing bytes does not panic, restores an equal automaton and hands back exactly the trailing bytes;
* `Vec::with_capacity(…)` in `serialize` reserves exactly the number of bytes written.

Outside: the translator and its prelude (Daac/Gen/PreludeSer.lean: `to_le_bytes`, `from_le_bytes`,
slicing, `NonZeroU32::new`, a value type = a `Ser V` record) are trusted; the model builder is tied
to the code by K-build.
-/
import Daac.Proofs.TieS
import Daac.Props.C09
namespace Daac.Props.TieSer
open Daac Daac.Tie.S
variable {V : Type}

/-- The translated serialisation entry points = the model's, collected (Proofs/TieS). -/
theorem generated_serial_eq_model (S : Ser V) (da : DA V) (bs : List Nat) :
    (da.variant = .bytewise → da.states.size ≤ 4294967295 → da.outputs.size ≤ 4294967295 →
      Gen.S.B.DA.serialize S (toDAB da) = some (Daac.serialize S da)) ∧
    (da.variant = .charwise → da.states.size ≤ 4294967295 → da.mapTable.size ≤ 4294967295 →
      da.outputs.size ≤ 4294967295 → Gen.S.C.DA.serialize S (toDAC da) = some (Daac.serialize S da)) ∧
    Gen.S.B.DA.deserialize_unchecked S bs = (Daac.deserialize S .bytewise bs).map (fun p => (toDAB p.1, p.2)) ∧
    Gen.S.C.DA.deserialize_unchecked S bs = (Daac.deserialize S .charwise bs).map (fun p => (toDAC p.1, p.2)) :=
  ⟨fun hv hs ho => serialize_eq_B S da hv hs ho, fun hv hs hm ho => serialize_eq_C S da hv hs hm ho,
   deserialize_eq_B S bs, deserialize_eq_C S bs⟩

/-- **Round trip of the translated byte-wise code**, every well-formed automaton value, arbitrary
trailing bytes; the reserved capacity is exact. -/
theorem generated_roundtrip_bytewise (S : Ser V) (D : V → Prop) (hS : S.LawfulOn D) (da : DA V)
    (h : da.WF S D) (hv : da.variant = .bytewise) (rest : List Nat) :
    ∃ bs, Gen.S.B.DA.serialize S (toDAB da) = some bs ∧
      Gen.S.B.DA.deserialize_unchecked S (bs ++ rest) = some (toDAB da, rest) ∧
      Gen.S.B.DA.serialize.capacity S (toDAB da) = bs.length := by
  refine ⟨Daac.serialize S da, ?_, ?_, ?_⟩
  · exact serialize_eq_B S da hv (by have := h.statesSize; omega) (by have := h.outputsSize; omega)
  · rw [deserialize_eq_B]
    have r := C09.roundtrip S D hS da h rest
    rw [hv] at r
    rw [r]; rfl
  · exact capacity_exact_B S D hS da hv (fun o ho => (h.outputs o ho).value)

/-- **Round trip of the translated char-wise code** (the image contains the code mapper). -/
theorem generated_roundtrip_charwise (S : Ser V) (D : V → Prop) (hS : S.LawfulOn D) (da : DA V)
    (h : da.WF S D) (hv : da.variant = .charwise) (rest : List Nat) :
    ∃ bs, Gen.S.C.DA.serialize S (toDAC da) = some bs ∧
      Gen.S.C.DA.deserialize_unchecked S (bs ++ rest) = some (toDAC da, rest) ∧
      Gen.S.C.DA.serialize.capacity S (toDAC da) = bs.length := by
  refine ⟨Daac.serialize S da, ?_, ?_, ?_⟩
  · exact serialize_eq_C S da hv (by have := h.statesSize; omega) (by have := h.mapSize; omega)
      (by have := h.outputsSize; omega)
  · rw [deserialize_eq_C]
    have r := C09.roundtrip S D hS da h rest
    rw [hv] at r
    rw [r]; rfl
  · exact capacity_exact_C S D hS da hv (fun o ho => (h.outputs o ho).value)

/-- … in particular for EVERY automaton the model builder returns (any collection, kind,
`num_free_blocks`), byte-wise. -/
theorem generated_roundtrip_of_build_bytewise (S : Ser V) (D : V → Prop) (cfg : Cfg)
    (P : List (LPat V)) (da : DA V) (hb : buildDA .bytewise cfg P = .ok da) (hk : keysOk P)
    (hbytes : ∀ p ∈ P, ∀ c ∈ p.key, c < 256)
    (hkind : cfg.kind ∈ [0, 1, 2]) (hvals : ∀ p ∈ P, D p.value) (hlen : ∀ p ∈ P, p.blen < 2 ^ 32)
    (hcount : P.length < 2 ^ 32)
    (hnodes : ∀ t, buildTrie cfg.kind P = .ok t → t.size < 2 ^ 32)
    (hvar : da.variant = .bytewise)
    (hS : S.LawfulOn D) (rest : List Nat) :
    ∃ bs, Gen.S.B.DA.serialize S (toDAB da) = some bs ∧
      Gen.S.B.DA.deserialize_unchecked S (bs ++ rest) = some (toDAB da, rest) :=
  have wf := C09.built_is_wellformed S D .bytewise cfg P da hb hk (fun _ => hbytes) hkind hvals hlen hcount
    (fun h => by cases h) hnodes
  let ⟨bs, h1, h2, _⟩ := generated_roundtrip_bytewise S D hS da wf hvar rest
  ⟨bs, h1, h2⟩

/-- The primitive value types: every invocation of the macro passes the type's own width, and the
table equals the one the constants translator extracts (on which `C09.prim_widths` rests). -/
theorem generated_prim_table :
    (∀ r ∈ Gen.S.primInvocations, r.2.1 = r.2.2) ∧
    Gen.S.primInvocations.map (fun r => (r.1, r.2.2)) = Gen.primWidths.map (fun r => (r.1, r.2.1)) :=
  prim_invocations_ok

/-- Non-vacuity: the example automaton of Proofs/SerialRT (char-wise, with a mapper) meets the
hypotheses of `generated_roundtrip_charwise`. -/
example : exampleDA.WF (serUnsigned 4) (fun v => 0 ≤ v ∧ v < 256 ^ 4) ∧ exampleDA.variant = .charwise :=
  ⟨exampleDA_wf, rfl⟩

end Daac.Props.TieSer

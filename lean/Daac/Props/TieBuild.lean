/-
Translation tie, construction side — what the equalities of Proofs/TieH (and TieL) buy.

`Daac/Gen/Helper.lean` is the free-slot bookkeeping `BuildHelper` as translated from
/repo's `src/build_helper.rs` on every run. Proofs/TieH shows every operation equal to the model
`Helper` (through `repr`, up to panic texts). The model's invariants — the capacity bookkeeping `WF`
and the sorted circular vacant list `LL` (Proofs/HelperFacts, HelperLL), on which the layout and
totality proofs of Rung 2 rest — therefore hold of the TRANSLATED code: its vacant-list walk yields
exactly the vacant indices in ascending order, claiming a vacant slot and pushing a block never
panic and re-establish the invariant.
-/
import Daac.Proofs.TieH
import Daac.Proofs.TieL
import Daac.Proofs.HelperLL
namespace Daac.Props.TieBuild
open Daac Daac.Gen Daac.Tie.H

/-- Invariant of the translated helper: capacity positive and within `u32`, and its model image
satisfies the model's invariants with vacant list `vac`. -/
structure Good (g : Gen.H.BuildHelper) (vac : List Nat) : Prop where
  wf : Wf g
  mwf : (Tie.H.repr g).WF
  ll : (Tie.H.repr g).LL vac

theorem ok_of_norm {α : Type} {x : Except BuildErr α} {y : α} (h : norm x = norm (.ok y)) : x = .ok y := by
  cases x with
  | ok v => simpa [norm] using h
  | error e => cases e <;> simp [norm] at h

theorem ok_map_of_norm {α β : Type} {x : Except BuildErr α} {f : α → β} {y : β}
    (h : norm (x.map f) = norm (.ok y)) : ∃ v, x = .ok v ∧ f v = y := by
  cases x with
  | ok v => exact ⟨v, rfl, by simpa [norm, Except.map] using h⟩
  | error e => cases e <;> simp [norm, Except.map] at h

/-- Every operation of the translated `BuildHelper` equals the model's (Proofs/TieH), collected. -/
theorem generated_helper_eq_model (g : Gen.H.BuildHelper) (hw : Wf g) (i : Nat) :
    norm (Gen.H.BuildHelper.offset g i) = norm ((Tie.H.repr g).off i) ∧
    norm (Gen.H.BuildHelper.is_used_base g i) = norm ((Tie.H.repr g).isUsedBase i) ∧
    norm (Gen.H.BuildHelper.is_used_index g i) = norm ((Tie.H.repr g).isUsedIndex i) ∧
    norm ((Gen.H.BuildHelper.use_base g i).map (fun p => Tie.H.repr p.2)) = norm ((Tie.H.repr g).useBase i) ∧
    norm ((Gen.H.BuildHelper.use_index g i).map (fun p => Tie.H.repr p.2)) = norm ((Tie.H.repr g).useIndex i) ∧
    norm ((Gen.H.BuildHelper.push_block g).map (fun p => Tie.H.repr p.2)) = norm ((Tie.H.repr g).pushBlock) ∧
    Gen.H.BuildHelper.dropped_block g = .ok (Tie.H.repr g).droppedBlock ∧
    norm (Gen.H.BuildHelper.unused_base_in_block g i) = norm ((Tie.H.repr g).unusedBaseInBlock i) ∧
    norm (genVacantFrom (g.items.size + 1) (Gen.H.BuildHelper.vacant_iter g)) = norm ((Tie.H.repr g).vacant) :=
  ⟨offset_eq g hw i, is_used_base_eq g hw i, is_used_index_eq g hw i, use_base_eq g hw i,
   use_index_eq g hw i, push_block_eq g hw, dropped_block_eq g hw, unused_base_in_block_eq g hw i,
   vacant_eq g hw⟩

/-- `vacant_iter()` of the translated code, iterated to exhaustion, never panics and yields exactly
the vacant active indices in ascending order. -/
theorem generated_vacant_walk (g : Gen.H.BuildHelper) (vac : List Nat) (G : Good g vac) :
    genVacantFrom (g.items.size + 1) (Gen.H.BuildHelper.vacant_iter g) = .ok vac := by
  have h := vacant_eq g G.wf
  rw [Helper.vacant_ll G.mwf G.ll] at h
  exact ok_of_norm h

/-- Claiming a vacant slot with the translated `use_index` never panics and re-establishes the
invariant with that slot removed from the vacant list. -/
theorem generated_use_index (g : Gen.H.BuildHelper) (vac : List Nat) (G : Good g vac) (i : Nat)
    (hi : i ∈ vac) :
    ∃ g', Gen.H.BuildHelper.use_index g i = .ok ((), g') ∧ Good g' (vac.erase i) := by
  obtain ⟨h', e, ll'⟩ := Helper.useIndex_ll G.mwf G.ll hi
  have h := use_index_eq g G.wf i
  rw [e] at h
  obtain ⟨⟨u, g'⟩, hg, hr⟩ := ok_map_of_norm h
  refine ⟨g', by cases u; exact hg, ?_, ?_, ?_⟩
  · exact wf_of_size G.wf (size_preserved g g' u i (Or.inr (Or.inl hg)))
  · simp only at hr; rw [hr]; exact (Helper.useIndex_ok G.mwf e).2.2.2.2.2.2.2.2
  · simp only at hr; rw [hr]; exact ll'

/-- The translated `push_block` never panics below the `u32` scale limit and re-establishes the
invariant: the leftovers of a dropped block leave the vacant list, the new block's slots join it. -/
theorem generated_push_block (g : Gen.H.BuildHelper) (vac : List Nat) (G : Good g vac)
    (hsz : (Tie.H.repr g).numElements ≤ u32Max - (Tie.H.repr g).blockLen) :
    ∃ g', Gen.H.BuildHelper.push_block g = .ok ((), g') ∧
      Good g' (vac.filter (fun j => decide ((Tie.H.repr g').activeStart * (Tie.H.repr g).blockLen ≤ j)) ++
        List.range' ((Tie.H.repr g).numBlocks * (Tie.H.repr g).blockLen) (Tie.H.repr g).blockLen) := by
  obtain ⟨h', e, ll'⟩ := Helper.pushBlock_ll G.mwf G.ll hsz
  have h := push_block_eq g G.wf
  rw [e] at h
  obtain ⟨⟨u, g'⟩, hg, hr⟩ := ok_map_of_norm h
  simp only at hr
  subst hr
  refine ⟨g', by cases u; exact hg, ?_, ?_, ?_⟩
  · exact wf_of_size G.wf (size_preserved g g' u 0 (Or.inr (Or.inr hg)))
  · exact (Helper.pushBlock_ok G.mwf e).2.2.2.1
  · exact ll'

/-! ### Layout primitives of both builders (Proofs/TieL), for reachable helper states

`find_base` walks the vacant list lazily while the model first collects it; the two agree whenever
the walk succeeds and the list is no longer than the capacity — both facts hold for every helper
satisfying the invariant (`Helper.vacant_ll`, `Helper.LL.length_le`). -/

theorem vac_len (g : Gen.H.BuildHelper) (vac : List Nat) (G : Good g vac) : vac.length ≤ g.items.size := by
  have h := Helper.LL.length_le G.mwf G.ll
  simpa [Helper.cap, Tie.H.repr] using h

/-- Byte-wise `find_base` as translated = the model's `findBase`, on every helper satisfying the invariant. -/
theorem generated_find_base_bytewise (b : Gen.LB.Builder) (g : Gen.H.BuildHelper) (vac : List Nat)
    (G : Good g vac) (idx : Std.HashMap (List Nat) Nat) (labels : List Nat) (hl : labels ≠ [])
    (hs : 0 < b.states.size ∧ b.states.size ≤ 4294967295) :
    norm (Gen.LB.Builder.find_base b labels g) = norm (findBase .bytewise ⟨b.states, Tie.H.repr g, idx⟩ labels) :=
  Tie.L.B.find_base_eq b g G.wf idx labels hl vac (Helper.vacant_ll G.mwf G.ll) (vac_len g vac G) hs

/-- Char-wise `find_base` as translated = the model's `findBase`, on every helper satisfying the invariant. -/
theorem generated_find_base_charwise (b : Gen.LC.Builder) (g : Gen.H.BuildHelper) (vac : List Nat)
    (G : Good g vac) (idx : Std.HashMap (List Nat) Nat) (edges : List (Nat × Nat)) (hl : edges ≠ [])
    (hs : b.states.size ≤ 4294967295) (hz : b.states.size ^^^ (edges.map (·.1)).headD 0 ≠ 0) :
    norm (Gen.LC.Builder.find_base b edges g)
      = norm (findBase .charwise ⟨b.states, Tie.H.repr g, idx⟩ (edges.map (·.1))) :=
  Tie.L.C.find_base_eq b g G.wf idx edges hl vac (Helper.vacant_ll G.mwf G.ll) (vac_len g vac G) hs hz

/-- The remaining layout primitives as translated = the model's, collected (Proofs/TieL). -/
theorem generated_layout_eq_model (b : Gen.LB.Builder) (c : Gen.LC.Builder) (g : Gen.H.BuildHelper) (hw : Wf g)
    (idx : Std.HashMap (List Nat) Nat) (base blk : Nat) (labels : List Nat) (edges : List (Nat × Nat)) :
    norm ((Gen.LB.Builder.check_valid_base base labels g).map Option.isSome) = norm (baseOk .bytewise (Tie.H.repr g) base labels) ∧
    norm ((Gen.LC.Builder.verify_base base edges g).map Option.isSome) = norm (baseOk .charwise (Tie.H.repr g) base (edges.map (·.1))) ∧
    norm ((Gen.LB.Builder.remove_invalid_checks b blk g).map (fun p => p.2.states)) = norm (removeInvalidChecks b.states (Tie.H.repr g) blk) ∧
    (g.block_len = Gen.blockLen →
      norm ((Gen.LB.Builder.extend_array b g).map (fun p => (p.2.1.states, Tie.H.repr p.2.2)))
        = norm ((extendArray .bytewise ⟨b.states, Tie.H.repr g, idx⟩).map (fun l => (l.states, l.h)))) ∧
    (g.block_len = c.block_len →
      norm ((Gen.LC.Builder.extend_array c g).map (fun p => (p.2.1.states, Tie.H.repr p.2.2)))
        = norm ((extendArray .charwise ⟨c.states, Tie.H.repr g, idx⟩).map (fun l => (l.states, l.h)))) ∧
    (b.states = #[] →
      norm ((Gen.LB.Builder.init_array b).map (fun p => (p.2.states, Tie.H.repr p.1)))
        = norm (Tie.L.initModel .bytewise bytewiseBlockLen b.num_free_blocks)) ∧
    (c.states = #[] →
      norm ((Gen.LC.Builder.init_array c).map (fun p => (p.2.states, Tie.H.repr p.1)))
        = norm (Tie.L.initModel .charwise (max 2 (Nat.nextPowerOfTwo c.mapper.alphaSize)) c.num_free_blocks)) :=
  ⟨Tie.L.B.check_valid_base_eq g hw base labels, Tie.L.C.verify_base_eq g hw base edges,
   Tie.L.B.remove_invalid_checks_eq b g hw blk, fun hb => Tie.L.B.extend_array_eq b g hw hb idx,
   fun hb => Tie.L.C.extend_array_eq c g hw hb idx, Tie.L.B.init_array_eq b, Tie.L.C.init_array_eq c⟩

end Daac.Props.TieBuild

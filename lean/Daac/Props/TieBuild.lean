/-
Translation tie, construction side — what the equalities of Proofs/TieH (and TieL) buy.

`Daac/Gen/Helper.lean` is the free-slot bookkeeping `BuildHelper` as translated from
/repo's `src/build_helper.rs` on every run. Proofs/TieH shows every operation equal to the model
`Helper` (through `repr`, up to panic texts). The model's invariants — the capacity bookkeeping `WF`
and the sorted circular vacant list `LL` (Proofs/HelperFacts, HelperLL), on which the layout and
totality proofs of Rung 2 rest — therefore hold of the TRANSLATED code: its vacant-list walk yields
exactly the vacant indices in ascending order, claiming a vacant slot and pushing a block never
panic and re-establish the invariant.
-/
import Daac.Proofs.TieH
import Daac.Proofs.HelperLL
namespace Daac.Props.TieBuild
open Daac Daac.Gen Daac.Tie.H

/-- Invariant of the translated helper: capacity positive and within `u32`, and its model image
satisfies the model's invariants with vacant list `vac`. -/
structure Good (g : Gen.H.BuildHelper) (vac : List Nat) : Prop where
  wf : Wf g
  mwf : (Tie.H.repr g).WF
  ll : (Tie.H.repr g).LL vac

theorem ok_of_norm {α : Type} {x : Except BuildErr α} {y : α} (h : norm x = norm (.ok y)) : x = .ok y := by
  cases x with
  | ok v => simpa [norm] using h
  | error e => cases e <;> simp [norm] at h

theorem ok_map_of_norm {α β : Type} {x : Except BuildErr α} {f : α → β} {y : β}
    (h : norm (x.map f) = norm (.ok y)) : ∃ v, x = .ok v ∧ f v = y := by
  cases x with
  | ok v => exact ⟨v, rfl, by simpa [norm, Except.map] using h⟩
  | error e => cases e <;> simp [norm, Except.map] at h

/-- Every operation of the translated `BuildHelper` equals the model's (Proofs/TieH), collected. -/
theorem generated_helper_eq_model (g : Gen.H.BuildHelper) (hw : Wf g) (i : Nat) :
    norm (Gen.H.BuildHelper.offset g i) = norm ((Tie.H.repr g).off i) ∧
    norm (Gen.H.BuildHelper.is_used_base g i) = norm ((Tie.H.repr g).isUsedBase i) ∧
    norm (Gen.H.BuildHelper.is_used_index g i) = norm ((Tie.H.repr g).isUsedIndex i) ∧
    norm ((Gen.H.BuildHelper.use_base g i).map (fun p => Tie.H.repr p.2)) = norm ((Tie.H.repr g).useBase i) ∧
    norm ((Gen.H.BuildHelper.use_index g i).map (fun p => Tie.H.repr p.2)) = norm ((Tie.H.repr g).useIndex i) ∧
    norm ((Gen.H.BuildHelper.push_block g).map (fun p => Tie.H.repr p.2)) = norm ((Tie.H.repr g).pushBlock) ∧
    Gen.H.BuildHelper.dropped_block g = .ok (Tie.H.repr g).droppedBlock ∧
    norm (Gen.H.BuildHelper.unused_base_in_block g i) = norm ((Tie.H.repr g).unusedBaseInBlock i) ∧
    norm (genVacantFrom (g.items.size + 1) (Gen.H.BuildHelper.vacant_iter g)) = norm ((Tie.H.repr g).vacant) :=
  ⟨offset_eq g hw i, is_used_base_eq g hw i, is_used_index_eq g hw i, use_base_eq g hw i,
   use_index_eq g hw i, push_block_eq g hw, dropped_block_eq g hw, unused_base_in_block_eq g hw i,
   vacant_eq g hw⟩

/-- `vacant_iter()` of the translated code, iterated to exhaustion, never panics and yields exactly
the vacant active indices in ascending order. -/
theorem generated_vacant_walk (g : Gen.H.BuildHelper) (vac : List Nat) (G : Good g vac) :
    genVacantFrom (g.items.size + 1) (Gen.H.BuildHelper.vacant_iter g) = .ok vac := by
  have h := vacant_eq g G.wf
  rw [Helper.vacant_ll G.mwf G.ll] at h
  exact ok_of_norm h

/-- Claiming a vacant slot with the translated `use_index` never panics and re-establishes the
invariant with that slot removed from the vacant list. -/
theorem generated_use_index (g : Gen.H.BuildHelper) (vac : List Nat) (G : Good g vac) (i : Nat)
    (hi : i ∈ vac) :
    ∃ g', Gen.H.BuildHelper.use_index g i = .ok ((), g') ∧ Good g' (vac.erase i) := by
  obtain ⟨h', e, ll'⟩ := Helper.useIndex_ll G.mwf G.ll hi
  have h := use_index_eq g G.wf i
  rw [e] at h
  obtain ⟨⟨u, g'⟩, hg, hr⟩ := ok_map_of_norm h
  refine ⟨g', by cases u; exact hg, ?_, ?_, ?_⟩
  · exact wf_of_size G.wf (size_preserved g g' u i (Or.inr (Or.inl hg)))
  · simp only at hr; rw [hr]; exact (Helper.useIndex_ok G.mwf e).2.2.2.2.2.2.2.2
  · simp only at hr; rw [hr]; exact ll'

/-- The translated `push_block` never panics below the `u32` scale limit and re-establishes the
invariant: the leftovers of a dropped block leave the vacant list, the new block's slots join it. -/
theorem generated_push_block (g : Gen.H.BuildHelper) (vac : List Nat) (G : Good g vac)
    (hsz : (Tie.H.repr g).numElements ≤ u32Max - (Tie.H.repr g).blockLen) :
    ∃ g', Gen.H.BuildHelper.push_block g = .ok ((), g') ∧
      Good g' (vac.filter (fun j => decide ((Tie.H.repr g').activeStart * (Tie.H.repr g).blockLen ≤ j)) ++
        List.range' ((Tie.H.repr g).numBlocks * (Tie.H.repr g).blockLen) (Tie.H.repr g).blockLen) := by
  obtain ⟨h', e, ll'⟩ := Helper.pushBlock_ll G.mwf G.ll hsz
  have h := push_block_eq g G.wf
  rw [e] at h
  obtain ⟨⟨u, g'⟩, hg, hr⟩ := ok_map_of_norm h
  simp only at hr
  subst hr
  refine ⟨g', by cases u; exact hg, ?_, ?_, ?_⟩
  · exact wf_of_size G.wf (size_preserved g g' u 0 (Or.inr (Or.inr hg)))
  · exact (Helper.pushBlock_ok G.mwf e).2.2.2.1
  · exact ll'

end Daac.Props.TieBuild

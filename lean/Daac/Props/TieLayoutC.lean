/-
Translation tie, char-wise layout loop — what Proofs/TieDC buys.

`Daac/Gen/BuildC.lean` is `CharwiseDoubleArrayAhoCorasickBuilder::build_double_array` of /repo's
src/charwise/builder.rs as translated by tools/dbl2lean.py on every run: `init_array`, the DFS over the
sparse NFA with its explicit stack of state ids and `state_id_map`; per state the `mapped` list
(`self.mapper.get(label).unwrap()` for every edge, then `sort_by` on the code), `find_base` /
`extend_array` / `use_index` / `set_check(state_idx)` / `set_base`; and the pass that writes `fail` and
`output_pos`.  It calls the already translated `BuildHelper` and char-wise layout primitives
(Gen/Helper.lean, Gen/LayoutC.lean).  Proofs/TieDC proves, by the same simulation as the byte-wise tie
(id-keyed loop state against the model's path-keyed one) plus the agreement of the stable `sort_by`
with the model's `insertByCodeP` on edge lists with pairwise distinct codes, that the table it
computes is the model's `buildLayout .charwise` — on which every Rung-2 theorem about char-wise
layouts (Proofs/LayoutC.lean: CHECK = parent index, BASE xor code = child index, injective in-range
index map) is stated.  So those theorems hold of the table computed by the TRANSLATED loop, for every
NFA it is given that represents a model NFA and every mapper that maps the trie's labels injectively
below its alphabet size — in particular `Mapper.build P` (Proofs/MapperFacts.lean).

Outside: the construction of the code mapper itself (`CodeMapper::new`, the frequency loop of
`build_sparse_nfa`: model `Mapper.build`, tied by K-build only); the prelude Daac/Gen/PreludeDbl.lean
(the four char-wise `State` setters as field writes; `sort_by` on the code read as the stable
insertion sort `Rs.sortByFst`; `CodeMapper.get`, which the translator compares textually with the
definition generated from src/charwise/mapper.rs into Gen/SearchC.lean); four `debug_assert_ne!`
statements that the translator drops (listed in the generated header); that the `NfaBuilder` handed
to the loop represents the model NFA (`NfaRep`: Proofs/TieN, TieF* for the byte-wise pipeline).
-/
import Daac.Proofs.TieDC
import Daac.Proofs.MapperFacts
namespace Daac.Props.TieLayoutC
open Daac Daac.Gen Daac.Tie.H Daac.Tie.D Daac.Tie.DC
variable {V : Type}

/-- **The translated char-wise `build_double_array` computes the model's table** (up to panic texts:
both fail with the same error kind or both return the same `states` array), for every sorted trie
whose labels the builder's mapper maps (injectively, below its alphabet size), every
`num_free_blocks ≥ 1`, every sparse NFA `g` representing a model NFA whose fail targets are trie
nodes. -/
theorem generated_build_double_array_charwise (cfg : Cfg) (mapper : Mapper) (t : Trie V) (nfa : Nfa V)
    (g : N.NfaBuilder V) (ido : List Nat → Nat) (R : NfaRep g t nfa ido) (hfn : FailNodes t nfa)
    (hsort : t.Sorted) (hm : LayC.MapperOk mapper)
    (hmap : ∀ u, t.hasNode u = true → ∀ c ∈ u, ∃ k, mapper.get c = some k) (hnfb : 1 ≤ cfg.nfb)
    (b : LC.Builder) (hb : b.states = #[]) (hn : b.num_free_blocks = cfg.nfb) (hmp : b.mapper = mapper) :
    norm ((DC.Builder.build_double_array b g).map (·.2.states))
      = norm (buildLayout .charwise cfg mapper t nfa) :=
  build_double_array_refines_charwise cfg mapper t nfa g ido R hfn hsort hm hmap hnfb b hb hn hmp

/-- The same for the mapper the model builds from the patterns: `Mapper.build P` is injective with codes
below its alphabet size (Proofs/MapperFacts.lean), so only "every label of the trie is mapped" remains
(`mapper_maps_labels` gives it for the labels of the patterns `P` themselves). -/
theorem generated_build_double_array_charwise_of_patterns (cfg : Cfg) (P : List (LPat V)) (t : Trie V)
    (nfa : Nfa V) (g : N.NfaBuilder V) (ido : List Nat → Nat) (R : NfaRep g t nfa ido)
    (hfn : FailNodes t nfa) (hsort : t.Sorted)
    (hmap : ∀ u, t.hasNode u = true → ∀ c ∈ u, ∃ k, (Mapper.build P).get c = some k) (hnfb : 1 ≤ cfg.nfb)
    (b : LC.Builder) (hb : b.states = #[]) (hn : b.num_free_blocks = cfg.nfb)
    (hmp : b.mapper = Mapper.build P) :
    norm ((DC.Builder.build_double_array b g).map (·.2.states))
      = norm (buildLayout .charwise cfg (Mapper.build P) t nfa) :=
  build_double_array_refines_charwise cfg (Mapper.build P) t nfa g ido R hfn hsort (mapperOk_build' P) hmap
    hnfb b hb hn hmp

/-- `sort_by` on the code (stable insertion sort, as translated) of the mapped edges = the model's
`edgeCodes .charwise` edge list (`insertByCodeP`), for pairwise distinct codes. -/
theorem generated_sort_eq_model (ido : List Nat → Nat) (kf : List Nat → Nat) (cp : List (List Nat))
    (hnd : (cp.map kf).Nodup) :
    Rs.sortByFst (cp.map (fun w => (kf w, ido w))) = (edgesOf kf cp).map (toId ido) :=
  sortByFst_map_eq ido kf cp hnd

end Daac.Props.TieLayoutC

#print axioms Daac.Props.TieLayoutC.generated_build_double_array_charwise
#print axioms Daac.Props.TieLayoutC.generated_build_double_array_charwise_of_patterns

/-
Property C06 — every reported match carries the value registered for the matched pattern.

Corollary of the correctness theorems: each search method returns exactly its specification, and
every element of every specification is an occurrence `IsOcc Ps h m`, i.e. `h[m.start..m.stop]`
is byte for byte the key of a registered pattern and `m.value` is the value registered with it,
with `m.start < m.stop ≤ |h|`. The model is parametric in the value type `V` (values are only
copied), so "whatever the value type" is the `∀ V` of these theorems; keys are duplicate-free, so
the value is unique even when several patterns share it. Ties: K-search with every value type
and adversarial assignments (repeats, 0, MIN/MAX), before and after a serialisation round trip.
-/
import Daac.Props.C01
import Daac.Props.C02
import Daac.Props.C03
import Daac.Props.C04
import Daac.Props.C05
import Daac.Proofs.SpecProps
namespace Daac.Props.C06
open Daac
variable {V : Type} [DecidableEq V]

/-- What `IsOcc` says, spelled out: bounds, the matched bytes are a registered key, and the value
is the one registered with that key. -/
theorem isOcc_meaning (Ps : List (Pat V)) (hV : ValidPats Ps) (h : List Nat) (m : Match V)
    (ho : IsOcc Ps h m) :
    m.start < m.stop ∧ m.stop ≤ h.length ∧
      ∃ p ∈ Ps, (h.take m.stop).drop m.start = p.key ∧ m.value = p.value := by
  obtain ⟨p, hp, hval, hlen, hstop, hkey⟩ := ho
  have : p.key ≠ [] := hV.2.1 p hp
  have hl : 0 < p.key.length := List.length_pos_iff.2 this
  exact ⟨by omega, hstop, p, hp, hkey, hval.symm⟩

theorem overlapping_values (Ps : List (Pat V)) (hV : ValidPats Ps) (h : List Nat) (m : Match V)
    (hm : m ∈ specOverlapping Ps h) : IsOcc Ps h m := (mem_specOverlapping hV).1 hm
theorem nosuffix_values (Ps : List (Pat V)) (hV : ValidPats Ps) (h : List Nat) (m : Match V)
    (hm : m ∈ specNoSuffix Ps h) : IsOcc Ps h m := ((mem_specNoSuffix hV).1 hm).1
theorem find_values (Ps : List (Pat V)) (hV : ValidPats Ps) (h : List Nat) (m : Match V)
    (hm : m ∈ specFind Ps h) : IsOcc Ps h m := specFind_isOcc hV hm
theorem leftmost_longest_values (Ps : List (Pat V)) (hV : ValidPats Ps) (h : List Nat) (m : Match V)
    (hm : m ∈ specLL Ps h) : IsOcc Ps h m := specLL_isOcc hV hm
theorem leftmost_first_values (Ps : List (Pat V)) (hV : ValidPats Ps) (h : List Nat) (m : Match V)
    (hm : m ∈ specLF Ps h) : IsOcc Ps h m := specLF_isOcc hV hm

/-- End to end for the byte-wise overlapping search: every match the automaton returns is an
occurrence carrying its registered value. (The other methods compose in the same way with
Props/C02, C03, C04, C05.) -/
theorem overlapping_matches_carry_values (da : DA V) (Ps : List (Pat V)) (hV : ValidPats Ps)
    (hv : da.variant = .bytewise) (hT : da.tableInv (Ps.map lp) = true)
    (hZ : da.sizeInv (Ps.map lp) = true) (h : List Nat) (hb : ∀ b ∈ h, b < 256) :
    ∃ l fin, ovAll da h = .ok (l, fin) ∧ ∀ x ∈ l, IsOcc Ps h x.1 := by
  obtain ⟨l, fin, h1, h2⟩ := C01.overlapping_correct_bytewise da Ps hV hv hT hZ h hb
  refine ⟨l, fin, h1, fun x hx => ?_⟩
  have : x.1 ∈ l.map (·.1) := List.mem_map_of_mem hx
  rw [h2] at this
  exact overlapping_values Ps hV h x.1 this

/-- Values built from bare patterns are the positions: `build(patterns)` is
`build_with_values(patterns.enumerate())` after the index conversion — in the model the entry
point `P` is exactly that (driver `modelBuild`), tied by K-build with entry `P` and every
value type, including the conversion failure for positions beyond the type's range. -/
theorem positions_are_values (keys : List (List Nat)) (i : Nat) (k : List Nat)
    (h : keys[i]? = some k) :
    ((keys.zipIdx.map fun (k, i) => (⟨k, i⟩ : Pat Nat))[i]?) = some ⟨k, i⟩ := by
  simp [List.getElem?_map, List.getElem?_zipIdx, h]

end Daac.Props.C06

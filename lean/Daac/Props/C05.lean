/-
Property C05 — no-suffix overlapping search reports exactly the longest match per end position.
Same structure as Props/C01.
-/
import Daac.Proofs.Glue
import Daac.Proofs.SpecProps
import Daac.Proofs.Rung2
namespace Daac.Props.C05
open Daac
variable {V : Type} [DecidableEq V]

theorem nosuffix_correct_bytewise (da : DA V) (Ps : List (Pat V)) (hV : ValidPats Ps)
    (hv : da.variant = .bytewise)
    (hT : da.tableInv (Ps.map lp) = true) (hZ : da.sizeInv (Ps.map lp) = true)
    (h : List Nat) (hb : ∀ b ∈ h, b < 256) :
    ∃ l fin, noSufAll da h = .ok (l, fin) ∧ l.map (·.1) = specNoSuffix Ps h :=
  noSufAll_bytewise_eq_spec hv (stdSem_bytes da Ps hV hT hZ) hb

theorem nosuffix_correct_items (da : DA V) (P : List (LPat V))
    (hP : P ≠ []) (hkeys : (P.map (·.key)).Nodup) (hne : ∀ p ∈ P, p.key ≠ [])
    (hT : da.tableInv P = true) (hZ : da.sizeInv P = true)
    (h : List Nat) (items : List Item) (hI : itemsOfHay da.variant h = .ok items)
    (hL : ∀ it ∈ items, LabelOk da it.label) :
    ∃ l fin, noSufAll da h = .ok (l, fin) ∧ l.map (·.1) = specNoSufItems P [] items :=
  noSufAll_eq_spec (stdSem_of_tableInv da P hP hkeys hne hT (DA.sizeInv_depth hZ)) hI hL


/-! ### The specification function meets the declarative statement of the property -/

/-- Exactly one match per end position that has an occurrence — the longest pattern ending
there — and nothing for any other position. -/
theorem spec_longest_per_end (Ps : List (Pat V)) (hV : ValidPats Ps) (h : List Nat) (m : Match V) :
    m ∈ specNoSuffix Ps h ↔
      IsOcc Ps h m ∧ ∀ m', IsOcc Ps h m' → m'.stop = m.stop → m.start ≤ m'.start := mem_specNoSuffix hV
/-- In increasing order of position (hence at most one per position). -/
theorem spec_order (Ps : List (Pat V)) (hV : ValidPats Ps) (h : List Nat) :
    (specNoSuffix Ps h).Pairwise (fun a b => a.stop < b.stop) := specNoSuffix_sorted hV h
/-- It is the overlapping result with only the first match of every end position kept (what the
bundled CLI relies on). -/
theorem spec_is_head_of_overlapping (Ps : List (Pat V)) (hV : ValidPats Ps) (h : List Nat) :
    specNoSuffix Ps h = (specOverlapping Ps h).filter
      (fun m => decide (∀ m' ∈ specOverlapping Ps h, m'.stop = m.stop → m.start ≤ m'.start)) :=
  specNoSuffix_eq_filter hV h


/-! ### Rung 2 — every pattern collection, every `num_free_blocks`, in the model of the builder

`buildDA` is the model of `build_with_values` (Model/Trie.lean, Model/Nfa.lean, Model/Build.lean),
tied to the implementation by suite K-build (byte-identical tables). The chain of proofs:
insertion phase (Proofs/TrieFacts, NfaQueue) → fail links and outputs (Proofs/NfaStd, NfaLm, NfaG)
→ layout with the ring-buffer helper, BASE uniqueness and CHECK sanitising (Proofs/HelperFacts,
LayoutB, LayoutC, MapperFacts) → table semantics (Proofs/LayoutSem) → iterators (Rung 1). -/

theorem nosuffix_correct_build_bytewise (nfb : Nat) (Ps : List (Pat V)) (hV : ValidPats Ps)
    (hbytes : ∀ p ∈ Ps, ∀ b ∈ p.key, b < 256) (da : DA V)
    (hb : buildDA .bytewise ⟨0, nfb⟩ (Ps.map lp) = .ok da) (h : List Nat) (hh : ∀ b ∈ h, b < 256) :
    ∃ l fin, noSufAll da h = .ok (l, fin) ∧ l.map (·.1) = specNoSuffix Ps h :=
  bytewise_nosuffix_correct nfb Ps hV hbytes da hb h hh

theorem nosuffix_correct_build_charwise (nfb : Nat) (Q : List (List Nat × V)) (hQ : ScalarPats Q)
    (hQ0 : Q ≠ []) (hnd : (Q.map (·.1)).Nodup) (da : DA V)
    (hb : buildDA .charwise ⟨0, nfb⟩ (Q.map charPat) = .ok da) (t : List Nat) (ht : Scalars t) :
    ∃ l fin, noSufAll da (encAll t) = .ok (l, fin) ∧
      l.map (·.1) = specNoSuffix (Q.map bytePat) (encAll t) :=
  charwise_nosuffix_correct nfb Q hQ hQ0 hnd da hb t ht

end Daac.Props.C05

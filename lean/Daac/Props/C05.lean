/-
Property C05 — no-suffix overlapping search reports exactly the longest match per end position.
Same structure as Props/C01.
-/
import Daac.Proofs.Glue
import Daac.Proofs.SpecProps
namespace Daac.Props.C05
open Daac
variable {V : Type} [DecidableEq V]

theorem nosuffix_correct_bytewise (da : DA V) (Ps : List (Pat V)) (hV : ValidPats Ps)
    (hv : da.variant = .bytewise)
    (hT : da.tableInv (Ps.map lp) = true) (hZ : da.sizeInv (Ps.map lp) = true)
    (h : List Nat) (hb : ∀ b ∈ h, b < 256) :
    ∃ l fin, noSufAll da h = .ok (l, fin) ∧ l.map (·.1) = specNoSuffix Ps h :=
  noSufAll_bytewise_eq_spec hv (stdSem_bytes da Ps hV hT hZ) hb

theorem nosuffix_correct_items (da : DA V) (P : List (LPat V))
    (hP : P ≠ []) (hkeys : (P.map (·.key)).Nodup) (hne : ∀ p ∈ P, p.key ≠ [])
    (hT : da.tableInv P = true) (hZ : da.sizeInv P = true)
    (h : List Nat) (items : List Item) (hI : itemsOfHay da.variant h = .ok items)
    (hL : ∀ it ∈ items, LabelOk da it.label) :
    ∃ l fin, noSufAll da h = .ok (l, fin) ∧ l.map (·.1) = specNoSufItems P [] items :=
  noSufAll_eq_spec (stdSem_of_tableInv da P hP hkeys hne hT (DA.sizeInv_depth hZ)) hI hL


/-! ### The specification function meets the declarative statement of the property -/

/-- Exactly one match per end position that has an occurrence — the longest pattern ending
there — and nothing for any other position. -/
theorem spec_longest_per_end (Ps : List (Pat V)) (hV : ValidPats Ps) (h : List Nat) (m : Match V) :
    m ∈ specNoSuffix Ps h ↔
      IsOcc Ps h m ∧ ∀ m', IsOcc Ps h m' → m'.stop = m.stop → m.start ≤ m'.start := mem_specNoSuffix hV
/-- In increasing order of position (hence at most one per position). -/
theorem spec_order (Ps : List (Pat V)) (hV : ValidPats Ps) (h : List Nat) :
    (specNoSuffix Ps h).Pairwise (fun a b => a.stop < b.stop) := specNoSuffix_sorted hV h
/-- It is the overlapping result with only the first match of every end position kept (what the
bundled CLI relies on). -/
theorem spec_is_head_of_overlapping (Ps : List (Pat V)) (hV : ValidPats Ps) (h : List Nat) :
    specNoSuffix Ps h = (specOverlapping Ps h).filter
      (fun m => decide (∀ m' ∈ specOverlapping Ps h, m'.stop = m.stop → m.start ≤ m'.start)) :=
  specNoSuffix_eq_filter hV h

end Daac.Props.C05

/-
Property C13 — every search terminates and standard scans are linear in the haystack.

Termination in the model = "the loops never run out of the fuel the model supplies": for the
standard kind this is part of the correctness theorems (the iterators return `.ok`, Props/C01,
C02, C05) and of `steps_total` below; for the leftmost kinds of Props/C03. The ranking facts are
stated explicitly: fail links lead to strictly shorter nodes and reach the root; output parents
point strictly backwards (`boundsInv`). The 2n bound is proved by the potential argument.
Ties: K-steps (the implementation's own loop counter, hook `verif::STEPS`, equals the model's
count on every scan), K-trans, watchdog in ./check for hangs.
-/
import Daac.InvExtra
import Daac.Proofs.Steps
import Daac.Proofs.Steps2
import Daac.Proofs.Rung2
namespace Daac.Props.C13
open Daac
variable {V : Type} [DecidableEq V]

/-- **2n bound, byte-wise**: scanning any haystack of `n` bytes takes at most `2n` automaton
transitions, and the scan returns (no fuel exhaustion). -/
theorem steps_le_2n_bytewise (da : DA V) (P : List (LPat V)) (hT : da.tableInv P = true)
    (hZ : da.sizeInv P = true) (hv : da.variant = .bytewise) (h : List Nat) (hb : ∀ b ∈ h, b < 256) :
    ∃ total, scanSteps da (h.length + 1) rootIdx (startSrc h) 0 = .ok total ∧ total ≤ 2 * h.length :=
  Daac.steps_le_2n_bytewise hT (DA.sizeInv_depth hZ) hv hb

/-- **2n bound, char-wise**: at most two transitions per character, hence at most `2n` for `n`
bytes, for every haystack that decodes. -/
theorem steps_le_2n_charwise (da : DA V) (P : List (LPat V)) (hT : da.tableInv P = true)
    (hZ : da.sizeInv P = true) (hv : da.variant = .charwise) (h : List Nat) (items : List WItem)
    (hi : allItems .charwise (h.length + 1) ⟨h, 0⟩ = .ok items) :
    ∃ total, scanSteps da (h.length + 1) rootIdx (startSrc h) 0 = .ok total ∧
      total ≤ 2 * items.length ∧ total ≤ 2 * h.length :=
  Daac.steps_le_2n_charwise hT (DA.sizeInv_depth hZ) hv hi

/-- One transition from node `u` on label `c` takes `k` loop iterations with
`k + |target| ≤ |u| + 2` — the potential argument behind the bound. -/
theorem one_transition (da : DA V) (P : List (LPat V)) (hT : da.tableInv P = true)
    (hZ : da.sizeInv P = true) (u : List Nat) (c : Nat) (hu : u ∈ nodeList P) (hc : LabelOk da c) :
    ∃ k, da.nextS (da.idx u) c = .ok (da.idx (lsuf (nodeList P) (u ++ [c])), k) ∧
      k + (lsuf (nodeList P) (u ++ [c])).length ≤ u.length + 2 :=
  nextS_steps hT (DA.sizeInv_depth hZ) hu hc

/-- Fail links cannot cycle: the fail link of a non-root node leads to a strictly shorter node. -/
theorem fail_rank (da : DA V) (P : List (LPat V)) (hT : da.tableInv P = true) (u : List Nat)
    (hu : u ∈ nodeList P) (hu0 : u ≠ []) :
    ∃ st, da.st (da.idx u) = .ok st ∧ st.fail = da.idx (lps (nodeList P) u) ∧
      lps (nodeList P) u ∈ nodeList P ∧ (lps (nodeList P) u).length < u.length :=
  Daac.fail_rank hT hu hu0

/-- … and following fail links from any node reaches the root within `|u|` steps. -/
theorem fail_reaches_root (da : DA V) (P : List (LPat V)) (hT : da.tableInv P = true) (u : List Nat)
    (hu : u ∈ nodeList P) : ∃ k, k ≤ u.length ∧ da.failIter k (da.idx u) = some rootIdx :=
  Daac.fail_reaches_root hT u.length u (Nat.le_refl _) hu

/-- The scan never runs out of fuel from any node on any source whose labels are in range. -/
theorem scan_terminates (da : DA V) (P : List (LPat V)) (hT : da.tableInv P = true)
    (hZ : da.sizeInv P = true) (u : List Nat) (hu : u ∈ nodeList P) (fuel : Nat) (src : Src) (n : Nat)
    (hok : ItemsOk da fuel src) (hf : src.rest.length < fuel) :
    scanSteps da fuel (da.idx u) src n ≠ .error .fuel :=
  scanSteps_ne_fuel hT (DA.sizeInv_depth hZ) hu hok hf


/-! ### Rung 2 — every pattern collection, in the model of the builder -/

/-- For EVERY collection and every `num_free_blocks`: if the model builder succeeds (standard
kind), scanning any haystack that decodes takes at most two transitions per item, hence at most
`2n` for `n` bytes, and the scan terminates. -/
theorem steps_le_2n_build (variant : Variant) (nfb : Nat) (P : List (LPat V)) (da : DA V)
    (hb : buildDA variant ⟨0, nfb⟩ P = .ok da) (hk : keysOk P)
    (hlabels : variant = .bytewise → ∀ p ∈ P, ∀ c ∈ p.key, c < 256)
    (h : List Nat) (items : List WItem)
    (hi : allItems da.variant (h.length + 1) ⟨h, 0⟩ = .ok items)
    (hl : ∀ w ∈ items, LabelOk da w.label) :
    ∃ total, scanSteps da (h.length + 1) rootIdx (startSrc h) 0 = .ok total ∧
      total ≤ 2 * items.length ∧ total ≤ 2 * h.length := by
  obtain ⟨t, idx, hS, _, hL, hlab, hD⟩ := build_layout variant ⟨0, nfb⟩ P P da hb
    (fun t ht => buildTrie_trieSem 0 (by decide) P t ht hk) (fun p hp => hp) hlabels
  exact steps_le_2n_of_layout hL hS hlab hD hi hl

/-- Termination of the leftmost kinds, every collection: the leftmost iterator returns (Props/C03,
`leftmost_longest_correct_build_*`: `lmAll … = .ok _`), and the standard iterators return
(Props/C01, C02, C05 `*_correct_build_*`). -/
theorem leftmost_terminates_build (nfb : Nat) (Ps : List (Pat V)) (hV : ValidPats Ps)
    (hbytes : ∀ p ∈ Ps, ∀ b ∈ p.key, b < 256) (da : DA V)
    (hb : buildDA .bytewise ⟨1, nfb⟩ (Ps.map lpOf) = .ok da) (h : List Nat) (hh : ∀ b ∈ h, b < 256) :
    ∃ l, lmAll da h = .ok (l, 0) := by
  obtain ⟨l, h1, _⟩ := bytewise_leftmost_longest_correct nfb Ps hV hbytes da hb h hh
  exact ⟨l, h1⟩

end Daac.Props.C13

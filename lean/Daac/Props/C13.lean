/-
Property C13 — every search terminates and standard scans are linear in the haystack.

Termination in the model = "the loops never run out of the fuel the model supplies": for the
standard kind this is part of the correctness theorems (the iterators return `.ok`, Props/C01,
C02, C05) and of `steps_total` below; for the leftmost kinds of Props/C03. The ranking facts are
stated explicitly: fail links lead to strictly shorter nodes and reach the root; output parents
point strictly backwards (`boundsInv`). The 2n bound is proved by the potential argument.
Ties: K-steps (the implementation's own loop counter, hook `verif::STEPS`, equals the model's
count on every scan), K-trans, watchdog in ./check for hangs.
-/
import Daac.InvExtra
import Daac.Proofs.Steps
namespace Daac.Props.C13
open Daac
variable {V : Type} [DecidableEq V]

/-- **2n bound, byte-wise**: scanning any haystack of `n` bytes takes at most `2n` automaton
transitions, and the scan returns (no fuel exhaustion). -/
theorem steps_le_2n_bytewise (da : DA V) (P : List (LPat V)) (hT : da.tableInv P = true)
    (hZ : da.sizeInv P = true) (hv : da.variant = .bytewise) (h : List Nat) (hb : ∀ b ∈ h, b < 256) :
    ∃ total, scanSteps da (h.length + 1) rootIdx (startSrc h) 0 = .ok total ∧ total ≤ 2 * h.length :=
  Daac.steps_le_2n_bytewise hT (DA.sizeInv_depth hZ) hv hb

/-- **2n bound, char-wise**: at most two transitions per character, hence at most `2n` for `n`
bytes, for every haystack that decodes. -/
theorem steps_le_2n_charwise (da : DA V) (P : List (LPat V)) (hT : da.tableInv P = true)
    (hZ : da.sizeInv P = true) (hv : da.variant = .charwise) (h : List Nat) (items : List WItem)
    (hi : allItems .charwise (h.length + 1) ⟨h, 0⟩ = .ok items) :
    ∃ total, scanSteps da (h.length + 1) rootIdx (startSrc h) 0 = .ok total ∧
      total ≤ 2 * items.length ∧ total ≤ 2 * h.length :=
  Daac.steps_le_2n_charwise hT (DA.sizeInv_depth hZ) hv hi

/-- One transition from node `u` on label `c` takes `k` loop iterations with
`k + |target| ≤ |u| + 2` — the potential argument behind the bound. -/
theorem one_transition (da : DA V) (P : List (LPat V)) (hT : da.tableInv P = true)
    (hZ : da.sizeInv P = true) (u : List Nat) (c : Nat) (hu : u ∈ nodeList P) (hc : LabelOk da c) :
    ∃ k, da.nextS (da.idx u) c = .ok (da.idx (lsuf (nodeList P) (u ++ [c])), k) ∧
      k + (lsuf (nodeList P) (u ++ [c])).length ≤ u.length + 2 :=
  nextS_steps hT (DA.sizeInv_depth hZ) hu hc

/-- Fail links cannot cycle: the fail link of a non-root node leads to a strictly shorter node. -/
theorem fail_rank (da : DA V) (P : List (LPat V)) (hT : da.tableInv P = true) (u : List Nat)
    (hu : u ∈ nodeList P) (hu0 : u ≠ []) :
    ∃ st, da.st (da.idx u) = .ok st ∧ st.fail = da.idx (lps (nodeList P) u) ∧
      lps (nodeList P) u ∈ nodeList P ∧ (lps (nodeList P) u).length < u.length :=
  Daac.fail_rank hT hu hu0

/-- … and following fail links from any node reaches the root within `|u|` steps. -/
theorem fail_reaches_root (da : DA V) (P : List (LPat V)) (hT : da.tableInv P = true) (u : List Nat)
    (hu : u ∈ nodeList P) : ∃ k, k ≤ u.length ∧ da.failIter k (da.idx u) = some rootIdx :=
  Daac.fail_reaches_root hT u.length u (Nat.le_refl _) hu

/-- The scan never runs out of fuel from any node on any source whose labels are in range. -/
theorem scan_terminates (da : DA V) (P : List (LPat V)) (hT : da.tableInv P = true)
    (hZ : da.sizeInv P = true) (u : List Nat) (hu : u ∈ nodeList P) (fuel : Nat) (src : Src) (n : Nat)
    (hok : ItemsOk da fuel src) (hf : src.rest.length < fuel) :
    scanSteps da fuel (da.idx u) src n ≠ .error .fuel :=
  scanSteps_ne_fuel hT (DA.sizeInv_depth hZ) hu hok hf

end Daac.Props.C13

/-
Translation tie, the TOP of the char-wise builder — what Proofs/TieTopC buys.

The sequencing of `CharwiseDoubleArrayAhoCorasickBuilder::build_with_values` /
`build_original_nfa_and_mapper` (src/charwise/builder.rs) — the pattern loop
`chars.clear(); pattern.as_ref().chars().for_each(|c| chars.push(c)); nfa.add(&chars, value)?;` with the
frequency-counting loop, `self.mapper = CodeMapper::new(&freqs)`, the `nfa.len == 0` test, the
`match self.match_kind` choosing `build_fails` / `build_fails_leftmost`, `build_outputs`,
`build_double_array`, `num_states = u32::try_from(len - 1)`, the struct literal — was the HAND-WRITTEN
glue `Tie.PC.addCountAllGen` / `Tie.PC.genBuildC`.  It is now a Lean definition GENERATED from the
repository's current Rust text on every run (tools/top2lean.py, profile `charwise` →
Gen/BuildTopC.lean: `TC.Builder.build_original_nfa_and_mapper`, `TC.Builder.build_with_values`,
`structure TC.CharwiseDoubleArrayAhoCorasick`), calling the already generated `N.NfaBuilder.*`
(Gen/Nfa.lean, label width `Rs.lenUtf8` = `char::len_utf8`), `M.count_chars` / `M.CodeMapper.new`
(Gen/MapperNew.lean) and `DC.Builder.build_double_array` (Gen/BuildC.lean).  Proofs/TieTopC proves
  * `loop0_eq`: the translated pattern loop = `addCountAllGen Rs.lenUtf8`;
  * `build_original_nfa_and_mapper_eq`: the translated function = the first part of the glue, and the
    builder it returns is the given one with the new mapper;
  * `build_with_values_states_eqC`: the `states` of the translated `build_with_values` = `genBuildC`;
  * Proofs/TieTopCFrame `build_double_array_frameC`: the translated char-wise `build_double_array` never
    writes `match_kind`, `mapper`, `num_free_blocks`;
and composes with Proofs/TiePC into the statement below.

What is tied: on every list of patterns given as lists of Unicode scalar values (`≤ 0x10FFFF`) within the
`u32` scale (`2 + Σ |pattern| ≤ u32::MAX`, each pattern's UTF-8 length `≤ u32::MAX`), every `MatchKind`
byte `kind ≤ 2`, every `num_free_blocks ≥ 1`, the translated `build_with_values` started from the builder
`new()` leaves and the model `buildDA .charwise` fail with the same error kind (panic texts ignored), or
both succeed with EQUAL `states`, EQUAL `num_states`, the SAME mapper table and alphabet size,
`match_kind = kind` = the model's kind, and output records related by `OutsRel`.

Outside: the translators (tools/top2lean.py, map2lean.py, nfa2lean.py, dbl2lean.py, rs2lean.py) and their
preludes (meaning of `Vec`, `BTreeMap`, `RefCell`, `IntoIterator` = list, `AsRef<str>` + `chars()` = the list
of scalar values, `for_each(push)` = append, integer conversions, `MatchKind` = its byte, `CodeMapper` =
the two-field record).  `build` (the index-assigning wrapper around `build_with_values`): Props/TieTopBuild.lean.
-/
import Daac.Proofs.TieTopC
import Daac.Proofs.Utf8
namespace Daac.Props.TieTopC
open Daac Daac.Gen Daac.Tie.H Daac.Tie.F Daac.Tie.PC Daac.Tie.TopC
variable {V : Type}

/-- The translated char-wise `build_with_values` (Gen/BuildTopC.lean) and the model `buildDA .charwise`
agree on every collection of patterns (lists of Unicode scalar values) within the `u32` scale: same error
kind, or the same state table, the same `num_states`, the same code-mapper table and alphabet size,
`match_kind = kind` = the model's kind, and related output records. -/
theorem translated_build_with_values_eq_model_charwise (kind : Nat) (cfg : Cfg) (m0 : Mapper)
    (pv : List (List Nat × V))
    (hk : kind ≤ 2) (hkind : cfg.kind = kind) (hnfb : 1 ≤ cfg.nfb)
    (hch : ∀ p ∈ pv, ∀ c ∈ p.1, c ≤ 0x10FFFF)
    (hsz : 2 + (pv.map (·.1.length)).sum ≤ 4294967295)
    (hbl : ∀ p ∈ pv, (p.1.map Rs.lenUtf8).sum ≤ 4294967295) :
    match TC.Builder.build_with_values ⟨#[], m0, kind, 0, cfg.nfb⟩ pv, buildDA .charwise cfg (toLPatsC pv) with
    | .error e, .error e' => norm (.error e : Except BuildErr Unit) = norm (.error e')
    | .ok a, .ok da => a.states = da.states ∧ a.num_states = da.numStates ∧
        a.mapper.table = da.mapTable ∧ a.mapper.alphaSize = da.alphaSize ∧
        a.match_kind = kind ∧ a.match_kind = da.kind ∧ OutsRel a.outputs da.outputs
    | _, _ => False :=
  generated_build_with_values_eq_buildDA_charwise kind cfg m0 pv hk hkind hnfb hch hsz hbl

/-- The translated `build_original_nfa_and_mapper` is the first part of the former glue, and it only
replaces the `mapper` field of the builder. -/
theorem translated_build_original_nfa_and_mapper_eq_glue (b : LC.Builder) (pv : List (List Nat × V))
    (hk : b.match_kind ≤ 2) :
    TC.Builder.build_original_nfa_and_mapper b pv =
      match origGlue b.match_kind (toLPatsC pv) with
      | .error e => .error e
      | .ok (g2, m) => .ok (g2, { b with mapper := toMapper m }) :=
  build_original_nfa_and_mapper_eq b pv hk

/-- The translated pattern loop is the hand-written interleaved fold `addCountAllGen`. -/
theorem translated_pattern_loop_eq_addCountAllGen (pv : List (List Nat × V)) (g : N.NfaBuilder V)
    (fr : Array Nat) (ch : List Nat) :
    TC.Builder.build_original_nfa_and_mapper.loop0 pv g fr ch =
      match addCountAllGen Rs.lenUtf8 g fr (toLPatsC pv) with
      | .error e => .error e
      | .ok r => .ok (r.1, r.2, lastChars ch pv) :=
  loop0_eq pv g fr ch

/-- The translated char-wise `build_double_array` never writes `match_kind`, `mapper`, `num_free_blocks`. -/
theorem translated_build_double_array_frame_charwise (b b' : LC.Builder) (g : N.NfaBuilder V) (u : Unit)
    (h : DC.Builder.build_double_array b g = .ok (u, b')) :
    b'.match_kind = b.match_kind ∧ b'.mapper = b.mapper ∧ b'.num_free_blocks = b.num_free_blocks :=
  build_double_array_frameC b b' g u h

/-- The label width used by the translated `add` (`Rs.lenUtf8`, from `impl EdgeLabel for char`) is the
reference UTF-8 width, so `blen` of `toLPatsC` is the byte length of the pattern's UTF-8 encoding. -/
theorem lenUtf8_eq_utf8Width : Rs.lenUtf8 = utf8Width := rfl

end Daac.Props.TieTopC

#print axioms Daac.Props.TieTopC.translated_build_with_values_eq_model_charwise
#print axioms Daac.Props.TieTopC.translated_build_original_nfa_and_mapper_eq_glue
#print axioms Daac.Props.TieTopC.translated_pattern_loop_eq_addCountAllGen
#print axioms Daac.Props.TieTopC.translated_build_double_array_frame_charwise

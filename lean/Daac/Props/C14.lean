/-
Property C14 — construction is deterministic and independent of input order; searching is pure.

Determinism: the model `buildDA` is a function; suite K-build + the harness's double builds tie
it to the implementation (equal automata, equal serialised bytes). Order independence is proved
here for ALL collections and permutations. Purity: in the model the automaton is an argument,
never a result, of any search function; the residue (real threads) is covered by the source scan
`purity` (no interior mutability, `&self` only) and by the harness's 4-thread runs.
-/
import Daac.Proofs.BuildCor
import Daac.Proofs.TriePerm
namespace Daac.Props.C14
open Daac
variable {V : Type}

/-- **Order independence** (standard and leftmost-longest kinds): building from any permutation
of the same pattern/value pairs yields the same automaton — same tables, mapper, outputs, state
count — hence the same serialised bytes. Both variants, every `num_free_blocks`. -/
theorem perm_invariant (variant : Variant) (cfg : Cfg) (hk : cfg.kind ≠ 2)
    (P P' : List (LPat V)) (hp : P.Perm P') (da : DA V) :
    buildDA variant cfg P = .ok da → buildDA variant cfg P' = .ok da :=
  buildDA_perm variant cfg hk P P' hp
    (fun a1 h1 => (addAll_perm P P' hp NfaAcc.init Trie.ordered_empty).1 a1 h1) da

/-- A permutation of an invalid collection is invalid too (the error kind may differ when several
defects are present). -/
theorem perm_error_iff (kind : Nat) (hk : kind ≠ 2) (P P' : List (LPat V)) (hp : P.Perm P') :
    (∃ e, buildTrie kind P = .error e) ↔ (∃ e, buildTrie kind P' = .error e) :=
  buildTrie_perm_error_iff kind hk P P' hp

/-- The code mapper (frequency-ranked, ties by code point) does not depend on the order. -/
theorem mapper_perm (P P' : List (LPat V)) (hp : P.Perm P') : Mapper.build P = Mapper.build P' :=
  Mapper.build_perm hp

/-- The restriction to kinds 0 and 1 is necessary: for leftmost-first the order matters. -/
theorem perm_fails_for_leftmost_first :
    ∃ P P' : List (LPat Nat), P.Perm P' ∧ buildTrie 2 P ≠ buildTrie 2 P' :=
  buildTrie_perm_fails_for_leftmost_first

/-- Determinism: two builds from the same input are equal (the model is a function). -/
theorem build_deterministic (variant : Variant) (cfg : Cfg) (P : List (LPat V)) (a b : DA V)
    (ha : buildDA variant cfg P = .ok a) (hb : buildDA variant cfg P = .ok b) : a = b := by
  rw [ha] at hb; exact Except.ok.inj hb

end Daac.Props.C14

/-
Property C01 — overlapping search reports every occurrence of every pattern exactly once,
in increasing order of end position, longest first.

Rung 1 (proved here, all haystacks): tables that satisfy the evaluated invariants `tableInv` +
`sizeInv` for a valid pattern list answer the overlapping search of every haystack exactly like
the specification. The invariants are evaluated by the compiled driver on the tables the
implementation actually built (hook `verif_raw`), for every automaton a run generates, for every
`num_free_blocks` and both construction entry points; the model iterator is tied to the real one
by suites K-search / K-trans. Rung 2 (every pattern set ⇒ invariants) is proved only for the
pattern-insertion phase (Props/C10, C15); for the fail/output/layout phases it is replaced by
that per-instance evaluation (DESIGN.md §3.4).
-/
import Daac.Proofs.Glue
import Daac.Proofs.SpecProps
import Daac.Proofs.Rung2
namespace Daac.Props.C01
open Daac
variable {V : Type} [DecidableEq V]

/-- **Byte-wise automaton, byte-level statement.** For every haystack of bytes the model of
`find_overlapping_iter` returns — without fault and within its fuel — exactly
`specOverlapping Ps h`. -/
theorem overlapping_correct_bytewise (da : DA V) (Ps : List (Pat V)) (hV : ValidPats Ps)
    (hv : da.variant = .bytewise)
    (hT : da.tableInv (Ps.map lp) = true) (hZ : da.sizeInv (Ps.map lp) = true)
    (h : List Nat) (hb : ∀ b ∈ h, b < 256) :
    ∃ l fin, ovAll da h = .ok (l, fin) ∧ l.map (·.1) = specOverlapping Ps h :=
  ovAll_bytewise_eq_spec hv (stdSem_bytes da Ps hV hT hZ) hb
    (by simpa using DA.sizeInv_outputs hZ)

/-- **Either variant, character (item) level.** For any label-level pattern list `P` and any
haystack that decodes into `items`, the overlapping iterator returns exactly the item-level
specification: for every item, all patterns that are suffixes of the labels read so far, longest
first, with byte offsets taken from the items. (For the char-wise automaton `items` are the
decoded characters with their end offsets; Props/C08 relates this to the byte-level
specification.) -/
theorem overlapping_correct_items (da : DA V) (P : List (LPat V))
    (hP : P ≠ []) (hkeys : (P.map (·.key)).Nodup) (hne : ∀ p ∈ P, p.key ≠ [])
    (hT : da.tableInv P = true) (hZ : da.sizeInv P = true)
    (h : List Nat) (items : List Item) (hI : itemsOfHay da.variant h = .ok items)
    (hL : ∀ it ∈ items, LabelOk da it.label) :
    ∃ l fin, ovAll da h = .ok (l, fin) ∧ l.map (·.1) = specOvItems P [] items :=
  ovAll_eq_spec (stdSem_of_tableInv da P hP hkeys hne hT (DA.sizeInv_depth hZ)) hI hL
    (DA.sizeInv_outputs hZ)


/-! ### The specification function meets the declarative statement of the property -/

/-- None missed, none invented: the specification lists exactly the triples (start, end, value)
for which `h[start..end]` equals a registered pattern carrying that value. -/
theorem spec_exactly_occurrences (Ps : List (Pat V)) (hV : ValidPats Ps) (h : List Nat) (m : Match V) :
    m ∈ specOverlapping Ps h ↔ IsOcc Ps h m := mem_specOverlapping hV
/-- None repeated. -/
theorem spec_no_repeats (Ps : List (Pat V)) (hV : ValidPats Ps) (h : List Nat) :
    (specOverlapping Ps h).Nodup := specOverlapping_nodup hV h
/-- Increasing order of end position and, among matches ending at the same position, longest
first. -/
theorem spec_order (Ps : List (Pat V)) (hV : ValidPats Ps) (h : List Nat) :
    (specOverlapping Ps h).Pairwise (fun a b => a.stop < b.stop ∨ (a.stop = b.stop ∧ a.start < b.start)) :=
  specOverlapping_sorted hV h


/-! ### Rung 2 — every pattern collection, every `num_free_blocks`, in the model of the builder

`buildDA` is the model of `build_with_values` (Model/Trie.lean, Model/Nfa.lean, Model/Build.lean),
tied to the implementation by suite K-build (byte-identical tables). The chain of proofs:
insertion phase (Proofs/TrieFacts, NfaQueue) → fail links and outputs (Proofs/NfaStd, NfaLm, NfaG)
→ layout with the ring-buffer helper, BASE uniqueness and CHECK sanitising (Proofs/HelperFacts,
LayoutB, LayoutC, MapperFacts) → table semantics (Proofs/LayoutSem) → iterators (Rung 1). -/

/-- **Full strength in the model, byte-wise**: for EVERY valid collection of byte patterns and
every `num_free_blocks`, if the model builder succeeds then the overlapping search of every
haystack returns exactly `specOverlapping`. No invariant hypothesis is left. -/
theorem overlapping_correct_build_bytewise (nfb : Nat) (Ps : List (Pat V)) (hV : ValidPats Ps)
    (hbytes : ∀ p ∈ Ps, ∀ b ∈ p.key, b < 256) (da : DA V)
    (hb : buildDA .bytewise ⟨0, nfb⟩ (Ps.map lp) = .ok da) (h : List Nat) (hh : ∀ b ∈ h, b < 256) :
    ∃ l fin, ovAll da h = .ok (l, fin) ∧ l.map (·.1) = specOverlapping Ps h :=
  bytewise_overlapping_correct nfb Ps hV hbytes da hb h hh

/-- **Full strength in the model, char-wise**: for every valid collection of UTF-8 patterns
(as scalar-value lists) and every valid UTF-8 haystack, with byte offsets. -/
theorem overlapping_correct_build_charwise (nfb : Nat) (Q : List (List Nat × V)) (hQ : ScalarPats Q)
    (hQ0 : Q ≠ []) (hnd : (Q.map (·.1)).Nodup) (da : DA V)
    (hb : buildDA .charwise ⟨0, nfb⟩ (Q.map charPat) = .ok da) (t : List Nat) (ht : Scalars t) :
    ∃ l fin, ovAll da (encAll t) = .ok (l, fin) ∧
      l.map (·.1) = specOverlapping (Q.map bytePat) (encAll t) :=
  charwise_overlapping_correct nfb Q hQ hQ0 hnd da hb t ht

end Daac.Props.C01

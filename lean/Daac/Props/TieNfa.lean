/-
Translation tie, pattern insertion — what Proofs/TieN buys for C10 (and C04 / C15).

`Daac/Gen/Nfa.lean` is `NfaBuilder::{new, add, is_registered, child_id}` of /repo's
src/nfa_builder.rs as translated by tools/nfa2lean.py on every run: the id-indexed
`Vec<RefCell<NfaBuilderState>>` with `BTreeMap` edges, the leftmost-first early return, the
shadowed-pattern set of the D2 repair, the length conversion and the duplicate test.
Proofs/TieN proves that this code REFINES the path-keyed trie of the model (`Trie.insert`,
`NfaAcc.add`): same outcome (Ok / error kind) on every pattern, and the array keeps representing
the model's tree (`RepAcc`; a frame argument shows that writing one state leaves every other
subtree represented). All validation of C10 happens in this phase, so the model theorems about it
hold of the TRANSLATED code: the loop of `build_sparse_nfa` / `build_original_nfa_and_mapper`
(`add` for every pattern, then the `nfa.len == 0` test) accepts exactly the valid collections,
rejects the others with `InvalidArgument` / `DuplicatePattern`, and never panics.

Outside: `build_fails*`, `build_outputs` and the DFS layout loop are not translated (K-build);
the prelude Daac/Gen/PreludeNfa.lean fixes the meaning of `BTreeMap`/`BTreeSet`/`RefCell`.
-/
import Daac.Proofs.TieN
import Daac.Props.C10
namespace Daac.Props.TieNfa
open Daac Daac.Gen.N Daac.Tie.N
variable {V : Type}

/-- The only errors of the model's insertion phase are the two documented kinds. -/
theorem model_add_err (lf : Bool) (a : NfaAcc V) (p : LPat V) (e : BuildErr)
    (h : a.add lf p = .error e) : e = .invalidArgument ∨ e = .duplicatePattern := by
  unfold NfaAcc.add at h
  split at h
  · cases h; exact Or.inl rfl
  · split at h
    · cases h
    · cases h; exact Or.inr rfl
    · split at h
      · cases h; exact Or.inr rfl
      · cases h

theorem model_addAll_err (lf : Bool) : (ps : List (LPat V)) → (a : NfaAcc V) → (e : BuildErr) →
    a.addAll lf ps = .error e → e = .invalidArgument ∨ e = .duplicatePattern
  | [], _, _, h => by simp [NfaAcc.addAll] at h
  | p :: ps, a, e, h => by
    unfold NfaAcc.addAll at h
    split at h
    · rename_i e' he
      cases h
      exact model_add_err lf a p _ he
    · exact model_addAll_err lf ps _ e h

/-- **Generated = model for the whole insertion loop**: the translated `add`, folded over any
collection from `NfaBuilder::new`, returns the same error kind as the model, or a builder that
represents the model's trie with the same pattern count. -/
theorem generated_insertion_eq_model (nb : Nat → Nat) (kind : Nat) (P : List (LPat V))
    (hsz : 2 + (P.map (·.key.length)).sum ≤ 4294967295)
    (hlen : ∀ p ∈ P, (p.key.map nb).sum = p.blen ∧ p.blen ≤ 4294967295) :
    (∀ e, addAllGen nb (NfaBuilder.new kind) P = .error e ↔
          (NfaAcc.init : NfaAcc V).addAll (kind == 2) P = .error e) ∧
    (∀ g, addAllGen nb (NfaBuilder.new kind) P = .ok g →
          ∃ a, (NfaAcc.init : NfaAcc V).addAll (kind == 2) P = .ok a ∧ RepAcc g a) ∧
    (∀ a, (NfaAcc.init : NfaAcc V).addAll (kind == 2) P = .ok a →
          ∃ g, addAllGen nb (NfaBuilder.new kind) P = .ok g ∧ RepAcc g a) := by
  have h := build_refines nb kind P hsz hlen
  have hc : (∃ e, addAllGen nb (NfaBuilder.new kind) P = .error e ∧
               (NfaAcc.init : NfaAcc V).addAll (kind == 2) P = .error e) ∨
            (∃ g a, addAllGen nb (NfaBuilder.new kind) P = .ok g ∧
               (NfaAcc.init : NfaAcc V).addAll (kind == 2) P = .ok a ∧ RepAcc g a) := by
    cases hg : addAllGen nb (NfaBuilder.new kind) P with
    | error e1 =>
      cases hm : (NfaAcc.init : NfaAcc V).addAll (kind == 2) P with
      | error e2 =>
        rw [hg, hm] at h
        have h' : e1 = e2 := h
        exact Or.inl ⟨e1, rfl, by rw [h']⟩
      | ok a => rw [hg, hm] at h; exact h.elim
    | ok g =>
      cases hm : (NfaAcc.init : NfaAcc V).addAll (kind == 2) P with
      | error e2 => rw [hg, hm] at h; exact h.elim
      | ok a =>
        rw [hg, hm] at h
        exact Or.inr ⟨g, a, rfl, rfl, h⟩
  refine ⟨?_, ?_, ?_⟩
  · intro e
    rcases hc with ⟨e', hg, hm⟩ | ⟨g, a, hg, hm, _⟩
    · rw [hg, hm]; constructor <;> intro hx <;> cases hx <;> rfl
    · rw [hg, hm]; constructor <;> intro hx <;> cases hx
  · intro g hg
    rcases hc with ⟨e', hg', _⟩ | ⟨g', a, hg', hm, hr⟩
    · rw [hg'] at hg; cases hg
    · rw [hg'] at hg; cases hg; exact ⟨a, hm, hr⟩
  · intro a hm
    rcases hc with ⟨e', _, hm'⟩ | ⟨g, a', hg, hm', hr⟩
    · rw [hm'] at hm; cases hm
    · rw [hm'] at hm; cases hm; exact ⟨g, hg, hr⟩

/-- **C10 for the translated insertion phase**: `add` for every pattern followed by the
`nfa.len == 0` test succeeds precisely on the valid collections — non-empty, no empty pattern, no two
equal patterns — for every match kind, wherever the offending entry sits. -/
theorem generated_insertion_ok_iff (nb : Nat → Nat) (kind : Nat) (P : List (LPat V)) (hk : keysOk P)
    (hsz : 2 + (P.map (·.key.length)).sum ≤ 4294967295)
    (hlen : ∀ p ∈ P, (p.key.map nb).sum = p.blen ∧ p.blen ≤ 4294967295) :
    (∃ g, addAllGen nb (NfaBuilder.new kind) P = .ok g ∧ g.len ≠ 0) ↔
      (P ≠ [] ∧ (∀ p ∈ P, p.key ≠ []) ∧ (P.map (·.key)).Nodup) := by
  obtain ⟨_, h2, h3⟩ := generated_insertion_eq_model nb kind P hsz hlen
  rw [← C10.insertion_ok_iff kind P hk]
  unfold buildTrie
  constructor
  · rintro ⟨g, hg, hl⟩
    obtain ⟨a, ha, hr⟩ := h2 g hg
    have hla : a.len = g.len := by obtain ⟨_, _, hl', _⟩ := hr; exact hl'.symm
    rw [ha]
    simp only [hla, hl, if_false]
    exact ⟨_, rfl⟩
  · rintro ⟨t, ht⟩
    cases hm : (NfaAcc.init : NfaAcc V).addAll (kind == 2) P with
    | error e => rw [hm] at ht; cases ht
    | ok a =>
      rw [hm] at ht
      obtain ⟨g, hg, hr⟩ := h3 a hm
      have hla : g.len = a.len := by obtain ⟨_, _, hl', _⟩ := hr; exact hl'
      refine ⟨g, hg, ?_⟩
      rw [hla]
      intro h0
      simp only [h0, if_true] at ht
      cases ht

/-- The translated insertion loop never panics and fails only with the two documented kinds. -/
theorem generated_insertion_err_kind (nb : Nat → Nat) (kind : Nat) (P : List (LPat V))
    (hsz : 2 + (P.map (·.key.length)).sum ≤ 4294967295)
    (hlen : ∀ p ∈ P, (p.key.map nb).sum = p.blen ∧ p.blen ≤ 4294967295) (e : BuildErr)
    (h : addAllGen nb (NfaBuilder.new kind) P = .error e) :
    e = .invalidArgument ∨ e = .duplicatePattern :=
  model_addAll_err _ P _ e (((generated_insertion_eq_model nb kind P hsz hlen).1 e).1 h)

/-- Non-vacuity / the former D2 witness on the translated code: under leftmost-first the repeated,
shadowed pattern of `["a","ab","ab"]` is rejected as a duplicate. -/
example : (match addAllGen (V := Nat) (fun _ => 1) (NfaBuilder.new 2)
    [⟨[97], 0, 1⟩, ⟨[97, 98], 1, 2⟩, ⟨[97, 98], 2, 2⟩] with
    | .error .duplicatePattern => true | _ => false) = true := by decide

end Daac.Props.TieNfa

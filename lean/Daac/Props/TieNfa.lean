/-
Translation tie, pattern insertion — what Proofs/TieN buys for C10 (and C04 / C15).

`Daac/Gen/Nfa.lean` is `NfaBuilder::{new, add, is_registered, child_id}` of /repo's
src/nfa_builder.rs as translated by tools/nfa2lean.py on every run: the id-indexed
`Vec<RefCell<NfaBuilderState>>` with `BTreeMap` edges, the leftmost-first early return, the
shadowed-pattern set of the D2 repair, the length conversion and the duplicate test.
Proofs/TieN proves that this code REFINES the path-keyed trie of the model (`Trie.insert`,
`NfaAcc.add`): same outcome (Ok / error kind) on every pattern, and the array keeps representing
the model's tree (`RepAcc`; a frame argument shows that writing one state leaves every other
subtree represented). All validation of C10 happens in this phase, so the model theorems about it
hold of the TRANSLATED code: the loop of `build_sparse_nfa` / `build_original_nfa_and_mapper`
(`add` for every pattern, then the `nfa.len == 0` test) accepts exactly the valid collections,
rejects the others with `InvalidArgument` / `DuplicatePattern`, and never panics.

The fail-link and output passes `build_fails`, `build_fails_leftmost`, `build_outputs` are translated
too (explicit BFS queue with a cursor, the inner fail walk with fuel) and proved to refine the
model's `buildFailMap` / `buildOutAcc` (Proofs/TieF*.lean): the explicit queue is the level order
`Trie.queue`, every state's `fail` is the id of the model's fail target (or the dead state under the
leftmost kinds), `output_pos` and the output records agree, nothing panics and no fuel runs out.
`generated_sparse_nfa` below is the whole of `build_sparse_nfa` after the insertion loop.

Outside: the prelude Daac/Gen/PreludeNfa.lean fixes the meaning of `BTreeMap`/`BTreeSet`/`RefCell`
(dynamic borrow checks of `RefCell` are not modelled); the byte-wise DFS layout loop is tied in
Props/TieLayout.lean; the char-wise one and the code-mapper construction only by K-build.
-/
import Daac.Proofs.TieN
import Daac.Proofs.TieFAll
import Daac.Props.C10
namespace Daac.Props.TieNfa
open Daac Daac.Gen.N Daac.Tie.N
variable {V : Type}

/-- The only errors of the model's insertion phase are the two documented kinds. -/
theorem model_add_err (lf : Bool) (a : NfaAcc V) (p : LPat V) (e : BuildErr)
    (h : a.add lf p = .error e) : e = .invalidArgument ∨ e = .duplicatePattern := by
  unfold NfaAcc.add at h
  split at h
  · cases h; exact Or.inl rfl
  · split at h
    · cases h
    · cases h; exact Or.inr rfl
    · split at h
      · cases h; exact Or.inr rfl
      · cases h

theorem model_addAll_err (lf : Bool) : (ps : List (LPat V)) → (a : NfaAcc V) → (e : BuildErr) →
    a.addAll lf ps = .error e → e = .invalidArgument ∨ e = .duplicatePattern
  | [], _, _, h => by simp [NfaAcc.addAll] at h
  | p :: ps, a, e, h => by
    unfold NfaAcc.addAll at h
    split at h
    · rename_i e' he
      cases h
      exact model_add_err lf a p _ he
    · exact model_addAll_err lf ps _ e h

/-- **Generated = model for the whole insertion loop**: the translated `add`, folded over any
collection from `NfaBuilder::new`, returns the same error kind as the model, or a builder that
represents the model's trie with the same pattern count. -/
theorem generated_insertion_eq_model (nb : Nat → Nat) (kind : Nat) (P : List (LPat V))
    (hsz : 2 + (P.map (·.key.length)).sum ≤ 4294967295)
    (hlen : ∀ p ∈ P, (p.key.map nb).sum = p.blen ∧ p.blen ≤ 4294967295) :
    (∀ e, addAllGen nb (NfaBuilder.new kind) P = .error e ↔
          (NfaAcc.init : NfaAcc V).addAll (kind == 2) P = .error e) ∧
    (∀ g, addAllGen nb (NfaBuilder.new kind) P = .ok g →
          ∃ a, (NfaAcc.init : NfaAcc V).addAll (kind == 2) P = .ok a ∧ RepAcc g a) ∧
    (∀ a, (NfaAcc.init : NfaAcc V).addAll (kind == 2) P = .ok a →
          ∃ g, addAllGen nb (NfaBuilder.new kind) P = .ok g ∧ RepAcc g a) := by
  have h := build_refines nb kind P hsz hlen
  have hc : (∃ e, addAllGen nb (NfaBuilder.new kind) P = .error e ∧
               (NfaAcc.init : NfaAcc V).addAll (kind == 2) P = .error e) ∨
            (∃ g a, addAllGen nb (NfaBuilder.new kind) P = .ok g ∧
               (NfaAcc.init : NfaAcc V).addAll (kind == 2) P = .ok a ∧ RepAcc g a) := by
    cases hg : addAllGen nb (NfaBuilder.new kind) P with
    | error e1 =>
      cases hm : (NfaAcc.init : NfaAcc V).addAll (kind == 2) P with
      | error e2 =>
        rw [hg, hm] at h
        have h' : e1 = e2 := h
        exact Or.inl ⟨e1, rfl, by rw [h']⟩
      | ok a => rw [hg, hm] at h; exact h.elim
    | ok g =>
      cases hm : (NfaAcc.init : NfaAcc V).addAll (kind == 2) P with
      | error e2 => rw [hg, hm] at h; exact h.elim
      | ok a =>
        rw [hg, hm] at h
        exact Or.inr ⟨g, a, rfl, rfl, h⟩
  refine ⟨?_, ?_, ?_⟩
  · intro e
    rcases hc with ⟨e', hg, hm⟩ | ⟨g, a, hg, hm, _⟩
    · rw [hg, hm]; constructor <;> intro hx <;> cases hx <;> rfl
    · rw [hg, hm]; constructor <;> intro hx <;> cases hx
  · intro g hg
    rcases hc with ⟨e', hg', _⟩ | ⟨g', a, hg', hm, hr⟩
    · rw [hg'] at hg; cases hg
    · rw [hg'] at hg; cases hg; exact ⟨a, hm, hr⟩
  · intro a hm
    rcases hc with ⟨e', _, hm'⟩ | ⟨g, a', hg, hm', hr⟩
    · rw [hm'] at hm; cases hm
    · rw [hm'] at hm; cases hm; exact ⟨g, hg, hr⟩

/-- **C10 for the translated insertion phase**: `add` for every pattern followed by the
`nfa.len == 0` test succeeds precisely on the valid collections — non-empty, no empty pattern, no two
equal patterns — for every match kind, wherever the offending entry sits. -/
theorem generated_insertion_ok_iff (nb : Nat → Nat) (kind : Nat) (P : List (LPat V)) (hk : keysOk P)
    (hsz : 2 + (P.map (·.key.length)).sum ≤ 4294967295)
    (hlen : ∀ p ∈ P, (p.key.map nb).sum = p.blen ∧ p.blen ≤ 4294967295) :
    (∃ g, addAllGen nb (NfaBuilder.new kind) P = .ok g ∧ g.len ≠ 0) ↔
      (P ≠ [] ∧ (∀ p ∈ P, p.key ≠ []) ∧ (P.map (·.key)).Nodup) := by
  obtain ⟨_, h2, h3⟩ := generated_insertion_eq_model nb kind P hsz hlen
  rw [← C10.insertion_ok_iff kind P hk]
  unfold buildTrie
  constructor
  · rintro ⟨g, hg, hl⟩
    obtain ⟨a, ha, hr⟩ := h2 g hg
    have hla : a.len = g.len := by obtain ⟨_, _, hl', _⟩ := hr; exact hl'.symm
    rw [ha]
    simp only [hla, hl, if_false]
    exact ⟨_, rfl⟩
  · rintro ⟨t, ht⟩
    cases hm : (NfaAcc.init : NfaAcc V).addAll (kind == 2) P with
    | error e => rw [hm] at ht; cases ht
    | ok a =>
      rw [hm] at ht
      obtain ⟨g, hg, hr⟩ := h3 a hm
      have hla : g.len = a.len := by obtain ⟨_, _, hl', _⟩ := hr; exact hl'
      refine ⟨g, hg, ?_⟩
      rw [hla]
      intro h0
      simp only [h0, if_true] at ht
      cases ht

/-- The translated insertion loop never panics and fails only with the two documented kinds. -/
theorem generated_insertion_err_kind (nb : Nat → Nat) (kind : Nat) (P : List (LPat V))
    (hsz : 2 + (P.map (·.key.length)).sum ≤ 4294967295)
    (hlen : ∀ p ∈ P, (p.key.map nb).sum = p.blen ∧ p.blen ≤ 4294967295) (e : BuildErr)
    (h : addAllGen nb (NfaBuilder.new kind) P = .error e) :
    e = .invalidArgument ∨ e = .duplicatePattern :=
  model_addAll_err _ P _ e (((generated_insertion_eq_model nb kind P hsz hlen).1 e).1 h)

/-- **The sparse NFA of the translated code = the model's**, every collection, every match kind:
after a successful translated insertion fold that registered a pattern, the translated fail pass
selected by the kind (standard for 0, leftmost for 1 / 2, as `build_sparse_nfa` does) and
`build_outputs` succeed, and the resulting states represent `buildNfa t (kind != 0)` for the model
trie `t`: the BFS queue is `t.queue`, each node's `fail` / `output_pos` are the model's, the output
records are the model's. -/
theorem generated_sparse_nfa (nb : Nat → Nat) (kind : Nat) (P : List (LPat V)) (g : NfaBuilder V)
    (hsz : 2 + (P.map (·.key.length)).sum ≤ 4294967295)
    (hlen : ∀ p ∈ P, (p.key.map nb).sum = p.blen ∧ p.blen ≤ 4294967295)
    (hadd : addAllGen nb (NfaBuilder.new kind) P = .ok g) (hl : g.len ≠ 0) :
    ∃ t pth q g1 g2, buildTrie kind P = .ok t ∧ Rep g.states pth t 0 [] ∧
      Tie.F.failPass kind g = .ok (q, g1) ∧ NfaBuilder.build_outputs g1 q = .ok ((), g2) ∧
      Tie.F.SameShape g.states g2.states ∧ q.toList.map pth = t.queue.map some ∧
      (∀ u i, Tie.F.idAt g.states 0 u = some i → ∃ s : NfaBuilderState V, g2.states[i]? = some s ∧
        Tie.F.FailRel g.states ((buildNfa t (kind != 0)).fail.get u) s.fail ∧
        Tie.F.OposRel s.output_pos ((buildNfa t (kind != 0)).out.opos.getD u 0)) ∧
      Tie.F.OutsRel g2.outputs (buildNfa t (kind != 0)).out.outs :=
  Tie.F.sparse_nfa_refines nb kind P g hsz hlen hadd hl

/-- Non-vacuity / the former D2 witness on the translated code: under leftmost-first the repeated,
shadowed pattern of `["a","ab","ab"]` is rejected as a duplicate. -/
example : (match addAllGen (V := Nat) (fun _ => 1) (NfaBuilder.new 2)
    [⟨[97], 0, 1⟩, ⟨[97, 98], 1, 2⟩, ⟨[97, 98], 2, 2⟩] with
    | .error .duplicatePattern => true | _ => false) = true := by decide

end Daac.Props.TieNfa

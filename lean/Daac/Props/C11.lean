/-
Property C11 — builder tuning parameters never change search results.

`num_free_blocks` only influences the *layout* of the double array. The Rung-1 theorems say that
any two tables satisfying the evaluated invariants for the same patterns answer every search on
every haystack like the specification — hence like each other. The check builds every
multi-block pattern set with num_free_blocks ∈ {1,2,3,4,16,64} (so blocks are evicted and closed),
evaluates the invariants (`tableInv`/`leftmostInv`, `sizeInv`, `boundsInv`, `countInv`) on each
resulting table, and compares results and `num_states` across the group directly.
The model-level facts that the state count and the validation outcome do not depend on
`num_free_blocks` are theorems (below).
-/
import Daac.Props.C01
import Daac.Props.C02
import Daac.Props.C03
import Daac.Props.C05
import Daac.Proofs.BuildCor
import Daac.Proofs.Rung2
namespace Daac.Props.C11
open Daac
variable {V : Type} [DecidableEq V]

/-- Two byte-wise tables (e.g. built with different `num_free_blocks`) satisfying the invariants
for the same valid patterns give the same overlapping matches on every haystack. -/
theorem overlapping_same (d1 d2 : DA V) (Ps : List (Pat V)) (hV : ValidPats Ps)
    (h1 : d1.variant = .bytewise) (h2 : d2.variant = .bytewise)
    (hT1 : d1.tableInv (Ps.map lp) = true) (hZ1 : d1.sizeInv (Ps.map lp) = true)
    (hT2 : d2.tableInv (Ps.map lp) = true) (hZ2 : d2.sizeInv (Ps.map lp) = true)
    (h : List Nat) (hb : ∀ b ∈ h, b < 256) :
    ∃ l1 l2 f1 f2, ovAll d1 h = .ok (l1, f1) ∧ ovAll d2 h = .ok (l2, f2) ∧ l1.map (·.1) = l2.map (·.1) := by
  obtain ⟨l1, f1, a1, b1⟩ := C01.overlapping_correct_bytewise d1 Ps hV h1 hT1 hZ1 h hb
  obtain ⟨l2, f2, a2, b2⟩ := C01.overlapping_correct_bytewise d2 Ps hV h2 hT2 hZ2 h hb
  exact ⟨l1, l2, f1, f2, a1, a2, by rw [b1, b2]⟩

theorem find_same (d1 d2 : DA V) (Ps : List (Pat V)) (hV : ValidPats Ps)
    (h1 : d1.variant = .bytewise) (h2 : d2.variant = .bytewise)
    (hT1 : d1.tableInv (Ps.map lp) = true) (hZ1 : d1.sizeInv (Ps.map lp) = true)
    (hT2 : d2.tableInv (Ps.map lp) = true) (hZ2 : d2.sizeInv (Ps.map lp) = true)
    (h : List Nat) (hb : ∀ b ∈ h, b < 256) :
    ∃ l1 l2 f1 f2, findAll d1 h = .ok (l1, f1) ∧ findAll d2 h = .ok (l2, f2) ∧ l1.map (·.1) = l2.map (·.1) := by
  obtain ⟨l1, f1, a1, b1⟩ := C02.find_correct_bytewise d1 Ps hV h1 hT1 hZ1 h hb
  obtain ⟨l2, f2, a2, b2⟩ := C02.find_correct_bytewise d2 Ps hV h2 hT2 hZ2 h hb
  exact ⟨l1, l2, f1, f2, a1, a2, by rw [b1, b2]⟩

theorem nosuffix_same (d1 d2 : DA V) (Ps : List (Pat V)) (hV : ValidPats Ps)
    (h1 : d1.variant = .bytewise) (h2 : d2.variant = .bytewise)
    (hT1 : d1.tableInv (Ps.map lp) = true) (hZ1 : d1.sizeInv (Ps.map lp) = true)
    (hT2 : d2.tableInv (Ps.map lp) = true) (hZ2 : d2.sizeInv (Ps.map lp) = true)
    (h : List Nat) (hb : ∀ b ∈ h, b < 256) :
    ∃ l1 l2 f1 f2, noSufAll d1 h = .ok (l1, f1) ∧ noSufAll d2 h = .ok (l2, f2) ∧ l1.map (·.1) = l2.map (·.1) := by
  obtain ⟨l1, f1, a1, b1⟩ := C05.nosuffix_correct_bytewise d1 Ps hV h1 hT1 hZ1 h hb
  obtain ⟨l2, f2, a2, b2⟩ := C05.nosuffix_correct_bytewise d2 Ps hV h2 hT2 hZ2 h hb
  exact ⟨l1, l2, f1, f2, a1, a2, by rw [b1, b2]⟩

theorem leftmost_same (d1 d2 : DA V) (Ps : List (Pat V)) (hV : ValidPats Ps)
    (h1 : d1.variant = .bytewise) (h2 : d2.variant = .bytewise)
    (hT1 : d1.leftmostInv (Ps.map lpOf) = true) (hT2 : d2.leftmostInv (Ps.map lpOf) = true)
    (h : List Nat) (hb : ∀ b ∈ h, b < 256) :
    ∃ l1 l2, lmAll d1 h = .ok (l1, 0) ∧ lmAll d2 h = .ok (l2, 0) ∧ l1.map (·.1) = l2.map (·.1) := by
  obtain ⟨l1, a1, b1⟩ := C03.leftmost_longest_correct_bytewise d1 Ps hV h1 hT1 h hb
  obtain ⟨l2, a2, b2⟩ := C03.leftmost_longest_correct_bytewise d2 Ps hV h2 hT2 h hb
  exact ⟨l1, l2, a1, a2, by rw [b1, b2]⟩

/-- Item-level version covering the char-wise variant: same items, same labels ⇒ same matches. -/
theorem overlapping_same_items (d1 d2 : DA V) (P : List (LPat V))
    (hP : P ≠ []) (hkeys : (P.map (·.key)).Nodup) (hne : ∀ p ∈ P, p.key ≠ [])
    (hT1 : d1.tableInv P = true) (hZ1 : d1.sizeInv P = true)
    (hT2 : d2.tableInv P = true) (hZ2 : d2.sizeInv P = true)
    (h : List Nat) (items : List Item)
    (hI1 : itemsOfHay d1.variant h = .ok items) (hI2 : itemsOfHay d2.variant h = .ok items)
    (hL1 : ∀ it ∈ items, LabelOk d1 it.label) (hL2 : ∀ it ∈ items, LabelOk d2 it.label) :
    ∃ l1 l2 f1 f2, ovAll d1 h = .ok (l1, f1) ∧ ovAll d2 h = .ok (l2, f2) ∧ l1.map (·.1) = l2.map (·.1) := by
  obtain ⟨l1, f1, a1, b1⟩ := C01.overlapping_correct_items d1 P hP hkeys hne hT1 hZ1 h items hI1 hL1
  obtain ⟨l2, f2, a2, b2⟩ := C01.overlapping_correct_items d2 P hP hkeys hne hT2 hZ2 h items hI2 hL2
  exact ⟨l1, l2, f1, f2, a1, a2, by rw [b1, b2]⟩

/-- In the model, the reported state count does not depend on `num_free_blocks`. -/
theorem num_states_same (variant : Variant) (kind n1 n2 : Nat) (P : List (LPat V)) (h : keysOk P)
    (d1 d2 : DA V) (h1 : buildDA variant ⟨kind, n1⟩ P = .ok d1) (h2 : buildDA variant ⟨kind, n2⟩ P = .ok d2) :
    d1.numStates = d2.numStates := by
  obtain ⟨_, acc1, ha1, _, _, hr1⟩ := buildDA_ok_decomp _ _ _ _ h1
  obtain ⟨_, acc2, ha2, _, _, hr2⟩ := buildDA_ok_decomp _ _ _ _ h2
  simp only at ha1 ha2
  rw [ha1] at ha2
  cases ha2
  rw [(buildRest_ok _ _ _ _ _ _ hr1).2.2.2, (buildRest_ok _ _ _ _ _ _ hr2).2.2.2]


/-! ### Rung 2 — `num_free_blocks` is a pure space/time knob, for every pattern collection

In the model of the builder, for ANY two values of `num_free_blocks` for which construction
succeeds, every search method returns the same matches on every haystack (both equal the
specification, Proofs/Rung2.lean). -/

theorem nfb_irrelevant_overlapping (n1 n2 : Nat) (Ps : List (Pat V)) (hV : ValidPats Ps)
    (hbytes : ∀ p ∈ Ps, ∀ b ∈ p.key, b < 256) (d1 d2 : DA V)
    (h1 : buildDA .bytewise ⟨0, n1⟩ (Ps.map lp) = .ok d1) (h2 : buildDA .bytewise ⟨0, n2⟩ (Ps.map lp) = .ok d2)
    (h : List Nat) (hh : ∀ b ∈ h, b < 256) :
    ∃ l1 l2 f1 f2, ovAll d1 h = .ok (l1, f1) ∧ ovAll d2 h = .ok (l2, f2) ∧ l1.map (·.1) = l2.map (·.1) := by
  obtain ⟨l1, f1, a1, b1⟩ := bytewise_overlapping_correct n1 Ps hV hbytes d1 h1 h hh
  obtain ⟨l2, f2, a2, b2⟩ := bytewise_overlapping_correct n2 Ps hV hbytes d2 h2 h hh
  exact ⟨l1, l2, f1, f2, a1, a2, by rw [b1, b2]⟩

theorem nfb_irrelevant_find (n1 n2 : Nat) (Ps : List (Pat V)) (hV : ValidPats Ps)
    (hbytes : ∀ p ∈ Ps, ∀ b ∈ p.key, b < 256) (d1 d2 : DA V)
    (h1 : buildDA .bytewise ⟨0, n1⟩ (Ps.map lp) = .ok d1) (h2 : buildDA .bytewise ⟨0, n2⟩ (Ps.map lp) = .ok d2)
    (h : List Nat) (hh : ∀ b ∈ h, b < 256) :
    ∃ l1 l2 f1 f2, findAll d1 h = .ok (l1, f1) ∧ findAll d2 h = .ok (l2, f2) ∧ l1.map (·.1) = l2.map (·.1) := by
  obtain ⟨l1, f1, a1, b1⟩ := bytewise_find_correct n1 Ps hV hbytes d1 h1 h hh
  obtain ⟨l2, f2, a2, b2⟩ := bytewise_find_correct n2 Ps hV hbytes d2 h2 h hh
  exact ⟨l1, l2, f1, f2, a1, a2, by rw [b1, b2]⟩

theorem nfb_irrelevant_nosuffix (n1 n2 : Nat) (Ps : List (Pat V)) (hV : ValidPats Ps)
    (hbytes : ∀ p ∈ Ps, ∀ b ∈ p.key, b < 256) (d1 d2 : DA V)
    (h1 : buildDA .bytewise ⟨0, n1⟩ (Ps.map lp) = .ok d1) (h2 : buildDA .bytewise ⟨0, n2⟩ (Ps.map lp) = .ok d2)
    (h : List Nat) (hh : ∀ b ∈ h, b < 256) :
    ∃ l1 l2 f1 f2, noSufAll d1 h = .ok (l1, f1) ∧ noSufAll d2 h = .ok (l2, f2) ∧ l1.map (·.1) = l2.map (·.1) := by
  obtain ⟨l1, f1, a1, b1⟩ := bytewise_nosuffix_correct n1 Ps hV hbytes d1 h1 h hh
  obtain ⟨l2, f2, a2, b2⟩ := bytewise_nosuffix_correct n2 Ps hV hbytes d2 h2 h hh
  exact ⟨l1, l2, f1, f2, a1, a2, by rw [b1, b2]⟩

theorem nfb_irrelevant_leftmost (kind : Nat) (hk : kind = 1 ∨ kind = 2) (n1 n2 : Nat) (Ps : List (Pat V))
    (hV : ValidPats Ps) (hbytes : ∀ p ∈ Ps, ∀ b ∈ p.key, b < 256) (d1 d2 : DA V)
    (h1 : buildDA .bytewise ⟨kind, n1⟩ (Ps.map lpOf) = .ok d1) (h2 : buildDA .bytewise ⟨kind, n2⟩ (Ps.map lpOf) = .ok d2)
    (h : List Nat) (hh : ∀ b ∈ h, b < 256) :
    ∃ l1 l2, lmAll d1 h = .ok (l1, 0) ∧ lmAll d2 h = .ok (l2, 0) ∧ l1.map (·.1) = l2.map (·.1) := by
  rcases hk with rfl | rfl
  · obtain ⟨l1, a1, b1⟩ := bytewise_leftmost_longest_correct n1 Ps hV hbytes d1 h1 h hh
    obtain ⟨l2, a2, b2⟩ := bytewise_leftmost_longest_correct n2 Ps hV hbytes d2 h2 h hh
    exact ⟨l1, l2, a1, a2, by rw [b1, b2]⟩
  · obtain ⟨l1, a1, b1⟩ := bytewise_leftmost_first_correct n1 Ps hV hbytes d1 h1 h hh
    obtain ⟨l2, a2, b2⟩ := bytewise_leftmost_first_correct n2 Ps hV hbytes d2 h2 h hh
    exact ⟨l1, l2, a1, a2, by rw [b1, b2]⟩

theorem nfb_irrelevant_overlapping_charwise (n1 n2 : Nat) (Q : List (List Nat × V)) (hQ : ScalarPats Q)
    (hQ0 : Q ≠ []) (hnd : (Q.map (·.1)).Nodup) (d1 d2 : DA V)
    (h1 : buildDA .charwise ⟨0, n1⟩ (Q.map charPat) = .ok d1) (h2 : buildDA .charwise ⟨0, n2⟩ (Q.map charPat) = .ok d2)
    (t : List Nat) (ht : Scalars t) :
    ∃ l1 l2 f1 f2, ovAll d1 (encAll t) = .ok (l1, f1) ∧ ovAll d2 (encAll t) = .ok (l2, f2) ∧
      l1.map (·.1) = l2.map (·.1) := by
  obtain ⟨l1, f1, a1, b1⟩ := charwise_overlapping_correct n1 Q hQ hQ0 hnd d1 h1 t ht
  obtain ⟨l2, f2, a2, b2⟩ := charwise_overlapping_correct n2 Q hQ hQ0 hnd d2 h2 t ht
  exact ⟨l1, l2, f1, f2, a1, a2, by rw [b1, b2]⟩

end Daac.Props.C11

/-
Property C07 — searching never performs undefined behaviour despite unchecked indexing.

In the model every `get_unchecked`, `unwrap_unchecked`, `char::from_u32_unchecked` and
`str::get_unchecked(pos..)` of the implementation is a *checked* access that returns a `Fault`
when the precondition of the unchecked operation would be violated (the list of unchecked sites
in the source is compared with the recorded list on every run: scan `unsafe`). The theorems say
the faults cannot occur. `boundsInv` is evaluated over ALL elements of every dumped table
(vacant ones included), so the closure argument covers every in-range state and every label.

Residue (not expressible in the model): the behaviour of the compiled code on real memory —
covered only by running every generated case with std's unsafe-precondition checks armed
(`-C debug-assertions=on`; an abort is reported with the failing input).
-/
import Daac.Proofs.NoFault
import Daac.Proofs.Utf8
import Daac.Proofs.Bounds2
import Daac.Proofs.SerialRT
namespace Daac.Props.C07
open Daac
variable {V : Type}

/-- **No out-of-bounds table access, any search method, any haystack**: on tables satisfying
`boundsInv`, an error of a search can never be `oobStates` or `oobOutputs` (for the byte-wise
variant the haystack elements are bytes, `HayOk`; for the char-wise one this is unconditional). -/
theorem overlapping_no_oob (da : DA V) (hB : da.boundsInv = true) (h : List Nat) (hb : HayOk da h) :
    ∀ e, ovAll da h = .error e → NoOob e := ovAll_no_oob da hB h hb
theorem find_no_oob (da : DA V) (hB : da.boundsInv = true) (h : List Nat) (hb : HayOk da h) :
    ∀ e, findAll da h = .error e → NoOob e := findAll_no_oob da hB h hb
theorem nosuffix_no_oob (da : DA V) (hB : da.boundsInv = true) (h : List Nat) (hb : HayOk da h) :
    ∀ e, noSufAll da h = .error e → NoOob e := noSufAll_no_oob da hB h hb
theorem leftmost_no_oob (da : DA V) (hB : da.boundsInv = true) (h : List Nat) (hb : HayOk da h) :
    ∀ e, lmAll da h = .error e → NoOob e := lmAll_no_oob da hB h hb

/-- The XOR addressing stays inside the table: from an in-range state and a label code below
the block length, the child index is in range. -/
theorem child_in_range (da : DA V) (hB : da.boundsInv = true) (s c : Nat)
    (hs : s < da.states.size) (hc : CodeOk da c) :
    ∃ r, da.child s c = .ok r ∧ ∀ t, r = some t → t < da.states.size :=
  child_no_oob da (bounds_of_boundsInv da hB) hs hc

/-- The transition functions map in-range states to in-range states and can only fail by
running out of the model's fuel (termination: Props/C13). -/
theorem next_in_range (da : DA V) (hB : da.boundsInv = true) (s label : Nat)
    (hs : s < da.states.size) (hl : LabelCodeOk da label) :
    (∀ t, da.next s label = .ok t → t < da.states.size) ∧
      (∀ e, da.next s label = .error e → e = .fuel) :=
  next_no_oob da (bounds_of_boundsInv da hB) hs hl
theorem nextLm_in_range (da : DA V) (hB : da.boundsInv = true) (s label : Nat)
    (hs : s < da.states.size) (hl : LabelCodeOk da label) :
    (∀ t, da.nextLm s label = .ok t → t < da.states.size) ∧
      (∀ e, da.nextLm s label = .error e → e = .fuel) :=
  nextLm_no_oob da (bounds_of_boundsInv da hB) hs hl

/-- Every mapped character code is below the block length (char-wise), so `LabelCodeOk` holds
for every code point; unmapped characters never touch the tables. -/
theorem charwise_labels_ok (da : DA V) (hB : da.boundsInv = true) (hv : da.variant = .charwise)
    (label : Nat) : LabelCodeOk da label :=
  labelCodeOk_charwise da (bounds_of_boundsInv da hB) hv label

/-- **The hand-written UTF-8 decoder on valid UTF-8**: never reads past the end
(`unwrap_unchecked`), never manufactures an invalid `char` (`from_u32_unchecked`), and yields
exactly the characters of the text with their byte end offsets. -/
theorem decode_valid_no_fault (bs : List Nat) (hv : ValidUtf8 bs) :
    ∃ items, allItems .charwise (bs.length + 1) ⟨bs, 0⟩ = .ok items ∧
      (∀ it ∈ items, isScalar it.label = true ∧ it.width = utf8Width it.label ∧
        it.width ≤ it.stop ∧ it.stop ≤ bs.length) ∧
      (∀ it, items.getLast? = some it → it.stop = bs.length) ∧
      items.Pairwise (fun a b => a.stop < b.stop) ∧ encAll (items.map (·.label)) = bs :=
  Daac.decode_valid_no_fault bs hv

/-- One decoding step inverts the reference encoder, for every scalar value. -/
theorem decode_encode (c : Nat) (hc : isScalar c = true) (r : List Nat) (p : Nat) :
    decodeNext ⟨encScalar c ++ r, p⟩ = .ok (some (⟨c, p + utf8Width c⟩, ⟨r, p + utf8Width c⟩)) :=
  decodeNext_encScalar c hc r p

/-- **`get_unchecked(self.pos..)` of the char-wise leftmost iterator is safe** at every offset
the iterator can hold (0 or the end of a decoded character): the offset is a character boundary
and the remaining text decodes. -/
theorem leftmost_slice_ok (cs : List Nat) (h : ∀ c ∈ cs, isScalar c = true) (it : WItem)
    (hit : it ∈ itemsOf cs 0) :
    isBoundary (encAll cs) it.stop = true ∧
      ∃ t2, itemsOf t2 it.stop <:+ itemsOf cs 0 ∧
        lmItems .charwise (encAll cs) it.stop = .ok (itemsOf t2 it.stop) :=
  lmItems_at_stop cs h it hit

/-- The constants of the decoder as the source has them now (generated): thresholds 0x80, 0xE0,
0xF0, continuation mask 0x3F, lead masks and shifts. A change breaks this obligation. -/
theorem decoder_constants :
    Gen.utf8Thresholds = [0x80, 0xe0, 0xf0] ∧ Gen.utf8ContMask = 0x3f ∧
      Gen.utf8LeadMasks = [0x1f, 0x0f, 0x07] ∧ Gen.utf8Shifts = [6, 12, 18] := by decide

/-- Block length of the byte-wise automaton as the source has it now: 256 = 2^8 ≥ every byte. -/
theorem block_len_constant : Gen.blockLen = 2 ^ 8 := by decide


/-! ### Rung 2 — every automaton the model builder returns is memory-safe to search -/

/-- For EVERY collection, kind, variant and `num_free_blocks`: a successful model build satisfies
`boundsInv` (every index stored anywhere in the tables is in range, block structure intact). -/
theorem build_bounds (variant : Variant) (cfg : Cfg) (P : List (LPat V)) (da : DA V)
    (hb : buildDA variant cfg P = .ok da) (hk : keysOk P)
    (hbytes : variant = .bytewise → ∀ p ∈ P, ∀ c ∈ p.key, c < 256) : da.boundsInv = true :=
  boundsInv_of_build variant cfg P da hb hk hbytes

/-- … hence no search on it can fault with an out-of-range table access, on any haystack. -/
theorem build_no_oob (variant : Variant) (cfg : Cfg) (P : List (LPat V)) (da : DA V)
    (hb : buildDA variant cfg P = .ok da) (hk : keysOk P)
    (hbytes : variant = .bytewise → ∀ p ∈ P, ∀ c ∈ p.key, c < 256) (h : List Nat) (hh : HayOk da h) :
    (∀ e, ovAll da h = .error e → NoOob e) ∧ (∀ e, findAll da h = .error e → NoOob e) ∧
    (∀ e, noSufAll da h = .error e → NoOob e) ∧ (∀ e, lmAll da h = .error e → NoOob e) := by
  have hB := boundsInv_of_build variant cfg P da hb hk hbytes
  exact ⟨ovAll_no_oob da hB h hh, findAll_no_oob da hB h hh, noSufAll_no_oob da hB h hh,
    lmAll_no_oob da hB h hh⟩

/-- With Props/C09 (`roundtrip`): an automaton restored from the bytes a built automaton
serialises to is *equal* to it, so it inherits `boundsInv` and the theorems above. -/
theorem restored_bounds (S : Ser V) (D : V → Prop) (hS : S.LawfulOn D) (da : DA V) (hwf : da.WF S D)
    (hB : da.boundsInv = true) (rest : List Nat) :
    ∃ da', deserialize S da.variant (serialize S da ++ rest) = some (da', rest) ∧ da'.boundsInv = true :=
  ⟨da, deserialize_serialize S D hS da hwf rest, hB⟩

end Daac.Props.C07

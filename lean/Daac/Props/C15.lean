/-
Property C15 — reported automaton statistics are truthful.
Model: `buildDA` (tie K-build: `num_states` equal on every case) + the evaluated `countInv`
(the real tables contain that many distinct reachable states) + direct checks of
`num_elements()` / `heap_bytes()` against the dumped tables in the driver.
-/
import Daac.Proofs.BuildCor
namespace Daac.Props.C15
open Daac
variable {V : Type}

/-- The reported state count is one (the root) plus the number of distinct non-empty prefixes
of the patterns that can ever be reported (all patterns, except those shadowed under
leftmost-first semantics), for every collection, kind, variant and `num_free_blocks`.
`L` is any duplicate-free enumeration of those prefixes. -/
theorem num_states (variant : Variant) (cfg : Cfg) (P : List (LPat V)) (h : keysOk P) (da : DA V)
    (hb : buildDA variant cfg P = .ok da) (L : List (List Nat)) (hL : L.Nodup)
    (hmem : ∀ u, u ∈ L ↔ ∃ k ∈ retainedKeys (cfg.kind == 2) (P.map (·.key)), u ∈ nprefixes k) :
    da.numStates = 1 + L.length :=
  buildDA_numStates variant cfg P h da hb L hL hmem

/-- Which keys are reportable: all of them, or under leftmost-first those without an
earlier-registered proper prefix. -/
theorem reportable_keys (ks : List (List Nat)) (k : List Nat) :
    k ∈ retKeys ks ↔ ∃ i, ∃ h : i < ks.length, ks[i] = k ∧ ∀ q ∈ ks.take i, ¬ (q <+: k ∧ q ≠ k) :=
  mem_retKeys ks k

/-- Every node of the trie is reachable from the root along its own path (so every counted
state exists), and the trie has exactly one node per distinct prefix. -/
theorem nodes_are_prefixes (kind : Nat) (P : List (LPat V)) (h : keysOk P) (t : Trie V)
    (ht : buildTrie kind P = .ok t) :
    t.size = (t.paths []).length ∧ (t.paths []).Nodup ∧
      ∀ u, u ∈ t.paths [] ↔ (u = [] ∨ ∃ k ∈ retainedKeys (kind == 2) (P.map (·.key)), u ∈ nprefixes k) :=
  buildTrie_paths kind P h t ht

end Daac.Props.C15

/-
Property C15 — reported automaton statistics are truthful.
Model: `buildDA` (tie K-build: `num_states` equal on every case) + the evaluated `countInv`
(the real tables contain that many distinct reachable states) + direct checks of
`num_elements()` / `heap_bytes()` against the dumped tables in the driver.
-/
import Daac.Proofs.BuildCor
import Daac.Proofs.Stats2
import Daac.Model.Stats
namespace Daac.Props.C15
open Daac
variable {V : Type}

/-- The reported state count is one (the root) plus the number of distinct non-empty prefixes
of the patterns that can ever be reported (all patterns, except those shadowed under
leftmost-first semantics), for every collection, kind, variant and `num_free_blocks`.
`L` is any duplicate-free enumeration of those prefixes. -/
theorem num_states (variant : Variant) (cfg : Cfg) (P : List (LPat V)) (h : keysOk P) (da : DA V)
    (hb : buildDA variant cfg P = .ok da) (L : List (List Nat)) (hL : L.Nodup)
    (hmem : ∀ u, u ∈ L ↔ ∃ k ∈ retainedKeys (cfg.kind == 2) (P.map (·.key)), u ∈ nprefixes k) :
    da.numStates = 1 + L.length :=
  buildDA_numStates variant cfg P h da hb L hL hmem

/-- Which keys are reportable: all of them, or under leftmost-first those without an
earlier-registered proper prefix. -/
theorem reportable_keys (ks : List (List Nat)) (k : List Nat) :
    k ∈ retKeys ks ↔ ∃ i, ∃ h : i < ks.length, ks[i] = k ∧ ∀ q ∈ ks.take i, ¬ (q <+: k ∧ q ≠ k) :=
  mem_retKeys ks k

/-- Every node of the trie is reachable from the root along its own path (so every counted
state exists), and the trie has exactly one node per distinct prefix. -/
theorem nodes_are_prefixes (kind : Nat) (P : List (LPat V)) (h : keysOk P) (t : Trie V)
    (ht : buildTrie kind P = .ok t) :
    t.size = (t.paths []).length ∧ (t.paths []).Nodup ∧
      ∀ u, u ∈ t.paths [] ↔ (u = [] ∨ ∃ k ∈ retainedKeys (kind == 2) (P.map (·.key)), u ∈ nprefixes k) :=
  buildTrie_paths kind P h t ht


/-! ### Rung 2 — the tables of every successfully built automaton (model of the builder) -/

/-- Every one of the reported states is actually reachable from the root: there are exactly
`numStates` distinct trie nodes, each reached by following the child lookups of the TABLES along
its own path, at pairwise distinct in-range indices. All kinds, both variants, every
`num_free_blocks`. -/
theorem all_states_reachable (variant : Variant) (nfb kind : Nat) (P : List (LPat V)) (da : DA V)
    (hb : buildDA variant ⟨kind, nfb⟩ P = .ok da) (hk : keysOk P)
    (hlabels : variant = .bytewise → ∀ p ∈ P, ∀ c ∈ p.key, c < 256) :
    ∃ (nodes : List (List Nat)) (idx : List Nat → Nat),
      nodes.Nodup ∧ nodes.length = da.numStates ∧
      (∀ u ∈ nodes, da.walk u = some (idx u) ∧ idx u < da.states.size) ∧
      (∀ u ∈ nodes, ∀ w ∈ nodes, idx u = idx w → u = w) :=
  states_reachable variant nfb kind P da hb hk hlabels

/-- The reported element count is never smaller than the state count (so `heap_bytes`, which is
`size_of::<State>() * num_elements + …`, is at least 12 resp. 16 bytes per state). -/
theorem num_elements_ge (variant : Variant) (nfb kind : Nat) (P : List (LPat V)) (da : DA V)
    (hb : buildDA variant ⟨kind, nfb⟩ P = .ok da) (hk : keysOk P)
    (hlabels : variant = .bytewise → ∀ p ∈ P, ∀ c ∈ p.key, c < 256) :
    da.numStates ≤ da.states.size :=
  num_elements_ge_num_states variant nfb kind P da hb hk hlabels

/-- The reported heap size is at least `size_of::<State>()` bytes per reported state — the
documented 12 bytes per state for the byte-wise automaton — whatever the outputs and the mapper
add. All kinds, both variants, every `num_free_blocks`. -/
theorem heap_bytes_ge (variant : Variant) (nfb kind : Nat) (P : List (LPat V)) (da : DA V)
    (hb : buildDA variant ⟨kind, nfb⟩ P = .ok da) (hk : keysOk P)
    (hlabels : variant = .bytewise → ∀ p ∈ P, ∀ c ∈ p.key, c < 256) (szSt szOut : Nat) :
    da.numStates * szSt ≤ da.heapBytes szSt szOut ∧ da.numStates ≤ da.numElements := by
  have h := num_elements_ge_num_states variant nfb kind P da hb hk hlabels
  refine ⟨?_, h⟩
  have := Nat.mul_le_mul_right szSt h
  unfold DA.heapBytes
  split <;> omega

end Daac.Props.C15

/-
Property C12 — byte-iterator searches equal slice searches and read their source lazily, once.

Model: the iterators consume a byte source `Src` with a counter of the bytes pulled so far; the
slice adapters (`U8SliceIterator`, `StrIterator`) are the same source built from the slice, so
"equal results" holds by construction of the model and is tied to the implementation by K-search
on both entry points. Laziness is proved for arbitrary tables (no invariant needed) and tied by
comparing, after EVERY `next()`, the number of bytes the real counting source has yielded with
the model's `pulled`.
-/
import Daac.Proofs.IterFacts
namespace Daac.Props.C12
open Daac
variable {V : Type}

/-- `find_iter_from_iter`: at the moment a match ending at offset `e` is returned exactly `e`
bytes have been pulled; when the iterator is exhausted all `h.length` bytes have been pulled;
the pulled counts strictly increase (each byte is pulled once, left to right). -/
theorem find_lazy (da : DA V) (h : List Nat) (l : List (Match V × Nat)) (fin : Nat) :
    findAll da h = .ok (l, fin) →
      Lazy l ∧ fin = h.length ∧ (l.map (·.2)).Pairwise (· < ·) := findAll_lazy

/-- `find_overlapping_no_suffix_iter_from_iter`. -/
theorem nosuffix_lazy (da : DA V) (h : List Nat) (l : List (Match V × Nat)) (fin : Nat) :
    noSufAll da h = .ok (l, fin) →
      Lazy l ∧ fin = h.length ∧ (l.map (·.2)).Pairwise (· < ·) := noSufAll_lazy

/-- `find_overlapping_iter_from_iter`: matches drained from a pending output chain pull nothing
(the counts are non-decreasing), and every returned match ends exactly at the pulled count. -/
theorem overlapping_lazy (da : DA V) (h : List Nat) (l : List (Match V × Nat)) (fin : Nat) :
    ovAll da h = .ok (l, fin) →
      Lazy l ∧ fin = h.length ∧ (l.map (·.2)).Pairwise (· ≤ ·) := ovAll_lazy

/-- One `next()` of the haystack iterator consumes a non-empty prefix of the remaining source,
in order, and the item's end offset is the number of bytes pulled so far. -/
theorem source_single_pass (v : Variant) (s s' : Src) (item : Item) :
    nextItem v s = .ok (some (item, s')) →
      item.stop = s'.pulled ∧ s.pulled < s'.pulled ∧ s'.rest.length < s.rest.length ∧
      s'.pulled + s'.rest.length = s.pulled + s.rest.length ∧
      (∃ k, s'.rest = s.rest.drop k ∧ s'.pulled = s.pulled + k) := nextItem_spec

/-- The single-step (history) form for the overlapping iterator, for every reachable state. -/
theorem overlapping_step (da : DA V) (it it' : OvIt) (r : Option (Match V)) :
    OvIt.next da it = .ok ⟨r, it'⟩ → it.Inv →
      it'.Inv ∧ (∀ m, r = some m → m.stop = it'.src.pulled) ∧ it.src.pulled ≤ it'.src.pulled :=
  OvIt.next_spec

end Daac.Props.C12

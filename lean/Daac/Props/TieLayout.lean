/-
Translation tie, byte-wise layout loop — what Proofs/TieD buys.

`Daac/Gen/BuildB.lean` is `DoubleArrayAhoCorasickBuilder::build_double_array` of /repo's
src/bytewise/builder.rs as translated by tools/dbl2lean.py on every run: `init_array`, the DFS over
the sparse NFA with its explicit stack of state ids and `state_id_map`, `find_base` / `extend_array` /
`use_index` / `set_check` / `set_base` / `use_base` per state, the pass that writes `fail` and
`output_pos`, and the final `remove_invalid_checks` over the active blocks. It calls the already
translated `BuildHelper` and layout primitives (Gen/Helper.lean, Gen/LayoutB.lean). Proofs/TieD
proves, by a simulation between the id-keyed loop state (stack of ids, id → index map) and the
model's path-keyed one (stack of paths, path → index map), that the table it computes is the model's
`buildLayout .bytewise` — on which every Rung-2 theorem about layouts (BASE uniqueness, CHECK
sanitising, bounds, state count) is stated. So those theorems hold of the table computed by the
TRANSLATED loop, for every NFA it is given that represents a model NFA.

Outside: the char-wise `build_double_array` (same shape; tied separately: Props/TieLayoutC), the prelude
Daac/Gen/PreludeDbl.lean (the four `State` setters as field writes — justified by Props/TieAcc),
four `debug_assert_ne!` statements that the translator drops (listed in the generated header).
-/
import Daac.Proofs.TieD
namespace Daac.Props.TieLayout
open Daac Daac.Gen Daac.Tie.H Daac.Tie.D
variable {V : Type}

/-- **The translated byte-wise `build_double_array` computes the model's table** (up to panic texts:
both fail with the same error kind or both return the same `states` array), for every trie with
byte labels, every `num_free_blocks ≥ 1`, every sparse NFA `g` representing a model NFA whose fail
targets are trie nodes. -/
theorem generated_build_double_array (cfg : Cfg) (mapper : Mapper) (t : Trie V) (nfa : Nfa V)
    (g : N.NfaBuilder V) (ido : List Nat → Nat) (R : NfaRep g t nfa ido) (hfn : FailNodes t nfa)
    (hsort : t.Sorted) (hbytes : ∀ u, t.hasNode u = true → ∀ c ∈ u, c < 256) (hnfb : 1 ≤ cfg.nfb)
    (b : LB.Builder) (hb : b.states = #[]) (hn : b.num_free_blocks = cfg.nfb) :
    norm ((DB.Builder.build_double_array b g).map (·.2.states))
      = norm (buildLayout .bytewise cfg mapper t nfa) :=
  build_double_array_refines cfg mapper t nfa g ido R hfn hsort hbytes hnfb b hb hn

/-- The final sanitising loop of the translated code = the model's `sanitiseBlocks` over the active
blocks (the eviction-time and end-of-build CHECK sanitising that C01 / C11 depend on). -/
theorem generated_final_sanitising (g : H.BuildHelper) (hw : Wf g) (b : LB.Builder) :
    norm ((DB.Builder.build_double_array.loop3 g
        (Rs.rangeList (H.BuildHelper.active_block_range g).1 (H.BuildHelper.active_block_range g).2) b).map (·.states))
      = norm (sanitiseBlocks (repr g) ((repr g).numBlocks - (repr g).activeStart) (repr g).activeStart b.states) :=
  final_loop_eq g hw b

end Daac.Props.TieLayout

/-
Translation tie, accessors — what Proofs/TieA buys.

The translation units for the search side and the layout primitives (tools/rs2lean.py) read the
Rust `State` / `Output` through the model records `St` / `Out`: `state.check()` is `s.check`,
`state.output_pos()` is `nonZero s.opos`, `set_check(c)` writes `s.check`. `Daac/Gen/Access.lean` is
the CURRENT source text of those accessors (and of the `U24nU8` packing of src/intpack.rs behind the
byte-wise ones) translated by tools/acc2lean.py on every run; Proofs/TieA proves that, on the Rust
representation of a model state (`toStB` / `toStC` / `toOut`), every translated accessor returns the
model's field and every translated setter writes exactly that field — never panicking
(`u8::try_from(..).unwrap()` in `b()`) and with `set_output_pos` failing with the documented error
kind exactly above 2^24 − 1. So the reading of the accessors is no longer part of the trusted base.
-/
import Daac.Proofs.TieA
namespace Daac.Props.TieAcc
open Daac Daac.Gen Daac.Tie.S Daac.Tie.A
variable {V : Type}

/-- Byte-wise `State`: every translated read accessor = the model's field (for `check < 256`). -/
theorem generated_reads_bytewise (s : St) (hc : s.check < 256) :
    A.B.State.base (toStB s) = optNZ s.base ∧ A.B.State.check (toStB s) = some s.check ∧
    A.B.State.fail (toStB s) = s.fail ∧ A.B.State.output_pos (toStB s) = optNZ s.opos :=
  ⟨B_base s, B_check s hc, B_fail s, B_output_pos s hc⟩

/-- Byte-wise `State`: every translated setter writes exactly its field and never panics;
`set_output_pos` returns the scale error exactly when the position does not fit 24 bits. -/
theorem generated_writes_bytewise (s : St) (x : Nat) (o : Option Nat) (hc : s.check < 256) :
    (x ≠ 0 → A.B.State.set_base (toStB s) x = toStB { s with base := x }) ∧
    A.B.State.set_fail (toStB s) x = toStB { s with fail := x } ∧
    A.B.State.set_check (toStB s) x = toStB { s with check := x } ∧
    A.B.State.set_output_pos (toStB s) o =
      some (if Rs.map_or_0_get o ≤ Gen.u24Max
            then .ok (toStB { s with opos := Rs.map_or_0_get o })
            else .error .automatonScale) :=
  ⟨B_set_base s x, B_set_fail s x, B_set_check s x hc, B_set_output_pos s o hc⟩

/-- Char-wise `State` and `Output`: plain fields. -/
theorem generated_reads_charwise (s : St) (o : Out V) :
    A.C.State.base (toStC s) = optNZ s.base ∧ A.C.State.check (toStC s) = s.check ∧
    A.C.State.fail (toStC s) = s.fail ∧ A.C.State.output_pos (toStC s) = optNZ s.opos ∧
    A.Output.value (toOut o) = o.value ∧ A.Output.length (toOut o) = o.length ∧
    A.Output.parent (toOut o) = optNZ o.parent :=
  ⟨rfl, rfl, rfl, rfl, rfl, rfl, rfl⟩

/-- The accessor meanings assumed by the search-side prelude (Gen/Prelude.lean) are what the
translated accessors compute. -/
theorem prelude_discharged (s : St) (o : Out V) (hc : s.check < 256) :
    Rs.St.base s = A.B.State.base (toStB s) ∧ Rs.St.outputPos s = A.B.State.output_pos (toStB s) ∧
    Rs.St.base s = A.C.State.base (toStC s) ∧ Rs.St.outputPos s = A.C.State.output_pos (toStC s) ∧
    Rs.Out.parent o = A.Output.parent (toOut o) :=
  ⟨prelude_base s, prelude_output_pos s hc, rfl, rfl, prelude_parent o⟩

/-- The translated `U24nU8` = the model's (shift and mask from the constants translator). -/
theorem generated_packing (x y : Nat) :
    A.U24nU8.a x = Daac.U24nU8.a x ∧ A.U24nU8.b x = some (Daac.U24nU8.b x) ∧
    A.U24nU8.set_a x y = some (Daac.U24nU8.setA x y) ∧ A.U24nU8.set_b x y = Daac.U24nU8.setB x y :=
  ⟨a_eq x, b_eq x, set_a_eq x y, set_b_eq x y⟩

/-- Non-vacuity of `check < 256`: a state with the largest packed fields. -/
example : (⟨7, 255, 3, 16777215⟩ : St).check < 256 := by decide

end Daac.Props.TieAcc

/-
Translation tie — the property theorems restated for the definitions GENERATED from /repo's Rust
source (tools/rs2lean.py → Daac/Gen/SearchB.lean, SearchC.lean).

`Tie.B.ovAll da h` etc. run the *translated* entry point (`none` = its documented panic on a
match-kind mismatch) and then the *translated* `next()` until `None`. Proofs/TieB, TieC, TieAll
show these equal the hand-written model's searches; composed with Rung 2 (Props/C01–C05):
for EVERY valid pattern collection and every `num_free_blocks`, the translated Rust search code,
run on the table the model builder produces, returns exactly the specification on every haystack.
What remains outside: the builder is the model's (tied to the code by K-build), the prelude
(Daac/Gen/Prelude.lean) fixes the meaning of the std items, the translator itself is trusted.
-/
import Daac.Proofs.TieAll
import Daac.Props.C01
import Daac.Props.C02
import Daac.Props.C03
import Daac.Props.C04
import Daac.Props.C05
import Daac.Props.C12
namespace Daac.Props.Tie
open Daac Daac.Tie
variable {V : Type} [DecidableEq V]

/-! ### Generated code = model (all tables, all haystacks) -/

theorem bytewise_generated_eq_model (da : DA V) (hv : da.variant = .bytewise) (h : List Nat) :
    B.ovAll da h = (if da.kind = 0 then some (Daac.ovAll da h) else none) ∧
    B.findAll da h = (if da.kind = 0 then some (Daac.findAll da h) else none) ∧
    B.noSufAll da h = (if da.kind = 0 then some (Daac.noSufAll da h) else none) ∧
    B.lmAll da h = (if da.kind = 1 ∨ da.kind = 2 then some (Daac.lmAll da h) else none) :=
  ⟨B.ovAll_eq da hv h, B.findAll_eq da hv h, B.noSufAll_eq da hv h, B.lmAll_eq da hv h⟩

theorem charwise_generated_eq_model (da : DA V) (hv : da.variant = .charwise) (h : List Nat) :
    C.ovAll da h = (if da.kind = 0 then some (Daac.ovAll da h) else none) ∧
    C.findAll da h = (if da.kind = 0 then some (Daac.findAll da h) else none) ∧
    C.noSufAll da h = (if da.kind = 0 then some (Daac.noSufAll da h) else none) :=
  ⟨C.ovAll_eq da hv h, C.findAll_eq da hv h, C.noSufAll_eq da hv h⟩

theorem charwise_generated_lm_eq_model (da : DA V) (hv : da.variant = .charwise) (t : List Nat)
    (ht : ∀ c ∈ t, isScalar c = true) :
    C.lmAll da (encAll t) =
      (if da.kind = 1 ∨ da.kind = 2 then some (Daac.lmAll da (encAll t)) else none) :=
  C.lmAll_eq da hv t ht

/-- C12, first half, for the translated code: the `_from_iter` entry points behave exactly like
the slice entry points (same matches, same pulled counts, same panics), for arbitrary tables. -/
theorem from_iter_eq_slice_bytewise (da : DA V) (hv : da.variant = .bytewise) (h : List Nat) :
    B.findAllFromIter da h = B.findAll da h ∧ B.ovAllFromIter da h = B.ovAll da h ∧
    B.noSufAllFromIter da h = B.noSufAll da h := by
  rw [B.findAllFromIter_eq da hv, B.findAll_eq da hv, B.ovAllFromIter_eq da hv, B.ovAll_eq da hv,
    B.noSufAllFromIter_eq da hv, B.noSufAll_eq da hv]
  exact ⟨rfl, rfl, rfl⟩

theorem from_iter_eq_slice_charwise (da : DA V) (hv : da.variant = .charwise) (h : List Nat) :
    C.findAllFromIter da h = C.findAll da h ∧ C.ovAllFromIter da h = C.ovAll da h ∧
    C.noSufAllFromIter da h = C.noSufAll da h := by
  rw [C.findAllFromIter_eq da hv, C.findAll_eq da hv, C.ovAllFromIter_eq da hv, C.ovAll_eq da hv,
    C.noSufAllFromIter_eq da hv, C.noSufAll_eq da hv]
  exact ⟨rfl, rfl, rfl⟩

/-- Calling an entry point of another match kind panics (`none`) — it never starts a search. -/
theorem kind_mismatch_panics_bytewise (da : DA V) (hv : da.variant = .bytewise) (h : List Nat) :
    (da.kind ≠ 0 → B.ovAll da h = none ∧ B.findAll da h = none ∧ B.noSufAll da h = none) ∧
    (da.kind = 0 → B.lmAll da h = none) := by
  constructor
  · intro hk
    rw [B.ovAll_eq da hv, B.findAll_eq da hv, B.noSufAll_eq da hv]
    simp [hk]
  · intro hk
    rw [B.lmAll_eq da hv]
    simp [hk]

/-- `Match::start()`, `end()`, `value()` as translated from src/lib.rs are the three components of
the model's match (`start = end - length`). -/
theorem match_accessors (m : Gen.Rs.Match V) :
    Gen.B.Match.start m = (Gen.Rs.Match.toModel m).start ∧
    Gen.B.Match.end_ m = (Gen.Rs.Match.toModel m).stop ∧
    Gen.B.Match.value m = (Gen.Rs.Match.toModel m).value := ⟨rfl, rfl, rfl⟩

/-! ### C12 for the translated `_from_iter` entry points: lazy, single pass (arbitrary tables) -/

private theorem some_ok_of_eq {α : Type} {x : Option α} {c : Prop} [Decidable c] {m y : α}
    (h1 : x = if c then some m else none) (h2 : x = some y) : m = y := by
  rw [h1] at h2
  split at h2
  · exact Option.some.inj h2
  · cases h2

theorem find_from_iter_lazy_bytewise (da : DA V) (hv : da.variant = .bytewise) (h : List Nat)
    (l : List (Match V × Nat)) (fin : Nat) (hr : B.findAllFromIter da h = some (.ok (l, fin))) :
    Lazy l ∧ fin = h.length ∧ (l.map (·.2)).Pairwise (· < ·) :=
  C12.find_lazy da h l fin (some_ok_of_eq (B.findAllFromIter_eq da hv h) hr)

theorem nosuffix_from_iter_lazy_bytewise (da : DA V) (hv : da.variant = .bytewise) (h : List Nat)
    (l : List (Match V × Nat)) (fin : Nat) (hr : B.noSufAllFromIter da h = some (.ok (l, fin))) :
    Lazy l ∧ fin = h.length ∧ (l.map (·.2)).Pairwise (· < ·) :=
  C12.nosuffix_lazy da h l fin (some_ok_of_eq (B.noSufAllFromIter_eq da hv h) hr)

theorem overlapping_from_iter_lazy_bytewise (da : DA V) (hv : da.variant = .bytewise) (h : List Nat)
    (l : List (Match V × Nat)) (fin : Nat) (hr : B.ovAllFromIter da h = some (.ok (l, fin))) :
    Lazy l ∧ fin = h.length ∧ (l.map (·.2)).Pairwise (· ≤ ·) :=
  C12.overlapping_lazy da h l fin (some_ok_of_eq (B.ovAllFromIter_eq da hv h) hr)

theorem find_from_iter_lazy_charwise (da : DA V) (hv : da.variant = .charwise) (h : List Nat)
    (l : List (Match V × Nat)) (fin : Nat) (hr : C.findAllFromIter da h = some (.ok (l, fin))) :
    Lazy l ∧ fin = h.length ∧ (l.map (·.2)).Pairwise (· < ·) :=
  C12.find_lazy da h l fin (some_ok_of_eq (C.findAllFromIter_eq da hv h) hr)

theorem nosuffix_from_iter_lazy_charwise (da : DA V) (hv : da.variant = .charwise) (h : List Nat)
    (l : List (Match V × Nat)) (fin : Nat) (hr : C.noSufAllFromIter da h = some (.ok (l, fin))) :
    Lazy l ∧ fin = h.length ∧ (l.map (·.2)).Pairwise (· < ·) :=
  C12.nosuffix_lazy da h l fin (some_ok_of_eq (C.noSufAllFromIter_eq da hv h) hr)

theorem overlapping_from_iter_lazy_charwise (da : DA V) (hv : da.variant = .charwise) (h : List Nat)
    (l : List (Match V × Nat)) (fin : Nat) (hr : C.ovAllFromIter da h = some (.ok (l, fin))) :
    Lazy l ∧ fin = h.length ∧ (l.map (·.2)).Pairwise (· ≤ ·) :=
  C12.overlapping_lazy da h l fin (some_ok_of_eq (C.ovAllFromIter_eq da hv h) hr)

/-! ### End to end: model-built table + translated search code = specification -/

theorem ov_bytewise (nfb : Nat) (Ps : List (Pat V)) (hV : ValidPats Ps)
    (hbytes : ∀ p ∈ Ps, ∀ b ∈ p.key, b < 256) (da : DA V)
    (hb : buildDA .bytewise ⟨0, nfb⟩ (Ps.map lp) = .ok da) (h : List Nat) (hh : ∀ b ∈ h, b < 256) :
    ∃ l fin, B.ovAll da h = some (.ok (l, fin)) ∧ l.map (·.1) = specOverlapping Ps h := by
  obtain ⟨hk, hv⟩ := buildDA_kind_variant _ _ _ _ hb
  obtain ⟨l, fin, h1, h2⟩ := C01.overlapping_correct_build_bytewise nfb Ps hV hbytes da hb h hh
  exact ⟨l, fin, by rw [B.ovAll_eq da hv, if_pos hk, h1], h2⟩

theorem ov_charwise (nfb : Nat) (Q : List (List Nat × V)) (hQ : ScalarPats Q)
    (hQ0 : Q ≠ []) (hnd : (Q.map (·.1)).Nodup) (da : DA V)
    (hb : buildDA .charwise ⟨0, nfb⟩ (Q.map charPat) = .ok da) (t : List Nat) (ht : Scalars t) :
    ∃ l fin, C.ovAll da (encAll t) = some (.ok (l, fin)) ∧
      l.map (·.1) = specOverlapping (Q.map bytePat) (encAll t) := by
  obtain ⟨hk, hv⟩ := buildDA_kind_variant _ _ _ _ hb
  obtain ⟨l, fin, h1, h2⟩ := C01.overlapping_correct_build_charwise nfb Q hQ hQ0 hnd da hb t ht
  exact ⟨l, fin, by rw [C.ovAll_eq da hv, if_pos hk, h1], h2⟩

theorem find_bytewise (nfb : Nat) (Ps : List (Pat V)) (hV : ValidPats Ps)
    (hbytes : ∀ p ∈ Ps, ∀ b ∈ p.key, b < 256) (da : DA V)
    (hb : buildDA .bytewise ⟨0, nfb⟩ (Ps.map lp) = .ok da) (h : List Nat) (hh : ∀ b ∈ h, b < 256) :
    ∃ l fin, B.findAll da h = some (.ok (l, fin)) ∧ l.map (·.1) = specFind Ps h := by
  obtain ⟨hk, hv⟩ := buildDA_kind_variant _ _ _ _ hb
  obtain ⟨l, fin, h1, h2⟩ := C02.find_correct_build_bytewise nfb Ps hV hbytes da hb h hh
  exact ⟨l, fin, by rw [B.findAll_eq da hv, if_pos hk, h1], h2⟩

theorem find_charwise (nfb : Nat) (Q : List (List Nat × V)) (hQ : ScalarPats Q)
    (hQ0 : Q ≠ []) (hnd : (Q.map (·.1)).Nodup) (da : DA V)
    (hb : buildDA .charwise ⟨0, nfb⟩ (Q.map charPat) = .ok da) (t : List Nat) (ht : Scalars t) :
    ∃ l fin, C.findAll da (encAll t) = some (.ok (l, fin)) ∧
      l.map (·.1) = specFind (Q.map bytePat) (encAll t) := by
  obtain ⟨hk, hv⟩ := buildDA_kind_variant _ _ _ _ hb
  obtain ⟨l, fin, h1, h2⟩ := C02.find_correct_build_charwise nfb Q hQ hQ0 hnd da hb t ht
  exact ⟨l, fin, by rw [C.findAll_eq da hv, if_pos hk, h1], h2⟩

theorem nosuf_bytewise (nfb : Nat) (Ps : List (Pat V)) (hV : ValidPats Ps)
    (hbytes : ∀ p ∈ Ps, ∀ b ∈ p.key, b < 256) (da : DA V)
    (hb : buildDA .bytewise ⟨0, nfb⟩ (Ps.map lp) = .ok da) (h : List Nat) (hh : ∀ b ∈ h, b < 256) :
    ∃ l fin, B.noSufAll da h = some (.ok (l, fin)) ∧ l.map (·.1) = specNoSuffix Ps h := by
  obtain ⟨hk, hv⟩ := buildDA_kind_variant _ _ _ _ hb
  obtain ⟨l, fin, h1, h2⟩ := C05.nosuffix_correct_build_bytewise nfb Ps hV hbytes da hb h hh
  exact ⟨l, fin, by rw [B.noSufAll_eq da hv, if_pos hk, h1], h2⟩

theorem nosuf_charwise (nfb : Nat) (Q : List (List Nat × V)) (hQ : ScalarPats Q)
    (hQ0 : Q ≠ []) (hnd : (Q.map (·.1)).Nodup) (da : DA V)
    (hb : buildDA .charwise ⟨0, nfb⟩ (Q.map charPat) = .ok da) (t : List Nat) (ht : Scalars t) :
    ∃ l fin, C.noSufAll da (encAll t) = some (.ok (l, fin)) ∧
      l.map (·.1) = specNoSuffix (Q.map bytePat) (encAll t) := by
  obtain ⟨hk, hv⟩ := buildDA_kind_variant _ _ _ _ hb
  obtain ⟨l, fin, h1, h2⟩ := C05.nosuffix_correct_build_charwise nfb Q hQ hQ0 hnd da hb t ht
  exact ⟨l, fin, by rw [C.noSufAll_eq da hv, if_pos hk, h1], h2⟩

theorem leftmost_longest_bytewise (nfb : Nat) (Ps : List (Pat V)) (hV : ValidPats Ps)
    (hbytes : ∀ p ∈ Ps, ∀ b ∈ p.key, b < 256) (da : DA V)
    (hb : buildDA .bytewise ⟨1, nfb⟩ (Ps.map lpOf) = .ok da) (h : List Nat) (hh : ∀ b ∈ h, b < 256) :
    ∃ l, B.lmAll da h = some (.ok (l, 0)) ∧ l.map (·.1) = specLL Ps h := by
  obtain ⟨hk, hv⟩ := buildDA_kind_variant _ _ _ _ hb
  obtain ⟨l, h1, h2⟩ := C03.leftmost_longest_correct_build_bytewise nfb Ps hV hbytes da hb h hh
  exact ⟨l, by rw [B.lmAll_eq da hv, if_pos (Or.inl hk), h1], h2⟩

theorem leftmost_longest_charwise (nfb : Nat) (Q : List (List Nat × V)) (hQ : ScalarPats Q)
    (hQ0 : Q ≠ []) (hnd : (Q.map (·.1)).Nodup) (da : DA V)
    (hb : buildDA .charwise ⟨1, nfb⟩ (Q.map charPat) = .ok da) (t : List Nat) (ht : Scalars t) :
    ∃ l, C.lmAll da (encAll t) = some (.ok (l, 0)) ∧ l.map (·.1) = specLL (Q.map bytePat) (encAll t) := by
  obtain ⟨hk, hv⟩ := buildDA_kind_variant _ _ _ _ hb
  obtain ⟨l, h1, h2⟩ := C03.leftmost_longest_correct_build_charwise nfb Q hQ hQ0 hnd da hb t ht
  exact ⟨l, by rw [C.lmAll_eq da hv t ht, if_pos (Or.inl hk), h1], h2⟩

theorem leftmost_first_bytewise (nfb : Nat) (Ps : List (Pat V)) (hV : ValidPats Ps)
    (hbytes : ∀ p ∈ Ps, ∀ b ∈ p.key, b < 256) (da : DA V)
    (hb : buildDA .bytewise ⟨2, nfb⟩ (Ps.map lpOf) = .ok da) (h : List Nat) (hh : ∀ b ∈ h, b < 256) :
    ∃ l, B.lmAll da h = some (.ok (l, 0)) ∧ l.map (·.1) = specLF Ps h := by
  obtain ⟨hk, hv⟩ := buildDA_kind_variant _ _ _ _ hb
  obtain ⟨l, h1, h2⟩ := C04.leftmost_first_correct_build_bytewise nfb Ps hV hbytes da hb h hh
  exact ⟨l, by rw [B.lmAll_eq da hv, if_pos (Or.inr hk), h1], h2⟩

theorem leftmost_first_charwise (nfb : Nat) (Q : List (List Nat × V)) (hQ : ScalarPats Q)
    (hQ0 : Q ≠ []) (hnd : (Q.map (·.1)).Nodup) (da : DA V)
    (hb : buildDA .charwise ⟨2, nfb⟩ (Q.map charPat) = .ok da) (t : List Nat) (ht : Scalars t) :
    ∃ l, C.lmAll da (encAll t) = some (.ok (l, 0)) ∧ l.map (·.1) = specLF (Q.map bytePat) (encAll t) := by
  obtain ⟨hk, hv⟩ := buildDA_kind_variant _ _ _ _ hb
  obtain ⟨l, h1, h2⟩ := C04.leftmost_first_correct_build_charwise nfb Q hQ hQ0 hnd da hb t ht
  exact ⟨l, by rw [C.lmAll_eq da hv t ht, if_pos (Or.inr hk), h1], h2⟩

end Daac.Props.Tie

/-
Property C10 — construction accepts exactly the valid pattern collections and never panics.

Model: `Daac.buildDA` (Model/Trie.lean + Model/Build.lean), tied to the implementation by suite
K-build (same outcome — Ok / error kind / panic — and byte-identical tables on every generated
collection, invalid ones included). The pattern-insertion phase, where all validation happens
(including the leftmost-first early-return path and the repair of defect D2), is proved for ALL
collections. `keysOk P` says that a pattern's byte length is zero iff its key is empty — true of
every real input.
-/
import Daac.Proofs.BuildCor
import Daac.Proofs.Total
import Daac.Proofs.Total2
namespace Daac.Props.C10
open Daac
variable {V : Type}

/-- The validation phase succeeds precisely on the valid collections — for every match kind,
wherever the offending entry sits and whatever was inserted before it. -/
theorem insertion_ok_iff (kind : Nat) (P : List (LPat V)) (h : keysOk P) :
    (∃ t, buildTrie kind P = .ok t) ↔
      (P ≠ [] ∧ (∀ p ∈ P, p.key ≠ []) ∧ (P.map (·.key)).Nodup) :=
  buildTrie_ok_iff kind P h

/-- Whole pipeline, direction 1: construction succeeds only on valid collections. -/
theorem build_ok_valid (variant : Variant) (cfg : Cfg) (P : List (LPat V)) (h : keysOk P) (da : DA V) :
    buildDA variant cfg P = .ok da →
      P ≠ [] ∧ (∀ p ∈ P, p.key ≠ []) ∧ (P.map (·.key)).Nodup :=
  buildDA_ok_valid variant cfg P h da

/-- Whole pipeline, direction 2: an invalid collection is rejected in the insertion phase with
one of the documented error kinds, naming a defect that is actually present — never a panic,
never a scale error, and the layout phase is not reached. -/
theorem build_invalid_err (variant : Variant) (cfg : Cfg) (P : List (LPat V)) (h : keysOk P)
    (hn : cfg.nfb ≠ 0)
    (hinv : ¬ (P ≠ [] ∧ (∀ p ∈ P, p.key ≠ []) ∧ (P.map (·.key)).Nodup)) :
    ∃ e, buildDA variant cfg P = .error e ∧
      ((e = .invalidArgument ∧ (P = [] ∨ ∃ p ∈ P, p.key = [])) ∨
       (e = .duplicatePattern ∧ ¬ (P.map (·.key)).Nodup)) :=
  buildDA_invalid_err variant cfg P h hn hinv

/-- `build_ok_iff_partial` (superseded by `build_ok_iff` + `build_total` below, kept for reference):
success ⇒ valid, invalid ⇒ documented error. -/
theorem build_ok_iff_partial (variant : Variant) (cfg : Cfg) (P : List (LPat V)) (h : keysOk P)
    (hn : cfg.nfb ≠ 0) :
    ((∃ da, buildDA variant cfg P = .ok da) → (P ≠ [] ∧ (∀ p ∈ P, p.key ≠ []) ∧ (P.map (·.key)).Nodup)) ∧
    (¬ (P ≠ [] ∧ (∀ p ∈ P, p.key ≠ []) ∧ (P.map (·.key)).Nodup) →
      ∃ e, buildDA variant cfg P = .error e ∧ (e = .invalidArgument ∨ e = .duplicatePattern)) := by
  refine ⟨fun ⟨da, hd⟩ => buildDA_ok_valid variant cfg P h da hd, fun hinv => ?_⟩
  obtain ⟨e, he, hk⟩ := buildDA_invalid_err variant cfg P h hn hinv
  exact ⟨e, he, hk.elim (fun x => Or.inl x.1) (fun x => Or.inr x.1)⟩

/-- The defect D2 witness, now rejected: under leftmost-first a repeated pattern whose later
copy is shadowed is a duplicate. (["a","ab","ab"] as labels 1,2.) -/
example : (buildTrie 2 [(⟨[1], 1, 0⟩ : LPat Nat), ⟨[1, 2], 2, 1⟩, ⟨[1, 2], 2, 2⟩]).toOption.isNone = true := by
  decide


/-! ### Totality — construction never panics (model of the whole pipeline) -/

/-- **`build_total`**: for EVERY collection (valid or not), every kind, both variants and every
`num_free_blocks ≥ 1`, the model of `build_with_values` returns `Ok` or one of the documented
error kinds — never a panic (no assert, `unwrap`, out-of-range index or `debug_assert` of the
trie / fail-link / helper / layout code fires). Proofs/Total.lean, on top of the vacant-list
invariant of the ring-buffer helper (Proofs/HelperLL.lean). -/
theorem build_total (variant : Variant) (cfg : Cfg) (P : List (LPat V)) (hk : keysOk P)
    (hnfb : 1 ≤ cfg.nfb) (hbytes : variant = .bytewise → ∀ p ∈ P, ∀ c ∈ p.key, c < 256)
    (hsz : variant = .charwise → tableLen P < 4294967295) :
    (∃ da, buildDA variant cfg P = .ok da) ∨ buildDA variant cfg P = .error .invalidArgument ∨
      buildDA variant cfg P = .error .duplicatePattern ∨
      buildDA variant cfg P = .error .automatonScale :=
  buildDA_total variant cfg P hk hnfb hbytes hsz

/-- **`build_ok_iff`, full strength**: within the documented size limits (i.e. when the scale
error does not occur) construction succeeds PRECISELY on the valid collections — every kind,
both variants, every `num_free_blocks`. -/
theorem build_ok_iff (variant : Variant) (cfg : Cfg) (P : List (LPat V)) (hk : keysOk P)
    (hnfb : 1 ≤ cfg.nfb) (hbytes : variant = .bytewise → ∀ p ∈ P, ∀ c ∈ p.key, c < 256)
    (hsz : variant = .charwise → tableLen P < 4294967295)
    (hlim : buildDA variant cfg P ≠ .error .automatonScale) :
    (∃ da, buildDA variant cfg P = .ok da) ↔
      (P ≠ [] ∧ (∀ p ∈ P, p.key ≠ []) ∧ (P.map (·.key)).Nodup) :=
  buildDA_ok_iff variant cfg P hk hnfb hbytes hsz hlim

/-- A valid collection can only fail with the documented size-limit error. -/
theorem valid_ok_or_scale (variant : Variant) (cfg : Cfg) (P : List (LPat V)) (hk : keysOk P)
    (hnfb : 1 ≤ cfg.nfb) (hbytes : variant = .bytewise → ∀ p ∈ P, ∀ c ∈ p.key, c < 256)
    (hsz : variant = .charwise → tableLen P < 4294967295)
    (hvalid : P ≠ [] ∧ (∀ p ∈ P, p.key ≠ []) ∧ (P.map (·.key)).Nodup) :
    (∃ da, buildDA variant cfg P = .ok da) ∨ buildDA variant cfg P = .error .automatonScale :=
  buildDA_valid_ok_or_scale variant cfg P hk hnfb hbytes hsz hvalid

end Daac.Props.C10

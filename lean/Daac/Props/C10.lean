/-
Property C10 — construction accepts exactly the valid pattern collections and never panics.

Model: `Daac.buildDA` (Model/Trie.lean + Model/Build.lean), tied to the implementation by suite
K-build (same outcome — Ok / error kind / panic — and byte-identical tables on every generated
collection, invalid ones included). The pattern-insertion phase, where all validation happens
(including the leftmost-first early-return path and the repair of defect D2), is proved for ALL
collections. `keysOk P` says that a pattern's byte length is zero iff its key is empty — true of
every real input.
-/
import Daac.Proofs.BuildCor
import Daac.Proofs.Total
import Daac.Proofs.Total2
import Daac.Proofs.Positions
namespace Daac.Props.C10
open Daac
variable {V : Type}

/-- The validation phase succeeds precisely on the valid collections — for every match kind,
wherever the offending entry sits and whatever was inserted before it. -/
theorem insertion_ok_iff (kind : Nat) (P : List (LPat V)) (h : keysOk P) :
    (∃ t, buildTrie kind P = .ok t) ↔
      (P ≠ [] ∧ (∀ p ∈ P, p.key ≠ []) ∧ (P.map (·.key)).Nodup) :=
  buildTrie_ok_iff kind P h

/-- Whole pipeline, direction 1: construction succeeds only on valid collections. -/
theorem build_ok_valid (variant : Variant) (cfg : Cfg) (P : List (LPat V)) (h : keysOk P) (da : DA V) :
    buildDA variant cfg P = .ok da →
      P ≠ [] ∧ (∀ p ∈ P, p.key ≠ []) ∧ (P.map (·.key)).Nodup :=
  buildDA_ok_valid variant cfg P h da

/-- Whole pipeline, direction 2: an invalid collection is rejected in the insertion phase with
one of the documented error kinds, naming a defect that is actually present — never a panic,
never a scale error, and the layout phase is not reached. -/
theorem build_invalid_err (variant : Variant) (cfg : Cfg) (P : List (LPat V)) (h : keysOk P)
    (hn : cfg.nfb ≠ 0)
    (hinv : ¬ (P ≠ [] ∧ (∀ p ∈ P, p.key ≠ []) ∧ (P.map (·.key)).Nodup)) :
    ∃ e, buildDA variant cfg P = .error e ∧
      ((e = .invalidArgument ∧ (P = [] ∨ ∃ p ∈ P, p.key = [])) ∨
       (e = .duplicatePattern ∧ ¬ (P.map (·.key)).Nodup)) :=
  buildDA_invalid_err variant cfg P h hn hinv

/-- `build_ok_iff_partial` (superseded by `build_ok_iff` + `build_total` below, kept for reference):
success ⇒ valid, invalid ⇒ documented error. -/
theorem build_ok_iff_partial (variant : Variant) (cfg : Cfg) (P : List (LPat V)) (h : keysOk P)
    (hn : cfg.nfb ≠ 0) :
    ((∃ da, buildDA variant cfg P = .ok da) → (P ≠ [] ∧ (∀ p ∈ P, p.key ≠ []) ∧ (P.map (·.key)).Nodup)) ∧
    (¬ (P ≠ [] ∧ (∀ p ∈ P, p.key ≠ []) ∧ (P.map (·.key)).Nodup) →
      ∃ e, buildDA variant cfg P = .error e ∧ (e = .invalidArgument ∨ e = .duplicatePattern)) := by
  refine ⟨fun ⟨da, hd⟩ => buildDA_ok_valid variant cfg P h da hd, fun hinv => ?_⟩
  obtain ⟨e, he, hk⟩ := buildDA_invalid_err variant cfg P h hn hinv
  exact ⟨e, he, hk.elim (fun x => Or.inl x.1) (fun x => Or.inr x.1)⟩

/-- The defect D2 witness, now rejected: under leftmost-first a repeated pattern whose later
copy is shadowed is a duplicate. (["a","ab","ab"] as labels 1,2.) -/
example : (buildTrie 2 [(⟨[1], 1, 0⟩ : LPat Nat), ⟨[1, 2], 2, 1⟩, ⟨[1, 2], 2, 2⟩]).toOption.isNone = true := by
  decide


/-! ### Totality — construction never panics (model of the whole pipeline) -/

/-- **`build_total`**: for EVERY collection (valid or not), every kind, both variants and every
`num_free_blocks ≥ 1`, the model of `build_with_values` returns `Ok` or one of the documented
error kinds — never a panic (no assert, `unwrap`, out-of-range index or `debug_assert` of the
trie / fail-link / helper / layout code fires). Proofs/Total.lean, on top of the vacant-list
invariant of the ring-buffer helper (Proofs/HelperLL.lean). -/
theorem build_total (variant : Variant) (cfg : Cfg) (P : List (LPat V)) (hk : keysOk P)
    (hnfb : 1 ≤ cfg.nfb) (hbytes : variant = .bytewise → ∀ p ∈ P, ∀ c ∈ p.key, c < 256)
    (hsz : variant = .charwise → tableLen P < 4294967295) :
    (∃ da, buildDA variant cfg P = .ok da) ∨ buildDA variant cfg P = .error .invalidArgument ∨
      buildDA variant cfg P = .error .duplicatePattern ∨
      buildDA variant cfg P = .error .automatonScale :=
  buildDA_total variant cfg P hk hnfb hbytes hsz

/-- **`build_ok_iff`, full strength**: within the documented size limits (i.e. when the scale
error does not occur) construction succeeds PRECISELY on the valid collections — every kind,
both variants, every `num_free_blocks`. -/
theorem build_ok_iff (variant : Variant) (cfg : Cfg) (P : List (LPat V)) (hk : keysOk P)
    (hnfb : 1 ≤ cfg.nfb) (hbytes : variant = .bytewise → ∀ p ∈ P, ∀ c ∈ p.key, c < 256)
    (hsz : variant = .charwise → tableLen P < 4294967295)
    (hlim : buildDA variant cfg P ≠ .error .automatonScale) :
    (∃ da, buildDA variant cfg P = .ok da) ↔
      (P ≠ [] ∧ (∀ p ∈ P, p.key ≠ []) ∧ (P.map (·.key)).Nodup) :=
  buildDA_ok_iff variant cfg P hk hnfb hbytes hsz hlim

/-- A valid collection can only fail with the documented size-limit error. -/
theorem valid_ok_or_scale (variant : Variant) (cfg : Cfg) (P : List (LPat V)) (hk : keysOk P)
    (hnfb : 1 ≤ cfg.nfb) (hbytes : variant = .bytewise → ∀ p ∈ P, ∀ c ∈ p.key, c < 256)
    (hsz : variant = .charwise → tableLen P < 4294967295)
    (hvalid : P ≠ [] ∧ (∀ p ∈ P, p.key ≠ []) ∧ (P.map (·.key)).Nodup) :
    (∃ da, buildDA variant cfg P = .ok da) ∨ buildDA variant cfg P = .error .automatonScale :=
  buildDA_valid_ok_or_scale variant cfg P hk hnfb hbytes hsz hvalid

/-! ### The entry point `build`: values are the input positions -/

/-- Well-formed raw input of `build`: byte length zero iff no labels; labels are bytes for the
byte-wise builder and below `u32::MAX - 1` (every Unicode scalar is) for the char-wise one. -/
def InputOk (variant : Variant) (K : List (List Nat × Nat)) : Prop :=
  (∀ kb ∈ K, (kb.2 = 0 ↔ kb.1 = [])) ∧
  (variant = .bytewise → ∀ kb ∈ K, ∀ c ∈ kb.1, c < 256) ∧
  (variant = .charwise → ∀ kb ∈ K, ∀ c ∈ kb.1, c + 1 < 4294967295)

/-- **`build_positions_ok_iff`** — the second construction entry point, full statement of C10:
`build` succeeds precisely when every position converts to the value type AND the collection is
valid; then it is `build_with_values` on the collection whose i-th pattern carries the converted
position i (so every search theorem applies with value = position, property C06). -/
theorem build_positions_ok_iff (conv : Nat → Option V) (variant : Variant) (cfg : Cfg)
    (K : List (List Nat × Nat)) (hin : InputOk variant K) (hnfb : 1 ≤ cfg.nfb)
    (hlim : buildPositions conv variant cfg K ≠ .error .automatonScale) :
    (∃ da, buildPositions conv variant cfg K = .ok da) ↔
      ((∀ j, j < K.length → conv j ≠ none) ∧
        K ≠ [] ∧ (∀ kb ∈ K, kb.1 ≠ []) ∧ (K.map (·.1)).Nodup) := by
  obtain ⟨hk, hb, hs⟩ := hin
  by_cases hall : ∀ j, j < K.length → conv j ≠ none
  · obtain ⟨P, hP, hlen, hmap, _⟩ := buildPositions_eq conv variant cfg K hall
    have hmem : ∀ p ∈ P, (p.key, p.blen) ∈ K := fun p hp => by
      rw [← hmap]; exact List.mem_map.mpr ⟨p, hp, rfl⟩
    have hkeys : P.map (·.key) = K.map (·.1) := by rw [← hmap]; simp
    have hkO : keysOk P := fun p hp => hk _ (hmem p hp)
    have hbytes : variant = .bytewise → ∀ p ∈ P, ∀ c ∈ p.key, c < 256 :=
      fun hv p hp c hc => hb hv _ (hmem p hp) c hc
    have hsz : variant = .charwise → tableLen P < 4294967295 :=
      fun hv => tableLen_lt_of_labels P _ (by omega) (fun p hp c hc => hs hv _ (hmem p hp) c hc)
    rw [hP] at hlim ⊢
    rw [buildDA_ok_iff variant cfg P hkO hnfb hbytes hsz hlim, hkeys]
    have e1 : P ≠ [] ↔ K ≠ [] := by
      constructor
      · intro h hK; subst hK; exact h (List.length_eq_zero_iff.mp (by simpa using hlen))
      · intro h hP'; subst hP'; exact h (List.length_eq_zero_iff.mp (by simpa using hlen.symm))
    have e2 : (∀ p ∈ P, p.key ≠ []) ↔ (∀ kb ∈ K, kb.1 ≠ []) := by
      constructor
      · intro h kb hkb
        rw [← hmap] at hkb
        obtain ⟨p, hp, rfl⟩ := List.mem_map.mp hkb
        exact h p hp
      · intro h p hp; exact h _ (hmem p hp)
    rw [e1, e2]
    exact ⟨fun h => ⟨hall, h⟩, fun h => h.2⟩
  · constructor
    · rintro ⟨da, hda⟩
      have : ∃ j, j < K.length ∧ conv j = none := by
        false_or_by_contra; rename_i hne
        exact hall (fun j hj hn => hne ⟨j, hj, hn⟩)
      obtain ⟨j, hj, hn⟩ := this
      unfold buildPositions at hda
      have := (convAll_none_iff conv K 0).mpr ⟨j, hj, by simpa using hn⟩
      rw [this] at hda; cases hda
    · intro h; exact absurd h.1 hall

/-- `build` returns `InvalidConversion` exactly when some position does not convert — checked
before anything else, so also for collections that are invalid in other ways; never a panic. -/
theorem build_positions_conv_err (conv : Nat → Option V) (variant : Variant) (cfg : Cfg)
    (K : List (List Nat × Nat)) (j : Nat) (hj : j < K.length) (hn : conv j = none) :
    buildPositions conv variant cfg K = .error .invalidConversion := by
  unfold buildPositions
  rw [(convAll_none_iff conv K 0).mpr ⟨j, hj, by simpa using hn⟩]

/-- Non-vacuity: `u8`-like conversion (positions 0..255 convert). 257 one-label patterns are
rejected with InvalidConversion whatever they are. -/
example (K : List (List Nat × Nat)) (h : 256 < K.length) (variant : Variant) (cfg : Cfg) :
    buildPositions (fun i => if i < 256 then some i else none) variant cfg K
      = .error .invalidConversion :=
  build_positions_conv_err _ variant cfg K 256 h (by simp)

end Daac.Props.C10

/-
Property C03 — leftmost-longest search picks the leftmost start, then the longest pattern there.

Rung 1 (proved, all haystacks): tables satisfying the evaluated invariant `leftmostInv` — (G1)
which pattern a node reports and (G3) where the leftmost transition goes, for every node and
every label — answer `leftmost_find_iter` on every haystack exactly like the specification.
The proof has three parts (DESIGN.md §3.4): tables ⇒ string-level semantics (`LmSem`,
Proofs/LmSem.lean); the abstract scan driven by (G1)/(G3) returns the leftmost-longest occurrence
(pure string combinatorics with the loop invariants K1–K3, Proofs/LmAbs.lean); the model
iterator — including the char-wise `skips` bookkeeping and the unchecked re-slicing at
`self.pos` — simulates the abstract scan (Proofs/LmIter.lean).
Rung 2 for the fail/output/layout phases is replaced by evaluating `leftmostInv` on every
automaton the implementation builds during a run.
-/
import Daac.Proofs.LmSem
import Daac.Proofs.LmAbs
import Daac.Proofs.LmIter
import Daac.Proofs.SpecProps
import Daac.Proofs.Rung2
namespace Daac.Props.C03
open Daac
variable {V : Type} [DecidableEq V]

/-- **Byte-wise, byte-level**: for every haystack of bytes the model of `leftmost_find_iter`
returns — without fault, within its fuel — exactly `specLL Ps h`: the unique greedy
left-to-right tiling by leftmost-longest occurrences. -/
theorem leftmost_longest_correct_bytewise (da : DA V) (Ps : List (Pat V)) (hV : ValidPats Ps)
    (hv : da.variant = .bytewise) (hT : da.leftmostInv (Ps.map lpOf) = true)
    (h : List Nat) (hb : ∀ b ∈ h, b < 256) :
    ∃ l, lmAll da h = .ok (l, 0) ∧ l.map (·.1) = specLL Ps h := by
  obtain ⟨_, hne, hnd⟩ := hV
  have hkeys : ((Ps.map lpOf).map (·.key)).Nodup := by
    simpa [lpOf, List.map_map, Function.comp_def] using hnd
  have hne' : ∀ p ∈ Ps.map lpOf, p.key ≠ [] := by
    intro p hp
    obtain ⟨q, hq, rfl⟩ := List.mem_map.1 hp
    exact hne q hq
  exact lmAll_bytewise_spec Ps (lmSem_of_leftmostInv da (Ps.map lpOf) hkeys hne' hT)
    (absLm_eq_bestIn (Ps.map lpOf) hne' hkeys) hv h
    (fun b hb' => labelOk_of_bytewise' hv (hb b hb'))
where
  labelOk_of_bytewise' {da : DA V} (hv : da.variant = .bytewise) {c : Nat} (hc : c < 256) :
      LabelOk da c := by
    left; simp [DA.sigma, hv, hc]

/-- **Either variant, item level**: for any haystack that decodes into `all` (`Decodes`: the
items from offset 0 and from every item end, as the iterator re-slices them), the iterator
returns exactly the item-level specification `specLLItems`. -/
theorem leftmost_longest_correct_items (da : DA V) (P : List (LPat V))
    (hkeys : (P.map (·.key)).Nodup) (hne : ∀ p ∈ P, p.key ≠ [])
    (hT : da.leftmostInv P = true) (h : List Nat) (all : List WItem)
    (hd : Decodes da.variant h all) (hlab : ∀ it ∈ all, LabelOk da it.label) :
    ∃ l, lmAll da h = .ok (l, 0) ∧ l.map (·.1) = specLLItems P all 0 :=
  lmAll_spec (lmSem_of_leftmostInv da P hkeys hne hT) (absLm_eq_bestIn P hne hkeys) hd hlab

/-- Valid UTF-8 decodes (so the char-wise statement applies to every valid UTF-8 haystack), and
so does every byte string for the byte-wise variant. -/
theorem utf8_decodes (cs : List Nat) (hcs : ∀ c ∈ cs, isScalar c = true) :
    Decodes .charwise (encAll cs) (itemsOf cs 0) := decodes_charwise cs hcs
theorem bytes_decode (h : List Nat) : Decodes .bytewise h (byteItems h 0) := decodes_bytewise h

/-- The string-combinatorics core: the abstract leftmost scan returns the leftmost-longest
occurrence, for every valid pattern list and every text. -/
theorem abstract_scan_correct (P : List (LPat V)) (hne : ∀ p ∈ P, p.key ≠ [])
    (hkeys : (P.map (·.key)).Nodup) (x : List Nat) : absLm P x [] none 0 = bestIn P x 0 :=
  absLm_eq_bestIn P hne hkeys x


/-! ### The specification function meets the declarative statement of the property -/

/-- `specLL` is the sequence the property describes (`LLSpec`: smallest start among occurrences
starting at or after the end of the previous match, then the longest there; resume at its end) … -/
theorem spec_is_llspec (Ps : List (Pat V)) (hV : ValidPats Ps) (h : List Nat) :
    LLSpec Ps h 0 (specLL Ps h) := specLL_spec hV h
/-- … and the only one: the unique greedy left-to-right tiling. -/
theorem spec_unique (Ps : List (Pat V)) (hV : ValidPats Ps) (h : List Nat) (ms : List (Match V))
    (hms : LLSpec Ps h 0 ms) : ms = specLL Ps h := specLL_unique hV hms
theorem spec_nonoverlapping (Ps : List (Pat V)) (hV : ValidPats Ps) (h : List Nat) :
    (specLL Ps h).Pairwise (fun a b => a.stop ≤ b.start) := specLL_nonoverlap hV h
theorem spec_true_occurrences (Ps : List (Pat V)) (hV : ValidPats Ps) (h : List Nat) (m : Match V)
    (hm : m ∈ specLL Ps h) : IsOcc Ps h m := specLL_isOcc hV hm
/-- No occurrence starts in a gap before the next reported start. -/
theorem spec_no_occurrence_in_gap (Ps : List (Pat V)) (hV : ValidPats Ps) (h : List Nat)
    (l₁ l₂ : List (Match V)) (a b m' : Match V) (hl : specLL Ps h = l₁ ++ a :: b :: l₂)
    (ho : IsOcc Ps h m') : ¬ (a.stop ≤ m'.start ∧ m'.start < b.start) := specLL_no_occ_in_gap hV hl ho
theorem spec_no_occurrence_before_first (Ps : List (Pat V)) (hV : ValidPats Ps) (h : List Nat)
    (a : Match V) (l : List (Match V)) (m' : Match V) (hl : specLL Ps h = a :: l) (ho : IsOcc Ps h m') :
    a.start ≤ m'.start := specLL_no_occ_before_first hV hl ho
theorem spec_no_occurrence_after_last (Ps : List (Pat V)) (hV : ValidPats Ps) (h : List Nat)
    (l₁ : List (Match V)) (a m' : Match V) (hl : specLL Ps h = l₁ ++ [a]) (ho : IsOcc Ps h m') :
    m'.start < a.stop := specLL_no_occ_after_last hV hl ho


/-! ### Rung 2 — every pattern collection, every `num_free_blocks`, in the model of the builder

`buildDA` is the model of `build_with_values` (Model/Trie.lean, Model/Nfa.lean, Model/Build.lean),
tied to the implementation by suite K-build (byte-identical tables). The chain of proofs:
insertion phase (Proofs/TrieFacts, NfaQueue) → fail links and outputs (Proofs/NfaStd, NfaLm, NfaG)
→ layout with the ring-buffer helper, BASE uniqueness and CHECK sanitising (Proofs/HelperFacts,
LayoutB, LayoutC, MapperFacts) → table semantics (Proofs/LayoutSem) → iterators (Rung 1). -/

theorem leftmost_longest_correct_build_bytewise (nfb : Nat) (Ps : List (Pat V)) (hV : ValidPats Ps)
    (hbytes : ∀ p ∈ Ps, ∀ b ∈ p.key, b < 256) (da : DA V)
    (hb : buildDA .bytewise ⟨1, nfb⟩ (Ps.map lpOf) = .ok da) (h : List Nat) (hh : ∀ b ∈ h, b < 256) :
    ∃ l, lmAll da h = .ok (l, 0) ∧ l.map (·.1) = specLL Ps h :=
  bytewise_leftmost_longest_correct nfb Ps hV hbytes da hb h hh

theorem leftmost_longest_correct_build_charwise (nfb : Nat) (Q : List (List Nat × V)) (hQ : ScalarPats Q)
    (hQ0 : Q ≠ []) (hnd : (Q.map (·.1)).Nodup) (da : DA V)
    (hb : buildDA .charwise ⟨1, nfb⟩ (Q.map charPat) = .ok da) (t : List Nat) (ht : Scalars t) :
    ∃ l, lmAll da (encAll t) = .ok (l, 0) ∧ l.map (·.1) = specLL (Q.map bytePat) (encAll t) :=
  charwise_leftmost_longest_correct nfb Q hQ hQ0 hnd da hb t ht

end Daac.Props.C03

/-
Property C04 — leftmost-first search picks the leftmost start, then the earliest-registered.

Under leftmost-first the builder registers only the *retained* patterns (those without an
earlier-registered proper prefix; Props/C10/C15 prove the insertion phase does exactly that) and
then builds the same leftmost automaton as for leftmost-longest. So the automaton answers
`specLL (retained Ps)`, and the specification-level theorem `specLF Ps = specLL (retained Ps)`
(among the patterns occurring at one start the earliest registered is the longest retained one)
closes the gap. The invariant `leftmostInv` is evaluated for the retained list on every
leftmost-first automaton the implementation builds; every permutation of small pattern sets is
generated, since order is the interesting input.
-/
import Daac.Props.C03
import Daac.Proofs.SpecProps
import Daac.Proofs.Rung2
import Daac.Proofs.Rung2LF
namespace Daac.Props.C04
open Daac
variable {V : Type} [DecidableEq V]

/-- **Byte-wise, byte-level**: tables satisfying `leftmostInv` for the retained patterns answer
every haystack with `specLF Ps` — leftmost start, then earliest registered. -/
theorem leftmost_first_correct_bytewise (da : DA V) (Ps : List (Pat V)) (hV : ValidPats Ps)
    (hv : da.variant = .bytewise) (hT : da.leftmostInv ((retained Ps).map lpOf) = true)
    (h : List Nat) (hb : ∀ b ∈ h, b < 256) :
    ∃ l, lmAll da h = .ok (l, 0) ∧ l.map (·.1) = specLF Ps h := by
  obtain ⟨l, h1, h2⟩ := C03.leftmost_longest_correct_bytewise da (retained Ps) (retained_valid hV) hv hT h hb
  exact ⟨l, h1, by rw [h2, specLF_eq_specLL_retained hV]⟩

/-- The declarative reading of `specLF` (leftmost start among occurrences at or after the
previous match end, then smallest registration index, resume at its end, stop when none). -/
theorem specLF_meets_spec (Ps : List (Pat V)) (hV : ValidPats Ps) (h : List Nat) :
    LFSpec Ps h 0 (specLF Ps h) := specLF_spec hV h

/-- Which patterns are retained: exactly those without an earlier-registered proper prefix. -/
theorem retained_iff (Ps : List (Pat V)) (p : Pat V) :
    p ∈ retained Ps ↔ ∃ i : Nat, Ps[i]? = some p ∧ ∀ q ∈ Ps.take i, ¬ (q.key <+: p.key ∧ q.key ≠ p.key) :=
  retained_spec

/-- A pattern that has an earlier-registered proper prefix is never reported … -/
theorem shadowed_never_reported (Ps : List (Pat V)) (hV : ValidPats Ps) (h : List Nat) (i : Nat)
    (p q : Pat V) (hp : Ps[i]? = some p) (hq : q ∈ Ps.take i) (hpre : q.key <+: p.key)
    (hne : q.key ≠ p.key) (m : Match V) (hm : m ∈ specLF Ps h) :
    ¬ (m.stop ≤ h.length ∧ (h.take m.stop).drop m.start = p.key) :=
  specLF_never_reports_shadowed hV hp hq hpre hne hm

/-- … and its presence never changes what is reported for the other patterns. -/
theorem shadowed_irrelevant (Ps : List (Pat V)) (hV : ValidPats Ps) (h : List Nat) :
    specLF Ps h = specLF (retained Ps) h := specLF_retained hV h


/-! ### Rung 2 — every pattern collection, every `num_free_blocks`, in the model of the builder

`buildDA` is the model of `build_with_values` (Model/Trie.lean, Model/Nfa.lean, Model/Build.lean),
tied to the implementation by suite K-build (byte-identical tables). The chain of proofs:
insertion phase (Proofs/TrieFacts, NfaQueue) → fail links and outputs (Proofs/NfaStd, NfaLm, NfaG)
→ layout with the ring-buffer helper, BASE uniqueness and CHECK sanitising (Proofs/HelperFacts,
LayoutB, LayoutC, MapperFacts) → table semantics (Proofs/LayoutSem) → iterators (Rung 1). -/

/-- **Full strength in the model, byte-wise**: every valid ordered collection, every
`num_free_blocks`: the automaton built with leftmost-first semantics from ALL patterns (shadowed
ones included) answers every haystack with `specLF`. -/
theorem leftmost_first_correct_build_bytewise (nfb : Nat) (Ps : List (Pat V)) (hV : ValidPats Ps)
    (hbytes : ∀ p ∈ Ps, ∀ b ∈ p.key, b < 256) (da : DA V)
    (hb : buildDA .bytewise ⟨2, nfb⟩ (Ps.map lpOf) = .ok da) (h : List Nat) (hh : ∀ b ∈ h, b < 256) :
    ∃ l, lmAll da h = .ok (l, 0) ∧ l.map (·.1) = specLF Ps h :=
  bytewise_leftmost_first_correct nfb Ps hV hbytes da hb h hh


/-- **Full strength in the model, char-wise**: every valid ordered collection of UTF-8 patterns,
every valid UTF-8 haystack, byte offsets. -/
theorem leftmost_first_correct_build_charwise (nfb : Nat) (Q : List (List Nat × V)) (hQ : ScalarPats Q)
    (hQ0 : Q ≠ []) (hnd : (Q.map (·.1)).Nodup) (da : DA V)
    (hb : buildDA .charwise ⟨2, nfb⟩ (Q.map charPat) = .ok da) (t : List Nat) (ht : Scalars t) :
    ∃ l, lmAll da (encAll t) = .ok (l, 0) ∧ l.map (·.1) = specLF (Q.map bytePat) (encAll t) :=
  charwise_leftmost_first_correct nfb Q hQ hQ0 hnd da hb t ht

end Daac.Props.C04

/-
Rung 2, NFA level — theorems about the model of the builder's trie, fail-link and output passes
(Model/Trie.lean, Model/Nfa.lean) for ALL pattern collections, all three kinds. Together with the
insertion-phase theorems (Props/C10, C14, C15) they show that the sparse NFA the model builds is
the textbook Aho-Corasick NFA (standard kind) resp. the leftmost automaton characterised by (F),
(G1), (G3) (leftmost kinds). The double-array *layout* (that the tables mirror this NFA) is proved
in Proofs/LayoutB, LayoutC, LayoutSem and assembled in Proofs/Rung2; independently it is covered
per instance by evaluating `tableInv`/`leftmostInv` on the real tables and by suite K-build.
These theorems serve C01–C05 (and through them C06, C08, C11, C13).
-/
import Daac.Proofs.NfaStd
import Daac.Proofs.NfaLm
import Daac.Proofs.NfaG
import Daac.Proofs.NfaLmIface
namespace Daac.Props.Builder
open Daac
variable {V : Type}

/-- The trie built from a valid collection holds exactly the patterns (kinds 0, 1) … -/
theorem trie_sem (kind : Nat) (hk : kind ≠ 2) (P : List (LPat V)) (t : Trie V)
    (ht : buildTrie kind P = .ok t) (hP : keysOk P) : TrieSem t P :=
  buildTrie_trieSem kind hk P t ht hP
/-- … resp. exactly the retained patterns (leftmost-first). -/
theorem trie_sem_lf (P : List (LPat V)) (t : Trie V) (ht : buildTrie 2 P = .ok t) (hP : keysOk P) :
    TrieSem t (retainedL P) := buildTrie_trieSem_lf P t ht hP

/-- `build_fails`: the fail link of every node is the longest proper suffix that is a node. -/
theorem fails_std (t : Trie V) (P : List (LPat V)) (hS : TrieSem t P) :
    ∀ u, u ∈ nodeList P → (buildFailMap t false).get u = .node (lps (nodeList P) u) :=
  failStd_eq_lps' hS

/-- `build_outputs` (standard): the output chain of every node lists exactly the patterns that
are suffixes of the node's string, longest first; there is one record per pattern and parents
point strictly backwards. -/
theorem outputs_std (t : Trie V) (P : List (LPat V)) (hS : TrieSem t P) (hsort : t.Sorted) :
    (∀ u, u ∈ nodeList P →
      chainList (buildOutAcc t (buildFailMap t false)).outs
        ((buildOutAcc t (buildFailMap t false)).outs.size + 1)
        ((buildOutAcc t (buildFailMap t false)).opos.getD u 0) =
      (sufLPats P u).map (fun p => (p.value, p.blen))) ∧
    (buildOutAcc t (buildFailMap t false)).outs.size = P.length ∧
    (∀ i o, (buildOutAcc t (buildFailMap t false)).outs[i]? = some o → o.parent < i + 1) :=
  ⟨chainStd hS hsort, outsStd_size hS hsort, outsStd_parent_lt hS hsort⟩

/-- `build_fails_leftmost`, statement (F): the fail link of a node is dead iff following the
ordinary link would lose the leftmost-longest occurrence contained in the node. -/
theorem fails_leftmost (t : Trie V) (P : List (LPat V)) (hS : TrieSem t P) (hsort : t.Sorted) :
    FailChar P (buildFailMap t true) := fun u hu hne => failLm_char hS hsort u hu hne

/-- (G3) from (F): the leftmost transition on the NFA is `deltaL`. -/
theorem transition_leftmost (t : Trie V) (P : List (LPat V)) (hS : TrieSem t P) (hsort : t.Sorted) :
    ∀ u, u ∈ nodeList P → ∀ c fuel, u.length < fuel →
      nfaNextLm t (buildFailMap t true) fuel u c = deltaL P u c :=
  nfaNextLm_eq_deltaL hS (fails_leftmost t P hS hsort)

/-- (G1): the output position of a node is the record of `best u` iff it is a suffix of `u`. -/
theorem outputs_leftmost (t : Trie V) (P : List (LPat V)) (hS : TrieSem t P) (hsort : t.Sorted) :
    ∀ u, u ∈ nodeList P →
      (match oposL P u with
       | some p => (buildOutAcc t (buildFailMap t true)).opos.getD u 0 ≠ 0 ∧
           ∃ o, (buildOutAcc t (buildFailMap t true)).outs[(buildOutAcc t (buildFailMap t true)).opos.getD u 0 - 1]? = some o ∧
             o.value = p.value ∧ o.length = p.blen
       | none => (buildOutAcc t (buildFailMap t true)).opos.getD u 0 = 0) :=
  oposLm hS hsort (fails_leftmost t P hS hsort)

/-- Tries produced by the insertion phase are label-sorted (the hypothesis `hsort` above). -/
theorem trie_sorted (kind : Nat) (P : List (LPat V)) (t : Trie V) (ht : buildTrie kind P = .ok t) :
    t.Sorted := buildTrie_sorted kind P t ht

end Daac.Props.Builder

/-
Translation tie, end to end for the char-wise builder — what Proofs/TiePC buys.

Every step of `CharwiseDoubleArrayAhoCorasickBuilder::build_with_values` /
`build_original_nfa_and_mapper` is a Lean definition GENERATED from the repository's current Rust
source on every run:
  `NfaBuilder::new` / `add` (insertion, validation; label width `nb` = `char::len_utf8`)
                                                               tools/nfa2lean.py  → Gen/Nfa.lean
  the frequency loop `for &c in &chars { .. freqs[c] += 1 }`, `CodeMapper::new`
                                                               tools/map2lean.py  → Gen/MapperNew.lean
  `build_fails` / `build_fails_leftmost` / `build_outputs`     tools/nfa2lean.py  → Gen/Nfa.lean
  `build_double_array` (DFS layout over mapped codes, fail/output pass)
                                                               tools/dbl2lean.py  → Gen/BuildC.lean
  `BuildHelper`, `init_array`, `find_base`, `extend_array`     tools/rs2lean.py   → Gen/Helper, LayoutC
and each is tied to the hand-written path-keyed model by a kernel-checked refinement (Proofs/TieN,
TieF*, TieM, TieDC, TieH, TieL).  Proofs/TiePC composes them.

WHAT IS TIED.  `Tie.PC.genBuildC nb kind nfb P` runs the generated steps in the order of the Rust
text: per pattern the translated `add` and then — only if it returned `Ok`, as the `?` dictates — the
translated counting loop on that pattern's characters (`Tie.PC.addCountAllGen`; a pattern shadowed
under leftmost-first IS counted, an `add` error returns before any mapper exists); then the translated
`CodeMapper::new(&freqs)`; the `nfa.len == 0` test (AFTER the mapper, as in the Rust; there is no
`len > U24::MAX` test in the char-wise builder); the fail pass selected by the match kind;
`build_outputs`; and the translated `build_double_array` on the builder whose `mapper` field is the
mapper just computed.  `generated_builder_eq_model_charwise`:

    norm (genBuildC nb kind nfb P) = norm ((buildDA .charwise ⟨kind, nfb⟩ P).map (·.states))

for EVERY collection `P` whose labels are `char`s (code points ≤ 0x10FFFF) within the `u32` scale,
every match kind, every `num_free_blocks ≥ 1`: the translated pipeline and the model builder fail with
the same error kind or return the same state table.  `generated_parts_eq_model_charwise` adds the
other fields of the automaton: the mapper's table and alphabet size, the output records, `num_states`.
Every Rung-2 theorem about char-wise automata is about `buildDA .charwise`; composed with this
equation they are statements about the table the TRANSLATED Rust builder computes (last corollary).

WHAT IS OUTSIDE (trusted):
  * the translators and their preludes (meaning of `Vec`, `BTreeMap`, `sort_by` / `sort_unstable_by`,
    integer conversions; `char` = its code point);
  * the sequencing glue `genBuildC` / `addCountAllGen` / `failPass` (a dozen hand-written lines that
    call the generated units in the order of the Rust text) and the field-by-field conversion
    `Tie.PC.toMapper` between the two Lean records used for `CodeMapper` (Gen/MapperNew.lean vs the
    model's `Mapper` used by Gen/LayoutC.lean);
  * `build` (the position-conversion wrapper, model `buildPositions`) and the final struct literal of
    `build_with_values` (`u32::try_from(nfa.states.len() - 1)`, which cannot fail within the scale);
  * the `RefCell` borrow checks of the sparse NFA (`borrow` / `borrow_mut` never conflict: not
    modelled);
  * `u32` overflow of the frequency counters `freqs[c] += 1` (needs 2^32 occurrences of one character
    — excluded by `hsz` for the inputs covered here, but the translated counter is an unbounded `Nat`).
-/
import Daac.Proofs.TiePC
import Daac.Props.TieBuild
import Daac.Props.C01
namespace Daac.Props.TiePipelineC
open Daac Daac.Gen Daac.Gen.N Daac.Gen.M Daac.Tie.N Daac.Tie.F Daac.Tie.H Daac.Tie.M Daac.Tie.PC
variable {V : Type}

/-- **Translated char-wise builder = model builder**, as one equation (errors included). -/
theorem generated_builder_eq_model_charwise (nb : Nat → Nat) (kind : Nat) (cfg : Cfg) (P : List (LPat V))
    (hkind : cfg.kind = kind) (hnfb : 1 ≤ cfg.nfb) (hch : ∀ p ∈ P, ∀ c ∈ p.key, c ≤ 0x10FFFF)
    (hsz : 2 + (P.map (·.key.length)).sum ≤ 4294967295)
    (hlen : ∀ p ∈ P, (p.key.map nb).sum = p.blen ∧ p.blen ≤ 4294967295) :
    norm (genBuildC nb kind cfg.nfb P) = norm ((buildDA .charwise cfg P).map (·.states)) :=
  genBuildC_eq_buildDA nb kind cfg P hkind hnfb hch hsz hlen

/-- The interleaved pattern loop is the insertion fold followed — only when no `add` failed — by the
counting fold of Props/TieMapper. -/
theorem generated_pattern_loop (nb : Nat → Nat) (ps : List (LPat V)) (g : NfaBuilder V) (fr : Array Nat) :
    addCountAllGen nb g fr ps =
      match addAllGen nb g ps with
      | .error e => .error e
      | .ok g' =>
        match countAll fr (ps.map (·.key)) with
        | .error e => .error e
        | .ok fr' => .ok (g', fr') :=
  addCountAllGen_eq nb ps g fr

/-- All parts of the automaton: when the translated insertion fold succeeds and registered a pattern,
the translated mapper `m`, the translated output records and the state count are those of the model
automaton, and the state tables agree up to panic texts. -/
theorem generated_parts_eq_model_charwise (nb : Nat → Nat) (kind : Nat) (cfg : Cfg) (P : List (LPat V))
    (hkind : cfg.kind = kind) (hnfb : 1 ≤ cfg.nfb) (hch : ∀ p ∈ P, ∀ c ∈ p.key, c ≤ 0x10FFFF)
    (hsz : 2 + (P.map (·.key.length)).sum ≤ 4294967295)
    (hlen : ∀ p ∈ P, (p.key.map nb).sum = p.blen ∧ p.blen ≤ 4294967295)
    (g : NfaBuilder V) (hadd : addAllGen nb (NfaBuilder.new kind) P = .ok g) (hl : g.len ≠ 0) :
    ∃ freqs m q g1 g2, addCountAllGen nb (NfaBuilder.new kind) #[] P = .ok (g, freqs) ∧
      CodeMapper.new freqs = .ok m ∧
      failPass kind g = .ok (q, g1) ∧ NfaBuilder.build_outputs g1 q = .ok ((), g2) ∧
      norm ((DC.Builder.build_double_array ⟨#[], toMapper m, kind, 0, cfg.nfb⟩ g2).map (·.2.states))
        = norm ((buildDA .charwise cfg P).map (·.states)) ∧
      ∀ da, buildDA .charwise cfg P = .ok da →
        OutsRel g2.outputs da.outputs ∧ da.numStates = g.states.size - 1 ∧ da.kind = kind ∧
        da.mapTable = m.table ∧ da.alphaSize = m.alphabet_size :=
  generated_charwise_build_eq_buildDA nb kind cfg P hkind hnfb hch hsz hlen g hadd hl

/-- … hence whenever the model builder succeeds, the translated pipeline succeeds with exactly the
model's table (no panic, no fuel exhaustion anywhere in the translated code). -/
theorem generated_table_of_model_ok_charwise (nb : Nat → Nat) (kind : Nat) (cfg : Cfg) (P : List (LPat V))
    (da : DA V) (hkind : cfg.kind = kind) (hnfb : 1 ≤ cfg.nfb)
    (hch : ∀ p ∈ P, ∀ c ∈ p.key, c ≤ 0x10FFFF)
    (hsz : 2 + (P.map (·.key.length)).sum ≤ 4294967295)
    (hlen : ∀ p ∈ P, (p.key.map nb).sum = p.blen ∧ p.blen ≤ 4294967295)
    (hb : buildDA .charwise cfg P = .ok da) :
    genBuildC nb kind cfg.nfb P = .ok da.states := by
  have h := genBuildC_eq_buildDA nb kind cfg P hkind hnfb hch hsz hlen
  rw [hb] at h
  exact Daac.Props.TieBuild.ok_of_norm h

/-- The byte length of a scalar-value string is the sum of the UTF-8 widths of its characters. -/
theorem sum_widths (cs : List Nat) : (cs.map utf8Width).sum = (encAll cs).length := by
  induction cs with
  | nil => rfl
  | cons c cs ih =>
    simp only [List.map_cons, List.sum_cons, encAll_cons, List.length_append, encScalar_length, ih]

/-- **C01 for the table the translated char-wise builder computes** (standard kind): for every valid
collection of UTF-8 patterns (as scalar-value lists) within the `u32` scale and every
`num_free_blocks ≥ 1`, if the model builder succeeds then the TRANSLATED pipeline (label width
`utf8Width` = `char::len_utf8`) returns exactly that table, and the overlapping search on the automaton
returns `specOverlapping` of the encoded patterns on every valid UTF-8 haystack, with byte offsets. -/
theorem generated_table_overlapping_correct_charwise [DecidableEq V] (nfb : Nat) (Q : List (List Nat × V))
    (hQ : ScalarPats Q) (hQ0 : Q ≠ []) (hnd : (Q.map (·.1)).Nodup) (hnfb : 1 ≤ nfb)
    (hsz : 2 + ((Q.map charPat).map (·.key.length)).sum ≤ 4294967295)
    (hbl : ∀ q ∈ Q, (encAll q.1).length ≤ 4294967295)
    (da : DA V) (hb : buildDA .charwise ⟨0, nfb⟩ (Q.map charPat) = .ok da) :
    genBuildC utf8Width 0 nfb (Q.map charPat) = .ok da.states ∧
    ∀ t : List Nat, Scalars t →
      ∃ l fin, ovAll da (encAll t) = .ok (l, fin) ∧
        l.map (·.1) = specOverlapping (Q.map bytePat) (encAll t) := by
  have hlen : ∀ p ∈ Q.map charPat, (p.key.map utf8Width).sum = p.blen ∧ p.blen ≤ 4294967295 := by
    intro p hp
    obtain ⟨q, hq, rfl⟩ := List.mem_map.1 hp
    exact ⟨by simp only [charPat, sum_widths], by simp only [charPat]; exact hbl q hq⟩
  have hch : ∀ p ∈ Q.map charPat, ∀ c ∈ p.key, c ≤ 0x10FFFF := by
    intro p hp c hc
    obtain ⟨q, hq, rfl⟩ := List.mem_map.1 hp
    have := (isScalar_iff c).mp ((hQ q hq).2 c hc)
    omega
  refine ⟨generated_table_of_model_ok_charwise utf8Width 0 ⟨0, nfb⟩ (Q.map charPat) da rfl hnfb hch hsz
    hlen hb, ?_⟩
  intro t ht
  exact C01.overlapping_correct_build_charwise nfb Q hQ hQ0 hnd da hb t ht

end Daac.Props.TiePipelineC

#print axioms Daac.Props.TiePipelineC.generated_builder_eq_model_charwise
#print axioms Daac.Props.TiePipelineC.generated_parts_eq_model_charwise
#print axioms Daac.Props.TiePipelineC.generated_table_of_model_ok_charwise
#print axioms Daac.Props.TiePipelineC.generated_table_overlapping_correct_charwise

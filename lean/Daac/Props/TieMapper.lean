/-
Translation tie, construction of the char-wise code mapper — what Proofs/TieM buys (C13 / C14 and
every char-wise property that goes through `Mapper.build`).

`Daac/Gen/MapperNew.lean` is, as translated by tools/map2lean.py from the repository's current text
on every run,
  * `CodeMapper::new(freqs)` of src/charwise/mapper.rs: collecting `(c, f)` with `f != 0` in code-point
    order (`iter().enumerate().filter(..)`), `sort_unstable_by(|(c1, f1), (c2, f2)|
    f2.cmp(f1).then_with(|| c1.cmp(c2)))`, the `INVALID_CODE`-filled table, codes = ranks
    (`u32::try_from(i).unwrap()`), `alphabet_size = sorted.len()`;
  * the frequency-counting loop `for &c in &chars { if freqs.len() <= c { freqs.resize(c + 1, 0) }
    freqs[c] += 1 }` of `CharwiseDoubleArrayAhoCorasickBuilder::build_original_nfa_and_mapper`
    (src/charwise/builder.rs), as `count_chars freqs chars`.  The translator checks, token for token,
    the context of that loop: `freqs` starts as `vec![]`, the loop runs on the characters of every
    pattern after `nfa.add(&chars, value)?` returned `Ok` (so a pattern shadowed under leftmost-first
    IS counted, and an `add` error returns before the mapper exists), and the mapper is
    `CodeMapper::new(&freqs)`.

WHAT IS TIED.  `Tie.M.pipeline keys` = run `count_chars` over the keys in order from the empty vector,
then `CodeMapper.new`.  `generated_mapper` below: for EVERY pattern list `P` it returns `.ok` of
exactly the table and the alphabet size of the model's `Mapper.build P` (the model counts into a
pre-sized array of length max code point + 1 and inserts in code-point order into a list sorted by
(frequency descending, code point ascending); the Rust grows the vector on demand and sorts the
code-point-ordered list).  Nothing panics: the indexed writes are in range, and the two
`u32::try_from(..).unwrap()` succeed below the `u32` scale — always, for `char` labels
(`generated_mapper_char`).  Hence `mapper_maps_labels`, `mapperOk_build`, `Mapper.build_perm` (C14)
etc. are statements about the translated code.

WHAT IS OUTSIDE (trusted, Daac/Gen/PreludeMap.lean + header of tools/map2lean.py):
  * `sort_unstable_by(cmp)` is read as insertion sort with the translated comparator.  That is the
    meaning of the Rust method exactly when `cmp` is a total order under which the elements are pairwise
    distinct (unique sorted permutation).  Here the elements have distinct `c` and the comparator is
    lexicographic (freq desc, code asc) BECAUSE of the `then_with` tie-break (`Tie.M.closure1_lt`); if
    the tie-break is dropped the translation still succeeds but `closure1_lt`, hence this file, no
    longer builds;
  * integers are unbounded `Nat`s: the `u32` addition `freqs[c] += 1` (overflow needs 2^32 occurrences
    of one character) is not modelled; `char` is its code point;
  * the interleaving with `nfa.add` in the pattern loop (which does not touch `freqs`) and the pattern
    loop itself are represented by `Tie.M.countAll` (a fold of the generated `count_chars`), not
    translated; `CodeMapper::get` is tied elsewhere (Gen/SearchC via rs2lean);
  * the link "the layout pass uses this mapper" is Props/TiePipeline / K-build.
-/
import Daac.Proofs.TieM
namespace Daac.Props.TieMapper
open Daac Daac.Gen Daac.Gen.M Daac.Tie.M
variable {V : Type}

/-- **Generated = model for the code mapper.** -/
theorem generated_mapper (P : List (LPat V)) (hsz : tableLen P ≤ 4294967295) :
    pipeline (P.map (·.key)) = .ok ⟨(Mapper.build P).table, (Mapper.build P).alphaSize⟩ :=
  mapper_refines P hsz

/-- For `char` labels the scale hypothesis is vacuous. -/
theorem generated_mapper_char (P : List (LPat V)) (hch : ∀ p ∈ P, ∀ c ∈ p.key, c ≤ 0x10FFFF) :
    pipeline (P.map (·.key)) = .ok ⟨(Mapper.build P).table, (Mapper.build P).alphaSize⟩ :=
  mapper_refines_char P hch

/-- The translated counting loop never panics and computes the model's frequency array. -/
theorem generated_count (P : List (LPat V)) :
    countAll #[] (P.map (·.key)) = .ok (freqsOf (tableLen P) P) := count_eq P

/-- The translated `CodeMapper::new` on an arbitrary frequency vector below the `u32` scale. -/
theorem generated_new (freqs : Array Nat) (hsz : freqs.size ≤ 4294967295) :
    CodeMapper.new freqs =
      .ok ⟨(Mapper.ofFreqs freqs.size freqs).table, (Mapper.ofFreqs freqs.size freqs).alphaSize⟩ :=
  new_eq freqs hsz

/-- Consequence: the translated mapper is order-independent (C14) … -/
theorem generated_mapper_perm (P P' : List (LPat V)) (hp : P.Perm P')
    (hsz : tableLen P ≤ 4294967295) :
    pipeline (P.map (·.key)) = pipeline (P'.map (·.key)) := by
  rw [generated_mapper P hsz, generated_mapper P' (by rw [← tableLen_perm hp]; exact hsz),
    Mapper.build_perm hp]

/-- … and maps every character of every pattern to a code below the alphabet size. -/
theorem generated_mapper_maps (P : List (LPat V)) (hsz : tableLen P < 4294967295) :
    ∃ m, pipeline (P.map (·.key)) = .ok m ∧
      ∀ p ∈ P, ∀ c ∈ p.key, ∃ k, (⟨m.table, m.alphabet_size⟩ : Mapper).get c = some k ∧
        k < m.alphabet_size := by
  refine ⟨_, generated_mapper P (by omega), fun p hp c hc => ?_⟩
  obtain ⟨k, hk⟩ := mapper_maps_labels P hsz p hp c hc
  exact ⟨k, hk, (mapperOk_build' P).1 c k hk⟩

#print axioms generated_mapper
#print axioms generated_mapper_char
#print axioms generated_mapper_perm
#print axioms generated_mapper_maps
end Daac.Props.TieMapper

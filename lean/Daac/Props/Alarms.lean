/-
"No false alarm" theorems for the evaluated invariants.

Every check evaluates decidable invariants (`tableInv`, `leftmostInv`, `sizeInv`, `countInv`,
`boundsInv`; Daac/Inv.lean, Daac/InvExtra.lean) on the tables the implementation built and
reports an `INV` line when one is false. The Rung-1 theorems say what a `true` evaluation implies
(every search is correct on every haystack). The theorems below are the converse for the model
builder: on EVERY automaton `buildDA` returns — every pattern collection, match kind, variant and
`num_free_blocks` — each invariant evaluates to `true`. So whenever the implementation's tables
equal the model's (suite K-build), an invariant can not raise an alarm: an `INV` line on the
unchanged tree is impossible unless K-build also fails, and an `INV` line on changed code means
the tables really differ from what the verified model builds.
(Proofs/InvComplete.lean, Proofs/InvCompleteLm.lean, Proofs/Bounds2.lean.)
-/
import Daac.Proofs.InvComplete
import Daac.Proofs.InvCompleteLm
import Daac.Proofs.Bounds2
namespace Daac.Props.Alarms
open Daac
variable {V : Type} [DecidableEq V]

/-- Standard kind: `tableInv`, `sizeInv` and `countInv` hold of every model-built automaton. -/
theorem standard_invariants_hold (variant : Variant) (nfb : Nat) (P : List (LPat V)) (da : DA V)
    (hb : buildDA variant ⟨0, nfb⟩ P = .ok da) (hk : keysOk P)
    (hlabels : variant = .bytewise → ∀ p ∈ P, ∀ c ∈ p.key, c < 256) :
    da.tableInv P = true ∧ da.sizeInv P = true ∧ da.countInv P = true :=
  ⟨InvC.tableInv_of_build variant nfb P da hb hk hlabels,
   InvC.sizeInv_of_build variant nfb P da hb hk hlabels,
   InvC.countInv_of_build variant nfb P da hb hk hlabels⟩

/-- Leftmost-longest: `leftmostInv`, `sizeInv`, `countInv`. -/
theorem leftmost_longest_invariants_hold (variant : Variant) (nfb : Nat) (P : List (LPat V))
    (da : DA V) (hb : buildDA variant ⟨1, nfb⟩ P = .ok da) (hk : keysOk P)
    (hlabels : variant = .bytewise → ∀ p ∈ P, ∀ c ∈ p.key, c < 256) :
    da.leftmostInv P = true ∧ da.sizeInv P = true ∧ da.countInv P = true :=
  ⟨InvCLm.leftmostInv_of_build_ll variant nfb P da hb hk hlabels,
   InvCLm.sizeInv_of_build_ll variant nfb P da hb hk hlabels,
   InvC.countInv_of_build_ll variant nfb P da hb hk hlabels⟩

/-- Leftmost-first: the same for the retained (non-shadowed) patterns — the list the checks
evaluate the invariants with. -/
theorem leftmost_first_invariants_hold (variant : Variant) (nfb : Nat) (P : List (LPat V))
    (da : DA V) (hb : buildDA variant ⟨2, nfb⟩ P = .ok da) (hk : keysOk P)
    (hlabels : variant = .bytewise → ∀ p ∈ P, ∀ c ∈ p.key, c < 256) :
    da.leftmostInv (retainedL P) = true ∧ da.sizeInv (retainedL P) = true ∧
      da.countInv (retainedL P) = true :=
  ⟨InvCLm.leftmostInv_of_build_lf variant nfb P da hb hk hlabels,
   InvCLm.sizeInv_of_build_lf variant nfb P da hb hk hlabels,
   InvC.countInv_of_build_lf variant nfb P da hb hk hlabels⟩

/-- All kinds: `boundsInv` (the memory-safety invariant) holds of every model-built automaton. -/
theorem bounds_invariant_holds (variant : Variant) (cfg : Cfg) (P : List (LPat V)) (da : DA V)
    (hb : buildDA variant cfg P = .ok da) (hk : keysOk P)
    (hlabels : variant = .bytewise → ∀ p ∈ P, ∀ c ∈ p.key, c < 256) : da.boundsInv = true :=
  boundsInv_of_build variant cfg P da hb hk hlabels

end Daac.Props.Alarms

/-
Translation tie, the ENTRY POINT `build` of both builders — what Proofs/TieTopBuild buys.

`pub fn build<I, P, V>(self, patterns: I)` (src/bytewise/builder.rs, src/charwise/builder.rs):
    let patvals: Vec<_> = patterns.into_iter().enumerate()
        .map(|(i, p)| V::try_from(i).map(|i| (p, i))).collect::<Result<_, _>>()
        .map_err(|_| DaachorseError::invalid_conversion("index", "V"))?;
    self.build_with_values(patvals)
was the last builder function outside the translation.  tools/top2lean.py now matches its body token by
token against this chain on every run (any deviation: exit 2) and generates `TB.Builder.build` /
`TC.Builder.build` (Gen/BuildTopB.lean, Gen/BuildTopC.lean): `V::try_from` is a parameter
`conv : Nat → Option V`, the chain is the generated `enumTryCollect conv 0 patterns` (left to right, stops at
the first position that does not convert), its failure is the error kind of the constructor named in the
text, the tail call is the translated `build_with_values`.

What is tied: the collection step is the model's `convAll` on the (key, byte length) inputs of
`buildPositions` (`translated_collect_eq_convAll*`); it fails exactly when some position does not convert
(`translated_collect_none_iff`), and then both the translated `build` and the model fail with
`.invalidConversion` whatever the patterns are (`translated_build_invalidConversion_*`); and on every pattern
list within the `u32` scale the translated `build` and `buildPositions conv variant cfg` fail with the same
error kind or succeed with equal tables (`translated_build_eq_model_bytewise` / `_charwise`, composing with
Props/TieTop and Props/TieTopC).

Outside: the translator and the meaning it gives to the iterator chain (`enumTryCollect`, documented in the
header of tools/top2lean.py), `V::try_from` as a pure function of the position.
TODO: the converse "the result is `.invalidConversion` ONLY IF some position does not convert" needs
"`build_with_values` / `buildDA` never return `.invalidConversion`" (not proved here).
-/
import Daac.Proofs.TieTopBuild
namespace Daac.Props.TieTopBuild
open Daac Daac.Gen Daac.Tie.H Daac.Tie.F Daac.Tie.Top Daac.Tie.TopC Daac.Tie.TopBuild
variable {V : Type}

/-- The generated collection step of the byte-wise `build`, read at the label level, is the model's `convAll`. -/
theorem translated_collect_eq_convAll (conv : Nat → Option V) (pats : List (List Nat)) :
    (TB.enumTryCollect conv 0 pats).map toLPats = convAll conv 0 (keysB pats) :=
  collect_eq_convAll conv pats

/-- The same for the char-wise `build` (byte length = sum of the UTF-8 widths). -/
theorem translated_collect_eq_convAll_charwise (conv : Nat → Option V) (pats : List (List Nat)) :
    (TC.enumTryCollect conv 0 pats).map toLPatsC = convAll conv 0 (keysC pats) :=
  collect_eq_convAll_charwise conv pats

/-- The collection fails exactly when some position does not convert. -/
theorem translated_collect_none_iff (conv : Nat → Option V) (pats : List (List Nat)) :
    TB.enumTryCollect conv 0 pats = none ↔ ∃ j, j < pats.length ∧ conv (0 + j) = none :=
  collect_none_iff conv pats 0

/-- A position that does not convert: translated byte-wise `build` and model both fail with
`.invalidConversion`, before anything else is looked at (any builder, configuration, patterns). -/
theorem translated_build_invalidConversion_bytewise (conv : Nat → Option V) (b : LB.Builder) (variant : Variant)
    (cfg : Cfg) (pats : List (List Nat)) (h : ∃ j, j < pats.length ∧ conv j = none) :
    TB.Builder.build conv b pats = .error .invalidConversion ∧
    buildPositions conv variant cfg (keysB pats) = .error .invalidConversion :=
  build_invalidConversion_bytewise conv b variant cfg pats h

/-- The same for the translated char-wise `build`. -/
theorem translated_build_invalidConversion_charwise (conv : Nat → Option V) (b : LC.Builder) (variant : Variant)
    (cfg : Cfg) (pats : List (List Nat)) (h : ∃ j, j < pats.length ∧ conv j = none) :
    TC.Builder.build conv b pats = .error .invalidConversion ∧
    buildPositions conv variant cfg (keysC pats) = .error .invalidConversion :=
  build_invalidConversion_charwise conv b variant cfg pats h

/-- The translated byte-wise `build` (Gen/BuildTopB.lean) and the model `buildPositions conv .bytewise cfg` agree on
every list of byte patterns within the `u32` scale and every conversion `conv`: same error kind
(`.invalidConversion` first), or the same state table, the same `num_states`, `match_kind = kind` = the model's
kind, and related output records. -/
theorem translated_build_eq_model_bytewise (conv : Nat → Option V)
    (kind : Nat) (cfg : Cfg) (pats : List (List Nat))
    (hk : kind ≤ 2) (hkind : cfg.kind = kind) (hnfb : 1 ≤ cfg.nfb)
    (hbytes : ∀ p ∈ pats, ∀ c ∈ p, c < 256)
    (hsz : 2 + (pats.map (·.length)).sum ≤ 4294967295) :
    match TB.Builder.build conv ⟨#[], kind, cfg.nfb⟩ pats, buildPositions conv .bytewise cfg (keysB pats) with
    | .error e, .error e' => norm (.error e : Except BuildErr Unit) = norm (.error e')
    | .ok a, .ok da => a.states = da.states ∧ a.num_states = da.numStates ∧ a.match_kind = kind ∧
        a.match_kind = da.kind ∧ OutsRel a.outputs da.outputs
    | _, _ => False :=
  generated_build_eq_buildPositions_bytewise conv kind cfg pats hk hkind hnfb hbytes hsz

/-- The translated char-wise `build` (Gen/BuildTopC.lean) and the model `buildPositions conv .charwise cfg` agree on
every list of patterns (lists of Unicode scalar values) within the `u32` scale and every conversion `conv`: same
error kind (`.invalidConversion` first), or the same state table, `num_states`, code-mapper table and alphabet
size, `match_kind = kind` = the model's kind, and related output records. -/
theorem translated_build_eq_model_charwise (conv : Nat → Option V)
    (kind : Nat) (cfg : Cfg) (m0 : Mapper) (pats : List (List Nat))
    (hk : kind ≤ 2) (hkind : cfg.kind = kind) (hnfb : 1 ≤ cfg.nfb)
    (hch : ∀ p ∈ pats, ∀ c ∈ p, c ≤ 0x10FFFF)
    (hsz : 2 + (pats.map (·.length)).sum ≤ 4294967295)
    (hbl : ∀ p ∈ pats, (p.map Rs.lenUtf8).sum ≤ 4294967295) :
    match TC.Builder.build conv ⟨#[], m0, kind, 0, cfg.nfb⟩ pats, buildPositions conv .charwise cfg (keysC pats) with
    | .error e, .error e' => norm (.error e : Except BuildErr Unit) = norm (.error e')
    | .ok a, .ok da => a.states = da.states ∧ a.num_states = da.numStates ∧
        a.mapper.table = da.mapTable ∧ a.mapper.alphaSize = da.alphaSize ∧
        a.match_kind = kind ∧ a.match_kind = da.kind ∧ OutsRel a.outputs da.outputs
    | _, _ => False :=
  generated_build_eq_buildPositions_charwise conv kind cfg m0 pats hk hkind hnfb hch hsz hbl

end Daac.Props.TieTopBuild

#print axioms Daac.Props.TieTopBuild.translated_collect_eq_convAll
#print axioms Daac.Props.TieTopBuild.translated_build_invalidConversion_bytewise
#print axioms Daac.Props.TieTopBuild.translated_build_eq_model_bytewise
#print axioms Daac.Props.TieTopBuild.translated_build_eq_model_charwise

/-
`Fresh`: an invariant of the translated insertion code (`NfaBuilder::{new, add}` of Daac/Gen/Nfa.lean),
independent of `Tie.N.Rep`: the insertion phase writes nothing but `edges` / `output` (and pushes
default states), so every `fail` is still `ROOT_STATE_ID`, every `output_pos` is `None` and `outputs`
is empty.  Also: the queue of a built trie with at least one registered pattern is non-empty.
-/
import Daac.Proofs.TieFBase
namespace Daac.Tie.F
open Daac Daac.Gen Daac.Gen.N Daac.Tie.N
variable {V : Type}

/-- every state still has the default `fail` / `output_pos` -/
def FreshSt (st : Array (NfaBuilderState V)) : Prop :=
  ∀ (i : Nat) (s : NfaBuilderState V), st[i]? = some s → s.fail = Gen.rootStateId ∧ s.output_pos = none

/-- nothing but `edges` / `output` has been written yet -/
def Fresh (g : NfaBuilder V) : Prop :=
  (∀ (i : Nat) (s : NfaBuilderState V), g.states[i]? = some s → s.fail = Gen.rootStateId ∧ s.output_pos = none) ∧
  g.outputs = #[]

theorem FreshSt.set {st : Array (NfaBuilderState V)} (h : FreshSt st) (id : Nat) (x : NfaBuilderState V)
    (hx : x.fail = Gen.rootStateId ∧ x.output_pos = none) : FreshSt (st.setIfInBounds id x) := by
  intro i s hs
  rw [Array.getElem?_setIfInBounds] at hs
  split at hs
  · split at hs
    · cases hs; exact hx
    · cases hs
  · exact h i s hs

theorem FreshSt.push {st : Array (NfaBuilderState V)} (h : FreshSt st) :
    FreshSt (st.push NfaBuilderState.default) := by
  intro i s hs
  rw [Array.getElem?_push] at hs
  split at hs
  · cases hs; exact ⟨rfl, rfl⟩
  · exact h i s hs

theorem new_fresh (kind : Nat) : Fresh (NfaBuilder.new kind : NfaBuilder V) := by
  refine ⟨?_, rfl⟩
  have h0 : FreshSt (#[] : Array (NfaBuilderState V)) := by
    intro i s hs; simp at hs
  exact (h0.push).push

theorem index_some {α : Type} {a : Array α} {i : Nat} {s : α} (h : Rs.index a i = .ok s) : a[i]? = some s := by
  unfold Rs.index at h
  split at h
  · cases h; assumption
  · cases h

/-- the `None` arm of the edge lookup: write the new edge, push a default state, continue -/
theorem fresh_new_step {g : NfaBuilder V} (hf : Fresh g) (id c n : Nat) (s : NfaBuilderState V)
    (hs : g.states[id]? = some s) :
    Fresh { g with states := (g.states.setIfInBounds id { s with edges := Rs.EdgeMap.insert s.edges c n }).push NfaBuilderState.default } := by
  refine ⟨?_, hf.2⟩
  have h1 : FreshSt g.states := hf.1
  exact (h1.set id { s with edges := Rs.EdgeMap.insert s.edges c n } (hf.1 id s hs)).push

theorem loop_fresh (pat : List Nat) (v : V) (pl : Nat) : (cs : List Nat) → (g g' : NfaBuilder V) → (id : Nat) →
    (u : Unit) → NfaBuilder.add.loop0 pat v pl cs g id = .ok (u, g') → Fresh g →
    Fresh g' ∧ g'.states.size ≤ g.states.size + cs.length ∧ g'.match_kind = g.match_kind
  | [], g, g', id, u, h, hf => by
    simp only [NfaBuilder.add.loop0] at h
    split at h
    · cases h
    · rename_i s hs
      have hs := index_some hs
      split at h
      · cases h
      · cases h
        refine ⟨⟨?_, hf.2⟩, by simp, rfl⟩
        have h1 : FreshSt g.states := hf.1
        exact h1.set id { s with output := some (v, pl) } (hf.1 id s hs)
  | c :: cs, g, g', id, u, h, hf => by
    have hnew : ∀ (n : Nat) (s : NfaBuilderState V), g.states[id]? = some s →
        NfaBuilder.add.loop0 pat v pl cs
          { g with states := (g.states.setIfInBounds id { s with edges := Rs.EdgeMap.insert s.edges c n }).push NfaBuilderState.default }
          n = .ok (u, g') →
        Fresh g' ∧ g'.states.size ≤ g.states.size + (c :: cs).length ∧ g'.match_kind = g.match_kind := by
      intro n s hs h
      have ih := loop_fresh pat v pl cs _ g' n u h (fresh_new_step hf id c n s hs)
      refine ⟨ih.1, ?_, ih.2.2⟩
      have := ih.2.1
      simp at this ⊢
      omega
    have hfound : ∀ (n : Nat), NfaBuilder.add.loop0 pat v pl cs g n = .ok (u, g') →
        Fresh g' ∧ g'.states.size ≤ g.states.size + (c :: cs).length ∧ g'.match_kind = g.match_kind := by
      intro n h
      have ih := loop_fresh pat v pl cs g g' n u h hf
      refine ⟨ih.1, ?_, ih.2.2⟩
      have := ih.2.1
      simp at this ⊢
      omega
    simp only [NfaBuilder.add.loop0] at h
    split at h
    · split at h
      · cases h
      · rename_i s3 hs3
        split at h
        · split at h
          · cases h
          · split at h
            · simp at h
            · split at h
              · cases h
              · cases h
                exact ⟨⟨hf.1, hf.2⟩, by simp, rfl⟩
        · split at h
          · cases h
          · split at h
            · exact hfound _ h
            · split at h
              · split at h
                · cases h
                · rename_i s hs
                  cases hs
                  exact hnew _ _ (index_some hs3) h
              · cases h
    · split at h
      · cases h
      · split at h
        · exact hfound _ h
        · split at h
          · split at h
            · cases h
            · rename_i s hs
              exact hnew _ s (index_some hs) h
          · cases h

theorem add_fresh (nb : Nat → Nat) (g g' : NfaBuilder V) (p : List Nat) (v : V) (u : Unit)
    (h : NfaBuilder.add nb g p v = .ok (u, g')) (hf : Fresh g) :
    Fresh g' ∧ g'.states.size ≤ g.states.size + p.length ∧ g'.match_kind = g.match_kind := by
  simp only [NfaBuilder.add] at h
  split at h
  · cases h
  · split at h
    · cases h
    · exact loop_fresh p v _ p g g' _ u h hf

theorem addAllGen_fresh (nb : Nat → Nat) : (ps : List (LPat V)) → (g g' : NfaBuilder V) →
    addAllGen nb g ps = .ok g' → Fresh g →
    Fresh g' ∧ g'.states.size ≤ g.states.size + (ps.map (·.key.length)).sum ∧ g'.match_kind = g.match_kind
  | [], g, g', h, hf => by
    simp only [addAllGen] at h
    cases h
    exact ⟨hf, by simp, rfl⟩
  | p :: ps, g, g', h, hf => by
    simp only [addAllGen] at h
    split at h
    · cases h
    · rename_i u g1 hadd
      have h1 := add_fresh nb g g1 p.key p.value u hadd hf
      have h2 := addAllGen_fresh nb ps g1 g' h h1.1
      refine ⟨h2.1, ?_, by rw [h2.2.2, h1.2.2]⟩
      have a := h1.2.1
      have b := h2.2.1
      simp only [List.map_cons, List.sum_cons]
      omega

/-! ### The queue of a built trie is non-empty -/

/-- a successful insertion keeps every root child and, for a non-empty key, creates/keeps the child
labelled by the key's first label -/
theorem insert_root_child (lf : Bool) (o : V × Nat) (t t' : Trie V) (key : List Nat)
    (h : Trie.insert lf o t key = .ok t') :
    (∀ c, (t.kids.find? c).isSome = true → (t'.kids.find? c).isSome = true) ∧
    (∀ c cs, key = c :: cs → (t'.kids.find? c).isSome = true) := by
  cases t with
  | node out kids =>
    cases key with
    | nil =>
      simp only [Trie.insert] at h
      split at h
      · cases h
      · cases h
        exact ⟨fun c hc => hc, fun c cs e => by cases e⟩
    | cons c cs =>
      simp only [Trie.insert] at h
      split at h
      · cases h
      · split at h
        · cases h
          refine ⟨fun c' hc' => ?_, fun c' cs' e => ?_⟩
          · by_cases e : c' = c
            · subst e; simp [Trie.kids, Kids.find?_set_self]
            · simpa [Trie.kids, Kids.find?_set_ne _ _ _ _ e] using hc'
          · cases e; simp [Trie.kids, Kids.find?_set_self]
        · cases h
        · cases h

/-- the invariant of the fold: once a pattern has been registered the root has a child -/
def HasKid (a : NfaAcc V) : Prop := a.len ≠ 0 → ∃ c, (a.trie.kids.find? c).isSome = true

theorem add_hasKid (lf : Bool) (a a' : NfaAcc V) (p : LPat V) (h : a.add lf p = .ok a')
    (hk : p.key = [] → p.blen = 0) (hj : HasKid a) : HasKid a' := by
  unfold NfaAcc.add at h
  split at h
  · cases h
  · rename_i hb
    split at h
    · rename_i t hi
      cases h
      intro _
      cases hkey : p.key with
      | nil => exact absurd (hk hkey) hb
      | cons c cs => exact ⟨c, (insert_root_child lf _ _ _ _ hi).2 c cs hkey⟩
    · cases h
    · split at h
      · cases h
      · cases h
        exact hj

theorem addAll_hasKid (lf : Bool) : (ps : List (LPat V)) → (a a' : NfaAcc V) → a.addAll lf ps = .ok a' →
    (∀ p ∈ ps, p.key = [] → p.blen = 0) → HasKid a → HasKid a'
  | [], a, a', h, _, hj => by
    simp only [NfaAcc.addAll] at h
    cases h
    exact hj
  | p :: ps, a, a', h, hk, hj => by
    simp only [NfaAcc.addAll] at h
    split at h
    · cases h
    · rename_i a1 h1
      exact addAll_hasKid lf ps a1 a' h (fun q hq => hk q (by simp [hq]))
        (add_hasKid lf a a1 p h1 (hk p (by simp)) hj)

/-- the BFS queue of a trie into which at least one pattern has been registered is non-empty -/
theorem queue_ne_nil_of_len (lf : Bool) (ps : List (LPat V)) (a : NfaAcc V)
    (h : (NfaAcc.init : NfaAcc V).addAll lf ps = .ok a) (hk : ∀ p ∈ ps, p.key = [] → p.blen = 0)
    (hl : a.len ≠ 0) : a.trie.queue ≠ [] := by
  have hj : HasKid a := addAll_hasKid lf ps NfaAcc.init a h hk (fun h0 => absurd rfl h0)
  obtain ⟨c, hc⟩ := hj hl
  have hm : [c] ∈ a.trie.queue := by
    rw [Trie.mem_queue]
    refine ⟨?_, by simp⟩
    simp only [Trie.hasNode, Trie.walk_singleton]
    exact hc
  intro e
  rw [e] at hm
  cases hm

/-- the same, from the `keysOk` hypothesis of Daac/Proofs/TrieFacts.lean -/
theorem queue_ne_nil_of_keysOk (lf : Bool) (ps : List (LPat V)) (a : NfaAcc V)
    (h : (NfaAcc.init : NfaAcc V).addAll lf ps = .ok a) (hk : keysOk ps)
    (hl : a.len ≠ 0) : a.trie.queue ≠ [] :=
  queue_ne_nil_of_len lf ps a h (fun p hp e => (hk p hp).2 e) hl

/-- in terms of `buildTrie` -/
theorem buildTrie_queue_ne_nil (kind : Nat) (ps : List (LPat V)) (t : Trie V)
    (h : buildTrie kind ps = .ok t) (hk : ∀ p ∈ ps, p.key = [] → p.blen = 0) : t.queue ≠ [] := by
  unfold buildTrie at h
  split at h
  · cases h
  · rename_i a ha
    split at h
    · cases h
    · rename_i hl
      cases h
      exact queue_ne_nil_of_len (kind == 2) ps a ha hk hl

end Daac.Tie.F

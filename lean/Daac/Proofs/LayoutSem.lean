/-
From the layout interface `LayoutSem` (the double array mirrors the sparse NFA) and the NFA-level
theorems of Props/Builder.lean to the semantic interfaces of Rung 1:
  * `stdSem_of_layout` : `StdSem da P`  (standard kind, `nfa = buildNfa t false`)
  * `lmSem_of_layout`  : `LmSem da P`   (leftmost kinds, `nfa = buildNfa t true`)
Hypotheses besides `LayoutSem`: `TrieSem t P`, `t.Sorted`, every label of a node is `LabelOk`
(bytes for the byte-wise variant, anything for the char-wise one), and the depth bound that makes
the model's loop fuel `states.size + 1` sufficient.
-/
import Daac.Proofs.LayoutIface
import Daac.Props.Builder
import Daac.Proofs.StdSem2
import Daac.Proofs.LmIface
import Daac.Proofs.LmSem
namespace Daac
variable {V : Type}

/-! ### A. The abstract index is the walk-based index -/

theorem hasNode_of_snoc {t : Trie V} {P : List (LPat V)} (hS : TrieSem t P) {u : List Nat} {c : Nat}
    (h : t.hasNode (u ++ [c]) = true) : t.hasNode u = true := by
  classical
  exact (hS.nodes u).2 ((nodeList_prefClosed P).closed u c ((hS.nodes _).1 h))

theorem walk_eq_idx {da : DA V} {t : Trie V} {nfa : Nfa V} {idx : List Nat → Nat}
    {P : List (LPat V)} (hL : LayoutSem da t nfa idx) (hS : TrieSem t P)
    (hlab : ∀ u, t.hasNode u = true → ∀ c ∈ u, LabelOk da c) :
    ∀ u, t.hasNode u = true → da.walk u = some (idx u) := by
  classical
  suffices H : ∀ (n : Nat) (u : List Nat), u.length = n → t.hasNode u = true →
      da.walk u = some (idx u) from fun u => H u.length u rfl
  intro n
  induction n with
  | zero =>
    intro u hlen _
    have : u = [] := List.eq_nil_of_length_eq_zero hlen
    subst this
    simp [DA.walk, DA.walkFrom, hL.root]
  | succ n ih' =>
    intro u' hlen h
    rcases List.eq_nil_or_concat u' with h0 | ⟨u, c, huc⟩
    · subst h0; simp at hlen
    rw [List.concat_eq_append] at huc
    subst huc
    have ih := ih' u (by simp at hlen; omega)
    have hu := hasNode_of_snoc hS h
    have hc : LabelOk da c := hlab _ h c (by simp)
    have hch := hL.child u hu c hc
    rw [if_pos h] at hch
    have hw := ih hu
    unfold DA.walk at hw ⊢
    rw [walkFrom_append, hw]
    simp [DA.walkFrom, hch]

theorem idx_eq_walk {da : DA V} {t : Trie V} {nfa : Nfa V} {idx : List Nat → Nat}
    {P : List (LPat V)} (hL : LayoutSem da t nfa idx) (hS : TrieSem t P)
    (hlab : ∀ u, t.hasNode u = true → ∀ c ∈ u, LabelOk da c) :
    ∀ u, t.hasNode u = true → da.idx u = idx u := by
  intro u hu
  simp [DA.idx, walk_eq_idx hL hS hlab u hu]

theorem idx_eq_of_mem {da : DA V} {t : Trie V} {nfa : Nfa V} {idx : List Nat → Nat}
    {P : List (LPat V)} (hL : LayoutSem da t nfa idx) (hS : TrieSem t P)
    (hlab : ∀ u, t.hasNode u = true → ∀ c ∈ u, LabelOk da c) {u : List Nat}
    (hu : u ∈ nodeList P) : da.idx u = idx u :=
  idx_eq_walk hL hS hlab u ((hS.nodes u).2 hu)

/-! ### Facts shared by both kinds -/

theorem rootIdx_ne_deadIdx : rootIdx ≠ deadIdx := by decide

theorem layout_idx_root_iff {da : DA V} {t : Trie V} {nfa : Nfa V} {idx : List Nat → Nat}
    (hL : LayoutSem da t nfa idx) {u : List Nat} (hu : t.hasNode u = true) :
    idx u = rootIdx ↔ u = [] := by
  constructor
  · intro h
    apply Classical.byContradiction
    intro hne
    exact (hL.nonroot u hu hne).1 h
  · rintro rfl; exact hL.root

theorem layout_idx_ne_dead {da : DA V} {t : Trie V} {nfa : Nfa V} {idx : List Nat → Nat}
    (hL : LayoutSem da t nfa idx) {u : List Nat} (hu : t.hasNode u = true) :
    idx u ≠ deadIdx := by
  by_cases h : u = []
  · subst h; rw [hL.root]; exact rootIdx_ne_deadIdx
  · exact (hL.nonroot u hu h).2

theorem nil_mem_nodeList_ls (P : List (LPat V)) : [] ∈ nodeList P := by
  classical
  exact (nodeList_prefClosed P).nil_mem

/-- No node ends in an unmapped label, so the longest node suffix of `u ++ [c]` is the root. -/
theorem lsuf_snoc_of_code_none {da : DA V} {t : Trie V} {nfa : Nfa V} {idx : List Nat → Nat}
    {P : List (LPat V)} (hL : LayoutSem da t nfa idx) (hS : TrieSem t P)
    (u : List Nat) {c : Nat} (hcc : da.code c = none) :
    lsuf (nodeList P) (u ++ [c]) = [] := by
  classical
  have hN := nodeList_prefClosed P
  obtain ⟨a, b, _⟩ := lsuf_spec hN.nil_mem (u ++ [c])
  rcases List.suffix_concat_iff.1 a with h0 | ⟨w, hw, _⟩
  · exact h0
  · exfalso
    rw [hw] at b
    have hwc : t.hasNode (w ++ [c]) = true := (hS.nodes _).2 b
    have hwn : t.hasNode w = true := hasNode_of_snoc hS hwc
    have hch := hL.child w hwn c (Or.inr hcc)
    rw [if_pos hwc, childL_of_code_none _ hcc] at hch
    cases hch

theorem child_eq_childL {da : DA V} {c cc : Nat} (hcc : da.code c = some cc) (i : Nat) :
    da.child i cc = da.childL i c := by
  simp [DA.childL, hcc]

/-! ### B. Standard kind -/

theorem nextLoop_layout {da : DA V} {t : Trie V} {idx : List Nat → Nat} {P : List (LPat V)}
    (hL : LayoutSem da t (buildNfa t false) idx) (hS : TrieSem t P) {c cc : Nat}
    (hc : LabelOk da c) (hcc : da.code c = some cc) :
    ∀ (fuel : Nat) (u : List Nat), u ∈ nodeList P → u.length < fuel → ∀ k,
      ∃ k', da.nextLoop fuel (idx u) cc k = .ok (idx (lsuf (nodeList P) (u ++ [c])), k') := by
  classical
  intro fuel
  induction fuel with
  | zero => intro u _ h; exact absurd h (Nat.not_lt_zero _)
  | succ fuel ih =>
    intro u hu hlen k
    have hN := nodeList_prefClosed P
    have hun : t.hasNode u = true := (hS.nodes u).2 hu
    have hch := hL.child u hun c hc
    unfold DA.nextLoop
    rw [child_eq_childL hcc, hch]
    by_cases hm : t.hasNode (u ++ [c]) = true
    · rw [if_pos hm]
      refine ⟨k + 1, ?_⟩
      rw [lsuf_mem_self ((hS.nodes _).1 hm) hN.nil_mem]
    · rw [if_neg hm]
      have hnot : u ++ [c] ∉ nodeList P := fun h => hm ((hS.nodes _).2 h)
      by_cases hroot : idx u = rootIdx
      · have hu0 : u = [] := (layout_idx_root_iff hL hun).1 hroot
        subst hu0
        refine ⟨k + 1, ?_⟩
        simp only [hroot, if_true]
        have : lsuf (nodeList P) ([] ++ [c]) = [] := by
          simp only [List.nil_append] at hnot ⊢
          rw [lsuf_cons_of_not_mem hnot, lsuf_nil]
        rw [this, hL.root]
      · have hu0 : u ≠ [] := fun h => hroot ((layout_idx_root_iff hL hun).2 h)
        obtain ⟨st, hst, _, hfail⟩ := hL.node u hun
        have hfail := hfail hu0
        simp only [buildNfa] at hfail
        rw [Props.Builder.fails_std t P hS u hu] at hfail
        simp only at hfail
        simp only [hroot, if_false, hst]
        rw [hfail, lsuf_fail hN u c hu0 hnot]
        obtain ⟨hv, hvl⟩ := lps_mem_lt (P := P) hu0
        exact ih _ hv (by omega) (k + 1)

theorem next_ok_of_layout {da : DA V} {t : Trie V} {idx : List Nat → Nat} {P : List (LPat V)}
    (hL : LayoutSem da t (buildNfa t false) idx) (hS : TrieSem t P)
    (hlab : ∀ u, t.hasNode u = true → ∀ c ∈ u, LabelOk da c)
    (hD : ∀ u, t.hasNode u = true → u.length < da.states.size) :
    ∀ u ∈ nodeList P, ∀ c, LabelOk da c →
      da.next (da.idx u) c = .ok (da.idx (lsuf (nodeList P) (u ++ [c]))) := by
  classical
  intro u hu c hc
  have hN := nodeList_prefClosed P
  obtain ⟨_, b, _⟩ := lsuf_spec hN.nil_mem (u ++ [c])
  rw [idx_eq_of_mem hL hS hlab hu, idx_eq_of_mem hL hS hlab b]
  cases hcc : da.code c with
  | none =>
    rw [lsuf_snoc_of_code_none hL hS u hcc, hL.root]
    simp [DA.next, DA.nextS, hcc, Except.map]
  | some cc =>
    have hlen : u.length < da.fuel := by
      have := hD u ((hS.nodes u).2 hu)
      unfold DA.fuel; omega
    obtain ⟨k', hk'⟩ := nextLoop_layout hL hS hc hcc da.fuel u hu hlen 0
    simp [DA.next, DA.nextS, hcc, hk', Except.map]

/-- A fuel-bounded chain walk over the output table is an inductive chain. -/
theorem chainIs_of_chainList {da : DA V}
    (hpar : ∀ i o, da.outputs[i]? = some o → o.parent < i + 1) :
    ∀ (fuel p : Nat), p ≤ fuel → p ≤ da.outputs.size →
      ChainIs da p (chainList da.outputs fuel p) := by
  intro fuel
  induction fuel with
  | zero =>
    intro p h _
    have : p = 0 := by omega
    subst this
    rw [chainList_zero]; exact ChainIs.nil
  | succ fuel ih =>
    intro p h1 h2
    by_cases hp : p = 0
    · subst hp; rw [chainList_zero]; exact ChainIs.nil
    · have hlt : p - 1 < da.outputs.size := by omega
      have ho : da.outputs[p - 1]? = some da.outputs[p - 1] := Array.getElem?_eq_getElem hlt
      rw [chainList_succ hp ho]
      have hpl := hpar _ _ ho
      have hout : da.out p = .ok da.outputs[p - 1] := by
        simp [DA.out, hp, ho]
      exact ChainIs.cons hp hout (ih _ (by omega) (by omega))

theorem chain_ok_of_layout {da : DA V} {t : Trie V} {idx : List Nat → Nat} {P : List (LPat V)}
    (hL : LayoutSem da t (buildNfa t false) idx) (hS : TrieSem t P) (hsort : t.Sorted)
    (hlab : ∀ u, t.hasNode u = true → ∀ c ∈ u, LabelOk da c) :
    ∀ u ∈ nodeList P, ∃ st, da.st (da.idx u) = .ok st ∧
      ChainIs da st.opos ((sufLPats P u).map (fun p => (p.value, p.blen))) := by
  intro u hu
  have hun : t.hasNode u = true := (hS.nodes u).2 hu
  obtain ⟨st, hst, hop, _⟩ := hL.node u hun
  refine ⟨st, by rw [idx_eq_of_mem hL hS hlab hu]; exact hst, ?_⟩
  obtain ⟨hchain, _, hpar⟩ := Props.Builder.outputs_std t P hS hsort
  have hout : da.outputs = (buildOutAcc t (buildFailMap t false)).outs := hL.outputs
  simp only [buildNfa] at hop
  rw [← hchain u hu, hop, ← hout]
  apply chainIs_of_chainList
  · rw [hout]; exact hpar
  · have := oposStd_le hS hsort u
    rw [hout]; omega
  · rw [hout]; exact oposStd_le hS hsort u

/-- Standard kind: a table that mirrors the NFA of `buildNfa t false` has the Rung-1 semantics. -/
theorem stdSem_of_layout {da : DA V} {t : Trie V} {idx : List Nat → Nat} {P : List (LPat V)}
    (hL : LayoutSem da t (buildNfa t false) idx) (hS : TrieSem t P) (hsort : t.Sorted)
    (hlab : ∀ u, t.hasNode u = true → ∀ c ∈ u, LabelOk da c)
    (hD : ∀ u, t.hasNode u = true → u.length < da.states.size) : StdSem da P where
  root := rfl
  next_ok := next_ok_of_layout hL hS hlab hD
  chain_ok := chain_ok_of_layout hL hS hsort hlab

/-! ### C. Leftmost kinds -/

/-- A non-dead leftmost fail link is the ordinary one. -/
theorem failChar_node {P : List (LPat V)} {fm : FailMap} (hF : FailChar P fm) {u f : List Nat}
    (hu : u ∈ nodeList P) (hu0 : u ≠ []) (hf : fm.get u = .node f) :
    f = lps (nodeList P) u := by
  have h := hF u hu hu0
  rw [hf] at h
  split at h
  · split at h
    · cases h
    · cases h; rfl
  · cases h; rfl

theorem nextLoopLm_layout {da : DA V} {t : Trie V} {idx : List Nat → Nat} {P : List (LPat V)}
    (hL : LayoutSem da t (buildNfa t true) idx) (hS : TrieSem t P) (hsort : t.Sorted) {c cc : Nat}
    (hc : LabelOk da c) (hcc : da.code c = some cc) :
    ∀ (fuel : Nat) (u : List Nat), u ∈ nodeList P → u.length < fuel → ∀ k,
      ∃ k', da.nextLoopLm fuel (idx u) cc k
        = .ok (idx (nfaNextLm t (buildFailMap t true) fuel u c), k') := by
  classical
  intro fuel
  induction fuel with
  | zero => intro u _ h; exact absurd h (Nat.not_lt_zero _)
  | succ fuel ih =>
    intro u hu hlen k
    have hun : t.hasNode u = true := (hS.nodes u).2 hu
    have hch := hL.child u hun c hc
    unfold DA.nextLoopLm nfaNextLm
    rw [child_eq_childL hcc, hch]
    by_cases hm : t.hasNode (u ++ [c]) = true
    · rw [if_pos hm, if_pos hm]
      exact ⟨k + 1, rfl⟩
    · rw [if_neg hm, if_neg hm]
      by_cases hroot : idx u = rootIdx
      · have hu0 : u = [] := (layout_idx_root_iff hL hun).1 hroot
        refine ⟨k + 1, ?_⟩
        simp only [if_true, hu0, hL.root]
      · have hu0 : u ≠ [] := fun h => hroot ((layout_idx_root_iff hL hun).2 h)
        obtain ⟨st, hst, _, hfail⟩ := hL.node u hun
        have hfail := hfail hu0
        simp only [buildNfa] at hfail
        simp only [hroot, if_false, hst, hu0]
        cases hf : (buildFailMap t true).get u with
        | dead =>
          rw [hf] at hfail
          simp only at hfail
          refine ⟨k + 1, ?_⟩
          simp only [hfail, if_true, hL.root]
        | node f =>
          rw [hf] at hfail
          simp only at hfail
          have hfe := failChar_node (Props.Builder.fails_leftmost t P hS hsort) hu hu0 hf
          obtain ⟨hv, hvl⟩ := lps_mem_lt (P := P) hu0
          rw [← hfe] at hv hvl
          have hnd : idx f ≠ deadIdx := layout_idx_ne_dead hL ((hS.nodes f).2 hv)
          simp only [hfail, hnd, if_false]
          exact ih f hv (by omega) (k + 1)

theorem deltaL_of_lsuf_nil {P : List (LPat V)} {u : List Nat} {c : Nat}
    (h : lsuf (nodeList P) (u ++ [c]) = []) : deltaL P u c = [] := by
  unfold deltaL
  rw [h]
  cases hb : bestIn P u 0 with
  | none => rfl
  | some sp =>
    obtain ⟨s, p⟩ := sp
    simp

theorem nextLm_ok_of_layout {da : DA V} {t : Trie V} {idx : List Nat → Nat} {P : List (LPat V)}
    (hL : LayoutSem da t (buildNfa t true) idx) (hS : TrieSem t P) (hsort : t.Sorted)
    (hlab : ∀ u, t.hasNode u = true → ∀ c ∈ u, LabelOk da c)
    (hD : ∀ u, t.hasNode u = true → u.length < da.states.size) :
    ∀ u ∈ nodeList P, ∀ c, LabelOk da c →
      da.nextLm (da.idx u) c = .ok (da.idx (deltaL P u c)) := by
  classical
  intro u hu c hc
  rw [idx_eq_of_mem hL hS hlab hu, idx_eq_of_mem hL hS hlab (delta_node_of_nodeList P u c)]
  cases hcc : da.code c with
  | none =>
    rw [deltaL_of_lsuf_nil (lsuf_snoc_of_code_none hL hS u hcc), hL.root]
    simp [DA.nextLm, DA.nextLmS, hcc, Except.map]
  | some cc =>
    have hlen : u.length < da.fuel := by
      have := hD u ((hS.nodes u).2 hu)
      unfold DA.fuel; omega
    obtain ⟨k', hk'⟩ := nextLoopLm_layout hL hS hsort hc hcc da.fuel u hu hlen 0
    rw [Props.Builder.transition_leftmost t P hS hsort u hu c da.fuel hlen] at hk'
    simp [DA.nextLm, DA.nextLmS, hcc, hk', Except.map]

theorem out_ok_of_layout {da : DA V} {t : Trie V} {idx : List Nat → Nat} {P : List (LPat V)}
    (hL : LayoutSem da t (buildNfa t true) idx) (hS : TrieSem t P) (hsort : t.Sorted)
    (hlab : ∀ u, t.hasNode u = true → ∀ c ∈ u, LabelOk da c) :
    ∀ u ∈ nodeList P, ∃ st, da.st (da.idx u) = .ok st ∧
      (match oposL P u with
       | some p => st.opos ≠ 0 ∧ ∃ o, da.out st.opos = .ok o ∧ o.value = p.value ∧ o.length = p.blen
       | none => st.opos = 0) := by
  intro u hu
  have hun : t.hasNode u = true := (hS.nodes u).2 hu
  obtain ⟨st, hst, hop, _⟩ := hL.node u hun
  refine ⟨st, by rw [idx_eq_of_mem hL hS hlab hu]; exact hst, ?_⟩
  have hout : da.outputs = (buildOutAcc t (buildFailMap t true)).outs := hL.outputs
  simp only [buildNfa] at hop
  have h := Props.Builder.outputs_leftmost t P hS hsort u hu
  rw [← hop, ← hout] at h
  cases ho : oposL P u with
  | none => rw [ho] at h; exact h
  | some p =>
    rw [ho] at h
    obtain ⟨h0, o, hoo, hv, hl⟩ := h
    refine ⟨h0, o, ?_, hv, hl⟩
    simp [DA.out, h0, hoo]

/-- Leftmost kinds: a table that mirrors the NFA of `buildNfa t true` has the Rung-1 semantics. -/
theorem lmSem_of_layout {da : DA V} {t : Trie V} {idx : List Nat → Nat} {P : List (LPat V)}
    (hL : LayoutSem da t (buildNfa t true) idx) (hS : TrieSem t P) (hsort : t.Sorted)
    (hlab : ∀ u, t.hasNode u = true → ∀ c ∈ u, LabelOk da c)
    (hD : ∀ u, t.hasNode u = true → u.length < da.states.size) : LmSem da P where
  root := rfl
  idx_root_iff := fun u hu => by
    rw [idx_eq_of_mem hL hS hlab hu]
    exact layout_idx_root_iff hL ((hS.nodes u).2 hu)
  next_ok := nextLm_ok_of_layout hL hS hsort hlab hD
  delta_node := fun u _ c => by
    classical
    exact delta_node_of_nodeList P u c
  out_ok := out_ok_of_layout hL hS hsort hlab

/-- Variants with the NFA as a variable and an equation. -/
theorem stdSem_of_layout' {da : DA V} {t : Trie V} {nfa : Nfa V} {idx : List Nat → Nat}
    {P : List (LPat V)} (hnfa : nfa = buildNfa t false)
    (hL : LayoutSem da t nfa idx) (hS : TrieSem t P) (hsort : t.Sorted)
    (hlab : ∀ u, t.hasNode u = true → ∀ c ∈ u, LabelOk da c)
    (hD : ∀ u, t.hasNode u = true → u.length < da.states.size) : StdSem da P := by
  subst hnfa; exact stdSem_of_layout hL hS hsort hlab hD

theorem lmSem_of_layout' {da : DA V} {t : Trie V} {nfa : Nfa V} {idx : List Nat → Nat}
    {P : List (LPat V)} (hnfa : nfa = buildNfa t true)
    (hL : LayoutSem da t nfa idx) (hS : TrieSem t P) (hsort : t.Sorted)
    (hlab : ∀ u, t.hasNode u = true → ∀ c ∈ u, LabelOk da c)
    (hD : ∀ u, t.hasNode u = true → u.length < da.states.size) : LmSem da P := by
  subst hnfa; exact lmSem_of_layout hL hS hsort hlab hD

#print axioms idx_eq_walk
#print axioms stdSem_of_layout
#print axioms lmSem_of_layout

end Daac

/-
Translation tie, the char-wise builder END TO END: the GENERATED pipeline

  `NfaBuilder::new` → per pattern `add` then the frequency-counting loop → `CodeMapper::new`
    → `len == 0` test → `build_fails` / `build_fails_leftmost` → `build_outputs`
    → `CharwiseDoubleArrayAhoCorasickBuilder::build_double_array`

(Daac/Gen/Nfa.lean from `src/nfa_builder.rs`, Daac/Gen/MapperNew.lean from `src/charwise/mapper.rs` and
the counting loop of `build_original_nfa_and_mapper`, Daac/Gen/BuildC.lean from
`src/charwise/builder.rs`) computes the state table of the hand-written model `buildDA .charwise`
(Daac/Model/Build.lean), up to panic texts.  The pieces: Proofs/TieN + TieF* (sparse NFA, any label
width `nb`), Proofs/TieM (mapper), Proofs/TieDC (layout loop), and the two generic links of Proofs/TieP
(`nfaRep_of_sparse`, `failNodes_buildNfa`).
-/
import Daac.Proofs.TieP
import Daac.Proofs.TieM
import Daac.Proofs.TieDC
import Daac.Proofs.MapperFacts
namespace Daac.Tie.PC
open Daac Daac.Gen Daac.Gen.N Daac.Gen.M Daac.Tie.N Daac.Tie.F Daac.Tie.D Daac.Tie.H Daac.Tie.M Daac.Tie.P

variable {V : Type}

/-! ### (a) The glue: interleaved pattern loop, mapper conversion, the whole pipeline -/

/-- The pattern loop of `build_original_nfa_and_mapper`:
`for (pattern, value) in patvals { nfa.add(&chars, value)?; for &c in &chars { .. freqs[c] += 1 } }`
over the generated `NfaBuilder.add` and the generated `count_chars`.  An `add` error returns at once
(the `?`), before the characters of that pattern, or of any later one, are counted. -/
def addCountAllGen (nb : Nat → Nat) :
    NfaBuilder V → Array Nat → List (LPat V) → Except BuildErr (NfaBuilder V × Array Nat)
  | g, fr, [] => .ok (g, fr)
  | g, fr, p :: ps =>
    match NfaBuilder.add nb g p.key p.value with
    | .error e => .error e
    | .ok (_, g') =>
      match count_chars fr p.key with
      | .error e => .error e
      | .ok fr' => addCountAllGen nb g' fr' ps

/-- The generated `CodeMapper` (Gen/MapperNew.lean) as the `mapper` field of the generated char-wise
builder (Gen/LayoutC.lean uses the model's two-field record for `CodeMapper`): field by field. -/
def toMapper (m : CodeMapper) : Mapper := ⟨m.table, m.alphabet_size⟩

/-- The char-wise `build_with_values` over the translated units, in the order of the Rust text:
the interleaved pattern loop, `self.mapper = CodeMapper::new(&freqs)`, the emptiness test, the fail
pass selected by the match kind, `build_outputs`, then `build_double_array` on the builder holding
that mapper (`states` empty, `block_len` 0 as `new` leaves them).  The sequencing is hand-written glue;
every unit it calls is generated from the Rust text. -/
def genBuildC (nb : Nat → Nat) (kind nfb : Nat) (P : List (LPat V)) : Except BuildErr (Array St) :=
  match addCountAllGen nb (NfaBuilder.new kind) #[] P with
  | .error e => .error e
  | .ok (g, freqs) =>
    match CodeMapper.new freqs with
    | .error e => .error e
    | .ok m =>
      if g.len = 0 then .error .invalidArgument else
      match failPass kind g with
      | .error e => .error e
      | .ok (q, g1) =>
        match NfaBuilder.build_outputs g1 q with
        | .error e => .error e
        | .ok (_, g2) =>
          (DC.Builder.build_double_array ⟨#[], toMapper m, kind, 0, nfb⟩ g2).map (·.2.states)

/-! ### (b) The interleaved loop decomposes -/

/-- The interleaved loop = the insertion fold, then (only if no `add` failed) the counting fold: the
counting loop never fails and does not touch the NFA builder. -/
theorem addCountAllGen_eq (nb : Nat → Nat) (ps : List (LPat V)) (g : NfaBuilder V) (fr : Array Nat) :
    addCountAllGen nb g fr ps =
      match addAllGen nb g ps with
      | .error e => .error e
      | .ok g' =>
        match countAll fr (ps.map (·.key)) with
        | .error e => .error e
        | .ok fr' => .ok (g', fr') := by
  induction ps generalizing g fr with
  | nil => rfl
  | cons p ps ih =>
    simp only [addCountAllGen, addAllGen, List.map_cons, countAll]
    cases hadd : NfaBuilder.add nb g p.key p.value with
    | error e => rfl
    | ok r =>
      obtain ⟨u, g'⟩ := r
      simp only [count_chars_eq]
      exact ih g' _

/-- An `add` error is the error of the interleaved loop. -/
theorem addCountAllGen_error (nb : Nat → Nat) (ps : List (LPat V)) (g : NfaBuilder V) (fr : Array Nat)
    (e : BuildErr) (h : addAllGen nb g ps = .error e) : addCountAllGen nb g fr ps = .error e := by
  rw [addCountAllGen_eq, h]

/-- If no `add` fails, the interleaved loop returns the results of the two separate folds. -/
theorem addCountAllGen_ok (nb : Nat → Nat) (ps : List (LPat V)) (g g' : NfaBuilder V) (fr : Array Nat)
    (h : addAllGen nb g ps = .ok g') :
    addCountAllGen nb g fr ps = .ok (g', (ps.map (·.key)).flatten.foldl step fr) ∧
      countAll fr (ps.map (·.key)) = .ok ((ps.map (·.key)).flatten.foldl step fr) := by
  rw [addCountAllGen_eq, h, countAll_eq]
  exact ⟨rfl, rfl⟩

/-- From the empty frequency vector: the model's frequency array. -/
theorem addCountAllGen_new (nb : Nat → Nat) (kind : Nat) (P : List (LPat V)) (g : NfaBuilder V)
    (h : addAllGen nb (NfaBuilder.new kind) P = .ok g) :
    addCountAllGen nb (NfaBuilder.new kind) #[] P = .ok (g, freqsOf (tableLen P) P) := by
  rw [addCountAllGen_eq, h, count_eq]

/-! ### (c) Side conditions from the input -/

theorem addAll_blen_ne (lf : Bool) (P : List (LPat V)) (a a' : NfaAcc V) (h : a.addAll lf P = .ok a') :
    ∀ p ∈ P, p.blen ≠ 0 := by
  induction P generalizing a with
  | nil => intro p hp; cases hp
  | cons p ps ih =>
    simp only [NfaAcc.addAll] at h
    cases hp : a.add lf p with
    | error e => rw [hp] at h; cases h
    | ok a1 =>
      rw [hp] at h
      intro x hx
      rcases List.mem_cons.mp hx with rfl | hx
      · intro h0
        simp [NfaAcc.add, h0] at hp
      · exact ih a1 h x hx

/-- On a successful insertion phase, `blen` (the sum of the label widths) vanishes exactly on the empty
key — for any width function: a zero `blen` is rejected by `add`. -/
theorem keysOk_of_addAll (nb : Nat → Nat) (lf : Bool) (P : List (LPat V)) (a : NfaAcc V)
    (hlen : ∀ p ∈ P, (p.key.map nb).sum = p.blen ∧ p.blen ≤ 4294967295)
    (h : (NfaAcc.init : NfaAcc V).addAll lf P = .ok a) : keysOk P := by
  intro p hp
  have hne := addAll_blen_ne lf P _ a h p hp
  constructor
  · intro h0; exact (hne h0).elim
  · intro hk
    have := (hlen p hp).1
    rw [hk] at this
    simpa using this.symm

/-- Every label on a node of the built trie is a label of some pattern. -/
theorem labels_of_buildTrie (kind : Nat) (P : List (LPat V)) (hk : keysOk P) (t : Trie V)
    (ht : buildTrie kind P = .ok t) :
    ∀ u, t.hasNode u = true → ∀ c ∈ u, ∃ p ∈ P, c ∈ p.key := by
  obtain ⟨P', hsub, hS⟩ := trieSem_exists kind P hk t ht
  intro u hu c hc
  rcases mem_nodeList.mp ((hS.nodes u).mp hu) with rfl | ⟨p, hp, hpre⟩
  · simp at hc
  · exact ⟨p, hsub.subset hp, hpre.subset hc⟩

/-- The mapper built from ALL patterns maps every label on a node of the built trie. -/
theorem mapped_of_buildTrie (kind : Nat) (P : List (LPat V)) (hk : keysOk P) (t : Trie V)
    (ht : buildTrie kind P = .ok t) (hsz : tableLen P < 4294967295) :
    ∀ u, t.hasNode u = true → ∀ c ∈ u, ∃ k, (Mapper.build P).get c = some k := by
  intro u hu c hc
  obtain ⟨p, hp, hcp⟩ := labels_of_buildTrie kind P hk t ht u hu c hc
  exact mapper_maps_labels P hsz p hp c hcp

/-- The translated `CodeMapper::new` on the frequencies the translated loop counted, for `char` labels. -/
theorem new_freqs_char (P : List (LPat V)) (hch : ∀ p ∈ P, ∀ c ∈ p.key, c ≤ 0x10FFFF) :
    CodeMapper.new (freqsOf (tableLen P) P) =
      .ok ⟨(Mapper.build P).table, (Mapper.build P).alphaSize⟩ := by
  have h := mapper_refines_char P hch
  unfold pipeline at h
  rw [count_eq] at h
  exact h

theorem toMapper_build (P : List (LPat V)) :
    toMapper ⟨(Mapper.build P).table, (Mapper.build P).alphaSize⟩ = Mapper.build P := rfl

/-! ### (d) End to end -/

/-- Core of the end-to-end statement, keeping the model accumulator `a` of the insertion fold. -/
theorem pipeline_refines_charwise (nb : Nat → Nat) (kind : Nat) (cfg : Cfg) (P : List (LPat V))
    (hnfb : 1 ≤ cfg.nfb) (hch : ∀ p ∈ P, ∀ c ∈ p.key, c ≤ 0x10FFFF)
    (hsz : 2 + (P.map (·.key.length)).sum ≤ 4294967295)
    (hlen : ∀ p ∈ P, (p.key.map nb).sum = p.blen ∧ p.blen ≤ 4294967295)
    (g : NfaBuilder V) (hadd : addAllGen nb (NfaBuilder.new kind) P = .ok g) (hl : g.len ≠ 0)
    (b : LC.Builder) (hb : b.states = #[]) (hn : b.num_free_blocks = cfg.nfb)
    (hmp : b.mapper = Mapper.build P) :
    ∃ a q g1 g2, (NfaAcc.init : NfaAcc V).addAll (kind == 2) P = .ok a ∧ a.len = g.len ∧
      failPass kind g = .ok (q, g1) ∧ NfaBuilder.build_outputs g1 q = .ok ((), g2) ∧
      g2.states.size = a.trie.size + 1 ∧ g.states.size = a.trie.size + 1 ∧
      OutsRel g2.outputs (buildNfa a.trie (kind != 0)).out.outs ∧
      norm ((DC.Builder.build_double_array b g2).map (·.2.states))
        = norm (buildLayout .charwise cfg (Mapper.build P) a.trie (buildNfa a.trie (kind != 0))) := by
  obtain ⟨t, _, q, g1, g2, ht, _, hfp, hbo, hsh, _, hnode, houts⟩ :=
    sparse_nfa_refines nb kind P g hsz hlen hadd hl
  have hbr := build_refines nb kind P hsz hlen
  rw [hadd] at hbr
  cases hm : (NfaAcc.init : NfaAcc V).addAll (kind == 2) P with
  | error e => rw [hm] at hbr; exact hbr.elim
  | ok a =>
    rw [hm] at hbr
    have hk := keysOk_of_addAll nb (kind == 2) P a hlen hm
    obtain ⟨pth, hrep, hlen', _, _, hdead⟩ : RepAcc g a := hbr
    have hal : a.len ≠ 0 := by rw [← hlen']; exact hl
    have hta : t = a.trie := by
      have : buildTrie kind P = .ok a.trie := by simp [buildTrie, hm, hal]
      rw [ht] at this
      cases this; rfl
    subst hta
    have hr : Reach g.states := addAllGen_reach nb P _ g hadd (new_reach kind)
    have R := nfaRep_of_sparse g g2 a.trie (buildNfa a.trie (kind != 0)) pth hrep hdead hr hsh hnode
    have htl : tableLen P < 4294967295 := by have := tableLen_le P _ hch; omega
    refine ⟨a, q, g1, g2, rfl, hlen'.symm, hfp, hbo, R.size, by rw [← hsh.1]; exact R.size, houts, ?_⟩
    exact Tie.DC.build_double_array_refines_charwise cfg (Mapper.build P) a.trie _ g2 _ R
      (failNodes_buildNfa kind P hk a.trie ht _) (buildTrie_sorted kind P a.trie ht)
      (mapperOk_build' P) (mapped_of_buildTrie kind P hk a.trie ht htl) hnfb b hb hn hmp

/-- END TO END, against `buildDA .charwise` itself (`cfg.kind = kind`): if the translated insertion fold
succeeds and registered a pattern, then the translated counting loop and `CodeMapper::new` return a
mapper `m` that is the model's (`mapTable`, `alphaSize`), the translated fail pass and `build_outputs`
succeed, the translated `build_double_array` run with that mapper yields the `states` field of the
model automaton up to panic texts, and on success the model automaton's `outputs` are the translated
builder's output records and `numStates = g.states.size - 1`. -/
theorem generated_charwise_build_eq_buildDA (nb : Nat → Nat) (kind : Nat) (cfg : Cfg) (P : List (LPat V))
    (hkind : cfg.kind = kind) (hnfb : 1 ≤ cfg.nfb) (hch : ∀ p ∈ P, ∀ c ∈ p.key, c ≤ 0x10FFFF)
    (hsz : 2 + (P.map (·.key.length)).sum ≤ 4294967295)
    (hlen : ∀ p ∈ P, (p.key.map nb).sum = p.blen ∧ p.blen ≤ 4294967295)
    (g : NfaBuilder V) (hadd : addAllGen nb (NfaBuilder.new kind) P = .ok g) (hl : g.len ≠ 0) :
    ∃ freqs m q g1 g2, addCountAllGen nb (NfaBuilder.new kind) #[] P = .ok (g, freqs) ∧
      CodeMapper.new freqs = .ok m ∧
      failPass kind g = .ok (q, g1) ∧ NfaBuilder.build_outputs g1 q = .ok ((), g2) ∧
      norm ((DC.Builder.build_double_array ⟨#[], toMapper m, kind, 0, cfg.nfb⟩ g2).map (·.2.states))
        = norm ((buildDA .charwise cfg P).map (·.states)) ∧
      ∀ da, buildDA .charwise cfg P = .ok da →
        OutsRel g2.outputs da.outputs ∧ da.numStates = g.states.size - 1 ∧ da.kind = kind ∧
        da.mapTable = m.table ∧ da.alphaSize = m.alphabet_size := by
  obtain ⟨a, q, g1, g2, hm, hal, hfp, hbo, _, hs, houts, hfin⟩ :=
    pipeline_refines_charwise nb kind cfg P hnfb hch hsz hlen g hadd hl
      ⟨#[], Mapper.build P, kind, 0, cfg.nfb⟩ rfl rfl rfl
  have hal' : a.len ≠ 0 := by rw [hal]; exact hl
  have h0 : ¬ cfg.nfb = 0 := by omega
  have hv : ¬ (Variant.charwise = Variant.bytewise ∧ a.len > u24Max) := by
    intro h; cases h.1
  refine ⟨_, _, q, g1, g2, addCountAllGen_new nb kind P g hadd, new_freqs_char P hch, hfp, hbo, ?_, ?_⟩
  · rw [toMapper_build, hfin]
    subst hkind
    simp only [buildDA, h0, if_false, hm, hal', hv]
    cases buildLayout .charwise cfg (Mapper.build P) a.trie (buildNfa a.trie (cfg.kind != 0)) <;> rfl
  · intro da hda
    subst hkind
    simp only [buildDA, h0, if_false, hm, hal', hv] at hda
    cases hL : buildLayout .charwise cfg (Mapper.build P) a.trie (buildNfa a.trie (cfg.kind != 0)) with
    | error e => rw [hL] at hda; cases hda
    | ok states =>
      rw [hL] at hda
      cases hda
      exact ⟨houts, by simp only; omega, rfl, rfl, rfl⟩

/-- END TO END as one equation: on `char` patterns within the `u32` scale, the translated char-wise
pipeline and the model's `buildDA .charwise` fail alike (same error, up to panic texts) or both
succeed with the same state table.  `nb` is the label width (`char::len_utf8`) under which `blen` is
the byte length of the key. -/
theorem genBuildC_eq_buildDA (nb : Nat → Nat) (kind : Nat) (cfg : Cfg) (P : List (LPat V))
    (hkind : cfg.kind = kind) (hnfb : 1 ≤ cfg.nfb) (hch : ∀ p ∈ P, ∀ c ∈ p.key, c ≤ 0x10FFFF)
    (hsz : 2 + (P.map (·.key.length)).sum ≤ 4294967295)
    (hlen : ∀ p ∈ P, (p.key.map nb).sum = p.blen ∧ p.blen ≤ 4294967295) :
    norm (genBuildC nb kind cfg.nfb P) = norm ((buildDA .charwise cfg P).map (·.states)) := by
  have h0 : ¬ cfg.nfb = 0 := by omega
  have hb := build_refines nb kind P hsz hlen
  unfold genBuildC
  cases hadd : addAllGen nb (NfaBuilder.new kind : NfaBuilder V) P with
  | error e =>
    rw [addCountAllGen_error nb P _ _ e hadd]
    rw [hadd] at hb
    cases hm : (NfaAcc.init : NfaAcc V).addAll (kind == 2) P with
    | ok a => rw [hm] at hb; exact hb.elim
    | error e' =>
      rw [hm] at hb
      have hb : e = e' := hb
      subst hb hkind
      simp only [buildDA, h0, if_false, hm]
      rfl
  | ok g =>
    rw [addCountAllGen_new nb kind P g hadd]
    rw [hadd] at hb
    cases hm : (NfaAcc.init : NfaAcc V).addAll (kind == 2) P with
    | error e' => rw [hm] at hb; exact hb.elim
    | ok a =>
      rw [hm] at hb
      obtain ⟨_, _, hlen', _⟩ : RepAcc g a := hb
      simp only [new_freqs_char P hch]
      by_cases hl : g.len = 0
      · subst hkind
        have : a.len = 0 := by rw [← hlen']; exact hl
        simp only [hl, if_true, buildDA, h0, if_false, hm, this]
        rfl
      · obtain ⟨fr, m, q, g1, g2, hac, hnew, hfp, hbo, hfin, _⟩ :=
          generated_charwise_build_eq_buildDA nb kind cfg P hkind hnfb hch hsz hlen g hadd hl
        rw [addCountAllGen_new nb kind P g hadd] at hac
        cases hac
        rw [new_freqs_char P hch] at hnew
        cases hnew
        simp only [hl, if_false, hfp, hbo]
        exact hfin

end Daac.Tie.PC

#print axioms Daac.Tie.PC.addCountAllGen_eq
#print axioms Daac.Tie.PC.pipeline_refines_charwise
#print axioms Daac.Tie.PC.generated_charwise_build_eq_buildDA
#print axioms Daac.Tie.PC.genBuildC_eq_buildDA

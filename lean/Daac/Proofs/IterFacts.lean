/-
Laziness facts (property C12) about the search iterators of `Daac.Model.Search`.
-/
import Daac.Model.Search
namespace Daac

variable {V : Type}

/-! ### The source -/

/-- `s'` is `s` after pulling the bytes `pre`. -/
def Src.Adv (s s' : Src) (pre : List Nat) : Prop :=
  s.rest = pre ++ s'.rest ∧ s'.pulled = s.pulled + pre.length

theorem Src.pull_some {s s1 : Src} {b : Nat} (h : s.pull = some (b, s1)) : Src.Adv s s1 [b] := by
  unfold Src.pull at h
  split at h
  · cases h
  · next b' r hr =>
    cases h
    simp [Src.Adv, hr]

theorem Src.pull_none {s : Src} (h : s.pull = none) : s.rest = [] := by
  unfold Src.pull at h
  split at h
  · assumption
  · cases h

theorem Src.Adv.trans {s s1 s2 : Src} {p q : List Nat} (h1 : Src.Adv s s1 p) (h2 : Src.Adv s1 s2 q) :
    Src.Adv s s2 (p ++ q) := by
  obtain ⟨a1, b1⟩ := h1
  obtain ⟨a2, b2⟩ := h2
  refine ⟨?_, ?_⟩
  · rw [a1, a2, List.append_assoc]
  · rw [b2, b1, List.length_append]; omega

theorem decodeNext_adv {s s' : Src} {item : Item} (h : decodeNext s = .ok (some (item, s'))) :
    item.stop = s'.pulled ∧ ∃ pre, pre ≠ [] ∧ Src.Adv s s' pre := by
  unfold decodeNext at h
  split at h
  · cases h
  · next first s1 h1 =>
    have a1 := Src.pull_some h1
    split at h
    · cases h; exact ⟨rfl, _, by simp, a1⟩
    · split at h
      · cases h
      · next r1 s2 h2 =>
        have a2 := a1.trans (Src.pull_some h2)
        simp only at h
        split at h
        · split at h
          · cases h; exact ⟨rfl, _, by simp, a2⟩
          · cases h
        · split at h
          · cases h
          · next r2 s3 h3 =>
            have a3 := a2.trans (Src.pull_some h3)
            split at h
            · split at h
              · cases h; exact ⟨rfl, _, by simp, a3⟩
              · cases h
            · split at h
              · cases h
              · next r3 s4 h4 =>
                have a4 := a3.trans (Src.pull_some h4)
                split at h
                · cases h; exact ⟨rfl, _, by simp, a4⟩
                · cases h

theorem decodeNext_none {s : Src} (h : decodeNext s = .ok none) : s.rest = [] := by
  unfold decodeNext at h
  split at h
  · next h1 => exact Src.pull_none h1
  · split at h
    · cases h
    · split at h
      · cases h
      · simp only at h
        split at h
        · split at h <;> cases h
        · split at h
          · cases h
          · split at h
            · split at h <;> cases h
            · split at h
              · cases h
              · split at h <;> cases h

theorem nextItem_adv {v : Variant} {s s' : Src} {item : Item}
    (h : nextItem v s = .ok (some (item, s'))) :
    item.stop = s'.pulled ∧ ∃ pre, pre ≠ [] ∧ Src.Adv s s' pre := by
  unfold nextItem at h
  split at h
  · split at h
    · cases h
    · next b s1 h1 =>
      cases h
      exact ⟨rfl, _, by simp, Src.pull_some h1⟩
  · exact decodeNext_adv h

theorem nextItem_none {v : Variant} {s : Src} (h : nextItem v s = .ok none) : s.rest = [] := by
  unfold nextItem at h
  split at h
  · split at h
    · next h1 => exact Src.pull_none h1
    · cases h
  · exact decodeNext_none h

theorem Src.Adv.facts {s s' : Src} {pre : List Nat} (h : Src.Adv s s' pre) :
    s'.pulled + s'.rest.length = s.pulled + s.rest.length ∧
    s'.rest = s.rest.drop pre.length ∧ s'.pulled = s.pulled + pre.length := by
  obtain ⟨a, b⟩ := h
  refine ⟨?_, ?_, b⟩
  · rw [a, b, List.length_append]; omega
  · rw [a]; simp

theorem nextItem_spec {v : Variant} {s s' : Src} {item : Item}
    (h : nextItem v s = .ok (some (item, s'))) :
    item.stop = s'.pulled ∧ s.pulled < s'.pulled ∧ s'.rest.length < s.rest.length ∧
    s'.pulled + s'.rest.length = s.pulled + s.rest.length ∧
    (∃ k, s'.rest = s.rest.drop k ∧ s'.pulled = s.pulled + k) := by
  obtain ⟨h1, pre, hne, ha⟩ := nextItem_adv h
  obtain ⟨f1, f2, f3⟩ := ha.facts
  have : 0 < pre.length := List.length_pos_iff.mpr hne
  refine ⟨h1, by omega, by omega, f1, pre.length, f2, f3⟩

/-! ### `scanFirst` -/

@[simp] theorem mkMatch_stop (o : Out V) (e : Nat) : (mkMatch o e).stop = e := rfl

theorem scanFirst_spec {da : DA V} {fuel state : Nat} {src : Src} {m : Match V} {state' : Nat}
    {src' : Src} (h : scanFirst da fuel state src = .ok (some m, state', src')) :
    m.stop = src'.pulled ∧ src.pulled < src'.pulled ∧
    src'.pulled + src'.rest.length = src.pulled + src.rest.length := by
  induction fuel generalizing state src with
  | zero => simp [scanFirst] at h
  | succ fuel ih =>
    unfold scanFirst at h
    split at h
    · cases h
    · cases h
    · next item s1 hi =>
      obtain ⟨i1, i2, _, i4, _⟩ := nextItem_spec hi
      split at h
      · cases h
      · split at h
        · cases h
        · split at h
          · split at h
            · cases h
            · cases h
              exact ⟨i1, i2, i4⟩
          · obtain ⟨j1, j2, j3⟩ := ih h
            exact ⟨j1, by omega, by omega⟩

theorem scanFirst_none {da : DA V} {fuel state : Nat} {src : Src} {state' : Nat}
    {src' : Src} (h : scanFirst da fuel state src = .ok (none, state', src')) :
    src'.rest = [] ∧ src'.pulled = src.pulled + src.rest.length := by
  induction fuel generalizing state src with
  | zero => simp [scanFirst] at h
  | succ fuel ih =>
    unfold scanFirst at h
    split at h
    · cases h
    · next hi =>
      cases h
      have := nextItem_none hi
      simp [this]
    · next item s1 hi =>
      obtain ⟨i1, i2, _, i4, _⟩ := nextItem_spec hi
      split at h
      · cases h
      · split at h
        · cases h
        · split at h
          · split at h
            · cases h
            · cases h
          · obtain ⟨j1, j2⟩ := ih h
            refine ⟨j1, ?_⟩
            omega

theorem decodeNext_ne_fuel (s : Src) : decodeNext s ≠ .error .fuel := by
  intro h
  unfold decodeNext at h
  split at h
  · cases h
  · split at h
    · cases h
    · split at h
      · cases h
      · simp only at h
        split at h
        · split at h <;> cases h
        · split at h
          · cases h
          · split at h
            · split at h <;> cases h
            · split at h
              · cases h
              · split at h <;> cases h

theorem nextItem_ne_fuel (v : Variant) (s : Src) : nextItem v s ≠ .error .fuel := by
  intro h
  unfold nextItem at h
  split at h
  · split at h <;> cases h
  · exact decodeNext_ne_fuel s h

theorem DA.st_ne_fuel (da : DA V) (i : Nat) : da.st i ≠ .error .fuel := by
  intro h
  unfold DA.st at h
  split at h <;> cases h

theorem DA.out_ne_fuel (da : DA V) (p : Nat) : da.out p ≠ .error .fuel := by
  intro h
  unfold DA.out at h
  split at h
  · cases h
  · split at h <;> cases h

/-- The transition function never runs out of its own fuel (a property of the tables; it is
a hypothesis here because `DA.next` has its own fuel-bounded loop). -/
def DA.NextNoFuel (da : DA V) : Prop := ∀ s l, da.next s l ≠ .error .fuel

/-- `scanFirst` with `src.rest.length + 1` fuel never runs out of *its own* fuel: a `.fuel` fault
can only come from the transition loop `DA.next`. -/
theorem scanFirst_fuel_ok_partial {da : DA V} (hn : da.NextNoFuel) {fuel state : Nat} {src : Src}
    (hf : src.rest.length < fuel) : scanFirst da fuel state src ≠ .error .fuel := by
  induction fuel generalizing state src with
  | zero => omega
  | succ fuel ih =>
    intro h
    unfold scanFirst at h
    split at h
    · next e hi =>
      cases h
      exact nextItem_ne_fuel _ _ hi
    · cases h
    · next item s1 hi =>
      obtain ⟨_, _, i3, _, _⟩ := nextItem_spec hi
      split at h
      · next e hx => cases h; exact hn _ _ hx
      · split at h
        · next e hx => cases h; exact DA.st_ne_fuel _ _ hx
        · split at h
          · split at h
            · next e hx => cases h; exact DA.out_ne_fuel _ _ hx
            · cases h
          · exact ih (by omega) h

/-! ### `FindIt.next`, `NoSufIt.next` -/

theorem FindIt.next_some {da : DA V} {it it' : FindIt} {m : Match V}
    (h : FindIt.next da it = .ok ⟨some m, it'⟩) :
    m.stop = it'.src.pulled ∧ it.src.pulled < it'.src.pulled ∧
    it'.src.pulled + it'.src.rest.length = it.src.pulled + it.src.rest.length := by
  unfold FindIt.next at h
  split at h
  · cases h
  · next r st src' hs =>
    cases h
    exact scanFirst_spec hs

theorem FindIt.next_none {da : DA V} {it it' : FindIt}
    (h : FindIt.next da it = .ok ⟨none, it'⟩) :
    it'.src.rest = [] ∧ it'.src.pulled = it.src.pulled + it.src.rest.length := by
  unfold FindIt.next at h
  split at h
  · cases h
  · next r st src' hs =>
    cases h
    exact scanFirst_none hs

theorem NoSufIt.next_some {da : DA V} {it it' : NoSufIt} {m : Match V}
    (h : NoSufIt.next da it = .ok ⟨some m, it'⟩) :
    m.stop = it'.src.pulled ∧ it.src.pulled < it'.src.pulled ∧
    it'.src.pulled + it'.src.rest.length = it.src.pulled + it.src.rest.length := by
  unfold NoSufIt.next at h
  split at h
  · cases h
  · next r st src' hs =>
    cases h
    exact scanFirst_spec hs

theorem NoSufIt.next_none {da : DA V} {it it' : NoSufIt}
    (h : NoSufIt.next da it = .ok ⟨none, it'⟩) :
    it'.src.rest = [] ∧ it'.src.pulled = it.src.pulled + it.src.rest.length := by
  unfold NoSufIt.next at h
  split at h
  · cases h
  · next r st src' hs =>
    cases h
    exact scanFirst_none hs

theorem FindIt.next_ne_fuel {da : DA V} (hn : da.NextNoFuel) (it : FindIt) :
    FindIt.next da it ≠ .error .fuel := by
  intro h
  unfold FindIt.next at h
  split at h
  · next e hs => cases h; exact scanFirst_fuel_ok_partial hn (Nat.lt_succ_self _) hs
  · cases h

theorem NoSufIt.next_ne_fuel {da : DA V} (hn : da.NextNoFuel) (it : NoSufIt) :
    NoSufIt.next da it ≠ .error .fuel := by
  intro h
  unfold NoSufIt.next at h
  split at h
  · next e hs => cases h; exact scanFirst_fuel_ok_partial hn (Nat.lt_succ_self _) hs
  · cases h

/-! ### The overlapping iterator -/

/-- While an output chain is pending, `pos` is the number of bytes pulled. -/
def OvIt.Inv (it : OvIt) : Prop := it.opos ≠ 0 → it.pos = it.src.pulled

theorem OvIt.inv_init (h : List Nat) : OvIt.Inv ⟨startSrc h, rootIdx, 0, 0⟩ := by
  intro hc; exact absurd rfl hc

theorem scanOv_spec {da : DA V} {fuel : Nat} {it it' : OvIt} {r : Option (Match V)}
    (h0 : it.opos = 0) (h : scanOv da fuel it = .ok ⟨r, it'⟩) :
    it'.Inv ∧ (∀ m, r = some m → m.stop = it'.src.pulled ∧ it.src.pulled < it'.src.pulled) ∧
    it.src.pulled ≤ it'.src.pulled ∧
    it'.src.pulled + it'.src.rest.length = it.src.pulled + it.src.rest.length ∧
    (r = none → it'.src.rest = []) := by
  induction fuel generalizing it with
  | zero => simp [scanOv] at h
  | succ fuel ih =>
    unfold scanOv at h
    split at h
    · cases h
    · next hi =>
      cases h
      have := nextItem_none hi
      refine ⟨fun hc => absurd h0 hc, ?_, Nat.le_refl _, rfl, fun _ => this⟩
      intro m hm; cases hm
    · next item s1 hi =>
      obtain ⟨i1, i2, _, i4, _⟩ := nextItem_spec hi
      simp only at h
      split at h
      · cases h
      · split at h
        · cases h
        · split at h
          · split at h
            · cases h
            · cases h
              refine ⟨fun _ => i1, ?_, Nat.le_of_lt i2, i4, ?_⟩
              · intro m hm; cases hm; exact ⟨i1, i2⟩
              · intro hc; cases hc
          · obtain ⟨j1, j2, j3, j4, j5⟩ := ih (it := ⟨s1, _, _, it.opos⟩) h0 h
            simp only at j2 j3 j4
            refine ⟨j1, ?_, by omega, by omega, j5⟩
            intro m hm
            obtain ⟨k1, k2⟩ := j2 m hm
            exact ⟨k1, by omega⟩

theorem OvIt.next_spec {da : DA V} {it it' : OvIt} {r : Option (Match V)}
    (h : OvIt.next da it = .ok ⟨r, it'⟩) (hinv : it.Inv) :
    it'.Inv ∧ (∀ m, r = some m → m.stop = it'.src.pulled) ∧ it.src.pulled ≤ it'.src.pulled := by
  unfold OvIt.next at h
  split at h
  · next hp =>
    split at h
    · cases h
    · cases h
      have := hinv hp
      refine ⟨fun _ => this, ?_, Nat.le_refl _⟩
      intro m hm; cases hm; exact this
  · next hp =>
    have h0 : it.opos = 0 := by omega
    obtain ⟨j1, j2, j3, _, _⟩ := scanOv_spec h0 h
    exact ⟨j1, fun m hm => (j2 m hm).1, j3⟩

/-- Additional facts on `OvIt.next`: conservation of `pulled + |rest|`, and `none` only from an
exhausted source. -/
theorem OvIt.next_spec' {da : DA V} {it it' : OvIt} {r : Option (Match V)}
    (h : OvIt.next da it = .ok ⟨r, it'⟩) :
    it'.src.pulled + it'.src.rest.length = it.src.pulled + it.src.rest.length ∧
    (r = none → it'.src.rest = []) := by
  unfold OvIt.next at h
  split at h
  · split at h
    · cases h
    · cases h
      refine ⟨rfl, ?_⟩
      intro hc; cases hc
  · next hp =>
    have h0 : it.opos = 0 := by omega
    obtain ⟨_, _, _, j4, j5⟩ := scanOv_spec h0 h
    exact ⟨j4, j5⟩

/-! ### The history recorded by `collectWith` -/

/-- Every recorded match ends exactly at the number of bytes pulled when it was returned. -/
def Lazy (l : List (Match V × Nat)) : Prop := ∀ x ∈ l, x.1.stop = x.2

/-- Generic induction over `collectWith`. `P` is an invariant of the iterator, `R` the relation
(`≤` or `<`) by which `pulled` grows at each returned match. -/
theorem collectWith_spec {σ : Type} {next : σ → Except Fault (Step σ V)} {pulled : σ → Nat}
    (P : σ → Prop) (R : Nat → Nat → Prop) (total : Nat)
    (hR : ∀ a b c, R a b → R b c → R a c)
    (hsome : ∀ it m it', P it → next it = .ok ⟨some m, it'⟩ →
      P it' ∧ m.stop = pulled it' ∧ R (pulled it) (pulled it'))
    (hnone : ∀ it it', P it → next it = .ok ⟨none, it'⟩ → pulled it' = total)
    {fuel : Nat} {it : σ} {l : List (Match V × Nat)} {fin : Nat}
    (hP : P it) (h : collectWith next pulled fuel it = .ok (l, fin)) :
    Lazy l ∧ fin = total ∧ (l.map (·.2)).Pairwise R ∧ ∀ x ∈ l, R (pulled it) x.2 := by
  induction fuel generalizing it l fin with
  | zero => simp [collectWith] at h
  | succ fuel ih =>
    unfold collectWith at h
    split at h
    · cases h
    · next it' hn =>
      cases h
      refine ⟨?_, hnone _ _ hP hn, by simp, by simp⟩
      intro x hx; cases hx
    · next m it' hn =>
      obtain ⟨p1, p2, p3⟩ := hsome _ _ _ hP hn
      split at h
      · cases h
      · next ms fin' hc =>
        cases h
        obtain ⟨q1, q2, q3, q4⟩ := ih p1 hc
        refine ⟨?_, q2, ?_, ?_⟩
        · intro x hx
          rcases List.mem_cons.mp hx with rfl | hx
          · exact p2
          · exact q1 x hx
        · simp only [List.map_cons, List.pairwise_cons]
          refine ⟨?_, q3⟩
          intro b hb
          obtain ⟨x, hx, rfl⟩ := List.mem_map.mp hb
          exact q4 x hx
        · intro x hx
          rcases List.mem_cons.mp hx with rfl | hx
          · exact p3
          · exact hR _ _ _ p3 (q4 x hx)

theorem findAll_lazy {da : DA V} {h : List Nat} {l : List (Match V × Nat)} {fin : Nat}
    (hr : findAll da h = .ok (l, fin)) :
    Lazy l ∧ fin = h.length ∧ (l.map (·.2)).Pairwise (· < ·) := by
  have := collectWith_spec (next := FindIt.next da) (pulled := (·.src.pulled))
    (fun it => it.src.pulled + it.src.rest.length = h.length) (· < ·) h.length
    (fun a b c => Nat.lt_trans)
    (fun it m it' hP hn => by
      obtain ⟨a, b, c⟩ := FindIt.next_some hn
      exact ⟨by omega, a, b⟩)
    (fun it it' hP hn => by
      obtain ⟨a, b⟩ := FindIt.next_none hn
      omega)
    (it := ⟨startSrc h⟩) (by simp [startSrc]) hr
  exact ⟨this.1, this.2.1, this.2.2.1⟩

theorem noSufAll_lazy {da : DA V} {h : List Nat} {l : List (Match V × Nat)} {fin : Nat}
    (hr : noSufAll da h = .ok (l, fin)) :
    Lazy l ∧ fin = h.length ∧ (l.map (·.2)).Pairwise (· < ·) := by
  have := collectWith_spec (next := NoSufIt.next da) (pulled := (·.src.pulled))
    (fun it => it.src.pulled + it.src.rest.length = h.length) (· < ·) h.length
    (fun a b c => Nat.lt_trans)
    (fun it m it' hP hn => by
      obtain ⟨a, b, c⟩ := NoSufIt.next_some hn
      exact ⟨by omega, a, b⟩)
    (fun it it' hP hn => by
      obtain ⟨a, b⟩ := NoSufIt.next_none hn
      omega)
    (it := ⟨startSrc h, rootIdx⟩) (by simp [startSrc]) hr
  exact ⟨this.1, this.2.1, this.2.2.1⟩

theorem ovAll_lazy {da : DA V} {h : List Nat} {l : List (Match V × Nat)} {fin : Nat}
    (hr : ovAll da h = .ok (l, fin)) :
    Lazy l ∧ fin = h.length ∧ (l.map (·.2)).Pairwise (· ≤ ·) := by
  have := collectWith_spec (next := OvIt.next da) (pulled := (·.src.pulled))
    (fun it => it.Inv ∧ it.src.pulled + it.src.rest.length = h.length) (· ≤ ·) h.length
    (fun a b c => Nat.le_trans)
    (fun it m it' hP hn => by
      obtain ⟨a, b, c⟩ := OvIt.next_spec hn hP.1
      obtain ⟨d, _⟩ := OvIt.next_spec' hn
      exact ⟨⟨a, by omega⟩, b m rfl, c⟩)
    (fun it it' hP hn => by
      obtain ⟨d, e⟩ := OvIt.next_spec' hn
      have := e rfl
      rw [this] at d
      simp at d; omega)
    (it := ⟨startSrc h, rootIdx, 0, 0⟩) ⟨OvIt.inv_init h, by simp [startSrc]⟩ hr
  exact ⟨this.1, this.2.1, this.2.2.1⟩

/-! ### Fuel of `collectWith` for the non-overlapping iterators -/

theorem collectWith_fuel_ok {σ : Type} {next : σ → Except Fault (Step σ V)} {pulled : σ → Nat}
    (P : σ → Prop) (total : Nat)
    (hfuel : ∀ it, next it ≠ .error .fuel)
    (hle : ∀ it, P it → pulled it ≤ total)
    (hsome : ∀ it m it', P it → next it = .ok ⟨some m, it'⟩ → P it' ∧ pulled it < pulled it')
    {fuel : Nat} {it : σ} (hP : P it) (hf : total - pulled it < fuel) :
    collectWith next pulled fuel it ≠ .error .fuel := by
  induction fuel generalizing it with
  | zero => omega
  | succ fuel ih =>
    intro h
    unfold collectWith at h
    split at h
    · next e hn => cases h; exact hfuel _ hn
    · cases h
    · next m it' hn =>
      obtain ⟨p1, p2⟩ := hsome _ _ _ hP hn
      have := hle _ p1
      split at h
      · next e hc => cases h; exact ih p1 (by omega) hc
      · cases h

theorem collectFuel_gt (da : DA V) (h : List Nat) : h.length < collectFuel da h := by
  unfold collectFuel
  have : (h.length + 1) * 1 ≤ (h.length + 1) * (da.outputs.size + 1) :=
    Nat.mul_le_mul_left _ (by omega)
  omega

theorem findAll_fuel_ok_partial {da : DA V} (hn : da.NextNoFuel) (h : List Nat) :
    findAll da h ≠ .error .fuel :=
  collectWith_fuel_ok (next := FindIt.next da) (pulled := (·.src.pulled))
    (fun it => it.src.pulled + it.src.rest.length = h.length) h.length
    (FindIt.next_ne_fuel hn)
    (fun it hP => by omega)
    (fun it m it' hP hn' => by
      obtain ⟨a, b, c⟩ := FindIt.next_some hn'
      exact ⟨by omega, b⟩)
    (it := ⟨startSrc h⟩) (by simp [startSrc])
    (by have := collectFuel_gt da h; simp [startSrc]; omega)

theorem noSufAll_fuel_ok_partial {da : DA V} (hn : da.NextNoFuel) (h : List Nat) :
    noSufAll da h ≠ .error .fuel :=
  collectWith_fuel_ok (next := NoSufIt.next da) (pulled := (·.src.pulled))
    (fun it => it.src.pulled + it.src.rest.length = h.length) h.length
    (NoSufIt.next_ne_fuel hn)
    (fun it hP => by omega)
    (fun it m it' hP hn' => by
      obtain ⟨a, b, c⟩ := NoSufIt.next_some hn'
      exact ⟨by omega, b⟩)
    (it := ⟨startSrc h, rootIdx⟩) (by simp [startSrc])
    (by have := collectFuel_gt da h; simp [startSrc]; omega)

#print axioms findAll_lazy
#print axioms noSufAll_lazy
#print axioms ovAll_lazy
#print axioms findAll_fuel_ok_partial
#print axioms noSufAll_fuel_ok_partial

/-
Interface for the Rung-1 proof of the leftmost kinds (DESIGN.md §3.4):
  * `Daac/Proofs/LmSem.lean`   : `DA.leftmostInv … → LmSem da P` (tables ⇒ string-level semantics)
  * `Daac/Proofs/LmAbs.lean`   : pure string combinatorics — the abstract scan `absLm` driven by
                                 `deltaL` / `oposL` returns the leftmost-longest occurrence
  * `Daac/Proofs/LmIter.lean`  : given `LmSem`, the model iterator simulates `absLm`, hence returns
                                 the item-level specification `specLLItems`.
`P` is always the *retained* pattern list (for leftmost-first: patterns without an
earlier-registered proper prefix), so that "earliest registered" = "longest" among the
patterns occurring at one start.
-/
import Daac.Inv
import Daac.Proofs.StdIface
namespace Daac
variable {V : Type}

/-- (G3) at string level: the node the leftmost transition reaches from node `u` on label `c`. -/
def deltaL (P : List (LPat V)) (u : List Nat) (c : Nat) : List Nat :=
  let t := lsuf (nodeList P) (u ++ [c])
  match bestIn P u 0 with
  | none => t
  | some (s, _) => if u.length + 1 - t.length > s then [] else t

/-- (G1) at string level: the pattern a node reports, i.e. `best u` when it is a suffix of `u`. -/
def oposL (P : List (LPat V)) (u : List Nat) : Option (LPat V) :=
  match bestIn P u 0 with
  | some (s, p) => if s + p.key.length = u.length then some p else none
  | none => none

/-- Semantics of the tables of a leftmost-kind automaton for the (retained) pattern list `P`. -/
structure LmSem (da : DA V) (P : List (LPat V)) : Prop where
  root : da.idx [] = rootIdx
  idx_root_iff : ∀ u ∈ nodeList P, da.idx u = rootIdx ↔ u = []
  /-- (G3) the leftmost transition function, without faulting -/
  next_ok : ∀ u ∈ nodeList P, ∀ c, LabelOk da c →
    da.nextLm (da.idx u) c = .ok (da.idx (deltaL P u c))
  delta_node : ∀ u ∈ nodeList P, ∀ c, deltaL P u c ∈ nodeList P
  /-- (G1) the output position of a node -/
  out_ok : ∀ u ∈ nodeList P, ∃ st, da.st (da.idx u) = .ok st ∧
    (match oposL P u with
     | some p => st.opos ≠ 0 ∧ ∃ o, da.out st.opos = .ok o ∧ o.value = p.value ∧ o.length = p.blen
     | none => st.opos = 0)

/-- The abstract leftmost scan on strings. `u` = current node, `cand` = best candidate so far as
(start index in labels, pattern), `n` = number of labels consumed since the scan started. -/
def absLm (P : List (LPat V)) : List Nat → List Nat → Option (Nat × LPat V) → Nat → Option (Nat × LPat V)
  | [], _, cand, _ => cand
  | c :: rest, u, cand, n =>
    if deltaL P u c = [] then
      (if cand.isSome then cand else absLm P rest [] none (n + 1))
    else
      match oposL P (deltaL P u c) with
      | some p => absLm P rest (deltaL P u c) (some (n + 1 - p.key.length, p)) (n + 1)
      | none => absLm P rest (deltaL P u c) cand (n + 1)

/-- Item-level specification of the leftmost search (one entry per reported match): at the
first start position (in items) where some pattern occurs, the longest such pattern; resume
after it. `skip` = items still covered by the previous match. -/
def specLLItems (P : List (LPat V)) : List WItem → Nat → List (Match V)
  | [], _ => []
  | _ :: r, skip + 1 => specLLItems P r skip
  | it :: r, 0 =>
    match longestLPat (prefLPats P ((it :: r).map (·.label))) with
    | none => specLLItems P r 0
    | some p =>
      let e := (((it :: r)[p.key.length - 1]?).map (·.stop)).getD 0
      ⟨e - p.blen, e, p.value⟩ :: specLLItems P r (p.key.length - 1)

/-- Items are consecutive from byte offset `pos`: each stop is the previous stop plus the width. -/
def Consecutive : Nat → List WItem → Prop
  | _, [] => True
  | pos, it :: r => it.stop = pos + it.width ∧ 0 < it.width ∧ Consecutive it.stop r

end Daac

/-
Truthfulness of the reported statistics of a built automaton (model level, Rung 2):
the reported number of states is the number of trie nodes; every one of them is reachable from the
root along its own path through the child lookups of the double array, at pairwise distinct
in-range element indices; hence `numStates ≤ states.size` (`num_elements`).
-/
import Daac.Proofs.Rung2
namespace Daac
variable {V : Type}

/-- `build_layout` of Rung2.lean, additionally exporting the index range, its injectivity, the
trie equation and the reported state count. -/
theorem build_layout_full (variant : Variant) (cfg : Cfg) (P P' : List (LPat V)) (da : DA V)
    (hb : buildDA variant cfg P = .ok da)
    (hS : ∀ t, buildTrie cfg.kind P = .ok t → TrieSem t P')
    (hsub : ∀ p ∈ P', p ∈ P)
    (hlabels : variant = .bytewise → ∀ p ∈ P, ∀ c ∈ p.key, c < 256) :
    ∃ t idx, TrieSem t P' ∧ t.Sorted ∧ LayoutSem da t (buildNfa t (cfg.kind != 0)) idx ∧
      (∀ u, t.hasNode u = true → ∀ c ∈ u, LabelOk da c) ∧
      (∀ u, t.hasNode u = true → u.length < da.states.size) ∧
      (∀ u, t.hasNode u = true → idx u < da.states.size) ∧
      (∀ u w, t.hasNode u = true → t.hasNode w = true → idx u = idx w → u = w) ∧
      buildTrie cfg.kind P = .ok t ∧ da.numStates = t.size := by
  obtain ⟨_, acc, _, _, ht, hr⟩ := buildDA_ok_decomp variant cfg P da hb
  have hv : da.variant = variant := (buildRest_ok _ _ _ _ _ _ hr).2.2.1
  have hnum : da.numStates = acc.trie.size := (buildRest_ok _ _ _ _ _ _ hr).2.2.2
  have hT := hS _ ht
  have hsort := buildTrie_sorted _ _ _ ht
  unfold buildRest at hr
  split at hr
  · cases hr
  split at hr
  · cases hr
  simp only at hr
  split at hr
  · cases hr
  rename_i states hst
  cases hr
  cases variant with
  | bytewise =>
    have hbytes : ∀ u, acc.trie.hasNode u = true → ∀ c ∈ u, c < 256 := by
      intro u hu c hc
      rcases mem_nodeList.1 ((hT.nodes u).1 hu) with h0 | ⟨p, hp, hpre⟩
      · subst h0; cases hc
      · exact hlabels rfl p (hsub p hp) c (hpre.subset hc)
    obtain ⟨idx, hL, hlt, hinj⟩ := LayB.layoutSem_bytewise cfg (mapperFor .bytewise P) acc.trie
      (buildNfa acc.trie (cfg.kind != 0)) states hst hsort hbytes cfg.kind acc.trie.size
    refine ⟨acc.trie, idx, hT, hsort, hL, ?_, depth_bound hlt hinj, hlt, hinj, ht, hnum⟩
    intro u hu c hc
    exact labelOk_bytewise hv (hbytes u hu c hc)
  | charwise =>
    obtain ⟨idx, hL, hlt, hinj⟩ := LayC.layoutSem_charwise cfg (mapperFor .charwise P) acc.trie
      (buildNfa acc.trie (cfg.kind != 0)) states hst hsort (mapperOk_build' P) cfg.kind
      acc.trie.size
    refine ⟨acc.trie, idx, hT, hsort, hL, ?_, depth_bound hlt hinj, hlt, hinj, ht, hnum⟩
    intro u _ c _
    exact labelOk_charwise hv c

/-- The reachability statement from the exported layout facts, for any registered list `P'`. -/
theorem states_reachable_of_layout (variant : Variant) (cfg : Cfg) (P P' : List (LPat V))
    (da : DA V) (hb : buildDA variant cfg P = .ok da)
    (hS : ∀ t, buildTrie cfg.kind P = .ok t → TrieSem t P')
    (hsub : ∀ p ∈ P', p ∈ P)
    (hlabels : variant = .bytewise → ∀ p ∈ P, ∀ c ∈ p.key, c < 256) :
    ∃ (nodes : List (List Nat)) (idx : List Nat → Nat),
      nodes.Nodup ∧ nodes.length = da.numStates ∧
      (∀ u ∈ nodes, da.walk u = some (idx u) ∧ idx u < da.states.size) ∧
      (∀ u ∈ nodes, ∀ w ∈ nodes, idx u = idx w → u = w) := by
  obtain ⟨t, idx, hT, hsort, hL, hlab, _, hlt, hinj, _, hnum⟩ :=
    build_layout_full variant cfg P P' da hb hS hsub hlabels
  have hmem : ∀ u, u ∈ t.paths [] → t.hasNode u = true := by
    intro u hu
    exact (Trie.mem_paths_nil t hsort u).1 hu
  refine ⟨t.paths [], idx, Trie.nodup_paths t hsort [], ?_, ?_, ?_⟩
  · rw [hnum, Trie.size_eq_length_paths t []]
  · intro u hu
    exact ⟨walk_eq_idx hL hT hlab u (hmem u hu), hlt u (hmem u hu)⟩
  · intro u hu w hw e
    exact hinj u w (hmem u hu) (hmem w hw) e

/-- **Reported state count is truthful.** `numStates` is the length of a duplicate-free list of
node paths, each of which is reachable from the root by following the child lookups along its own
path, at pairwise distinct in-range element indices. -/
theorem states_reachable (variant : Variant) (nfb kind : Nat) (P : List (LPat V)) (da : DA V)
    (hb : buildDA variant ⟨kind, nfb⟩ P = .ok da) (hk : keysOk P)
    (hlabels : variant = .bytewise → ∀ p ∈ P, ∀ c ∈ p.key, c < 256) :
    ∃ (nodes : List (List Nat)) (idx : List Nat → Nat),
      nodes.Nodup ∧ nodes.length = da.numStates ∧
      (∀ u ∈ nodes, da.walk u = some (idx u) ∧ idx u < da.states.size) ∧
      (∀ u ∈ nodes, ∀ w ∈ nodes, idx u = idx w → u = w) := by
  by_cases h2 : kind = 2
  · subst h2
    exact states_reachable_of_layout variant ⟨2, nfb⟩ P (retainedL P) da hb
      (fun t ht => buildTrie_trieSem_lf P t ht hk)
      (fun _ h => (retainedL_sublist P).subset h) hlabels
  · exact states_reachable_of_layout variant ⟨kind, nfb⟩ P P da hb
      (fun t ht => buildTrie_trieSem kind h2 P t ht hk) (fun _ h => h) hlabels

/-- Pigeonhole for a duplicate-free list mapped injectively below `n`. -/
theorem length_le_of_inj {α : Type} (nodes : List α) (idx : α → Nat) (n : Nat)
    (hnd : nodes.Nodup) (hlt : ∀ u ∈ nodes, idx u < n)
    (hinj : ∀ u ∈ nodes, ∀ w ∈ nodes, idx u = idx w → u = w) : nodes.length ≤ n := by
  cases nodes with
  | nil => exact Nat.zero_le _
  | cons a r =>
    have hin : ∀ i, i < (a :: r).length → (a :: r).getD i a ∈ a :: r := by
      intro i hi
      have : (a :: r).getD i a = (a :: r)[i] := by
        simp [List.getD_eq_getElem?_getD, List.getElem?_eq_getElem hi]
      rw [this]
      exact List.getElem_mem hi
    apply inj_bound n (a :: r).length (fun i => idx ((a :: r).getD i a))
    · intro i hi
      exact hlt _ (hin i hi)
    · intro i j hi hj e
      have := hinj _ (hin i hi) _ (hin j hj) e
      exact (List.getD_inj hi hj hnd).1 this

/-- **`num_elements() ≥ num_states()`**: the reported state count does not exceed the number of
double-array elements. -/
theorem num_elements_ge_num_states (variant : Variant) (nfb kind : Nat) (P : List (LPat V))
    (da : DA V) (hb : buildDA variant ⟨kind, nfb⟩ P = .ok da) (hk : keysOk P)
    (hlabels : variant = .bytewise → ∀ p ∈ P, ∀ c ∈ p.key, c < 256) :
    da.numStates ≤ da.states.size := by
  obtain ⟨nodes, idx, hnd, hlen, hw, hinj⟩ := states_reachable variant nfb kind P da hb hk hlabels
  rw [← hlen]
  exact length_le_of_inj nodes idx da.states.size hnd (fun u hu => (hw u hu).2) hinj

#print axioms build_layout_full
#print axioms states_reachable
#print axioms num_elements_ge_num_states

end Daac

import Daac.Proofs.TieTop
import Daac.Proofs.TieL
/-!
The frame property `KindFrame` of the translated byte-wise `build_double_array` (Gen/BuildB.lean): none of
`init_array`, `extend_array`, `remove_invalid_checks`, `loop0` .. `loop3` writes the `match_kind` (or the
`num_free_blocks`) field of the builder.  With it, the `match_kind` conjunct of
`generated_build_with_values_eq_buildDA_partial` becomes unconditional.
-/
namespace Daac.Tie.Top
open Daac Daac.Gen Daac.Gen.N Daac.Tie.N Daac.Tie.F Daac.Tie.P Daac.Tie.H

variable {V : Type}

/-- The two fields of the builder that the layout pass never writes. -/
def SameCfg (b' b : LB.Builder) : Prop :=
  b'.match_kind = b.match_kind ∧ b'.num_free_blocks = b.num_free_blocks

theorem SameCfg.rfl' (b : LB.Builder) : SameCfg b b := ⟨rfl, rfl⟩

theorem SameCfg.trans {a b c : LB.Builder} (h1 : SameCfg a b) (h2 : SameCfg b c) : SameCfg a c :=
  ⟨h1.1.trans h2.1, h1.2.trans h2.2⟩

theorem init_array_frame (b b' : LB.Builder) (h : H.BuildHelper)
    (hh : LB.Builder.init_array b = .ok (h, b')) : SameCfg b' b := by
  unfold LB.Builder.init_array at hh
  dsimp only at hh
  repeat' split at hh
  all_goals first | cases hh | skip
  exact ⟨rfl, rfl⟩

theorem extend_array_frame (b b' : LB.Builder) (h h' : H.BuildHelper) (u : Unit)
    (hh : LB.Builder.extend_array b h = .ok (u, b', h')) : SameCfg b' b := by
  unfold LB.Builder.extend_array at hh
  split at hh
  · cases hh
  · split at hh
    · cases hh
    · rename_i b1 hb1
      have h1 : SameCfg b1 b := by
        repeat' split at hb1
        all_goals first | cases hb1 | skip
        · rename_i hr; exact Tie.L.B.remove_invalid_checks_frame _ _ _ _ _ hr
        · exact ⟨rfl, rfl⟩
      split at hh
      · cases hh
      · cases hh
        exact ⟨h1.1, h1.2⟩

theorem loop1_frame (base : Nat) : ∀ (l : List (Nat × Nat)) (b : LB.Builder) (h : H.BuildHelper)
    (m : Array Nat) (st : List Nat) (r : LB.Builder × H.BuildHelper × Array Nat × List Nat),
    DB.Builder.build_double_array.loop1 base l b h m st = .ok r → SameCfg r.1 b
  | [], b, h, m, st, r, hh => by
    simp only [DB.Builder.build_double_array.loop1] at hh
    cases hh; exact ⟨rfl, rfl⟩
  | (c, ch) :: rest, b, h, m, st, r, hh => by
    unfold DB.Builder.build_double_array.loop1 at hh
    dsimp only at hh
    repeat' split at hh
    all_goals first | cases hh | skip
    exact (loop1_frame base rest _ _ _ _ r hh).trans ⟨rfl, rfl⟩

theorem loop0_frame (nfa : NfaBuilder V) : ∀ (fuel : Nat) (b : LB.Builder) (h : H.BuildHelper)
    (m : Array Nat) (st lb : List Nat)
    (r : LB.Builder × H.BuildHelper × Array Nat × List Nat × List Nat),
    DB.Builder.build_double_array.loop0 nfa fuel b h m st lb = .ok r → SameCfg r.1 b
  | 0, b, h, m, st, lb, r, hh => by
    simp only [DB.Builder.build_double_array.loop0] at hh
    cases hh
  | fuel + 1, b, h, m, st, lb, r, hh => by
    unfold DB.Builder.build_double_array.loop0 at hh
    dsimp only at hh
    split at hh
    · cases hh; exact ⟨rfl, rfl⟩
    · split at hh
      · cases hh
      · split at hh
        · cases hh
        · split at hh
          · exact loop0_frame nfa fuel _ _ _ _ _ r hh
          · split at hh
            · cases hh
            · split at hh
              · cases hh
              · rename_i b1 h1 hext
                have hb1 : SameCfg b1 b := by
                  split at hext
                  · split at hext
                    · cases hext
                    · rename_i hx
                      cases hext
                      exact extend_array_frame _ _ _ _ _ hx
                  · cases hext; exact ⟨rfl, rfl⟩
                split at hh
                · cases hh
                · rename_i b2 h2 m2 st2 hl1
                  have hb2 : SameCfg b2 b1 := loop1_frame _ _ _ _ _ _ _ hl1
                  split at hh
                  · cases hh
                  · split at hh
                    · cases hh
                    · have := loop0_frame nfa fuel _ _ _ _ _ r hh
                      exact ⟨this.1.trans (hb2.1.trans hb1.1), this.2.trans (hb2.2.trans hb1.2)⟩

theorem loop2_frame (m : Array Nat) : ∀ (l : List (Nat × NfaBuilderState V)) (b b' : LB.Builder),
    DB.Builder.build_double_array.loop2 m l b = .ok b' → SameCfg b' b
  | [], b, b', hh => by
    simp only [DB.Builder.build_double_array.loop2] at hh
    cases hh; exact ⟨rfl, rfl⟩
  | (i, s) :: rest, b, b', hh => by
    unfold DB.Builder.build_double_array.loop2 at hh
    dsimp only at hh
    split at hh
    · exact loop2_frame m rest _ _ hh
    · split at hh
      · cases hh
      · split at hh
        · cases hh
        · split at hh
          · cases hh
          · split at hh
            · cases hh
            · rename_i b1 hb1
              have h1 : SameCfg b1 b := by
                repeat' split at hb1
                all_goals first | cases hb1 | skip
                all_goals exact ⟨rfl, rfl⟩
              exact (loop2_frame m rest _ _ hh).trans h1

theorem loop3_frame (h : H.BuildHelper) : ∀ (l : List Nat) (b b' : LB.Builder),
    DB.Builder.build_double_array.loop3 h l b = .ok b' → SameCfg b' b
  | [], b, b', hh => by
    simp only [DB.Builder.build_double_array.loop3] at hh
    cases hh; exact ⟨rfl, rfl⟩
  | c :: rest, b, b', hh => by
    unfold DB.Builder.build_double_array.loop3 at hh
    split at hh
    · cases hh
    · rename_i hr
      exact (loop3_frame h rest _ _ hh).trans (Tie.L.B.remove_invalid_checks_frame _ _ _ _ _ hr)

/-- The translated byte-wise `build_double_array` leaves `match_kind` and `num_free_blocks` unchanged. -/
theorem build_double_array_frame (b b' : LB.Builder) (g : NfaBuilder V) (u : Unit)
    (hh : DB.Builder.build_double_array b g = .ok (u, b')) : SameCfg b' b := by
  unfold DB.Builder.build_double_array at hh
  dsimp only at hh
  split at hh
  · cases hh
  · rename_i hi
    split at hh
    · cases hh
    · split at hh
      · cases hh
      · rename_i h0
        split at hh
        · cases hh
        · rename_i h2
          split at hh
          · cases hh
          · rename_i h3
            cases hh
            exact (loop3_frame _ _ _ _ h3).trans ((loop2_frame _ _ _ _ h2).trans
              ((loop0_frame _ _ _ _ _ _ _ _ h0).trans (init_array_frame _ _ _ hi)))

/-- `KindFrame`: the translated `build_double_array` never writes `match_kind`. -/
theorem kindFrame : KindFrame V := fun b b' g u h => (build_double_array_frame b b' g u h).1

/-- END TO END, unconditional: the translated byte-wise `build_with_values` against the model
`buildDA .bytewise` — same error kind, or equal `states`, equal `num_states`, `match_kind = kind = da.kind`,
related `outputs`. -/
theorem generated_build_with_values_eq_buildDA_full
    (kind : Nat) (cfg : Cfg) (pv : List (List Nat × V))
    (hk : kind ≤ 2) (hkind : cfg.kind = kind) (hnfb : 1 ≤ cfg.nfb)
    (hbytes : ∀ p ∈ pv, ∀ c ∈ p.1, c < 256)
    (hsz : 2 + (pv.map (·.1.length)).sum ≤ 4294967295) :
    match TB.Builder.build_with_values ⟨#[], kind, cfg.nfb⟩ pv, buildDA .bytewise cfg (toLPats pv) with
    | .error e, .error e' => norm (.error e : Except BuildErr Unit) = norm (.error e')
    | .ok a, .ok da => a.states = da.states ∧ a.num_states = da.numStates ∧ a.match_kind = kind ∧
        a.match_kind = da.kind ∧ OutsRel a.outputs da.outputs
    | _, _ => False :=
  generated_build_with_values_eq_buildDA_partial kindFrame kind cfg pv hk hkind hnfb hbytes hsz

end Daac.Tie.Top

#print axioms Daac.Tie.Top.kindFrame
#print axioms Daac.Tie.Top.generated_build_with_values_eq_buildDA_full

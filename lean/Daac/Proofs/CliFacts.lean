/-
Facts about the command-line model `Daac/Model/Cli.lean`, instantiated with the specification
searches (`find := specFind P`, `nosuf := specNoSuffix P`). Core Lean only.
-/
import Daac.Model.Cli
import Daac.Proofs.SpecProps
namespace Daac.Cli
open Daac
variable {V : Type}

/-! ## 1. A line is printed iff it contains an occurrence -/

theorem specFind_eq_nil_iff {P : List (Pat V)} (hv : ValidPats P) (h : List Nat) :
    specFind P h = [] ↔ ¬ ∃ m, IsOcc P h m := by
  have hf := specFind_spec hv h
  constructor
  · intro he
    rw [he] at hf
    cases hf with
    | done hn => rintro ⟨m, hm⟩; exact hn ⟨m, hm, Nat.zero_le _⟩
  · intro hn
    generalize specFind P h = ms at hf
    cases hf with
    | done _ => rfl
    | step ho _ _ _ => exact absurd ⟨_, ho⟩ hn

/-- Among the occurrences ending where `m` ends there is a longest one. -/
theorem exists_longest_occ {P : List (Pat V)} {h : List Nat} :
    ∀ (n : Nat) (m : Match V), m.start = n → IsOcc P h m →
      ∃ m0, IsOcc P h m0 ∧ m0.stop = m.stop ∧ m0.start ≤ m.start ∧
        ∀ m', IsOcc P h m' → m'.stop = m.stop → m0.start ≤ m'.start := by
  intro n
  induction n using Nat.strongRecOn with
  | _ n ih =>
    intro m hn hm
    by_cases hmin : ∀ m', IsOcc P h m' → m'.stop = m.stop → m.start ≤ m'.start
    · exact ⟨m, hm, rfl, Nat.le_refl _, hmin⟩
    · simp only [Classical.not_forall] at hmin
      obtain ⟨m', hm', hs, hlt⟩ := hmin
      obtain ⟨m0, h1, h2, h3, h4⟩ := ih m'.start (by omega) m' rfl hm'
      exact ⟨m0, h1, by omega, by omega, fun x hx hxs => h4 x hx (by omega)⟩

/-- Every occurrence is dominated by a no-suffix match with the same end. -/
theorem exists_nosuf_of_occ {P : List (Pat V)} (hv : ValidPats P) {h : List Nat} {m : Match V}
    (hm : IsOcc P h m) :
    ∃ m0 ∈ specNoSuffix P h, m0.stop = m.stop ∧ m0.start ≤ m.start := by
  obtain ⟨m0, h1, h2, h3, h4⟩ := exists_longest_occ m.start m rfl hm
  exact ⟨m0, (mem_specNoSuffix hv).2 ⟨h1, fun m' hm' hs => h4 m' hm' (by omega)⟩, h2, h3⟩

theorem specNoSuffix_eq_nil_iff {P : List (Pat V)} (hv : ValidPats P) (h : List Nat) :
    specNoSuffix P h = [] ↔ ¬ ∃ m, IsOcc P h m := by
  constructor
  · rintro he ⟨m, hm⟩
    obtain ⟨m0, h0, _⟩ := exists_nosuf_of_occ hv hm
    rw [he] at h0; simp at h0
  · intro hn
    apply List.eq_nil_iff_forall_not_mem.2
    intro m hm
    exact hn ⟨m, ((mem_specNoSuffix hv).1 hm).1⟩

/-- 4(b): a byte position is covered by some occurrence iff it is covered by a no-suffix match. -/
theorem covered_iff_nosuf_covered {P : List (Pat V)} (hv : ValidPats P) (line : List Nat) (i : Nat) :
    (∃ m, IsOcc P line m ∧ m.start ≤ i ∧ i < m.stop) ↔
      ∃ m ∈ specNoSuffix P line, m.start ≤ i ∧ i < m.stop := by
  constructor
  · rintro ⟨m, hm, h1, h2⟩
    obtain ⟨m0, h0, h3, h4⟩ := exists_nosuf_of_occ hv hm
    exact ⟨m0, h0, by omega, by omega⟩
  · rintro ⟨m, hm, h1, h2⟩
    exact ⟨m, ((mem_specNoSuffix hv).1 hm).1, h1, h2⟩

theorem findAndOutput_eq_nil_iff {P : List (Pat V)} (hv : ValidPats P) (color : Bool)
    (fn : Option (List Nat)) (ln : Option Nat) (line : List Nat) :
    findAndOutput (specFind P) (specNoSuffix P) color fn ln line = [] ↔ ¬ ∃ m, IsOcc P line m := by
  unfold findAndOutput
  cases color
  · simp only [Bool.not_false, if_true, List.isEmpty_iff]
    split
    · rename_i h; simp [(specFind_eq_nil_iff hv line).1 h]
    · rename_i h; simp [mt (specFind_eq_nil_iff hv line).2 h]
  · simp only [Bool.not_true, Bool.false_eq_true, if_false, List.isEmpty_iff]
    split
    · rename_i h; simp [(specNoSuffix_eq_nil_iff hv line).1 h]
    · rename_i h; simp [mt (specNoSuffix_eq_nil_iff hv line).2 h]

/-- 1: a line is printed (in either colour mode) iff it contains a pattern occurrence. -/
theorem prints_iff_occurs {P : List (Pat V)} (hv : ValidPats P) (color : Bool)
    (fn : Option (List Nat)) (ln : Option Nat) (line : List Nat) :
    findAndOutput (specFind P) (specNoSuffix P) color fn ln line ≠ [] ↔ ∃ m, IsOcc P line m := by
  rw [Ne, findAndOutput_eq_nil_iff hv]; exact Classical.not_not

/-- 2: without colour the output of a printed line is the prefix, the unchanged line and a
newline. -/
theorem plain_output {P : List (Pat V)} (hv : ValidPats P)
    (fn : Option (List Nat)) (ln : Option Nat) (line : List Nat) (hocc : ∃ m, IsOcc P line m) :
    findAndOutput (specFind P) (specNoSuffix P) false fn ln line =
      linePrefix fn ln ++ line ++ [10] := by
  unfold findAndOutput
  simp only [Bool.not_false, if_true, List.isEmpty_iff]
  rw [if_neg (fun h => (specFind_eq_nil_iff hv line).1 h hocc)]

/-- 2': the printed bytes, whenever something is printed. -/
theorem plain_output_of_ne_nil {P : List (Pat V)} (hv : ValidPats P)
    (fn : Option (List Nat)) (ln : Option Nat) (line : List Nat)
    (h : findAndOutput (specFind P) (specNoSuffix P) false fn ln line ≠ []) :
    findAndOutput (specFind P) (specNoSuffix P) false fn ln line =
      linePrefix fn ln ++ line ++ [10] :=
  plain_output hv fn ln line ((prints_iff_occurs hv false fn ln line).1 h)

/-- Nothing is printed for a line without occurrence (either mode). -/
theorem no_output_of_no_occ {P : List (Pat V)} (hv : ValidPats P) (color : Bool)
    (fn : Option (List Nat)) (ln : Option Nat) (line : List Nat) (h : ¬ ∃ m, IsOcc P line m) :
    findAndOutput (specFind P) (specNoSuffix P) color fn ln line = [] :=
  (findAndOutput_eq_nil_iff hv color fn ln line).2 h

/-! ## 3. The coloured output is the line cut into segments, each preceded by an escape -/

/-- The `(highlighted?, segment)` pairs the rendering loop emits, and the final `prev_pos`. -/
def renderSegs (line : List Nat) : List (Nat × Int) → Int → Nat → List (Bool × List Nat) × Nat
  | [], _, prev => ([], prev)
  | (pos, c) :: rest, depth, prev =>
    let nd := depth + c
    if depth = 0 ∧ nd ≠ 0 then
      ((false, (line.take pos).drop prev) :: (renderSegs line rest nd pos).1,
        (renderSegs line rest nd pos).2)
    else if depth ≠ 0 ∧ nd = 0 then
      ((true, (line.take pos).drop prev) :: (renderSegs line rest nd pos).1,
        (renderSegs line rest nd pos).2)
    else renderSegs line rest nd prev

/-- Bytes written for a list of segments: `ansiRed` before a highlighted segment, `ansiReset`
before a plain one. -/
def renderBytes (segs : List (Bool × List Nat)) : List Nat :=
  segs.flatMap fun s => (if s.1 then ansiRed else ansiReset) ++ s.2

theorem renderLoop_eq_renderSegs (line : List Nat) :
    ∀ (cs : List (Nat × Int)) (depth : Int) (prev : Nat) (out : List Nat),
      renderLoop line cs depth prev out =
        (out ++ renderBytes (renderSegs line cs depth prev).1, (renderSegs line cs depth prev).2) := by
  intro cs
  induction cs with
  | nil => intro depth prev out; simp [renderLoop, renderSegs, renderBytes]
  | cons pc rest ih =>
    obtain ⟨pos, c⟩ := pc
    intro depth prev out
    simp only [renderLoop, renderSegs]
    split
    · rw [ih]; simp [renderBytes]
    · split
      · rw [ih]; simp [renderBytes]
      · rw [ih]

/-- The segments, concatenated, followed by the unwritten tail, are the line from `prev` on. -/
theorem renderSegs_text (line : List Nat) :
    ∀ (cs : List (Nat × Int)) (depth : Int) (prev : Nat),
      (cs.map (·.1)).Pairwise (· ≤ ·) → (∀ p ∈ cs, prev ≤ p.1) →
      (renderSegs line cs depth prev).1.flatMap (·.2) ++ line.drop (renderSegs line cs depth prev).2
        = line.drop prev := by
  intro cs
  induction cs with
  | nil => intro depth prev _ _; simp [renderSegs]
  | cons pc rest ih =>
    obtain ⟨pos, c⟩ := pc
    intro depth prev hs hp
    simp only [List.map_cons, List.pairwise_cons, List.mem_map, forall_exists_index, and_imp,
      forall_apply_eq_imp_iff₂] at hs
    have hpos : prev ≤ pos := hp (pos, c) List.mem_cons_self
    have hcut : (line.take pos).drop prev ++ line.drop pos = line.drop prev := by
      have h1 : line.drop pos = (line.drop prev).drop (pos - prev) := by
        rw [List.drop_drop]; congr 1; omega
      rw [List.drop_take, h1, List.take_append_drop]
    simp only [renderSegs]
    split
    · simp only [List.flatMap_cons, List.append_assoc]
      rw [ih _ _ hs.2 (fun p hp' => hs.1 p hp'), hcut]
    · split
      · simp only [List.flatMap_cons, List.append_assoc]
        rw [ih _ _ hs.2 (fun p hp' => hs.1 p hp'), hcut]
      · exact ih _ _ hs.2 (fun p hp' => hp p (List.mem_cons_of_mem _ hp'))

/-- The `(position, count)` list walked by `find_and_output`. -/
def countList (line : List Nat) (ms : List (Match V)) : List (Nat × Int) :=
  (List.range (line.length + 1)).zip (colorCounts line.length ms)

/-- All segments of a coloured line: those emitted by the loop, then the plain tail written
after the final `ansiReset`. -/
def colourSegs (line : List Nat) (ms : List (Match V)) : List (Bool × List Nat) :=
  (renderSegs line (countList line ms) 0 0).1 ++
    [(false, line.drop (renderSegs line (countList line ms) 0 0).2)]

theorem countList_map_fst (line : List Nat) (ms : List (Match V)) :
    (countList line ms).map (·.1) = List.range (line.length + 1) := by
  unfold countList
  apply List.map_fst_zip
  simp [colorCounts]

/-- 3 (text): the segments concatenated give back the line. -/
theorem colourSegs_text (line : List Nat) (ms : List (Match V)) :
    (colourSegs line ms).flatMap (·.2) = line := by
  unfold colourSegs
  rw [List.flatMap_append]
  simp only [List.flatMap_cons, List.flatMap_nil, List.append_nil]
  rw [renderSegs_text line _ 0 0 ?_ (fun _ _ => Nat.zero_le _)]
  · rfl
  · rw [countList_map_fst]
    exact List.Pairwise.imp Nat.le_of_lt List.pairwise_lt_range

/-- 3 (bytes): the coloured output of a printed line, in terms of its segments. -/
theorem coloured_output_eq {P : List (Pat V)} (hv : ValidPats P)
    (fn : Option (List Nat)) (ln : Option Nat) (line : List Nat) (hocc : ∃ m, IsOcc P line m) :
    findAndOutput (specFind P) (specNoSuffix P) true fn ln line =
      linePrefix fn ln ++ renderBytes (colourSegs line (specNoSuffix P line)) ++ [10] := by
  unfold findAndOutput
  simp only [Bool.not_true, Bool.false_eq_true, if_false, List.isEmpty_iff]
  rw [if_neg (fun h => (specNoSuffix_eq_nil_iff hv line).1 h hocc)]
  rw [renderLoop_eq_renderSegs]
  simp [colourSegs, countList, renderBytes]

/-- 3: with colour, the output of a printed line is the prefix, then blocks
`(ansiRed | ansiReset) ++ segment`, then a newline, and the segments concatenated are the line:
removing the escape sequences gives `prefix ++ line ++ "\n"`. -/
theorem coloured_output {P : List (Pat V)} (hv : ValidPats P)
    (fn : Option (List Nat)) (ln : Option Nat) (line : List Nat) (hocc : ∃ m, IsOcc P line m) :
    ∃ segs : List (Bool × List Nat),
      findAndOutput (specFind P) (specNoSuffix P) true fn ln line =
        linePrefix fn ln ++ (segs.flatMap fun s => (if s.1 then ansiRed else ansiReset) ++ s.2)
          ++ [10] ∧
      segs.flatMap (·.2) = line :=
  ⟨colourSegs line (specNoSuffix P line), coloured_output_eq hv fn ln line hocc,
    colourSegs_text line _⟩

/-! ## 4(a). Which bytes are highlighted -/

/-- Per-byte highlight flags of a list of segments. -/
def hlMask (segs : List (Bool × List Nat)) : List Bool :=
  segs.flatMap fun s => List.replicate s.2.length s.1

/-- The depth after each processed position. -/
def depths : List (Nat × Int) → Int → List Int
  | [], _ => []
  | (_, c) :: rest, d => (d + c) :: depths rest (d + c)

/-- The depth after the whole list. -/
def finalDepth : List (Nat × Int) → Int → Int
  | [], d => d
  | (_, c) :: rest, d => finalDepth rest (d + c)

/-- Non-zero test on depths. -/
def nz (x : Int) : Bool := decide (x ≠ 0)

theorem take_mask_aux {prev s len : Nat} (b : Bool) (l : List Bool) (h1 : prev ≤ s) (h2 : s ≤ len) :
    (List.replicate (s - prev) b ++ l).take (len - prev) =
      List.replicate (s - prev) b ++ l.take (len - s) := by
  rw [List.take_append, List.take_replicate, List.length_replicate]
  congr 2 <;> omega

theorem renderSegs_mask (line : List Nat) :
    ∀ (cs : List (Nat × Int)) (d : Int) (prev s : Nat),
      cs.map (·.1) = List.range' s (line.length + 1 - s) → prev ≤ s → prev ≤ line.length →
      s ≤ line.length + 1 →
      hlMask (renderSegs line cs d prev).1 ++
          List.replicate (line.length - (renderSegs line cs d prev).2) (nz (finalDepth cs d))
        = (List.replicate (s - prev) (nz d) ++
            (depths cs d).map nz).take (line.length - prev) := by
  intro cs
  induction cs with
  | nil =>
    intro d prev s hcs h1 h2 h3
    have : s = line.length + 1 := by
      simp only [List.map_nil] at hcs
      have := congrArg List.length hcs
      simp at this; omega
    subst this
    simp only [renderSegs, hlMask, List.flatMap_nil, List.nil_append, finalDepth, depths,
      List.map_nil, List.append_nil, List.take_replicate]
    congr 1; omega
  | cons pc rest ih =>
    obtain ⟨pos, c⟩ := pc
    intro d prev s hcs h1 h2 h3
    have hs : s ≤ line.length := by
      have := congrArg List.length hcs
      simp at this; omega
    have hk : line.length + 1 - s = (line.length + 1 - (s + 1)) + 1 := by omega
    rw [hk, List.range'_succ] at hcs
    simp only [List.map_cons, List.cons.injEq] at hcs
    obtain ⟨rfl, hrest⟩ := hcs
    have hseg : ((line.take pos).drop prev).length = pos - prev := by
      simp only [List.length_drop, List.length_take]; omega
    have ih1 := ih (d + c) pos (pos + 1) hrest (by omega) hs (by omega)
    have ih2 := ih (d + c) prev (pos + 1) hrest (by omega) h2 (by omega)
    simp only [Nat.add_sub_cancel_left, List.replicate_one, List.singleton_append] at ih1
    simp only [renderSegs, finalDepth, depths, List.map_cons]
    rw [take_mask_aux _ _ h1 hs]
    split
    · rename_i hc
      simp only [hlMask, List.flatMap_cons, hseg, List.append_assoc]
      rw [← hlMask, ih1]; simp [hc.1, nz]
    · split
      · rename_i hc
        simp only [hlMask, List.flatMap_cons, hseg, List.append_assoc]
        rw [← hlMask, ih1]; simp [hc.1, nz]
      · rename_i hc1 hc2
        rw [ih2]
        have hb : nz (d + c) = nz d := by
          by_cases hd : d = 0 <;> by_cases hn : d + c = 0 <;> simp_all [nz]
        have hr : List.replicate (pos + 1 - prev) (nz (d + c)) =
            List.replicate (pos - prev) (nz d) ++ [nz (d + c)] := by
          rw [hb, show pos + 1 - prev = (pos - prev) + 1 by omega, List.replicate_succ']
        rw [hr, List.append_assoc, List.singleton_append, take_mask_aux _ _ h1 hs]

/-- The entry of `color_counts` at position `p`. -/
def cntAt (ms : List (Match V)) (p : Nat) : Int :=
  (ms.filter (·.start = p)).length - (ms.filter (·.stop = p)).length

/-- Sum of the `color_counts` entries at positions `< q`: the depth before processing `q`. -/
def depthBefore (ms : List (Match V)) (q : Nat) : Int :=
  (ms.filter (·.start < q)).length - (ms.filter (·.stop < q)).length

theorem filter_lt_succ {α : Type} (g : α → Nat) (l : List α) (q : Nat) :
    (l.filter (fun a => decide (g a < q + 1))).length =
      (l.filter (fun a => decide (g a < q))).length + (l.filter (fun a => decide (g a = q))).length := by
  induction l with
  | nil => rfl
  | cons a l ih =>
    simp only [List.filter_cons]
    by_cases h1 : g a < q
    · have h2 : g a < q + 1 := by omega
      have h3 : ¬ g a = q := by omega
      simp [h1, h2, h3, ih]; omega
    · by_cases h3 : g a = q
      · simp [h3, ih]; omega
      · have h2 : ¬ g a < q + 1 := by omega
        simp [h1, h2, h3, ih]

theorem depthBefore_zero (ms : List (Match V)) : depthBefore ms 0 = 0 := by
  simp [depthBefore]

theorem depthBefore_succ (ms : List (Match V)) (q : Nat) :
    depthBefore ms (q + 1) = depthBefore ms q + cntAt ms q := by
  unfold depthBefore cntAt
  rw [filter_lt_succ (fun m : Match V => m.start), filter_lt_succ (fun m : Match V => m.stop)]
  omega

theorem zip_map_self {α β : Type} (f : α → β) (l : List α) :
    l.zip (l.map f) = l.map (fun a => (a, f a)) := by
  induction l with
  | nil => rfl
  | cons a l ih => simp [ih]

theorem countList_eq (line : List Nat) (ms : List (Match V)) :
    countList line ms = (List.range' 0 (line.length + 1)).map (fun p => (p, cntAt ms p)) := by
  unfold countList colorCounts
  rw [zip_map_self, List.range_eq_range']
  rfl

theorem depths_counts (ms : List (Match V)) : ∀ (k s : Nat),
    depths ((List.range' s k).map (fun p => (p, cntAt ms p))) (depthBefore ms s) =
      (List.range' s k).map (fun q => depthBefore ms (q + 1)) := by
  intro k
  induction k with
  | zero => intro s; rfl
  | succ k ih =>
    intro s
    simp only [List.range'_succ, List.map_cons, depths, ← depthBefore_succ, ih]

theorem finalDepth_counts (ms : List (Match V)) : ∀ (k s : Nat),
    finalDepth ((List.range' s k).map (fun p => (p, cntAt ms p))) (depthBefore ms s) =
      depthBefore ms (s + k) := by
  intro k
  induction k with
  | zero => intro s; rfl
  | succ k ih =>
    intro s
    simp only [List.range'_succ, List.map_cons, finalDepth, ← depthBefore_succ, ih]
    congr 1; omega

/-- 4(a), prefix sums: the depth after processing position `q` is the number of matches
covering byte `q` (all matches being non-empty). -/
theorem depth_eq_cover_count (ms : List (Match V)) (hne : ∀ m ∈ ms, m.start < m.stop) (q : Nat) :
    depthBefore ms (q + 1) = ((ms.filter (fun m => decide (m.start ≤ q ∧ q < m.stop))).length : Int) := by
  unfold depthBefore
  induction ms with
  | nil => rfl
  | cons a ms ih =>
    have ha := hne a List.mem_cons_self
    have ih' := ih (fun m hm => hne m (List.mem_cons_of_mem _ hm))
    simp only [List.filter_cons]
    by_cases h1 : a.start < q + 1 <;> by_cases h2 : a.stop < q + 1
    · have h3 : ¬ (a.start ≤ q ∧ q < a.stop) := by omega
      simp only [h1, h2, h3, decide_true, decide_false, if_true, List.length_cons]
      simp only [Bool.false_eq_true, if_false]; omega
    · have h3 : a.start ≤ q ∧ q < a.stop := by omega
      simp only [h1, h2, h3, decide_true, decide_false, if_true, List.length_cons]
      simp only [Bool.false_eq_true, if_false, and_self, decide_true, if_true, List.length_cons]; omega
    · omega
    · have h3 : ¬ (a.start ≤ q ∧ q < a.stop) := by omega
      simp only [h1, h2, h3, decide_false]
      simp only [Bool.false_eq_true, if_false]; omega

theorem nz_depth_iff (ms : List (Match V)) (hne : ∀ m ∈ ms, m.start < m.stop) (q : Nat) :
    nz (depthBefore ms (q + 1)) = true ↔ ∃ m ∈ ms, m.start ≤ q ∧ q < m.stop := by
  rw [depth_eq_cover_count ms hne]
  simp only [nz, decide_eq_true_eq, ne_eq, Int.natCast_eq_zero, List.length_eq_zero_iff,
    List.filter_eq_nil_iff, decide_eq_true_eq, Classical.not_forall, Classical.not_not]
  constructor
  · rintro ⟨m, hm, h⟩; exact ⟨m, hm, h⟩
  · rintro ⟨m, hm, h⟩; exact ⟨m, hm, h⟩

theorem depthBefore_end (ms : List (Match V)) (n : Nat) (hne : ∀ m ∈ ms, m.start < m.stop)
    (hle : ∀ m ∈ ms, m.stop ≤ n) : depthBefore ms (n + 1) = 0 := by
  rw [depth_eq_cover_count ms hne]
  simp only [Int.natCast_eq_zero, List.length_eq_zero_iff, List.filter_eq_nil_iff, decide_eq_true_eq]
  intro m hm
  have := hle m hm
  omega

/-- The highlight flags of the segments of a coloured line: byte `i` is flagged iff the depth
after position `i` is non-zero. -/
theorem hlMask_colourSegs (line : List Nat) (ms : List (Match V))
    (hne : ∀ m ∈ ms, m.start < m.stop) (hle : ∀ m ∈ ms, m.stop ≤ line.length) :
    hlMask (colourSegs line ms) =
      (List.range' 0 line.length).map (fun q => nz (depthBefore ms (q + 1))) := by
  have h := renderSegs_mask line (countList line ms) 0 0 0
    (by rw [countList_map_fst, List.range_eq_range']; rfl) (Nat.le_refl _) (Nat.zero_le _)
    (Nat.zero_le _)
  rw [countList_eq] at h
  have hd0 : (0 : Int) = depthBefore ms 0 := (depthBefore_zero ms).symm
  rw [hd0, finalDepth_counts, depths_counts, depthBefore_zero, Nat.zero_add,
    depthBefore_end ms line.length hne hle] at h
  rw [← countList_eq] at h
  have hnz : nz 0 = false := by simp [nz]
  simp only [Nat.sub_zero, List.replicate_zero, List.nil_append, hnz, List.map_map] at h
  unfold colourSegs
  simp only [hlMask, List.flatMap_append, List.flatMap_cons, List.flatMap_nil, List.append_nil,
    List.length_drop]
  rw [← hlMask, h, ← List.map_take, List.take_range'_of_length_ge (by omega)]
  rfl

/-- The flag list is aligned with the text of the segments: one flag per byte. -/
theorem hlMask_length (segs : List (Bool × List Nat)) :
    (hlMask segs).length = (segs.flatMap (·.2)).length := by
  induction segs with
  | nil => rfl
  | cons a segs ih =>
    simp only [hlMask, List.flatMap_cons, List.length_append, List.length_replicate] at ih ⊢
    rw [ih]

theorem hlMask_colourSegs_length (line : List Nat) (ms : List (Match V)) :
    (hlMask (colourSegs line ms)).length = line.length := by
  rw [hlMask_length, colourSegs_text]

theorem specNoSuffix_start_lt_stop {P : List (Pat V)} (hv : ValidPats P) (line : List Nat) :
    ∀ m ∈ specNoSuffix P line, m.start < m.stop :=
  fun _ hm => ((mem_specNoSuffix hv).1 hm).1.start_lt_stop hv.key_ne

theorem specNoSuffix_stop_le {P : List (Pat V)} (hv : ValidPats P) (line : List Nat) :
    ∀ m ∈ specNoSuffix P line, m.stop ≤ line.length :=
  fun _ hm => ((mem_specNoSuffix hv).1 hm).1.stop_le

/-- Flag of byte `i` in terms of the no-suffix matches. -/
theorem highlighted_iff_nosuf_covered {P : List (Pat V)} (hv : ValidPats P) (line : List Nat)
    (i : Nat) (hi : i < line.length) :
    (hlMask (colourSegs line (specNoSuffix P line)))[i]? = some true ↔
      ∃ m ∈ specNoSuffix P line, m.start ≤ i ∧ i < m.stop := by
  rw [hlMask_colourSegs line _ (specNoSuffix_start_lt_stop hv line) (specNoSuffix_stop_le hv line)]
  rw [List.getElem?_map, List.getElem?_range' hi]
  simp only [Nat.zero_add, Nat.one_mul, Option.map_some, Option.some.injEq]
  exact nz_depth_iff _ (specNoSuffix_start_lt_stop hv line) i

/-- 4: byte `i` of a printed coloured line lies in a highlighted segment iff it is covered by
an occurrence of some pattern. -/
theorem highlighted_iff_covered {P : List (Pat V)} (hv : ValidPats P) (line : List Nat)
    (i : Nat) (hi : i < line.length) :
    (hlMask (colourSegs line (specNoSuffix P line)))[i]? = some true ↔
      ∃ m, IsOcc P line m ∧ m.start ≤ i ∧ i < m.stop := by
  rw [highlighted_iff_nosuf_covered hv line i hi, covered_iff_nosuf_covered hv]

/-- 4 (negative form): byte `i` lies in a plain segment iff no occurrence covers it. -/
theorem plain_iff_not_covered {P : List (Pat V)} (hv : ValidPats P) (line : List Nat)
    (i : Nat) (hi : i < line.length) :
    (hlMask (colourSegs line (specNoSuffix P line)))[i]? = some false ↔
      ¬ ∃ m, IsOcc P line m ∧ m.start ≤ i ∧ i < m.stop := by
  rw [← highlighted_iff_covered hv line i hi]
  have hlen := hlMask_colourSegs_length line (specNoSuffix P line)
  rw [List.getElem?_eq_getElem (by omega)]
  cases (hlMask (colourSegs line (specNoSuffix P line)))[i] <;> simp

/-! ## 5. Line splitting and the pattern list -/

/-- The fold inside `splitLines`. -/
def splitAux (bs : List Nat) : List Nat × List (List Nat) :=
  bs.foldr (fun b (acc : List Nat × List (List Nat)) =>
    if b = 10 then ([], acc.1 :: acc.2) else (b :: acc.1, acc.2)) ([], [])

theorem splitLines_eq (bs : List Nat) : splitLines bs = (splitAux bs).1 :: (splitAux bs).2 := rfl

theorem splitAux_cons (b : Nat) (bs : List Nat) :
    splitAux (b :: bs) =
      if b = 10 then ([], (splitAux bs).1 :: (splitAux bs).2)
      else (b :: (splitAux bs).1, (splitAux bs).2) := rfl

theorem splitLines_nil : splitLines [] = [[]] := rfl

theorem splitLines_cons_newline (bs : List Nat) : splitLines (10 :: bs) = [] :: splitLines bs := by
  simp [splitLines_eq, splitAux_cons]

theorem splitLines_cons_other (b : Nat) (bs : List Nat) (hb : b ≠ 10) :
    splitLines (b :: bs) = (b :: (splitLines bs).head (by simp [splitLines_eq])) ::
      (splitLines bs).tail := by
  simp [splitLines_eq, splitAux_cons, hb]

/-- A byte string without newline is a single line. -/
theorem splitLines_of_no_newline (bs : List Nat) (h : 10 ∉ bs) : splitLines bs = [bs] := by
  induction bs with
  | nil => rfl
  | cons b bs ih =>
    have hb : b ≠ 10 := fun e => h (by simp [e])
    have ih' := ih (fun hm => h (List.mem_cons_of_mem _ hm))
    rw [splitLines_eq] at ih' ⊢
    simp only [List.cons.injEq] at ih'
    simp [splitAux_cons, hb, ih'.1, ih'.2]

/-- No line contains a newline. -/
theorem splitLines_no_newline (bs : List Nat) : ∀ l ∈ splitLines bs, 10 ∉ l := by
  induction bs with
  | nil => simp [splitLines_nil]
  | cons b bs ih =>
    rw [splitLines_eq] at ih ⊢
    by_cases hb : b = 10
    · simp only [splitAux_cons, hb, if_true]
      intro l hl
      rcases List.mem_cons.1 hl with rfl | hl
      · simp
      · exact ih l hl
    · simp only [splitAux_cons, hb, if_false]
      intro l hl
      rcases List.mem_cons.1 hl with rfl | hl
      · have := ih _ List.mem_cons_self
        simp only [List.mem_cons, not_or]
        exact ⟨fun e => hb e.symm, this⟩
      · exact ih l (List.mem_cons_of_mem _ hl)

/-- Joining the lines with newlines gives back the input. -/
theorem splitLines_intercalate (bs : List Nat) : [10].intercalate (splitLines bs) = bs := by
  induction bs with
  | nil => rfl
  | cons b bs ih =>
    rw [splitLines_eq] at ih ⊢
    by_cases hb : b = 10
    · simp only [splitAux_cons, hb, if_true]
      simp only [List.intercalate, List.intersperse_cons_cons, List.flatten_cons, List.nil_append,
        List.singleton_append] at ih ⊢
      rw [ih]
    · simp only [splitAux_cons, hb, if_false]
      cases h2 : (splitAux bs).2 with
      | nil =>
        rw [h2] at ih
        simp only [List.intercalate, List.intersperse_singleton, List.flatten_cons, List.flatten_nil,
          List.append_nil] at ih ⊢
        rw [ih]
      | cons y l =>
        rw [h2] at ih
        simp only [List.intercalate, List.intersperse_cons_cons, List.flatten_cons,
          List.cons_append] at ih ⊢
        rw [ih]

/-- The pattern list never contains the empty pattern. -/
theorem patterns_ne_nil (f a : Option (List Nat)) : ∀ p ∈ patterns f a, p ≠ [] := by
  intro p hp
  simp only [patterns, List.mem_append, List.mem_filter, decide_eq_true_eq] at hp
  rcases hp with hp | hp <;> exact hp.2

theorem bufLines_no_newline (bs : List Nat) : ∀ l ∈ bufLines bs, 10 ∉ l := by
  intro l hl
  simp only [bufLines, List.mem_map] at hl
  obtain ⟨l0, hl0, rfl⟩ := hl
  have h0 : l0 ∈ splitLines bs := by
    split at hl0
    · exact (List.dropLast_sublist _).subset hl0
    · exact hl0
  have h1 := splitLines_no_newline bs l0 h0
  split
  · exact fun hm => h1 ((List.dropLast_sublist _).subset hm)
  · exact h1

/-- No pattern contains a newline. -/
theorem patterns_no_newline (f a : Option (List Nat)) : ∀ p ∈ patterns f a, 10 ∉ p := by
  intro p hp
  simp only [patterns, List.mem_append, List.mem_filter] at hp
  rcases hp with hp | hp
  · cases f with
    | none => simp at hp
    | some c => exact bufLines_no_newline c p hp.1
  · cases a with
    | none => simp at hp
    | some c => exact splitLines_no_newline c p hp.1

end Daac.Cli

/-
Translation tie, byte-wise: the definitions GENERATED from /repo's Rust source by
tools/rs2lean.py (`Daac/Gen/SearchB.lean`) are extensionally equal to the hand-written model
(`Daac/Model/Search.lean`) that every property theorem is about.
-/
import Daac.Gen.SearchB
import Daac.Proofs.TieBase
import Daac.Proofs.Utf8
namespace Daac.Tie
open Daac Daac.Gen

variable {V : Type}

namespace B

def absFind (it : Gen.B.FindIterator V) : FindIt := ⟨it.haystack⟩
def absNoSuf (it : Gen.B.FindOverlappingNoSuffixIterator V) : NoSufIt := ⟨it.haystack, it.state_id⟩
def absOv (it : Gen.B.FindOverlappingIterator V) : OvIt :=
  ⟨it.haystack, it.state_id, it.pos, optNat it.output_pos⟩
def absLm (it : Gen.B.LestmostFindIterator V) : LmIt := ⟨it.haystack, it.pos⟩

/-! ### Small rewriting lemmas -/

theorem getSt (da : DA V) (i : Nat) : Rs.getUnchecked da.states i .oobStates = da.st i := by
  unfold Rs.getUnchecked DA.st; cases da.states[i]? <;> rfl

theorem getOut (da : DA V) (p : Nat) (hp : p ≠ 0) :
    Rs.getUnchecked da.outputs (p - 1) .oobOutputs = da.out p := by
  unfold Rs.getUnchecked DA.out; simp only [hp, if_false]; cases da.outputs[p - 1]? <;> rfl

theorem nonZero_none (x : Nat) : Rs.nonZero x = none ↔ x = 0 := by
  unfold Rs.nonZero; split <;> simp_all

theorem nonZero_some (x p : Nat) : Rs.nonZero x = some p ↔ (x ≠ 0 ∧ p = x) := by
  unfold Rs.nonZero; split <;> simp_all [eq_comm]

theorem optNat_nonZero (x : Nat) : optNat (Rs.nonZero x) = x := by
  unfold Rs.nonZero; split <;> simp_all [optNat]

theorem child_eq (da : DA V) (hv : da.variant = .bytewise) (s c : Nat) :
    Gen.B.DA.child_index_unchecked da s c = da.child s c := by
  unfold Gen.B.DA.child_index_unchecked DA.child
  rw [getSt]
  cases h : da.st s with
  | error e => rfl
  | ok st =>
    simp only [Rs.St.base, Rs.nonZero]
    by_cases hb : st.base = 0
    · simp [hb]
    · simp only [hb, if_false, getSt, hv]
      cases h2 : da.st (st.base ^^^ c) with
      | error e => rfl
      | ok ch =>
        simp only [decide_eq_true_eq]
        split <;> simp_all

theorem next_loop_eq (da : DA V) (hv : da.variant = .bytewise) (c fuel s n : Nat) :
    Gen.B.DA.next_state_id_unchecked.loop0 da c fuel s = (da.nextLoop fuel s c n).map (·.1) := by
  induction fuel generalizing s n with
  | zero => rfl
  | succ fuel ih =>
    unfold Gen.B.DA.next_state_id_unchecked.loop0 DA.nextLoop
    rw [child_eq da hv, getSt]
    cases h : da.child s c with
    | error e => rfl
    | ok r =>
      cases r with
      | some t => rfl
      | none =>
        simp only [decide_eq_true_eq, rootIdx]
        by_cases hs : s = Gen.rootStateIdx
        · simp [hs, Except.map]
        · simp only [hs, if_false]
          cases h2 : da.st s with
          | error e => rfl
          | ok st => exact ih st.fail (n + 1)

theorem next_state_eq (da : DA V) (hv : da.variant = .bytewise) (s c : Nat) :
    Gen.B.DA.next_state_id_unchecked da s c = da.next s c := by
  unfold Gen.B.DA.next_state_id_unchecked DA.next DA.nextS DA.code
  simp only [hv]
  exact next_loop_eq da hv c _ s 0

theorem next_loop_lm_eq (da : DA V) (hv : da.variant = .bytewise) (c fuel s n : Nat) :
    Gen.B.DA.next_state_id_leftmost_unchecked.loop0 da c fuel s
      = (da.nextLoopLm fuel s c n).map (·.1) := by
  induction fuel generalizing s n with
  | zero => rfl
  | succ fuel ih =>
    unfold Gen.B.DA.next_state_id_leftmost_unchecked.loop0 DA.nextLoopLm
    rw [child_eq da hv, getSt]
    cases h : da.child s c with
    | error e => rfl
    | ok r =>
      cases r with
      | some t => rfl
      | none =>
        simp only [decide_eq_true_eq, rootIdx, deadIdx]
        by_cases hs : s = Gen.rootStateIdx
        · simp [hs, Except.map]
        · simp only [hs, if_false]
          cases h2 : da.st s with
          | error e => rfl
          | ok st =>
            simp only []
            by_cases hd : st.fail = Gen.deadStateIdx
            · simp [hd, Except.map]
            · simp only [hd, if_false]; exact ih st.fail (n + 1)

theorem next_state_lm_eq (da : DA V) (hv : da.variant = .bytewise) (s c : Nat) :
    Gen.B.DA.next_state_id_leftmost_unchecked da s c = da.nextLm s c := by
  unfold Gen.B.DA.next_state_id_leftmost_unchecked DA.nextLm DA.nextLmS DA.code
  simp only [hv]
  exact next_loop_lm_eq da hv c _ s 0

/-- how `FindIterator::next` finishes its loop -/
def finFind (x : Except Fault (Ctl ((Option (Rs.Match V)) × (Gen.B.FindIterator V)) ((Gen.B.FindIterator V) × Nat))) :
    Except Fault ((Option (Rs.Match V)) × (Gen.B.FindIterator V)) :=
  match x with
  | .error e => .error e
  | .ok (.ret r) => .ok r
  | .ok (.done (self, _)) => .ok (none, self)

theorem find_next_fin (it : Gen.B.FindIterator V) :
    Gen.B.FindIterator.next it
      = finFind (Gen.B.FindIterator.next.loop0 (it.haystack.rest.length + 1) it Gen.rootStateIdx) := by
  unfold Gen.B.FindIterator.next finFind
  simp only []
  split <;> simp_all

theorem find_loop_eq (fuel : Nat) (it : Gen.B.FindIterator V) (hv : it.pma.variant = .bytewise) (state : Nat) :
    (finFind (Gen.B.FindIterator.next.loop0 fuel it state)).map (obs (fun i => (i.pma, absFind i)))
      = (match scanFirst it.pma fuel state it.haystack with
          | .error e => .error e
          | .ok (r, _, src') => .ok (r, (it.pma, (⟨src'⟩ : FindIt)))) := by
  induction fuel generalizing it state with
  | zero => rfl
  | succ fuel ih =>
    unfold Gen.B.FindIterator.next.loop0 scanFirst
    simp only [Rs.Enumerate.next, nextItem, Src.pull, hv]
    cases hr : it.haystack.rest with
    | nil => simp [finFind, Except.map, obs, absFind]
    | cons b r =>
      simp only [next_state_eq _ hv, getSt]
      cases h1 : it.pma.next state b with
      | error e => rfl
      | ok s' =>
        simp only []
        cases h2 : it.pma.st s' with
        | error e => rfl
        | ok st =>
          simp only [Rs.St.outputPos, Rs.nonZero]
          by_cases ho : st.opos = 0
          · simp only [ho, if_true, ne_eq, not_true, if_false]
            exact ih ⟨it.pma, ⟨r, it.haystack.pulled + 1⟩⟩ hv s'
          · simp only [ho, if_false, ne_eq, not_false_eq_true, if_true, getOut _ _ ho]
            cases h3 : it.pma.out st.opos with
            | error e => rfl
            | ok o => simp [finFind, Except.map, obs, absFind, Rs.Match.toModel, mkMatch]

/-- `FindIterator::next` = the model's `FindIt.next`; the automaton reference is unchanged. -/
theorem find_next_eq (it : Gen.B.FindIterator V) (hv : it.pma.variant = .bytewise) :
    (Gen.B.FindIterator.next it).map (obs (fun i => (i.pma, absFind i)))
      = (FindIt.next it.pma (absFind it)).map (fun st => (st.result, (it.pma, st.it))) := by
  rw [find_next_fin, find_loop_eq _ _ hv]
  unfold FindIt.next absFind
  simp only [rootIdx]
  split <;> simp_all [Except.map]


/-- how the `Ctl`-valued loops with the iterator as only loop variable finish -/
def finCtl {ρ σ : Type} (x : Except Fault (Ctl (Option ρ × σ) σ)) : Except Fault (Option ρ × σ) :=
  match x with
  | .error e => .error e
  | .ok (.ret r) => .ok r
  | .ok (.done self) => .ok (none, self)

theorem nosuf_next_fin (it : Gen.B.FindOverlappingNoSuffixIterator V) :
    Gen.B.FindOverlappingNoSuffixIterator.next it
      = finCtl (Gen.B.FindOverlappingNoSuffixIterator.next.loop0 (it.haystack.rest.length + 1) it) := by
  unfold Gen.B.FindOverlappingNoSuffixIterator.next finCtl
  split <;> simp_all

theorem nosuf_loop_eq (fuel : Nat) (it : Gen.B.FindOverlappingNoSuffixIterator V)
    (hv : it.pma.variant = .bytewise) :
    (finCtl (Gen.B.FindOverlappingNoSuffixIterator.next.loop0 fuel it)).map
        (obs (fun i => (i.pma, absNoSuf i)))
      = (match scanFirst it.pma fuel it.state_id it.haystack with
          | .error e => .error e
          | .ok (r, state', src') => .ok (r, (it.pma, (⟨src', state'⟩ : NoSufIt)))) := by
  induction fuel generalizing it with
  | zero => rfl
  | succ fuel ih =>
    unfold Gen.B.FindOverlappingNoSuffixIterator.next.loop0 scanFirst
    simp only [Rs.Enumerate.next, nextItem, Src.pull, hv]
    cases hr : it.haystack.rest with
    | nil => simp [finCtl, Except.map, obs, absNoSuf]
    | cons b r =>
      simp only [next_state_eq _ hv, getSt]
      cases h1 : it.pma.next it.state_id b with
      | error e => rfl
      | ok s' =>
        simp only []
        cases h2 : it.pma.st s' with
        | error e => rfl
        | ok st =>
          simp only [Rs.St.outputPos, Rs.nonZero]
          by_cases ho : st.opos = 0
          · simp only [ho, if_true, ne_eq, not_true, if_false]
            exact ih ⟨it.pma, ⟨r, it.haystack.pulled + 1⟩, s'⟩ hv
          · simp only [ho, if_false, ne_eq, not_false_eq_true, if_true, getOut _ _ ho]
            cases h3 : it.pma.out st.opos with
            | error e => rfl
            | ok o => simp [finCtl, Except.map, obs, absNoSuf, Rs.Match.toModel, mkMatch]

theorem nosuf_next_eq (it : Gen.B.FindOverlappingNoSuffixIterator V) (hv : it.pma.variant = .bytewise) :
    (Gen.B.FindOverlappingNoSuffixIterator.next it).map (obs (fun i => (i.pma, absNoSuf i)))
      = (NoSufIt.next it.pma (absNoSuf it)).map (fun st => (st.result, (it.pma, st.it))) := by
  rw [nosuf_next_fin, nosuf_loop_eq _ _ hv]
  unfold NoSufIt.next absNoSuf
  split <;> simp_all [Except.map]

/-- Well-formed overlapping iterator: a stored output position is a `NonZeroU32`. -/
def OvWf (it : Gen.B.FindOverlappingIterator V) : Prop := it.output_pos ≠ some 0

theorem ov_loop_eq (fuel : Nat) (it : Gen.B.FindOverlappingIterator V)
    (hv : it.pma.variant = .bytewise) :
    (finCtl (Gen.B.FindOverlappingIterator.next.loop0 fuel it)).map
        (obs (fun i => (i.pma, absOv i)))
      = (scanOv it.pma fuel (absOv it)).map (fun st => (st.result, (it.pma, st.it))) := by
  induction fuel generalizing it with
  | zero => rfl
  | succ fuel ih =>
    unfold Gen.B.FindOverlappingIterator.next.loop0 scanOv
    simp only [Rs.Enumerate.next, nextItem, Src.pull, hv, absOv]
    cases hr : it.haystack.rest with
    | nil => simp [finCtl, Except.map, obs]
    | cons b r =>
      simp only [next_state_eq _ hv, getSt]
      cases h1 : it.pma.next it.state_id b with
      | error e => rfl
      | ok s' =>
        simp only []
        cases h2 : it.pma.st s' with
        | error e => rfl
        | ok st =>
          simp only [Rs.St.outputPos, Rs.nonZero]
          by_cases ho : st.opos = 0
          · simp only [ho, if_true, ne_eq, not_true, if_false]
            exact ih ⟨it.pma, ⟨r, it.haystack.pulled + 1⟩, s', it.pos, it.output_pos⟩ hv
          · simp only [ho, if_false, ne_eq, not_false_eq_true, if_true, getOut _ _ ho]
            cases h3 : it.pma.out st.opos with
            | error e => rfl
            | ok o =>
              simp [finCtl, Except.map, obs, Rs.Match.toModel, mkMatch, Rs.Out.parent,
                optNat_nonZero]

theorem ov_next_eq (it : Gen.B.FindOverlappingIterator V) (hv : it.pma.variant = .bytewise)
    (hw : OvWf it) :
    (Gen.B.FindOverlappingIterator.next it).map (obs (fun i => (i.pma, absOv i)))
      = (OvIt.next it.pma (absOv it)).map (fun st => (st.result, (it.pma, st.it))) := by
  unfold Gen.B.FindOverlappingIterator.next OvIt.next
  cases hp : it.output_pos with
  | some p =>
    have hp0 : p ≠ 0 := by
      intro h; apply hw; rw [hp, h]
    rw [show absOv it = ⟨it.haystack, it.state_id, it.pos, p⟩ from by simp [absOv, hp, optNat]]
    simp only [getOut _ _ hp0, ne_eq, hp0, not_false_eq_true, if_true]
    cases h3 : it.pma.out p with
    | error e => rfl
    | ok o => simp [Except.map, obs, absOv, Rs.Match.toModel, mkMatch, Rs.Out.parent, optNat_nonZero]
  | none =>
    have h := ov_loop_eq (it.haystack.rest.length + 1) it hv
    have ha : absOv it = ⟨it.haystack, it.state_id, it.pos, 0⟩ := by simp [absOv, hp, optNat]
    rw [ha] at h ⊢
    simp only [ne_eq, not_true, if_false]
    rw [← h]
    unfold finCtl
    split <;> simp_all

theorem nonZero_ne (x : Nat) : Rs.nonZero x ≠ some 0 := by
  unfold Rs.nonZero; split <;> simp_all

theorem ov_loop_wf (fuel : Nat) (it : Gen.B.FindOverlappingIterator V) (hw : OvWf it)
    (r : Option (Rs.Match V)) (it' : Gen.B.FindOverlappingIterator V)
    (h : finCtl (Gen.B.FindOverlappingIterator.next.loop0 fuel it) = .ok (r, it')) : OvWf it' := by
  induction fuel generalizing it with
  | zero => simp [Gen.B.FindOverlappingIterator.next.loop0, finCtl] at h
  | succ fuel ih =>
    unfold Gen.B.FindOverlappingIterator.next.loop0 at h
    simp only [Rs.Enumerate.next] at h
    cases hr : it.haystack.rest with
    | nil =>
      simp [hr, finCtl] at h
      rw [← h.2]; exact hw
    | cons b r =>
      simp only [hr] at h
      cases h1 : Gen.B.DA.next_state_id_unchecked it.pma it.state_id b with
      | error e => simp [h1, finCtl] at h
      | ok s' =>
        simp only [h1] at h
        cases h2 : Rs.getUnchecked it.pma.states s' .oobStates with
        | error e => simp [h2, finCtl] at h
        | ok st =>
          simp only [h2] at h
          cases h3 : Rs.St.outputPos st with
          | none =>
            simp only [h3] at h
            exact ih ⟨it.pma, ⟨r, it.haystack.pulled + 1⟩, s', it.pos, it.output_pos⟩ hw h
          | some op =>
            simp only [h3] at h
            cases h4 : Rs.getUnchecked it.pma.outputs (op - 1) .oobOutputs with
            | error e => simp [h4, finCtl] at h
            | ok o =>
              simp [h4, finCtl] at h
              rw [← h.2]
              exact nonZero_ne _

theorem ov_next_wf (it : Gen.B.FindOverlappingIterator V) (hw : OvWf it)
    (r : Option (Rs.Match V)) (it' : Gen.B.FindOverlappingIterator V)
    (h : Gen.B.FindOverlappingIterator.next it = .ok (r, it')) : OvWf it' := by
  unfold Gen.B.FindOverlappingIterator.next at h
  split at h
  · split at h
    · cases h
    · simp at h
      rw [← h.2]
      exact nonZero_ne _
  · apply ov_loop_wf (it.haystack.rest.length + 1) it hw r it'
    unfold finCtl
    split at h <;> simp_all

theorem drop_enumerateFrom {α : Type} (k n : Nat) (l : List α) :
    List.drop k (Rs.enumerateFrom n l) = Rs.enumerateFrom (n + k) (l.drop k) := by
  induction k generalizing n l with
  | zero => simp
  | succ k ih =>
    cases l with
    | nil => simp [Rs.enumerateFrom]
    | cons a l =>
      simp only [Rs.enumerateFrom, List.drop_succ_cons]
      rw [ih]; congr 1; omega

/-- an `(index, byte)` pair of the byte-wise leftmost loop as a model item -/
def toW (x : Nat × Nat) : WItem := ⟨x.2, 1, x.1 + 1⟩

theorem byteItems_eq (bs : List Nat) (p : Nat) :
    byteItems bs p = (Rs.enumerateFrom p bs).map toW := by
  induction bs generalizing p with
  | nil => simp [byteItems, Rs.enumerateFrom]
  | cons b bs ih =>
    have := ih (p + 1)
    simp only [byteItems] at this
    simp [byteItems, Rs.enumerateFrom, List.zipIdx_cons, this, toW]

/-- how `LestmostFindIterator::next` finishes its loop -/
def finLm (x : Except Fault (Ctl ((Option (Rs.Match V)) × (Gen.B.LestmostFindIterator V))
      ((Gen.B.LestmostFindIterator V) × Nat × (Option Nat)))) :
    Except Fault ((Option (Rs.Match V)) × (Gen.B.LestmostFindIterator V)) :=
  match x with
  | .error e => .error e
  | .ok (.ret r) => .ok r
  | .ok (.done (self, _, last_output_pos)) =>
    match last_output_pos with
    | none => .ok (none, self)
    | some output_pos =>
      match Rs.getUnchecked self.pma.outputs (output_pos - 1) .oobOutputs with
      | .error e => .error e
      | .ok out =>
        .ok ((some ({ length := out.length, end_ := self.pos, value := out.value } : Rs.Match V)), self)

theorem lm_next_fin (it : Gen.B.LestmostFindIterator V) :
    Gen.B.LestmostFindIterator.next it
      = finLm (Gen.B.LestmostFindIterator.next.loop0
          (List.drop it.pos (Rs.enumerate it.haystack)) it Gen.rootStateIdx none) := by
  unfold Gen.B.LestmostFindIterator.next finLm
  simp only []
  split
  · simp_all
  · simp_all
  · rename_i h; simp only [h]
    split
    · rfl
    · split <;> simp_all

theorem lm_loop_eq (items : List (Nat × Nat)) (it : Gen.B.LestmostFindIterator V)
    (hv : it.pma.variant = .bytewise) (state : Nat) (cand : Option Nat) (hc : cand ≠ some 0)
    (skips : Nat) :
    (finLm (Gen.B.LestmostFindIterator.next.loop0 items it state cand)).map
        (obs (fun i => (i.pma, absLm i)))
      = (match lmLoop it.pma (items.map toW) state (optNat cand) it.pos skips with
          | .error e => .error e
          | .ok (r, pos') => .ok (r, (it.pma, (⟨it.haystack, pos'⟩ : LmIt)))) := by
  induction items generalizing it state cand skips with
  | nil =>
    simp only [Gen.B.LestmostFindIterator.next.loop0, List.map_nil, lmLoop]
    cases cand with
    | none => simp [finLm, optNat, Except.map, obs, absLm]
    | some p =>
      have hp0 : p ≠ 0 := by intro h; apply hc; rw [h]
      simp only [finLm, optNat, getOut _ _ hp0, hp0, if_false]
      cases h3 : it.pma.out p with
      | error e => rfl
      | ok o => simp [Except.map, obs, absLm, Rs.Match.toModel, mkMatch]
  | cons x rest ih =>
    obtain ⟨idx, c⟩ := x
    unfold Gen.B.LestmostFindIterator.next.loop0
    simp only [List.map_cons, lmLoop, toW, next_state_lm_eq _ hv, hv]
    cases h1 : it.pma.nextLm state c with
    | error e => rfl
    | ok s' =>
      simp only [decide_eq_true_eq, rootIdx]
      by_cases hs : s' = Gen.rootStateIdx
      · simp only [hs, if_true]
        cases cand with
        | none =>
          simp only [optNat, ne_eq, not_true, if_false]
          exact ih it hv Gen.rootStateIdx none hc _
        | some p =>
          have hp0 : p ≠ 0 := by intro h; apply hc; rw [h]
          simp only [finLm, optNat, getOut _ _ hp0, hp0, ne_eq, not_false_eq_true, if_true]
          cases h3 : it.pma.out p with
          | error e => rfl
          | ok o => simp [Except.map, obs, absLm, Rs.Match.toModel, mkMatch]
      · simp only [hs, if_false, getSt]
        cases h2 : it.pma.st s' with
        | error e => rfl
        | ok st =>
          simp only [Rs.St.outputPos, Rs.nonZero]
          by_cases ho : st.opos = 0
          · simp only [ho, if_true, ne_eq, not_true, if_false]
            exact ih it hv s' cand hc _
          · simp only [ho, if_false, ne_eq, not_false_eq_true, if_true]
            have := ih ⟨it.pma, it.haystack, idx + 1⟩ hv s' (some st.opos) (by simp [ho]) 0
            simpa [optNat] using this

theorem lm_next_eq (it : Gen.B.LestmostFindIterator V) (hv : it.pma.variant = .bytewise) :
    (Gen.B.LestmostFindIterator.next it).map (obs (fun i => (i.pma, absLm i)))
      = (LmIt.next it.pma (absLm it)).map (fun st => (st.result, (it.pma, st.it))) := by
  rw [lm_next_fin, lm_loop_eq _ it hv _ none (by simp) 0]
  unfold LmIt.next lmItems absLm
  simp only [hv, allItems_bytewise _ _ _ (Nat.le_refl _), byteItems_eq, Rs.enumerate,
    drop_enumerateFrom, Nat.zero_add, optNat, rootIdx]
  split <;> simp_all [Except.map]


/-- `U8SliceIterator::next` walks the slice: it yields the bytes of `inner.drop pos` in order. -/
theorem u8slice_next_eq (it : Gen.B.U8SliceIterator V) :
    (Gen.B.U8SliceIterator.next it) =
      (match it.inner.drop it.pos with
       | [] => (none, it)
       | b :: _ => (some b, { it with pos := it.pos + 1 })) := by
  unfold Gen.B.U8SliceIterator.next
  cases h : it.inner[it.pos]? with
  | none =>
    have : it.inner.drop it.pos = [] := by
      rw [List.drop_eq_nil_iff]; exact List.getElem?_eq_none_iff.1 h
    simp [this]
  | some b =>
    have hlt : it.pos < it.inner.length := by
      rcases Nat.lt_or_ge it.pos it.inner.length with h' | h'
      · exact h'
      · rw [List.getElem?_eq_none_iff.2 h'] at h; cases h
    rw [List.drop_eq_getElem_cons hlt]
    rw [List.getElem?_eq_getElem hlt] at h
    simp at h
    simp [h]

end B
end Daac.Tie

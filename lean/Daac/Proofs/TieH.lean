/-
Translation tie, construction side: the free-slot bookkeeping `BuildHelper` GENERATED from
/repo's `src/build_helper.rs` by tools/rs2lean.py (`Daac/Gen/Helper.lean`, array of `ListItem`
records) equals the hand-written model `Helper` (Daac/Model/Build.lean, four parallel arrays) that
the layout proofs (Proofs/HelperFacts, HelperLL, LayoutB, LayoutC, Total) are about.
Panics carry different texts in the two developments; they are compared up to the text.
-/
import Daac.Gen.Helper
import Daac.Model.Build
namespace Daac.Tie.H
open Daac Daac.Gen

/-- Array-of-records to the model's parallel arrays. -/
def repr (g : Gen.H.BuildHelper) : Helper :=
  ⟨g.items.map (·.next_), g.items.map (·.prev_), g.items.map (·.used_base), g.items.map (·.used_index),
   g.block_len, g.num_free_blocks, g.num_blocks, g.head_idx⟩

/-- Panics are compared up to their message. -/
def norm {α : Type} (x : Except BuildErr α) : Except BuildErr α :=
  match x with
  | .error (.panic _) => .error (.panic "")
  | y => y

/-- The capacity is positive and fits `u32` (established by `new`, preserved by every operation). -/
def Wf (g : Gen.H.BuildHelper) : Prop := 0 < g.items.size ∧ g.items.size ≤ 4294967295

theorem new_eq (bl nfb : Nat) :
    norm ((Gen.H.BuildHelper.new bl nfb).map repr) = norm (Helper.new bl nfb) := by
  sorry

theorem new_wf (bl nfb : Nat) (g : Gen.H.BuildHelper) (h : Gen.H.BuildHelper.new bl nfb = .ok g) :
    Wf g := by
  sorry

theorem num_elements_eq (g : Gen.H.BuildHelper) :
    Gen.H.BuildHelper.num_elements g = (repr g).numElements := by
  sorry

theorem active_index_range_eq (g : Gen.H.BuildHelper) :
    Gen.H.BuildHelper.active_index_range g =
      ((repr g).activeStart * (repr g).blockLen, (repr g).numBlocks * (repr g).blockLen) := by
  sorry

theorem offset_eq (g : Gen.H.BuildHelper) (hw : Wf g) (i : Nat) :
    norm (Gen.H.BuildHelper.offset g i) = norm ((repr g).off i) := by
  sorry

theorem is_used_base_eq (g : Gen.H.BuildHelper) (hw : Wf g) (b : Nat) :
    norm (Gen.H.BuildHelper.is_used_base g b) = norm ((repr g).isUsedBase b) := by
  sorry

theorem is_used_index_eq (g : Gen.H.BuildHelper) (hw : Wf g) (i : Nat) :
    norm (Gen.H.BuildHelper.is_used_index g i) = norm ((repr g).isUsedIndex i) := by
  sorry

theorem use_base_eq (g : Gen.H.BuildHelper) (hw : Wf g) (b : Nat) :
    norm ((Gen.H.BuildHelper.use_base g b).map (fun p => repr p.2)) = norm ((repr g).useBase b) := by
  sorry

theorem use_index_eq (g : Gen.H.BuildHelper) (hw : Wf g) (i : Nat) :
    norm ((Gen.H.BuildHelper.use_index g i).map (fun p => repr p.2)) = norm ((repr g).useIndex i) := by
  sorry

theorem dropped_block_eq (g : Gen.H.BuildHelper) (hw : Wf g) :
    Gen.H.BuildHelper.dropped_block g = .ok (repr g).droppedBlock := by
  sorry

theorem unused_base_in_block_eq (g : Gen.H.BuildHelper) (hw : Wf g) (b : Nat) :
    norm (Gen.H.BuildHelper.unused_base_in_block g b) = norm ((repr g).unusedBaseInBlock b) := by
  sorry

theorem push_block_eq (g : Gen.H.BuildHelper) (hw : Wf g) :
    norm ((Gen.H.BuildHelper.push_block g).map (fun p => repr p.2)) = norm ((repr g).pushBlock) := by
  sorry

/-- Every `&mut self` operation keeps the capacity (so `Wf` is an invariant of all histories). -/
theorem size_preserved (g g' : Gen.H.BuildHelper) (u : Unit) (x : Nat) :
    (Gen.H.BuildHelper.use_base g x = .ok (u, g') ∨ Gen.H.BuildHelper.use_index g x = .ok (u, g') ∨
     Gen.H.BuildHelper.push_block g = .ok (u, g')) → g'.items.size = g.items.size := by
  sorry

/-- `vacant_iter()` followed by `next()` until `None` (at most `fuel` items, like the model). -/
def genVacantFrom : Nat → Gen.H.VacantIter → Except BuildErr (List Nat)
  | 0, _ => .ok []
  | fuel + 1, it =>
    match Gen.H.VacantIter.next it with
    | .error e => .error e
    | .ok (none, _) => .ok []
    | .ok (some i, it') =>
      match genVacantFrom fuel it' with
      | .error e => .error e
      | .ok l => .ok (i :: l)

theorem vacant_eq (g : Gen.H.BuildHelper) (hw : Wf g) :
    norm (genVacantFrom (g.items.size + 1) (Gen.H.BuildHelper.vacant_iter g)) = norm ((repr g).vacant) := by
  sorry

end Daac.Tie.H

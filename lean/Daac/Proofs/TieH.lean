/-
Translation tie, construction side: the free-slot bookkeeping `BuildHelper` GENERATED from
/repo's `src/build_helper.rs` by tools/rs2lean.py (`Daac/Gen/Helper.lean`, array of `ListItem`
records) equals the hand-written model `Helper` (Daac/Model/Build.lean, four parallel arrays) that
the layout proofs (Proofs/HelperFacts, HelperLL, LayoutB, LayoutC, Total) are about.
Panics carry different texts in the two developments; they are compared up to the text.
-/
import Daac.Gen.Helper
import Daac.Model.Build
namespace Daac.Tie.H
open Daac Daac.Gen

/-- Array-of-records to the model's parallel arrays. -/
def repr (g : Gen.H.BuildHelper) : Helper :=
  ⟨g.items.map (·.next_), g.items.map (·.prev_), g.items.map (·.used_base), g.items.map (·.used_index),
   g.block_len, g.num_free_blocks, g.num_blocks, g.head_idx⟩

/-- Panics are compared up to their message. -/
def norm {α : Type} (x : Except BuildErr α) : Except BuildErr α :=
  match x with
  | .error (.panic _) => .error (.panic "")
  | y => y

/-- The capacity is positive and fits `u32` (established by `new`, preserved by every operation). -/
def Wf (g : Gen.H.BuildHelper) : Prop := 0 < g.items.size ∧ g.items.size ≤ 4294967295

open Daac.Gen.H

/-! ### Helper lemmas: offsets, reads and writes through `repr` -/

/-- `idx` is in the active index range (the assertion of `offset`). -/
def inR (bl nfb nb i : Nat) : Prop := (nb - nfb) * bl ≤ i ∧ i < nb * bl
instance (bl nfb nb i : Nat) : Decidable (inR bl nfb nb i) := by unfold inR; infer_instance

theorem g_offset (a : Array ListItem) (bl nfb nb : Nat) (hd : Option Nat) (i : Nat) (h : a.size ≤ 4294967295) :
    BuildHelper.offset ⟨a, bl, nfb, nb, hd⟩ i =
      if inR bl nfb nb i then .ok (i % a.size)
      else .error (.panic "assert!(self . active_index_range ( ) . contains ( & idx ))") := by
  simp [BuildHelper.offset, BuildHelper.active_index_range, BuildHelper.active_block_range,
    BuildHelper.capacity, Rs.u32TryFromUnwrap, Rs.u32Max, h, inR]
  by_cases h1 : (nb - nfb) * bl ≤ i <;> by_cases h2 : i < nb * bl <;> simp [h1, h2]

theorem m_off (nx pv : Array Nat) (ub ui : Array Bool) (bl nfb nb : Nat) (hd : Option Nat) (i : Nat) :
    Helper.off ⟨nx, pv, ub, ui, bl, nfb, nb, hd⟩ i =
      if inR bl nfb nb i then .ok (i % nx.size)
      else .error (.panic "assert!(active_index_range().contains(&idx))") := by
  simp [Helper.off, Helper.activeStart, Helper.cap, inR]
  by_cases h1 : (nb - nfb) * bl ≤ i <;> by_cases h2 : i < nb * bl <;> simp [h1, h2]

theorem index_ok (a : Array ListItem) (j : Nat) (h : j < a.size) :
    Rs.index a j = .ok (a.getD j ListItem.default) := by
  simp [Rs.index, h]

theorem proj_next (a : Array ListItem) (k : Nat) :
    (a.getD k ListItem.default).next_ = (a.map (·.next_)).getD k 0 := by
  simp [Array.getD_eq_getD_getElem?]; cases a[k]? <;> simp [ListItem.default]
theorem proj_prev (a : Array ListItem) (k : Nat) :
    (a.getD k ListItem.default).prev_ = (a.map (·.prev_)).getD k 0 := by
  simp [Array.getD_eq_getD_getElem?]; cases a[k]? <;> simp [ListItem.default]
theorem proj_ub (a : Array ListItem) (k : Nat) :
    (a.getD k ListItem.default).used_base = (a.map (·.used_base)).getD k false := by
  simp [Array.getD_eq_getD_getElem?]; cases a[k]? <;> simp [ListItem.default]
theorem proj_ui (a : Array ListItem) (k : Nat) :
    (a.getD k ListItem.default).used_index = (a.map (·.used_index)).getD k false := by
  simp [Array.getD_eq_getD_getElem?]; cases a[k]? <;> simp [ListItem.default]

theorem default_next : ListItem.default.next_ = 0 := rfl
theorem default_prev : ListItem.default.prev_ = 0 := rfl
theorem default_ub : ListItem.default.used_base = false := rfl
theorem default_ui : ListItem.default.used_index = false := rfl

theorem set_getD_self {α} (b : Array α) (j : Nat) (d : α) : b.setIfInBounds j (b.getD j d) = b := by
  apply Array.ext_getElem?; intro k
  simp only [Array.getElem?_setIfInBounds, Array.getD_eq_getD_getElem?]
  split
  · subst_vars; split
    · rename_i h; simp [h]
    · rename_i h; simp at h; simp [h]
  · rfl

theorem getD_set_self {α} (b : Array α) (j : Nat) (x d : α) (h : j < b.size) :
    (b.setIfInBounds j x).getD j d = x := by
  simp [Array.getD_eq_getD_getElem?, h]

theorem norm_ok {α} (x : α) : norm (.ok x : Except BuildErr α) = .ok x := rfl
theorem norm_panic {α} (s : String) : norm (.error (.panic s) : Except BuildErr α) = .error (.panic "") := rfl

syntax "hsimp" ("[" Lean.Parser.Tactic.simpLemma,* "]")? : tactic
macro_rules
  | `(tactic| hsimp [$ls,*]) => `(tactic| simp only [g_offset, m_off, index_ok, Array.size_map,
      Array.size_setIfInBounds, Array.map_setIfInBounds, proj_next, proj_prev, proj_ub, proj_ui, set_getD_self,
      getD_set_self, Array.setIfInBounds_setIfInBounds, default_next, default_prev, default_ub, default_ui,
      ListItem.use_index, ListItem.use_base, ListItem.is_used_index, ListItem.is_used_base, ListItem.next, ListItem.prev,
      norm_ok, norm_panic, if_true, if_false, Bool.not_true, Bool.not_false, Bool.false_eq_true,
      decide_eq_true_eq, ne_eq, not_true_eq_false, not_false_eq_true, $ls,*])
  | `(tactic| hsimp) => `(tactic| hsimp [])

theorem is_used_base_eq (g : Gen.H.BuildHelper) (hw : Wf g) (b : Nat) :
    norm (Gen.H.BuildHelper.is_used_base g b) = norm ((repr g).isUsedBase b) := by
  obtain ⟨a, bl, nfb, nb, hd⟩ := g
  obtain ⟨hp, hm⟩ := hw
  simp only at hp hm
  have hlt : ∀ i, i % a.size < a.size := fun i => Nat.mod_lt i hp
  unfold BuildHelper.is_used_base Helper.isUsedBase
  simp only [repr, g_offset _ _ _ _ _ _ hm, m_off, Array.size_map]
  by_cases h : inR bl nfb nb b
  · simp only [h, if_true, index_ok _ _ (hlt _), ListItem.is_used_base, proj_ub]
  · simp only [h]; rfl


theorem use_base_eq (g : Gen.H.BuildHelper) (hw : Wf g) (b : Nat) :
    norm ((Gen.H.BuildHelper.use_base g b).map (fun p => repr p.2)) = norm ((repr g).useBase b) := by
  obtain ⟨a, bl, nfb, nb, hd⟩ := g
  obtain ⟨hp, hm⟩ := hw
  simp only at hp hm
  have hlt : ∀ i, i % a.size < a.size := fun i => Nat.mod_lt i hp
  unfold BuildHelper.use_base Helper.useBase
  simp only [repr, g_offset _ _ _ _ _ _ hm, m_off, Array.size_map]
  by_cases h : inR bl nfb nb b
  · simp only [h, if_true, index_ok _ _ (hlt _), ListItem.use_base, Except.map, Array.map_setIfInBounds,
      proj_next, proj_prev, proj_ui, set_getD_self]
  · simp only [h]; rfl

theorem use_index_eq (g : Gen.H.BuildHelper) (hw : Wf g) (i : Nat) :
    norm ((Gen.H.BuildHelper.use_index g i).map (fun p => repr p.2)) = norm ((repr g).useIndex i) := by
  obtain ⟨a, bl, nfb, nb, hd⟩ := g
  obtain ⟨hp, hm⟩ := hw
  simp only at hp hm
  have hlt : ∀ i, i % a.size < a.size := fun i => Nat.mod_lt i hp
  unfold BuildHelper.use_index Helper.useIndex
  by_cases h : inR bl nfb nb i
  · by_cases hu : (a.map (·.used_index)).getD (i % a.size) false = true
    · hsimp [repr, Except.map, hm, hlt, h, hu]
    · by_cases hpv : inR bl nfb nb ((a.map (·.prev_)).getD (i % a.size) 0)
      · by_cases hnx : inR bl nfb nb ((a.map (·.next_)).getD (i % a.size) 0)
        · cases hd with
          | none => hsimp [repr, Except.map, hm, hlt, h, hu, hpv, hnx]
          | some hd =>
            by_cases h1 : hd = i
            · by_cases h2 : (a.map (·.next_)).getD (i % a.size) 0 = i
              · hsimp [repr, Except.map, hm, hlt, h, hu, hpv, hnx, h1, eq_true h2]
              · hsimp [repr, Except.map, hm, hlt, h, hu, hpv, hnx, h1, eq_false h2]
            · hsimp [repr, Except.map, hm, hlt, h, hu, hpv, hnx, eq_false h1]
        · hsimp [repr, Except.map, hm, hlt, h, hu, hpv, hnx]
      · hsimp [repr, Except.map, hm, hlt, h, hu, hpv]
  · hsimp [repr, Except.map, hm, h]


theorem norm_cases {α β : Type} (f : α → β) (x : Except BuildErr α) (y : Except BuildErr β)
    (h : norm (x.map f) = norm y) :
    (∃ a, x = .ok a ∧ y = .ok (f a)) ∨
    (∃ e1 e2, x = .error e1 ∧ y = .error e2 ∧
      ∀ γ : Type, norm (.error e1 : Except BuildErr γ) = norm (.error e2)) := by
  cases x with
  | ok a =>
    left; refine ⟨a, rfl, ?_⟩
    cases y with
    | ok b => simp only [Except.map, norm] at h; cases h; rfl
    | error e => cases e <;> simp [Except.map, norm] at h
  | error e1 =>
    right
    cases y with
    | ok b => cases e1 <;> simp [Except.map, norm] at h
    | error e2 =>
      refine ⟨e1, e2, rfl, rfl, ?_⟩
      intro γ
      cases e1 <;> cases e2 <;> simp [Except.map, norm] at h ⊢

theorem use_base_size (g g' : BuildHelper) (u : Unit) (x : Nat)
    (h : BuildHelper.use_base g x = .ok (u, g')) : g'.items.size = g.items.size := by
  unfold BuildHelper.use_base at h
  repeat' split at h
  all_goals first | cases h | skip
  simp [Array.size_setIfInBounds]

theorem use_index_size (g g' : BuildHelper) (u : Unit) (x : Nat)
    (h : BuildHelper.use_index g x = .ok (u, g')) : g'.items.size = g.items.size := by
  unfold BuildHelper.use_index at h
  dsimp only at h
  repeat' split at h
  all_goals first | cases h | skip
  all_goals simp [Array.size_setIfInBounds]


theorem loop0_size (e : Nat) : ∀ (fuel : Nat) (g g' : BuildHelper),
    BuildHelper.push_block.loop0 e fuel g = .ok g' → g'.items.size = g.items.size := by
  intro fuel
  induction fuel with
  | zero => intro g g' h; simp [BuildHelper.push_block.loop0] at h
  | succ n ih =>
    intro g g' h
    unfold BuildHelper.push_block.loop0 at h
    dsimp only at h
    split at h
    · split at h
      · cases h; rfl
      · split at h
        · cases h
        · rename_i r2 s3 hu
          rw [ih _ _ h, use_index_size _ _ _ _ hu]
    · cases h; rfl

theorem wf_of_size {g g' : BuildHelper} (hw : Wf g) (h : g'.items.size = g.items.size) : Wf g' := by
  unfold Wf at *; rw [h]; exact hw

theorem loop0_eq (e : Nat) : ∀ (fuel : Nat) (g : BuildHelper), Wf g →
    norm ((BuildHelper.push_block.loop0 e fuel g).map repr) = norm (Helper.closeLoop fuel e (repr g)) := by
  intro fuel
  induction fuel with
  | zero => intro g hw; rfl
  | succ n ih =>
    intro g hw
    unfold BuildHelper.push_block.loop0 Helper.closeLoop
    have hh : (repr g).head = g.head_idx := rfl
    rw [hh]
    cases hhd : g.head_idx with
    | none => rfl
    | some hd =>
      dsimp only
      by_cases hle : e ≤ hd
      · simp only [hle, decide_true, if_true]; rfl
      · simp only [hle, decide_false, if_false, Bool.false_eq_true]
        rcases norm_cases _ _ _ (use_index_eq g hw hd) with ⟨⟨u, g'⟩, h1, h2⟩ | ⟨e1, e2, h1, h2, h3⟩
        · rw [h1, h2]
          exact ih g' (wf_of_size hw (use_index_size _ _ _ _ h1))
        · rw [h1, h2]; exact h3 _


theorem reset_size (g g' : BuildHelper) (u : Unit) (x : Nat)
    (h : BuildHelper.reset g x = .ok (u, g')) : g'.items.size = g.items.size := by
  unfold BuildHelper.reset Rs.indexSet at h
  dsimp only at h
  split at h
  · cases h
  · split at h
    · cases h
    · rename_i hh
      split at hh
      · cases hh; cases h; simp [Array.size_setIfInBounds]
      · cases hh

theorem loop1_size : ∀ (l : List Nat) (g g' : BuildHelper),
    BuildHelper.push_block.loop1 l g = .ok g' → g'.items.size = g.items.size := by
  intro l
  induction l with
  | nil => intro g g' h; simp [BuildHelper.push_block.loop1] at h; rw [h]
  | cons idx rest ih =>
    intro g g' h
    unfold BuildHelper.push_block.loop1 at h
    dsimp only at h
    split at h
    · cases h
    · rename_i r4 s5 hr
      repeat' split at h
      all_goals first | cases h | skip
      rw [ih _ _ h]
      simp only [Array.size_setIfInBounds]
      exact reset_size _ _ _ _ hr

theorem wrapping_sub_one (idx : Nat) : Rs.wrappingSubU32 idx 1 = if idx = 0 then u32Max else idx - 1 := by
  unfold Rs.wrappingSubU32 Rs.u32Max u32Max
  by_cases h : idx = 0
  · subst h; rfl
  · have : 1 ≤ idx := Nat.pos_of_ne_zero h
    simp [h, this]

theorem loop1_eq : ∀ (n s : Nat) (g : BuildHelper), Wf g →
    norm ((BuildHelper.push_block.loop1 (List.range' s n) g).map repr) = norm (Helper.resetLoop n s (repr g)) := by
  intro n
  induction n with
  | zero => intro s g hw; rfl
  | succ n ih =>
    intro s g hw
    obtain ⟨a, bl, nfb, nb, hd⟩ := g
    obtain ⟨hp, hm⟩ := hw
    simp only at hp hm
    have hlt : ∀ i, i % a.size < a.size := fun i => Nat.mod_lt i hp
    rw [List.range'_succ]
    unfold BuildHelper.push_block.loop1 Helper.resetLoop BuildHelper.reset
    by_cases h : inR bl nfb nb s
    · hsimp [Rs.indexSet, hm, hlt, h]
      rw [ih]
      · hsimp [repr, hm, hlt, h, wrapping_sub_one]
      · constructor <;> simp only [Array.size_setIfInBounds] <;> assumption
    · hsimp [repr, Except.map, hm, h]


def genClosed (self : BuildHelper) : Except BuildErr BuildHelper :=
  match BuildHelper.dropped_block self with
  | .error e => .error e
  | .ok r1 =>
    match r1 with
    | some closed_block =>
      let end_idx := ((closed_block + 1) * self.block_len)
      match BuildHelper.push_block.loop0 end_idx (self.block_len + 1) self with
      | .error e => .error e
      | .ok self =>
        .ok self
    | none =>
      .ok self

def genFinal (old_len new_len : Nat) (self : BuildHelper) : Except BuildErr BuildHelper :=
  match self.head_idx with
  | some head_idx =>
    match BuildHelper.offset self head_idx with
    | .error e => .error e
    | .ok o10 =>
      match Rs.index self.items o10 with
      | .error e => .error e
      | .ok it11 =>
        let tail_idx := (ListItem.prev it11)
        match BuildHelper.offset self old_len with
        | .error e => .error e
        | .ok o12 =>
          match Rs.index self.items o12 with
          | .error e => .error e
          | .ok it13 =>
            let self := { self with items := self.items.setIfInBounds o12 { it13 with prev_ := tail_idx } }
            match BuildHelper.offset self tail_idx with
            | .error e => .error e
            | .ok o14 =>
              match Rs.index self.items o14 with
              | .error e => .error e
              | .ok it15 =>
                let self := { self with items := self.items.setIfInBounds o14 { it15 with next_ := old_len } }
                match BuildHelper.offset self (new_len - 1) with
                | .error e => .error e
                | .ok o16 =>
                  match Rs.index self.items o16 with
                  | .error e => .error e
                  | .ok it17 =>
                    let self := { self with items := self.items.setIfInBounds o16 { it17 with next_ := head_idx } }
                    match BuildHelper.offset self head_idx with
                    | .error e => .error e
                    | .ok o18 =>
                      match Rs.index self.items o18 with
                      | .error e => .error e
                      | .ok it19 =>
                        let self := { self with items := self.items.setIfInBounds o18 { it19 with prev_ := (new_len - 1) } }
                        .ok self
  | none =>
    match BuildHelper.offset self old_len with
    | .error e => .error e
    | .ok o20 =>
      match Rs.index self.items o20 with
      | .error e => .error e
      | .ok it21 =>
        let self := { self with items := self.items.setIfInBounds o20 { it21 with prev_ := (new_len - 1) } }
        match BuildHelper.offset self (new_len - 1) with
        | .error e => .error e
        | .ok o22 =>
          match Rs.index self.items o22 with
          | .error e => .error e
          | .ok it23 =>
            let self := { self with items := self.items.setIfInBounds o22 { it23 with next_ := old_len } }
            let self := { self with head_idx := (some old_len) }
            .ok self

def mClosed (h0 : Helper) : Except BuildErr Helper :=
  match h0.droppedBlock with
  | some cb => h0.closeLoop (h0.blockLen + 1) ((cb + 1) * h0.blockLen)
  | none => .ok h0

def mFinal (oldLen newLen : Nat) (h2 : Helper) : Except BuildErr Helper :=
  match h2.head with
  | some hd =>
    match h2.off hd, h2.off oldLen, h2.off (newLen - 1) with
    | .ok ho, .ok oo, .ok no =>
      let tail := h2.prev.getD ho 0
      match h2.off tail with
      | .error e => .error e
      | .ok to =>
        let prev1 := h2.prev.setIfInBounds oo tail
        let next1 := h2.next.setIfInBounds to oldLen
        let next2 := next1.setIfInBounds no hd
        let prev2 := prev1.setIfInBounds ho (newLen - 1)
        .ok { h2 with next := next2, prev := prev2 }
    | .error e, _, _ => .error e
    | _, .error e, _ => .error e
    | _, _, .error e => .error e
  | none =>
    match h2.off oldLen, h2.off (newLen - 1) with
    | .ok oo, .ok no =>
      .ok { h2 with prev := h2.prev.setIfInBounds oo (newLen - 1),
                    next := h2.next.setIfInBounds no oldLen,
                    head := some oldLen }
    | .error e, _ => .error e
    | _, .error e => .error e

theorem push_block_unfold (g : BuildHelper) : BuildHelper.push_block g =
    if (decide ((BuildHelper.num_elements g) > (4294967295 - g.block_len))) then .error .automatonScale
    else
      match genClosed g with
      | .error e => .error e
      | .ok self =>
        match BuildHelper.push_block.loop1
            (Rs.rangeList (BuildHelper.num_elements self) (BuildHelper.num_elements self + self.block_len))
            { self with num_blocks := (self.num_blocks + 1) } with
        | .error e => .error e
        | .ok self' =>
          match genFinal (BuildHelper.num_elements self) (BuildHelper.num_elements self + self.block_len) self' with
          | .error e => .error e
          | .ok s => .ok ((), s) := rfl

theorem pushBlock_unfold (h0 : Helper) : h0.pushBlock =
    if h0.numElements > u32Max - h0.blockLen then .error .automatonScale else
    match mClosed h0 with
    | .error e => .error e
    | .ok h1 =>
      match Helper.resetLoop h1.blockLen h1.numElements { h1 with numBlocks := h1.numBlocks + 1 } with
      | .error e => .error e
      | .ok h2 => mFinal h1.numElements (h1.numElements + h1.blockLen) h2 := rfl


theorem final_eq (g : BuildHelper) (hw : Wf g) (o n : Nat) :
    norm ((genFinal o n g).map repr) = norm (mFinal o n (repr g)) := by
  obtain ⟨a, bl, nfb, nb, hd⟩ := g
  obtain ⟨hp, hm⟩ := hw
  simp only at hp hm
  have hlt : ∀ i, i % a.size < a.size := fun i => Nat.mod_lt i hp
  unfold genFinal mFinal
  cases hd with
  | none =>
    by_cases h1 : inR bl nfb nb o <;> by_cases h2 : inR bl nfb nb (n - 1) <;>
      hsimp [repr, Except.map, hm, hlt, h1, h2]
  | some hd =>
    by_cases h0 : inR bl nfb nb hd <;> by_cases h1 : inR bl nfb nb o <;>
    by_cases h2 : inR bl nfb nb (n - 1) <;>
    by_cases h3 : inR bl nfb nb ((a.map (·.prev_)).getD (hd % a.size) 0) <;>
      hsimp [repr, Except.map, hm, hlt, h0, h1, h2, h3]


theorem capacity_ok (g : BuildHelper) (hw : Wf g) : BuildHelper.capacity g = .ok g.items.size := by
  simp [BuildHelper.capacity, Rs.u32TryFromUnwrap, Rs.u32Max, hw.2]

theorem dropped_block_eq (g : Gen.H.BuildHelper) (hw : Wf g) :
    Gen.H.BuildHelper.dropped_block g = .ok (repr g).droppedBlock := by
  unfold BuildHelper.dropped_block Helper.droppedBlock
  rw [capacity_ok g hw]
  simp only [Helper.cap, repr, Array.size_map, BuildHelper.num_elements, Helper.numElements,
    BuildHelper.active_block_range, Helper.activeStart]
  by_cases h : g.items.size ≤ g.num_blocks * g.block_len <;> simp [h]

theorem closed_size (g g' : BuildHelper) (h : genClosed g = .ok g') : g'.items.size = g.items.size := by
  unfold genClosed at h
  dsimp only at h
  repeat' split at h
  all_goals first | cases h | skip
  · rename_i hl; exact loop0_size _ _ _ _ hl
  · rfl

theorem closed_eq (g : BuildHelper) (hw : Wf g) :
    norm ((genClosed g).map repr) = norm (mClosed (repr g)) := by
  unfold genClosed mClosed
  rw [dropped_block_eq g hw]
  dsimp only
  cases (repr g).droppedBlock with
  | none => rfl
  | some cb =>
    dsimp only
    have := loop0_eq ((cb + 1) * g.block_len) (g.block_len + 1) g hw
    rcases norm_cases _ _ _ this with ⟨g', h1, h2⟩ | ⟨e1, e2, h1, h2, h3⟩
    · have h2' : Helper.closeLoop ((repr g).blockLen + 1) ((cb + 1) * (repr g).blockLen) (repr g) = _ := h2
      rw [h1, h2']; rfl
    · have h2' : Helper.closeLoop ((repr g).blockLen + 1) ((cb + 1) * (repr g).blockLen) (repr g) = _ := h2
      rw [h1, h2']; exact h3 _


theorem rangeList_add (x n : Nat) : Rs.rangeList x (x + n) = List.range' x n := by
  simp [Rs.rangeList]

theorem push_block_eq (g : Gen.H.BuildHelper) (hw : Wf g) :
    norm ((Gen.H.BuildHelper.push_block g).map (fun p => repr p.2)) = norm ((repr g).pushBlock) := by
  rw [push_block_unfold, pushBlock_unfold]
  have e1 : ((repr g).numElements > u32Max - (repr g).blockLen) =
      (BuildHelper.num_elements g > 4294967295 - g.block_len) := rfl
  simp only [e1, decide_eq_true_eq]
  by_cases hs : BuildHelper.num_elements g > 4294967295 - g.block_len
  · simp only [hs, if_true]; rfl
  · simp only [hs, if_false]
    rcases norm_cases _ _ _ (closed_eq g hw) with ⟨g1, h1, h2⟩ | ⟨e1, e2, h1, h2, h3⟩
    · rw [h1, h2]
      dsimp only
      have hw1 : Wf g1 := wf_of_size hw (closed_size _ _ h1)
      have hw1' : Wf { g1 with num_blocks := g1.num_blocks + 1 } := hw1
      rw [rangeList_add]
      have hl := loop1_eq g1.block_len (BuildHelper.num_elements g1) _ hw1'
      rcases norm_cases _ _ _ hl with ⟨g2, k1, k2⟩ | ⟨e1, e2, k1, k2, k3⟩
      · have k2' : Helper.resetLoop (repr g1).blockLen (repr g1).numElements
            { repr g1 with numBlocks := (repr g1).numBlocks + 1 } = _ := k2
        rw [k1, k2']
        dsimp only
        have hw2 : Wf g2 := wf_of_size hw1' (loop1_size _ _ _ k1)
        have hf := final_eq g2 hw2 (BuildHelper.num_elements g1) (BuildHelper.num_elements g1 + g1.block_len)
        rcases norm_cases _ _ _ hf with ⟨g3, m1, m2⟩ | ⟨e1, e2, m1, m2, m3⟩
        · have m2' : mFinal (repr g1).numElements ((repr g1).numElements + (repr g1).blockLen) (repr g2) = _ := m2
          rw [m1, m2']; rfl
        · have m2' : mFinal (repr g1).numElements ((repr g1).numElements + (repr g1).blockLen) (repr g2) = _ := m2
          rw [m1, m2']; exact m3 _
      · have k2' : Helper.resetLoop (repr g1).blockLen (repr g1).numElements
            { repr g1 with numBlocks := (repr g1).numBlocks + 1 } = _ := k2
        rw [k1, k2']; exact k3 _
    · rw [h1, h2]; exact h3 _

theorem final_size (g g' : BuildHelper) (o n : Nat) (h : genFinal o n g = .ok g') :
    g'.items.size = g.items.size := by
  unfold genFinal at h
  dsimp only at h
  repeat' split at h
  all_goals first | cases h | skip
  all_goals simp [Array.size_setIfInBounds]

theorem push_block_size (g g' : BuildHelper) (u : Unit) (h : BuildHelper.push_block g = .ok (u, g')) :
    g'.items.size = g.items.size := by
  rw [push_block_unfold] at h
  split at h
  · cases h
  · split at h
    · cases h
    · rename_i g1 h1
      split at h
      · cases h
      · rename_i g2 h2
        split at h
        · cases h
        · rename_i g3 h3
          cases h
          rw [final_size _ _ _ _ h3, loop1_size _ _ _ h2]
          exact closed_size g g1 h1

/-- Every `&mut self` operation keeps the capacity (so `Wf` is an invariant of all histories). -/
theorem size_preserved (g g' : Gen.H.BuildHelper) (u : Unit) (x : Nat) :
    (Gen.H.BuildHelper.use_base g x = .ok (u, g') ∨ Gen.H.BuildHelper.use_index g x = .ok (u, g') ∨
     Gen.H.BuildHelper.push_block g = .ok (u, g')) → g'.items.size = g.items.size := by
  rintro (h | h | h)
  · exact use_base_size _ _ _ _ h
  · exact use_index_size _ _ _ _ h
  · exact push_block_size _ _ _ h


theorem norm_cases' {α : Type} (x y : Except BuildErr α) (h : norm x = norm y) :
    (∃ a, x = .ok a ∧ y = .ok a) ∨
    (∃ e1 e2, x = .error e1 ∧ y = .error e2 ∧
      ∀ γ : Type, norm (.error e1 : Except BuildErr γ) = norm (.error e2)) := by
  have hx : x.map id = x := by cases x <;> rfl
  exact norm_cases id x y (by rw [hx]; exact h)

theorem findM_eq (g : BuildHelper) (hw : Wf g) (f : Nat → Except BuildErr Bool)
    (hf : ∀ base, f base = (match BuildHelper.is_used_base g base with
      | .error e => .error e
      | .ok r1 => .ok (!r1))) : ∀ (n s : Nat),
    norm (Rs.findM f (List.range' s n)) = norm ((repr g).unusedBaseFrom n s) := by
  intro n
  induction n with
  | zero => intro s; rfl
  | succ n ih =>
    intro s
    rw [List.range'_succ]
    unfold Rs.findM Helper.unusedBaseFrom
    rw [hf s]
    rcases norm_cases' _ _ (is_used_base_eq g hw s) with ⟨b, h1, h2⟩ | ⟨e1, e2, h1, h2, h3⟩
    · rw [h1, h2]
      cases b
      · rfl
      · exact ih (s + 1)
    · rw [h1, h2]; exact h3 _

theorem unused_base_in_block_eq (g : Gen.H.BuildHelper) (hw : Wf g) (b : Nat) :
    norm (Gen.H.BuildHelper.unused_base_in_block g b) = norm ((repr g).unusedBaseInBlock b) := by
  unfold BuildHelper.unused_base_in_block Helper.unusedBaseInBlock Rs.rangeFindM
  dsimp only
  rw [rangeList_add]
  have key : ∀ X : Except BuildErr (Option Nat),
      (match X with | .error e => .error e | .ok f2 => .ok f2) = X := by
    intro X; cases X <;> rfl
  refine Eq.trans (congrArg norm (key _)) ?_
  exact findM_eq g hw _ (fun _ => rfl) _ _

/-- `vacant_iter()` followed by `next()` until `None` (at most `fuel` items, like the model). -/
def genVacantFrom : Nat → Gen.H.VacantIter → Except BuildErr (List Nat)
  | 0, _ => .ok []
  | fuel + 1, it =>
    match Gen.H.VacantIter.next it with
    | .error e => .error e
    | .ok (none, _) => .ok []
    | .ok (some i, it') =>
      match genVacantFrom fuel it' with
      | .error e => .error e
      | .ok l => .ok (i :: l)

theorem genVacant_none (g : BuildHelper) : ∀ fuel, genVacantFrom fuel ⟨g, none⟩ = .ok [] := by
  intro fuel; cases fuel <;> rfl

theorem vacantFrom_eq (g : BuildHelper) (hw : Wf g) (hd : Nat) (hh : g.head_idx = some hd) :
    ∀ (fuel cur : Nat),
    norm (genVacantFrom fuel ⟨g, some cur⟩) = norm ((repr g).vacantFrom hd fuel cur) := by
  intro fuel
  induction fuel with
  | zero => intro cur; rfl
  | succ n ih =>
    intro cur
    obtain ⟨a, bl, nfb, nb, hd'⟩ := g
    obtain ⟨hp, hm⟩ := hw
    simp only at hp hm hh
    subst hh
    have hlt : ∀ i, i % a.size < a.size := fun i => Nat.mod_lt i hp
    unfold genVacantFrom VacantIter.next Helper.vacantFrom
    by_cases h : inR bl nfb nb cur
    · by_cases h2 : (a.map (·.next_)).getD (cur % a.size) 0 = hd
      · hsimp [repr, hm, hlt, h, eq_true h2, genVacant_none]
      · hsimp [repr, hm, hlt, h, eq_false h2]
        rcases norm_cases' _ _ (ih ((a.map (·.next_)).getD (cur % a.size) 0)) with
          ⟨r, h1, h2⟩ | ⟨e1, e2, h1, h2, h3⟩
        · simp only [repr] at h2
          rw [h1, h2]
        · simp only [repr] at h2
          rw [h1, h2]; exact h3 _
    · hsimp [repr, hm, h]

theorem vacant_eq (g : Gen.H.BuildHelper) (hw : Wf g) :
    norm (genVacantFrom (g.items.size + 1) (Gen.H.BuildHelper.vacant_iter g)) = norm ((repr g).vacant) := by
  unfold BuildHelper.vacant_iter Helper.vacant
  have hh : (repr g).head = g.head_idx := rfl
  rw [hh]
  cases hd : g.head_idx with
  | none => rfl
  | some hd' =>
    have hc : (repr g).cap = g.items.size := by simp [Helper.cap, repr]
    dsimp only
    rw [hc]
    have := vacantFrom_eq g hw hd' hd (g.items.size + 1) hd'
    rw [← this]


theorem new_eq (bl nfb : Nat) :
    norm ((Gen.H.BuildHelper.new bl nfb).map repr) = norm (Helper.new bl nfb) := by
  unfold BuildHelper.new Helper.new Rs.checkedMulU32 Rs.u32Max u32Max
  by_cases h1 : bl * nfb ≤ 4294967295
  · have h1' : ¬ bl * nfb > 4294967295 := Nat.not_lt.mpr h1
    by_cases h2 : bl * nfb = 0
    · simp only [h2, if_true, ne_eq]
      rfl
    · simp only [h1, h1', h2, if_true, if_false, ne_eq, not_false_eq_true, decide_true, Except.map, repr,
        Array.map_replicate, default_next, default_prev, default_ub, default_ui]
  · have h1' : bl * nfb > 4294967295 := Nat.lt_of_not_le h1
    simp only [h1, h1', if_true, if_false]
    rfl

theorem new_wf (bl nfb : Nat) (g : Gen.H.BuildHelper) (h : Gen.H.BuildHelper.new bl nfb = .ok g) :
    Wf g := by
  unfold BuildHelper.new Rs.checkedMulU32 Rs.u32Max at h
  by_cases h1 : bl * nfb ≤ 4294967295
  · by_cases h2 : bl * nfb = 0
    · simp [h2] at h
    · simp only [h1, h2, if_true, ne_eq, not_false_eq_true, decide_true] at h
      cases h
      exact ⟨by simpa using Nat.pos_of_ne_zero h2, by simpa using h1⟩
  · simp [h1] at h

theorem num_elements_eq (g : Gen.H.BuildHelper) :
    Gen.H.BuildHelper.num_elements g = (repr g).numElements := rfl

theorem active_index_range_eq (g : Gen.H.BuildHelper) :
    Gen.H.BuildHelper.active_index_range g =
      ((repr g).activeStart * (repr g).blockLen, (repr g).numBlocks * (repr g).blockLen) := rfl

theorem offset_eq (g : Gen.H.BuildHelper) (hw : Wf g) (i : Nat) :
    norm (Gen.H.BuildHelper.offset g i) = norm ((repr g).off i) := by
  obtain ⟨a, bl, nfb, nb, hd⟩ := g
  obtain ⟨hp, hm⟩ := hw
  simp only at hp hm
  by_cases h : inR bl nfb nb i <;> hsimp [repr, hm, h]

theorem is_used_index_eq (g : Gen.H.BuildHelper) (hw : Wf g) (i : Nat) :
    norm (Gen.H.BuildHelper.is_used_index g i) = norm ((repr g).isUsedIndex i) := by
  obtain ⟨a, bl, nfb, nb, hd⟩ := g
  obtain ⟨hp, hm⟩ := hw
  simp only at hp hm
  have hlt : ∀ i, i % a.size < a.size := fun i => Nat.mod_lt i hp
  unfold BuildHelper.is_used_index Helper.isUsedIndex
  by_cases h : inR bl nfb nb i <;> hsimp [repr, hm, hlt, h]

end Daac.Tie.H

/-
Rung 2, end to end, char-wise leftmost-FIRST: the leftmost iterator of a char-wise double array
built with kind 2 from valid-UTF-8 patterns returns the byte-level leftmost-first specification
on valid-UTF-8 haystacks.
-/
import Daac.Proofs.Rung2
namespace Daac
variable {V : Type}

/-- `retainedGo` at the level of scalar lists: keep `q` iff no earlier scalar list is a proper
prefix of `q.1`. -/
def retainedQGo : List (List Nat × V) → List (List Nat × V) → List (List Nat × V)
  | _, [] => []
  | earlier, q :: qs =>
    if earlier.any (fun r => decide (r.1 <+: q.1 ∧ r.1 ≠ q.1)) then retainedQGo (earlier ++ [q]) qs
    else q :: retainedQGo (earlier ++ [q]) qs

def retainedQ (Q : List (List Nat × V)) : List (List Nat × V) := retainedQGo [] Q

theorem retainedQGo_sublist (e Q : List (List Nat × V)) : List.Sublist (retainedQGo e Q) Q := by
  induction Q generalizing e with
  | nil => simp [retainedQGo]
  | cons q qs ih =>
    simp only [retainedQGo]
    split
    · exact (ih _).trans (List.sublist_cons_self q qs)
    · exact (ih _).cons_cons q

theorem retainedQ_sublist (Q : List (List Nat × V)) : List.Sublist (retainedQ Q) Q :=
  retainedQGo_sublist [] Q

/-- (i) label level. -/
theorem retainedLGo_map_charPat (e Q : List (List Nat × V)) :
    retainedLGo (e.map charPat) (Q.map charPat) = (retainedQGo e Q).map charPat := by
  induction Q generalizing e with
  | nil => simp [retainedLGo, retainedQGo]
  | cons q qs ih =>
    have := ih (e ++ [q])
    simp only [List.map_append, List.map_cons, List.map_nil] at this
    simp only [List.map_cons, retainedLGo, retainedQGo, List.any_map, this]
    have hc : (e.any ((fun r : LPat V => decide (r.key <+: (charPat q).key ∧ r.key ≠ (charPat q).key))
          ∘ charPat))
        = e.any (fun r => decide (r.1 <+: q.1 ∧ r.1 ≠ q.1)) := rfl
    rw [hc]
    split <;> simp

theorem retainedL_map_charPat (Q : List (List Nat × V)) :
    retainedL (Q.map charPat) = (retainedQ Q).map charPat := by
  simpa [retainedL, retainedQ] using retainedLGo_map_charPat [] Q

/-- Proper prefix at byte level = proper prefix at scalar level. -/
theorem encAll_properPrefix_iff {a b : List Nat} (ha : Scalars a) (hb : Scalars b) :
    (encAll a <+: encAll b ∧ encAll a ≠ encAll b) ↔ (a <+: b ∧ a ≠ b) := by
  constructor
  · rintro ⟨h1, h2⟩
    exact ⟨encAll_prefix a b ha hb h1, fun h => h2 (by rw [h])⟩
  · rintro ⟨⟨z, rfl⟩, h2⟩
    refine ⟨by rw [encAll_append]; exact List.prefix_append _ _, fun h => h2 ?_⟩
    exact CharSpec.encAll_inj ha hb h

/-- (ii) byte level. -/
theorem retainedGo_map_bytePat (e Q : List (List Nat × V)) (he : ∀ q ∈ e, Scalars q.1)
    (hQ : ∀ q ∈ Q, Scalars q.1) :
    retainedGo (e.map bytePat) (Q.map bytePat) = (retainedQGo e Q).map bytePat := by
  induction Q generalizing e with
  | nil => simp [retainedGo, retainedQGo]
  | cons q qs ih =>
    have hq := hQ q List.mem_cons_self
    have := ih (e ++ [q])
      (by
        intro r hr
        rcases List.mem_append.1 hr with h | h
        · exact he r h
        · simp at h; subst h; exact hq)
      (fun r hr => hQ r (List.mem_cons_of_mem _ hr))
    simp only [List.map_append, List.map_cons, List.map_nil] at this
    simp only [List.map_cons, retainedGo, retainedQGo, List.any_map, this]
    have hc : (e.any ((fun r : Pat V => decide (r.key <+: (bytePat q).key ∧ r.key ≠ (bytePat q).key))
          ∘ bytePat))
        = e.any (fun r => decide (r.1 <+: q.1 ∧ r.1 ≠ q.1)) := by
      have hpt : ∀ r ∈ e, ((fun r : Pat V =>
            decide (r.key <+: (bytePat q).key ∧ r.key ≠ (bytePat q).key)) ∘ bytePat) r
          = decide (r.1 <+: q.1 ∧ r.1 ≠ q.1) := by
        intro r hr
        show decide (encAll r.1 <+: encAll q.1 ∧ encAll r.1 ≠ encAll q.1) = _
        exact decide_eq_decide.2 (encAll_properPrefix_iff (he r hr) hq)
      rw [Bool.eq_iff_iff, List.any_eq_true, List.any_eq_true]
      constructor
      · rintro ⟨r, hr, h⟩; exact ⟨r, hr, by rw [← hpt r hr]; exact h⟩
      · rintro ⟨r, hr, h⟩; exact ⟨r, hr, by rw [hpt r hr]; exact h⟩
    rw [hc]
    split <;> simp

theorem retained_map_bytePat {Q : List (List Nat × V)} (hQ : ScalarPats Q) :
    retained (Q.map bytePat) = (retainedQ Q).map bytePat := by
  simpa [retained, retainedQ] using
    retainedGo_map_bytePat [] Q (by intro q hq; cases hq) (fun q hq => (hQ q hq).2)

/-- (iii) -/
theorem retainedQ_scalarPats {Q : List (List Nat × V)} (hQ : ScalarPats Q) :
    ScalarPats (retainedQ Q) :=
  fun q hq => hQ q ((retainedQ_sublist Q).subset hq)

theorem retainedQ_nodup {Q : List (List Nat × V)} (hnd : (Q.map (·.1)).Nodup) :
    ((retainedQ Q).map (·.1)).Nodup :=
  List.Nodup.sublist ((retainedQ_sublist Q).map _) hnd

theorem bytePat_valid {Q : List (List Nat × V)} (hQ : ScalarPats Q) (hQ0 : Q ≠ [])
    (hnd : (Q.map (·.1)).Nodup) : ValidPats (Q.map bytePat) := by
  refine ⟨by simpa using hQ0, ?_, ?_⟩
  · intro p hp
    obtain ⟨q, hq, rfl⟩ := List.mem_map.1 hp
    intro h
    exact (hQ q hq).1 (CharSpec.encAll_eq_nil h)
  · have e : (Q.map bytePat).map (·.key) = Q.map (fun q => encAll q.1) := by
      simp [bytePat, List.map_map, Function.comp_def]
    rw [e]
    unfold List.Nodup at hnd ⊢
    rw [List.pairwise_map] at hnd ⊢
    refine hnd.imp_of_mem ?_
    intro a b ha hb hab h
    exact hab (CharSpec.encAll_inj (hQ a ha).2 (hQ b hb).2 h)

/-- **Char-wise leftmost-first, end to end.** -/
theorem charwise_leftmost_first_correct (nfb : Nat) (Q : List (List Nat × V)) (hQ : ScalarPats Q)
    (hQ0 : Q ≠ []) (hnd : (Q.map (·.1)).Nodup) (da : DA V)
    (hb : buildDA .charwise ⟨2, nfb⟩ (Q.map charPat) = .ok da) (t : List Nat) (ht : Scalars t) :
    ∃ l, lmAll da (encAll t) = .ok (l, 0) ∧ l.map (·.1) = specLF (Q.map bytePat) (encAll t) := by
  have hS := build_lmSem_lf .charwise nfb (Q.map charPat) da hb (keysOk_map_charPat Q)
    (fun h => nomatch h)
  rw [retainedL_map_charPat] at hS
  have hv := (buildDA_kind_variant _ _ _ _ hb).2
  have hQ' := retainedQ_scalarPats hQ
  obtain ⟨hne, hkeys⟩ := charPat_valid hQ' (retainedQ_nodup hnd)
  have hd := decodes_charwise t ht
  rw [← hv] at hd
  obtain ⟨l, h1, h2⟩ := lmAll_spec hS (absLm_eq_bestIn _ hne hkeys) hd
    (fun it _ => labelOk_charwise hv it.label)
  refine ⟨l, h1, ?_⟩
  rw [h2, specLLItems_chars_eq hQ' ht, ← retained_map_bytePat hQ,
    specLF_eq_specLL_retained (bytePat_valid hQ hQ0 hnd)]

#print axioms charwise_leftmost_first_correct

end Daac
